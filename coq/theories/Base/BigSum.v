(* Finite sums over an arbitrary commutative ring (ring regime of DESIGN 3.1).
   After the section closes every lemma quantifies over the carrier and its ring_theory,
   so it applies to Z, Gaussian integers, Q, R alike. *)
From Coq Require Import List Arith Lia Ring.
From TLV Require Import Base.Shape.
Import ListNotations.

Section R.
  Variable R : Type.
  Variables (rO rI : R) (radd rmul rsub : R -> R -> R) (ropp : R -> R).
  Hypothesis Rth : ring_theory rO rI radd rmul rsub ropp (@eq R).
  Add Ring Rr : Rth.
  Infix "+r" := radd (at level 50, left associativity).
  Infix "*r" := rmul (at level 40, left associativity).

  Fixpoint bigsum (n : nat) (f : nat -> R) : R :=
    match n with O => rO | S k => bigsum k f +r f k end.

  Lemma bigsum_ext n f g : (forall i, i < n -> f i = g i) -> bigsum n f = bigsum n g.
  Proof. induction n; simpl; intros H; [reflexivity|]. rewrite IHn, H; auto. Qed.
  Lemma bigsum_add n f g : bigsum n (fun i => f i +r g i) = bigsum n f +r bigsum n g.
  Proof. induction n; simpl; [ring | rewrite IHn; ring]. Qed.
  Lemma bigsum_scale_l n c f : bigsum n (fun i => c *r f i) = c *r bigsum n f.
  Proof. induction n; simpl; [ring | rewrite IHn; ring]. Qed.
  Lemma bigsum_scale_r n c f : bigsum n (fun i => f i *r c) = bigsum n f *r c.
  Proof. induction n; simpl; [ring | rewrite IHn; ring]. Qed.
  Lemma bigsum_zero n f : (forall i, i < n -> f i = rO) -> bigsum n f = rO.
  Proof. induction n; simpl; intros H; [reflexivity|]. rewrite IHn, H by auto. ring. Qed.
  Lemma bigsum_exchange n m (f : nat -> nat -> R) :
    bigsum n (fun i => bigsum m (fun j => f i j)) = bigsum m (fun j => bigsum n (fun i => f i j)).
  Proof.
    induction n; simpl.
    - induction m; simpl; [reflexivity | rewrite <- IHm; ring].
    - rewrite IHn. rewrite <- bigsum_add. reflexivity.
  Qed.
  Lemma bigsum_single n k (f : nat -> R) : k < n -> (forall i, i < n -> i <> k -> f i = rO) -> bigsum n f = f k.
  Proof.
    induction n; intros Hk H; [lia|]. simpl. destruct (Nat.eq_dec k n) as [->|Hn].
    - rewrite bigsum_zero; [ring|]. intros i Hi. apply H; lia.
    - rewrite IHn by (try lia; intros; apply H; lia). rewrite (H n) by lia. ring.
  Qed.
  Lemma bigsum_app n m f : bigsum (n + m) f = bigsum n f +r bigsum m (fun j => f (n + j)).
  Proof.
    induction m; simpl.
    - rewrite Nat.add_0_r. ring.
    - rewrite Nat.add_succ_r. simpl. rewrite IHm. ring.
  Qed.
  (* sum over a product range splits into nested sums: k = i*m + j *)
  Lemma bigsum_mul n m f : bigsum (n * m) f = bigsum n (fun i => bigsum m (fun j => f (i * m + j))).
  Proof.
    induction n; simpl; [reflexivity|].
    replace (m + n * m) with (n * m + m) by lia. rewrite bigsum_app, IHn. reflexivity.
  Qed.
  Lemma bigsum_prod n m f g :
    bigsum n f *r bigsum m g = bigsum n (fun i => bigsum m (fun j => f i *r g j)).
  Proof.
    rewrite <- bigsum_scale_r. apply bigsum_ext; intros i _. now rewrite bigsum_scale_l.
  Qed.

  (* sums over a whole index space *)
  Definition sum_idx (s : list nat) (f : list nat -> R) : R := bigsum (prod s) (fun k => f (unravel s k)).
  Lemma sum_idx_nil f : sum_idx [] f = f [].
  Proof. unfold sum_idx; simpl. ring. Qed.
  Lemma sum_idx_cons d s f : sum_idx (d :: s) f = bigsum d (fun i => sum_idx s (fun idx => f (i :: idx))).
  Proof.
    unfold sum_idx. simpl prod. rewrite bigsum_mul.
    apply bigsum_ext; intros i Hi. apply bigsum_ext; intros j Hj.
    simpl unravel. assert (Hp : prod s <> 0) by lia.
    rewrite Nat.div_add_l by exact Hp. rewrite (Nat.div_small j (prod s)) by exact Hj.
    rewrite Nat.add_0_r, (Nat.mod_small i d) by exact Hi.
    rewrite Nat.add_comm, Nat.mod_add by exact Hp. rewrite Nat.mod_small by exact Hj. reflexivity.
  Qed.
  Lemma sum_idx_ext s f g : (forall idx, inb s idx -> f idx = g idx) -> sum_idx s f = sum_idx s g.
  Proof. intros H. unfold sum_idx. apply bigsum_ext; intros k Hk. apply H. now apply unravel_inb. Qed.
End R.
