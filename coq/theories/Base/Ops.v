(* Record of arithmetic operations: model functions are written once, polymorphic in the carrier,
   and instantiated at Z (exact, ring regime), Q with Qred after every operation (executed),
   and R (proved).  No type classes / canonical structures: vm_compute and Paramcoq see plain terms.
   NEVER name a variable of this type O (it shadows nat's constructor). *)
From Coq Require Import List ZArith QArith Qreals Reals Bool.
Import ListNotations.

Record fops (F : Type) := mkF {
  f0 : F; f1 : F;
  fadd : F -> F -> F; fsub : F -> F -> F; fmul : F -> F -> F; fdiv : F -> F -> F;
  fopp : F -> F; fleb : F -> F -> bool }.
Arguments mkF {F}. Arguments f0 {F}. Arguments f1 {F}. Arguments fadd {F}. Arguments fsub {F}.
Arguments fmul {F}. Arguments fdiv {F}. Arguments fopp {F}. Arguments fleb {F}.

Definition Zops : fops Z := mkF 0%Z 1%Z Z.add Z.sub Z.mul Z.div Z.opp Z.leb.
Definition Qops : fops Q :=
  mkF 0%Q 1%Q (fun a b => Qred (a + b)) (fun a b => Qred (a - b)) (fun a b => Qred (a * b))
      (fun a b => Qred (a / b)) (fun a => Qred (- a)) Qle_bool.
Definition Rleb (a b : R) : bool := if Rle_dec a b then true else false.
Definition Rops : fops R := mkF 0%R 1%R Rplus Rminus Rmult Rdiv Ropp Rleb.

Section Derived.
  Context {F : Type} (Op : fops F).
  Definition fltb (a b : F) : bool := negb (fleb Op b a).
  Definition feqb (a b : F) : bool := fleb Op a b && fleb Op b a.
  Definition fmax (a b : F) : F := if fleb Op a b then b else a.
  Definition fmin (a b : F) : F := if fleb Op a b then a else b.
  Definition fabs (a : F) : F := if fleb Op (f0 Op) a then a else fopp Op a.
  Definition fsum (l : list F) : F := fold_left (fadd Op) l (f0 Op).
  Fixpoint nat2F (n : nat) : F := match n with O => f0 Op | S k => fadd Op (nat2F k) (f1 Op) end.
End Derived.

Lemma Rleb_true a b : Rleb a b = true <-> (a <= b)%R.
Proof. unfold Rleb. destruct (Rle_dec a b); split; auto; discriminate. Qed.
Lemma Rleb_false a b : Rleb a b = false <-> (b < a)%R.
Proof. unfold Rleb. destruct (Rle_dec a b); split; auto; try discriminate; intros; [exfalso; apply (Rlt_irrefl a); eapply Rle_lt_trans; eauto | apply Rnot_le_lt; auto]. Qed.
