(* Python-list surgery used by tensorly's shape book-keeping. *)
From Coq Require Import List Arith Lia Bool.
Import ListNotations.

Fixpoint remove_nth {A} (n : nat) (l : list A) : list A :=
  match n, l with
  | _, [] => []
  | O, _ :: r => r
  | S k, x :: r => x :: remove_nth k r
  end.

Fixpoint insert_at {A} (n : nat) (a : A) (l : list A) : list A :=
  match n, l with
  | O, _ => a :: l
  | S k, x :: r => x :: insert_at k a r
  | S _, [] => [a]
  end.

Fixpoint set_nth {A} (k : nat) (v : A) (l : list A) : list A :=
  match k, l with
  | _, [] => []
  | O, _ :: r => v :: r
  | S k', x :: r => x :: set_nth k' v r
  end.

Definition permute {A} (d : A) (p : list nat) (l : list A) : list A := map (fun k => nth k l d) p.

Fixpoint index_of (a : nat) (p : list nat) : nat :=
  match p with [] => 0 | x :: r => if Nat.eqb x a then 0 else S (index_of a r) end.

Fixpoint memb (a : nat) (p : list nat) : bool :=
  match p with [] => false | x :: r => Nat.eqb x a || memb a r end.

Fixpoint nodupb (p : list nat) : bool :=
  match p with [] => true | x :: r => negb (memb x r) && nodupb r end.

(* p is a permutation of 0..n-1 *)
Definition is_permb (n : nat) (p : list nat) : bool :=
  Nat.eqb (length p) n && forallb (fun k => k <? n) p && nodupb p.

Lemma nth_map' {A B} (f : A -> B) l k d d' : k < length l -> nth k (map f l) d' = f (nth k l d).
Proof. intros H. rewrite nth_indep with (d' := f d) by (now rewrite map_length). apply map_nth. Qed.

Lemma remove_nth_length {A} n : forall (l : list A), n < length l -> length (remove_nth n l) = length l - 1.
Proof. induction n; intros [|x l] H; simpl in *; try lia. rewrite IHn by lia. lia. Qed.

Lemma insert_at_length {A} n (a : A) : forall l, length (insert_at n a l) = S (length l).
Proof. induction n; intros [|x l]; simpl; auto. Qed.

Lemma set_nth_length {A} k (v : A) : forall l, length (set_nth k v l) = length l.
Proof. induction k; intros [|x l]; simpl; auto. Qed.

Lemma nth_set_nth_same {A} k (v d : A) : forall l, k < length l -> nth k (set_nth k v l) d = v.
Proof. induction k; intros [|x l] H; simpl in *; try lia; auto. apply IHk; lia. Qed.

Lemma nth_set_nth_other {A} k (v d : A) : forall l j, j <> k -> nth j (set_nth k v l) d = nth j l d.
Proof. induction k; intros [|x l] j H; simpl; auto; destruct j; try lia; auto. Qed.

Lemma insert_remove {A} (m : nat) : forall (l : list A) (x0 : A), m < length l ->
  insert_at m (nth m l x0) (remove_nth m l) = l.
Proof. induction m; intros [|x l] x0 H; simpl in *; try lia; [reflexivity|]. f_equal. apply IHm. lia. Qed.

Lemma remove_insert {A} (m : nat) (a : A) : forall l, m <= length l -> remove_nth m (insert_at m a l) = l.
Proof. induction m; intros [|x l] H; simpl in *; try lia; auto. f_equal. apply IHm. lia. Qed.

Lemma nth_insert_same {A} (m : nat) (a d : A) : forall l, m <= length l -> nth m (insert_at m a l) d = a.
Proof. induction m; intros [|x l] H; simpl in *; try lia; auto. apply IHm. lia. Qed.

Lemma memb_In a p : memb a p = true <-> In a p.
Proof.
  induction p as [|x r IH]; simpl; [split; [discriminate|tauto]|].
  rewrite orb_true_iff, Nat.eqb_eq, IH. tauto.
Qed.

Lemma nodupb_NoDup p : nodupb p = true <-> NoDup p.
Proof.
  induction p as [|x r IH]; simpl; [split; auto; constructor|].
  rewrite andb_true_iff, negb_true_iff, IH. split.
  - intros [H1 H2]. constructor; auto. rewrite <- memb_In. congruence.
  - intros H. inversion H; subst. split; auto. destruct (memb x r) eqn:E; auto.
    apply memb_In in E. contradiction.
Qed.

Lemma index_of_lt a p : In a p -> index_of a p < length p.
Proof.
  induction p as [|x r IH]; simpl; [tauto|]. intros H.
  destruct (Nat.eqb_spec x a); [lia|]. destruct H; [congruence|]. specialize (IH H). lia.
Qed.

Lemma nth_index_of a p : In a p -> nth (index_of a p) p 0 = a.
Proof.
  induction p as [|x r IH]; simpl; [tauto|]. intros H.
  destruct (Nat.eqb_spec x a); [assumption|]. destruct H; [congruence|]. auto.
Qed.

Lemma index_of_nth p : NoDup p -> forall j, j < length p -> index_of (nth j p 0) p = j.
Proof.
  induction 1 as [|x r Hx Hnd IH]; intros j Hj; simpl in *; [lia|].
  destruct j as [|j].
  - now rewrite Nat.eqb_refl.
  - destruct (Nat.eqb_spec x (nth j r 0)) as [E|E].
    + exfalso. apply Hx. rewrite E. apply nth_In. lia.
    + f_equal. apply IH. lia.
Qed.

(* a duplicate-free list of n numbers below n contains every number below n *)
Lemma perm_complete n p : length p = n -> NoDup p -> (forall k, In k p -> k < n) ->
  forall a, a < n -> In a p.
Proof.
  intros Hl Hnd Hb a Ha.
  assert (Hincl : incl p (seq 0 n)) by (intros k Hk; apply in_seq; specialize (Hb k Hk); lia).
  assert (Hincl' : incl (seq 0 n) p).
  { apply NoDup_length_incl; auto. rewrite seq_length. lia. }
  apply Hincl'. apply in_seq. lia.
Qed.

Lemma is_permb_spec n p : is_permb n p = true ->
  length p = n /\ NoDup p /\ (forall k, In k p -> k < n) /\ (forall a, a < n -> In a p).
Proof.
  unfold is_permb. rewrite !andb_true_iff, Nat.eqb_eq, forallb_forall, nodupb_NoDup.
  intros [[Hl Hb] Hnd].
  assert (Hb' : forall k, In k p -> k < n) by (intros k Hk; apply Nat.ltb_lt; auto).
  repeat split; auto. apply perm_complete; auto.
Qed.
