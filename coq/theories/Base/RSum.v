(* Finite sums over R and the three optimisation lemmas everything in the ordered-field regime rests on:
   ridge least squares (normal equations => minimiser), KKT => global optimum of the penalised
   non-negative QP, and Cauchy-Schwarz. *)
From Coq Require Import Reals Lra Psatz List Arith Lia.
Open Scope R_scope.

Fixpoint rsum (n : nat) (f : nat -> R) : R := match n with O => 0 | S k => rsum k f + f k end.

Lemma rsum_ext n f g : (forall i, (i < n)%nat -> f i = g i) -> rsum n f = rsum n g.
Proof. induction n; simpl; intros H; [reflexivity|]. rewrite IHn, H; auto. Qed.
Lemma rsum_add n f g : rsum n (fun i => f i + g i) = rsum n f + rsum n g.
Proof. induction n; simpl; [ring | rewrite IHn; ring]. Qed.
Lemma rsum_sub n f g : rsum n (fun i => f i - g i) = rsum n f - rsum n g.
Proof. induction n; simpl; [ring | rewrite IHn; ring]. Qed.
Lemma rsum_scale n c f : rsum n (fun i => c * f i) = c * rsum n f.
Proof. induction n; simpl; [ring | rewrite IHn; ring]. Qed.
Lemma rsum_exchange n m (f : nat -> nat -> R) :
  rsum n (fun i => rsum m (fun j => f i j)) = rsum m (fun j => rsum n (fun i => f i j)).
Proof.
  induction n; simpl.
  - induction m; simpl; [reflexivity | rewrite <- IHm; ring].
  - rewrite IHn. rewrite <- rsum_add. reflexivity.
Qed.
Lemma rsum_nonneg n f : (forall i, (i < n)%nat -> 0 <= f i) -> 0 <= rsum n f.
Proof. induction n; simpl; intros H; [lra|]. assert (0 <= rsum n f) by (apply IHn; auto). specialize (H n ltac:(lia)). lra. Qed.
Lemma rsum_le n f g : (forall i, (i < n)%nat -> f i <= g i) -> rsum n f <= rsum n g.
Proof. induction n; simpl; intros H; [lra|]. assert (rsum n f <= rsum n g) by (apply IHn; auto). specialize (H n ltac:(lia)). lra. Qed.
Lemma rsum_zero n f : (forall i, (i < n)%nat -> f i = 0) -> rsum n f = 0.
Proof. induction n; simpl; intros H; [reflexivity|]. rewrite IHn, H by auto. ring. Qed.
Lemma rsum_single n k (f : nat -> R) : (k < n)%nat -> (forall i, (i < n)%nat -> i <> k -> f i = 0) -> rsum n f = f k.
Proof.
  induction n; intros Hk H; [lia|]. simpl. destruct (Nat.eq_dec k n) as [->|Hn].
  - rewrite rsum_zero; [ring|]. intros i Hi. apply H; lia.
  - rewrite IHn by (try lia; intros; apply H; lia). rewrite (H n) by lia. ring.
Qed.
Lemma rsum_sq_zero n f : rsum n (fun i => (f i)^2) = 0 -> forall i, (i < n)%nat -> f i = 0.
Proof.
  induction n; cbn [rsum]; intros H i Hi; [lia|].
  assert (0 <= rsum n (fun i => (f i)^2)) by (apply rsum_nonneg; intros; apply pow2_ge_0).
  pose proof (pow2_ge_0 (f n)).
  destruct (Nat.eq_dec i n) as [->|Hn].
  - assert (E : f n * f n = 0) by nra. apply Rmult_integral in E. destruct E; assumption.
  - apply IHn; [nra | lia].
Qed.

(* ---------- ridge least squares ---------- *)
Section LS.
Variables (m n : nat) (A : nat -> nat -> R) (y : nat -> R).
Definition Av (v : nat -> R) i := rsum n (fun j => A i j * v j).
Definition ls_obj (lam : R) (v : nat -> R) := rsum m (fun i => (y i - Av v i)^2) + lam * rsum n (fun j => (v j)^2).
Theorem normal_eq_minimises lam x z : 0 <= lam ->
  (forall j, (j < n)%nat -> rsum m (fun i => A i j * (y i - Av x i)) = lam * x j) ->
  ls_obj lam x <= ls_obj lam z.
Proof.
  intros Hl Hne.
  set (dv := fun j => z j - x j).
  assert (HA : forall i, Av z i = Av x i + Av dv i).
  { intros i. unfold Av, dv. rewrite <- rsum_add. apply rsum_ext; intros; ring. }
  assert (Hc : rsum m (fun i => (y i - Av x i) * Av dv i) = lam * rsum n (fun j => x j * dv j)).
  { unfold Av at 2.
    rewrite (rsum_ext m _ (fun i => rsum n (fun j => (y i - Av x i) * (A i j * dv j)))) by (intros; now rewrite rsum_scale).
    rewrite rsum_exchange.
    rewrite <- rsum_scale. apply rsum_ext; intros j Hj.
    rewrite (rsum_ext m _ (fun i => dv j * (A i j * (y i - Av x i)))) by (intros; ring).
    rewrite rsum_scale, Hne by exact Hj. ring. }
  assert (Hz : ls_obj lam z = ls_obj lam x + (rsum m (fun i => (Av dv i)^2) + lam * rsum n (fun j => (dv j)^2))).
  { unfold ls_obj.
    rewrite (rsum_ext m (fun i => (y i - Av z i)^2) (fun i => ((y i - Av x i)^2 + (Av dv i)^2) + (-2) * ((y i - Av x i) * Av dv i))) by (intros; rewrite HA; ring).
    rewrite rsum_add, rsum_add, rsum_scale, Hc.
    rewrite (rsum_ext n (fun j => (z j)^2) (fun j => ((x j)^2 + (dv j)^2) + 2 * (x j * dv j))) by (intros; unfold dv; ring).
    rewrite rsum_add, rsum_add, rsum_scale. ring. }
  rewrite Hz.
  assert (0 <= rsum m (fun i => (Av dv i)^2)) by (apply rsum_nonneg; intros; apply pow2_ge_0).
  assert (0 <= rsum n (fun j => (dv j)^2)) by (apply rsum_nonneg; intros; apply pow2_ge_0).
  nra.
Qed.
End LS.

(* ---------- penalised non-negative QP: f v = v'Gv/2 - b'v + l1*sum v + l2*sum v^2 ---------- *)
Section QP.
Variables (n : nat) (G : nat -> nat -> R) (b : nat -> R) (l1 l2 : R).
Hypothesis Gsym : forall i j, G i j = G j i.
Definition quad (d : nat -> R) := rsum n (fun i => rsum n (fun j => d i * G i j * d j)).
Definition qp_f (v : nat -> R) := quad v / 2 - rsum n (fun i => b i * v i) + l1 * rsum n v + l2 * rsum n (fun i => (v i)^2).
Definition qp_grad (v : nat -> R) i := rsum n (fun j => G i j * v j) - b i + l1 + 2 * l2 * v i.

(* exact second-order expansion (no PSD needed) *)
Lemma qp_diff x z : let d := fun i => z i - x i in
  qp_f z - qp_f x = quad d / 2 + l2 * rsum n (fun i => (d i)^2) + rsum n (fun i => d i * qp_grad x i).
Proof.
  intros d.
  assert (Hq : quad z = quad x + quad d + 2 * rsum n (fun i => d i * rsum n (fun j => G i j * x j))).
  { unfold quad.
    rewrite (rsum_ext n (fun i => rsum n (fun j => z i * G i j * z j))
      (fun i => (rsum n (fun j => x i * G i j * x j) + rsum n (fun j => d i * G i j * d j))
                + (rsum n (fun j => d i * G i j * x j) + rsum n (fun j => x i * G i j * d j)))).
    2:{ intros i _. rewrite <- !rsum_add. apply rsum_ext; intros j _. unfold d. ring. }
    rewrite !rsum_add.
    assert (E : rsum n (fun i => rsum n (fun j => x i * G i j * d j)) = rsum n (fun i => rsum n (fun j => d i * G i j * x j))).
    { rewrite rsum_exchange. apply rsum_ext; intros i _. apply rsum_ext; intros j _. rewrite (Gsym j i). ring. }
    rewrite E.
    rewrite (rsum_ext n (fun i => d i * rsum n (fun j => G i j * x j)) (fun i => rsum n (fun j => d i * G i j * x j))).
    2:{ intros i _. rewrite <- rsum_scale. apply rsum_ext; intros; ring. }
    ring. }
  unfold qp_f. rewrite Hq. unfold qp_grad.
  rewrite (rsum_ext n (fun i => b i * z i) (fun i => b i * x i + b i * d i)) by (intros; unfold d; ring).
  rewrite (rsum_ext n z (fun i => x i + d i)) by (intros; unfold d; ring).
  rewrite (rsum_ext n (fun i => (z i)^2) (fun i => ((x i)^2 + (d i)^2) + 2 * (x i * d i))) by (intros; unfold d; ring).
  rewrite (rsum_ext n (fun i => d i * (rsum n (fun j => G i j * x j) - b i + l1 + 2 * l2 * x i))
     (fun i => ((d i * rsum n (fun j => G i j * x j) + (-1) * (b i * d i)) + l1 * d i) + 2 * l2 * (x i * d i))) by (intros; ring).
  rewrite !rsum_add, !rsum_scale. field.
Qed.

Definition updv (v : nat -> R) (k : nat) (t : R) : nat -> R := fun i => if Nat.eq_dec i k then t else v i.

(* changing one coordinate: the objective is an explicit parabola in the step *)
Lemma qp_coord v k t : (k < n)%nat ->
  qp_f (updv v k t) - qp_f v = (t - v k) * qp_grad v k + (G k k / 2 + l2) * (t - v k)^2.
Proof.
  intros Hk. rewrite qp_diff. cbv zeta.
  set (d := fun i => updv v k t i - v i).
  assert (Dk : d k = t - v k) by (unfold d, updv; destruct (Nat.eq_dec k k); [reflexivity|congruence]).
  assert (D0 : forall i, i <> k -> d i = 0) by (intros i Hi; unfold d, updv; destruct (Nat.eq_dec i k); [congruence|ring]).
  assert (Q : quad d = G k k * (t - v k)^2).
  { unfold quad. rewrite (rsum_single n k) by (auto; intros i _ Hi; apply rsum_zero; intros j _; rewrite (D0 i Hi); ring).
    rewrite (rsum_single n k) by (auto; intros j _ Hj; rewrite (D0 j Hj); ring). rewrite Dk. ring. }
  assert (S2 : rsum n (fun i => (d i)^2) = (t - v k)^2).
  { rewrite (rsum_single n k) by (auto; intros i _ Hi; rewrite (D0 i Hi); ring). now rewrite Dk. }
  assert (S1 : rsum n (fun i => d i * qp_grad v i) = (t - v k) * qp_grad v k).
  { rewrite (rsum_single n k) by (auto; intros i _ Hi; rewrite (D0 i Hi); ring). now rewrite Dk. }
  unfold d in S2, S1. cbv beta in S2, S1. rewrite Q, S2, S1. field.
Qed.

(* the HALS row update of solvers/nnls.py: num/den clipped at eps is the exact coordinate minimiser over [eps, inf) *)
Definition hals_new (eps : R) (v : nat -> R) (k : nat) : R :=
  let num := b k - rsum n (fun j => G k j * v j) + G k k * v k - l1 in
  let den := G k k + 2 * l2 in
  let q := num / den in if Rle_dec eps q then q else eps.

Theorem hals_row_exact eps v k t : (k < n)%nat -> 0 < G k k + 2 * l2 -> eps <= t ->
  qp_f (updv v k (hals_new eps v k)) <= qp_f (updv v k t).
Proof.
  intros Hk Hden Ht.
  assert (E : qp_f (updv v k (hals_new eps v k)) - qp_f v <= qp_f (updv v k t) - qp_f v); [|lra].
  rewrite !qp_coord by exact Hk.
  set (a := G k k + 2 * l2) in *. set (g := qp_grad v k).
  assert (Hq : b k - rsum n (fun j => G k j * v j) + G k k * v k - l1 = a * v k - g) by (unfold g, qp_grad, a; ring).
  unfold hals_new. cbv zeta. fold a. rewrite Hq.
  replace (G k k / 2 + l2) with (a / 2) by (unfold a; field).
  assert (Hs : (a * v k - g) / a = v k - g / a) by (field; lra).
  rewrite Hs.
  destruct (Rle_dec eps (v k - g / a)) as [H|H].
  - replace (v k - g / a - v k) with (- g / a) by (field; lra).
    assert (Hsq : 0 <= (a * (t - v k) + g)^2) by apply pow2_ge_0.
    assert (Hmin : (- g / a) * g + a / 2 * (- g / a)^2 = - g^2 / (2 * a)) by (field; lra).
    rewrite Hmin.
    assert (Hid : (t - v k) * g + a / 2 * (t - v k)^2 - (- g^2 / (2 * a)) = (a * (t - v k) + g)^2 / (2 * a)) by (field; lra).
    assert (0 <= (a * (t - v k) + g)^2 / (2 * a)) by (apply Rmult_le_pos; [exact Hsq | left; apply Rinv_0_lt_compat; lra]).
    lra.
  - assert (Hlt : v k - g / a < eps) by lra.
    assert (Hga : a * (eps - v k) + g > 0).
    { assert (a * (v k - g / a) = a * v k - g) by (field; lra). nra. }
    assert (P1 : 0 <= (t - eps) * (a * (eps - v k) + g)) by (apply Rmult_le_pos; lra).
    assert (P2 : 0 <= a * (t - eps)^2) by (apply Rmult_le_pos; [lra | apply pow2_ge_0]).
    assert (Hid : (t - v k) * g + a / 2 * (t - v k)^2 - ((eps - v k) * g + a / 2 * (eps - v k)^2)
                  = (t - eps) * (a * (eps - v k) + g) + a * (t - eps)^2 / 2) by field.
    lra.
Qed.

(* KKT => global optimum over the non-negative orthant (G positive semidefinite) *)
Hypothesis Gpsd : forall d, 0 <= quad d.
Theorem kkt_optimal x z : 0 <= l2 ->
  (forall i, (i < n)%nat -> 0 <= x i /\ 0 <= qp_grad x i /\ x i * qp_grad x i = 0) ->
  (forall i, (i < n)%nat -> 0 <= z i) -> qp_f x <= qp_f z.
Proof.
  intros Hl2 Hk Hz. pose proof (qp_diff x z) as Hf. cbv zeta in Hf.
  set (d := fun i => z i - x i) in *.
  assert (Hg : 0 <= rsum n (fun i => d i * qp_grad x i)).
  { apply rsum_nonneg. intros i Hi. destruct (Hk i Hi) as (Hx & Hgr & Hc). specialize (Hz i Hi).
    unfold d. replace ((z i - x i) * qp_grad x i) with (z i * qp_grad x i - x i * qp_grad x i) by ring. rewrite Hc. nra. }
  assert (0 <= rsum n (fun i => (d i)^2)) by (apply rsum_nonneg; intros; apply pow2_ge_0).
  pose proof (Gpsd d). nra.
Qed.
End QP.

(* ---------- Cauchy-Schwarz ---------- *)
Lemma cauchy_schwarz n (a b : nat -> R) :
  (rsum n (fun i => a i * b i))^2 <= rsum n (fun i => (a i)^2) * rsum n (fun i => (b i)^2).
Proof.
  set (A := rsum n (fun i => (a i)^2)). set (B := rsum n (fun i => (b i)^2)). set (Cc := rsum n (fun i => a i * b i)).
  assert (HA : 0 <= A) by (apply rsum_nonneg; intros; apply pow2_ge_0).
  assert (HB : 0 <= B) by (apply rsum_nonneg; intros; apply pow2_ge_0).
  (* 0 <= sum (B a_i - C b_i)^2 = B^2 A - 2 B C^2 + C^2 B = B (A B - C^2) *)
  assert (H : 0 <= rsum n (fun i => (B * a i - Cc * b i)^2)) by (apply rsum_nonneg; intros; apply pow2_ge_0).
  rewrite (rsum_ext n _ (fun i => (B^2 * (a i)^2 + (-2 * B * Cc) * (a i * b i)) + Cc^2 * (b i)^2)) in H by (intros; ring).
  rewrite !rsum_add, !rsum_scale in H. fold A B Cc in H.
  destruct (Req_dec B 0) as [HB0|HB0].
  - (* all b_i = 0 *)
    assert (Hb : forall i, (i < n)%nat -> b i = 0) by (apply rsum_sq_zero; exact HB0).
    assert (Cc = 0) by (unfold Cc; apply rsum_zero; intros i Hi; rewrite (Hb i Hi); ring).
    rewrite H0, HB0. nra.
  - assert (0 < B) by lra. assert (0 <= B * (A * B - Cc^2)) by nra.
    assert (0 <= A * B - Cc^2) by (apply (Rmult_le_reg_l B); [assumption | lra]). lra.
Qed.
