(* Mixed-radix (row-major) index arithmetic: the layout of a C-contiguous ndarray. *)
From Coq Require Import List Arith Lia Bool.
Import ListNotations.

Definition prod (s : list nat) : nat := fold_right Nat.mul 1 s.

Fixpoint ravel (s idx : list nat) : nat :=
  match s, idx with
  | d :: s', i :: idx' => i * prod s' + ravel s' idx'
  | _, _ => 0
  end.

Fixpoint unravel (s : list nat) (k : nat) : list nat :=
  match s with
  | [] => []
  | d :: s' => (k / prod s') mod d :: unravel s' (k mod prod s')
  end.

Fixpoint inb (s idx : list nat) : Prop :=
  match s, idx with
  | [], [] => True
  | d :: s', i :: idx' => i < d /\ inb s' idx'
  | _, _ => False
  end.

Fixpoint inbb (s idx : list nat) : bool :=
  match s, idx with
  | [], [] => true
  | d :: s', i :: idx' => (i <? d) && inbb s' idx'
  | _, _ => false
  end.

Lemma inbb_spec s : forall idx, inbb s idx = true <-> inb s idx.
Proof.
  induction s as [|d s IH]; intros [|i idx]; simpl; try tauto; try (split; [discriminate|tauto]).
  rewrite andb_true_iff, Nat.ltb_lt, IH. tauto.
Qed.

Lemma prod_app a b : prod (a ++ b) = prod a * prod b.
Proof. induction a as [|x a IH]; simpl; [lia | rewrite IH; lia]. Qed.

Lemma ravel_lt s : forall idx, inb s idx -> ravel s idx < prod s.
Proof.
  induction s as [|d s IH]; intros [|i idx]; simpl; try tauto; [lia|].
  intros [Hi Hr]. specialize (IH _ Hr). nia.
Qed.

Lemma unravel_ravel s : forall idx, inb s idx -> unravel s (ravel s idx) = idx.
Proof.
  induction s as [|d s IH]; intros [|i idx]; simpl; try tauto.
  intros [Hi Hr]. pose proof (ravel_lt _ _ Hr) as Hlt.
  assert (Hp : prod s <> 0) by lia. f_equal.
  - rewrite Nat.div_add_l by exact Hp. rewrite (Nat.div_small _ _ Hlt).
    rewrite Nat.add_0_r. apply Nat.mod_small; exact Hi.
  - rewrite Nat.add_comm, Nat.mod_add by exact Hp.
    rewrite Nat.mod_small by exact Hlt. apply IH; exact Hr.
Qed.

Lemma unravel_inb s : forall k, k < prod s -> inb s (unravel s k).
Proof.
  induction s as [|d s IH]; simpl; intros k Hk; [exact I|].
  assert (Hp : prod s <> 0) by nia. assert (d <> 0) by nia.
  split; [apply Nat.mod_upper_bound; assumption
         | apply IH; apply Nat.mod_upper_bound; exact Hp].
Qed.

Lemma ravel_unravel s : forall k, k < prod s -> ravel s (unravel s k) = k.
Proof.
  induction s as [|d s IH]; simpl; intros k Hk; [lia|].
  assert (Hp : prod s <> 0) by nia.
  rewrite IH by (apply Nat.mod_upper_bound; exact Hp).
  assert (H : k / prod s < d) by (apply Nat.div_lt_upper_bound; [exact Hp | lia]).
  rewrite (Nat.mod_small _ _ H). pose proof (Nat.div_mod k (prod s) Hp). lia.
Qed.

Lemma inb_length s : forall idx, inb s idx -> length idx = length s.
Proof. induction s; intros [|i idx]; simpl; try tauto. intros [_ H]. f_equal; auto. Qed.

Lemma inb_app s1 : forall s2 i1 i2, inb s1 i1 -> inb s2 i2 -> inb (s1 ++ s2) (i1 ++ i2).
Proof.
  induction s1 as [|d s1 IH]; intros s2 [|i i1] i2; simpl; try tauto.
  intros [H1 H2] H3. split; auto.
Qed.

Lemma inb_app_inv s1 : forall s2 i1 i2, length i1 = length s1 ->
  inb (s1 ++ s2) (i1 ++ i2) -> inb s1 i1 /\ inb s2 i2.
Proof.
  induction s1 as [|d s1 IH]; intros s2 [|i i1] i2 Hl; simpl in *; try discriminate; try tauto.
  intros [H1 H2]. injection Hl as Hl. destruct (IH _ _ _ Hl H2). tauto.
Qed.

(* ravel of a concatenated index: leading block is the high-order digits *)
Lemma ravel_app s1 : forall s2 i1 i2, length i1 = length s1 ->
  ravel (s1 ++ s2) (i1 ++ i2) = ravel s1 i1 * prod s2 + ravel s2 i2.
Proof.
  induction s1 as [|d s1 IH]; intros s2 [|i i1] i2 Hl; simpl in *; try discriminate; [lia|].
  injection Hl as Hl. rewrite (IH _ _ _ Hl), prod_app. lia.
Qed.

Lemma inb_pos s idx : inb s idx -> 0 < prod s.
Proof. intros H. pose proof (ravel_lt _ _ H). lia. Qed.

Lemma unravel_length s k : length (unravel s k) = length s.
Proof. revert k; induction s; simpl; auto. Qed.
