(* Dense tensors as (shape, row-major data): the model of a C-contiguous ndarray.
   Polymorphic in the element type: a model function written against this interface
   cannot inspect, round or re-type an entry. *)
From Coq Require Import List Arith Lia Bool.
From TLV Require Import Base.Shape Base.PyList.
Import ListNotations.

Inductive res (A : Type) := Ok (a : A) | Err.
Arguments Ok {A}. Arguments Err {A}.
Definition rbind {A B} (r : res A) (f : A -> res B) : res B := match r with Ok a => f a | Err => Err end.

Record tensor (A : Type) := mk { shape : list nat; data : list A }.
Arguments mk {A}. Arguments shape {A}. Arguments data {A}.

Section T.
Context {A : Type} (d : A).

Definition wf (t : tensor A) : Prop := length (data t) = prod (shape t).
Definition wfb (t : tensor A) : bool := Nat.eqb (length (data t)) (prod (shape t)).
Definition ndim (t : tensor A) : nat := length (shape t).
Definition get (t : tensor A) (idx : list nat) : A := nth (ravel (shape t) idx) (data t) d.

Definition tabulate (s : list nat) (f : list nat -> A) : tensor A :=
  mk s (map (fun k => f (unravel s k)) (seq 0 (prod s))).

Lemma wfb_spec t : wfb t = true <-> wf t.
Proof. unfold wfb, wf. apply Nat.eqb_eq. Qed.

Lemma wf_tabulate s f : wf (tabulate s f).
Proof. unfold wf; simpl. now rewrite map_length, seq_length. Qed.

Lemma get_tabulate s f idx : inb s idx -> get (tabulate s f) idx = f idx.
Proof.
  intros H. unfold get; simpl. pose proof (ravel_lt _ _ H) as Hlt.
  rewrite nth_indep with (d' := f (unravel s 0)) by (now rewrite map_length, seq_length).
  rewrite (map_nth (fun k => f (unravel s k)) (seq 0 (prod s)) 0).
  rewrite seq_nth by exact Hlt. simpl. now rewrite unravel_ravel.
Qed.

Lemma tensor_ext t1 t2 : wf t1 -> wf t2 -> shape t1 = shape t2 ->
  (forall idx, inb (shape t1) idx -> get t1 idx = get t2 idx) -> t1 = t2.
Proof.
  destruct t1 as [s1 d1], t2 as [s2 d2]; unfold wf, get; simpl. intros W1 W2 <- H. f_equal.
  apply nth_ext with (d := d) (d' := d); [congruence|]. intros k Hk. rewrite W1 in Hk.
  specialize (H (unravel s1 k) (unravel_inb _ _ Hk)). now rewrite ravel_unravel in H.
Qed.

(* data of a tabulated tensor, entry k *)
Lemma nth_tabulate s f k : k < prod s -> nth k (data (tabulate s f)) d = f (unravel s k).
Proof.
  intros Hk. simpl.
  rewrite nth_indep with (d' := f (unravel s 0)) by (now rewrite map_length, seq_length).
  rewrite (map_nth (fun k => f (unravel s k)) (seq 0 (prod s)) 0). now rewrite seq_nth.
Qed.

(* reshape to an explicit shape: same row-major data (NumPy semantics for C-contiguous input) *)
Definition reshape (s : list nat) (t : tensor A) : tensor A := mk s (data t).

(* NumPy's -1: None marks the inferred dimension. *)
Definition known (spec : list (option nat)) : nat :=
  fold_right (fun o acc => match o with Some n => n * acc | None => acc end) 1 spec.
Definition count_none (spec : list (option nat)) : nat :=
  length (filter (fun o => match o with None => true | _ => false end) spec).
Definition fill (spec : list (option nat)) (v : nat) : list nat :=
  map (fun o => match o with Some n => n | None => v end) spec.
Definition infer_shape (total : nat) (spec : list (option nat)) : res (list nat) :=
  match count_none spec with
  | 0 => if Nat.eqb (known spec) total then Ok (fill spec 0) else Err
  | 1 => if Nat.eqb (known spec) 0 then Err
         else if Nat.eqb (total mod known spec) 0 then Ok (fill spec (total / known spec)) else Err
  | _ => Err
  end.
Definition reshape_spec (spec : list (option nat)) (t : tensor A) : res (tensor A) :=
  rbind (infer_shape (prod (shape t)) spec) (fun s => Ok (reshape s t)).

Lemma get_reshape s t idx : wf t -> prod s = prod (shape t) -> inb s idx ->
  get (reshape s t) idx = get t (unravel (shape t) (ravel s idx)).
Proof.
  intros W Hp Hi. unfold get, reshape; simpl.
  rewrite ravel_unravel; [reflexivity|]. rewrite <- Hp. now apply ravel_lt.
Qed.

(* np.moveaxis for a single axis, described at index level:
   new shape = old shape with entry src removed and re-inserted at position dst;
   new[idx'] = old[idx' with entry dst removed and re-inserted at position src]. *)
Definition moveaxis (t : tensor A) (src dst : nat) : tensor A :=
  tabulate (insert_at dst (nth src (shape t) 0) (remove_nth src (shape t)))
           (fun idx' => get t (insert_at src (nth dst idx' 0) (remove_nth dst idx'))).

(* np.transpose(t, p): axis j of the result is axis p[j] of the input. *)
Definition scatter (p idx' : list nat) : list nat :=
  map (fun a => nth (index_of a p) idx' 0) (seq 0 (length p)).
Definition transpose (p : list nat) (t : tensor A) : tensor A :=
  tabulate (permute 0 p (shape t)) (fun idx' => get t (scatter p idx')).

Lemma wf_moveaxis t a b : wf (moveaxis t a b).
Proof. apply wf_tabulate. Qed.
Lemma wf_transpose p t : wf (transpose p t).
Proof. apply wf_tabulate. Qed.
Lemma wf_reshape s t : wf t -> prod s = prod (shape t) -> wf (reshape s t).
Proof. unfold wf, reshape; simpl. congruence. Qed.

End T.

Arguments wf {A}. Arguments wfb {A}. Arguments ndim {A}.
