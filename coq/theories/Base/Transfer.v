(* Machine-checked transfer between the executed instance (Q, reduced after every operation)
   and the instance theorems are proved about (R), through Paramcoq's free theorems.
   Usage for a model function f : forall F, fops F -> ... :
     Parametricity Recursive f.   (* generates f_R; ALWAYS follow with  Check f_R. *)
     Lemma f_transfer x : map Q2R (f Qops x) = f Rops (map Q2R x).
     Proof. apply list_R_map. apply f_R; [apply ops_rel | apply list_R_of_map]. Qed.
   Limitations (DESIGN 3.4): no Nat.sub / Nat.modulo / Nat.max / Z.add inside transferable models. *)
From Coq Require Import List QArith Reals Lra Qreals.
From Param Require Import Param.
From TLV Require Import Base.Ops.
Import ListNotations.

Parametricity Recursive fops.
Parametricity Recursive list.
Parametricity Recursive nat.
Parametricity Recursive option.
Parametricity Recursive prod.

Definition QR (q : Q) (r : R) : Type := Q2R q = r.

Lemma Q2R_red q : Q2R (Qred q) = Q2R q.
Proof. apply Qeq_eqR. apply Qred_correct. Qed.

Lemma Q2R_inv' q : Q2R (/ q) = (/ Q2R q)%R.
Proof.
  destruct (Qeq_dec q 0) as [E|E].
  - rewrite (Qeq_eqR _ _ (Qinv_comp _ _ E)). rewrite (Qeq_eqR _ _ E).
    change (/ 0)%Q with 0%Q. rewrite RMicromega.Q2R_0. now rewrite Rinv_0.
  - apply Q2R_inv. exact E.
Qed.

Lemma leb_rel a b : Qle_bool a b = Rleb (Q2R a) (Q2R b).
Proof.
  unfold Rleb. destruct (Rle_dec (Q2R a) (Q2R b)) as [H|H].
  - apply Qle_bool_iff. apply Rle_Qle. exact H.
  - destruct (Qle_bool a b) eqn:E; [|reflexivity].
    exfalso. apply H. apply Qle_Rle. apply Qle_bool_iff. exact E.
Qed.

Lemma ops_rel : fops_R Q R QR Qops Rops.
Proof.
  constructor; unfold QR; cbv beta.
  - apply RMicromega.Q2R_0.
  - apply RMicromega.Q2R_1.
  - intros a1 a2 <- b1 b2 <-. rewrite Q2R_red. apply Q2R_plus.
  - intros a1 a2 <- b1 b2 <-. rewrite Q2R_red. apply Q2R_minus.
  - intros a1 a2 <- b1 b2 <-. rewrite Q2R_red. apply Q2R_mult.
  - intros a1 a2 <- b1 b2 <-. rewrite Q2R_red. unfold Qdiv, Rdiv. rewrite Q2R_mult, Q2R_inv'. reflexivity.
  - intros a1 a2 <-. rewrite Q2R_red. apply Q2R_opp.
  - intros a1 a2 <- b1 b2 <-. rewrite leb_rel. destruct (Rleb _ _); constructor.
Qed.

Lemma list_R_map l l' : list_R Q R QR l l' -> map Q2R l = l'.
Proof. induction 1 as [|q r E l l' H IH]; simpl; [reflexivity|]. unfold QR in E. now rewrite E, IH. Qed.
Lemma list_R_of_map l : list_R Q R QR l (map Q2R l).
Proof. induction l; simpl; constructor; [reflexivity | assumption]. Qed.
Lemma list_list_R_map l l' : list_R (list Q) (list R) (list_R Q R QR) l l' -> map (map Q2R) l = l'.
Proof. induction 1 as [|q r E l l' H IH]; simpl; [reflexivity|]. now rewrite (list_R_map _ _ E), IH. Qed.
Lemma list_list_R_of_map l : list_R (list Q) (list R) (list_R Q R QR) l (map (map Q2R) l).
Proof. induction l; simpl; constructor; [apply list_R_of_map | assumption]. Qed.
Lemma QR_refl q : QR q (Q2R q). Proof. reflexivity. Qed.
Lemma nat_R_refl n : nat_R n n.
Proof. induction n; constructor; assumption. Qed.
Lemma bool_R_refl b : bool_R b b.
Proof. destruct b; constructor. Qed.
