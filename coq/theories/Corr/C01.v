(* Correspondence for C01: run the model of tensorly/base.py (and of the NumPy primitives it
   relies on) on the same inputs as the implementation and compare bit for bit. *)
From Coq Require Import List Arith ZArith Bool.
From TLV Require Import Base.Shape Base.PyList Base.Tensor Model.Base Corr.Common.
Import ListNotations.

Inductive op :=
| OVec | OUnvec (s : list nat) | OUnfold (m : nat) | OFold (m : nat) (s : list nat)
| OPUnfold (m sb se : nat) (rav : bool) | OPFold (m : nat) (s : list nat) (sb se : nat)
| OPVec (sb se : nat) | OPUnvec (s : list nat) (sb se : nat)
| OMat (rows : list nat) (cols : option (list nat))
(* NumPy primitives, validating Base/Tensor.v *)
| OMove (a b : nat) | OTrans (p : list nat) | OReshape (spec : list (option nat)).

Definition run (o : op) (t : tensor Z) : res (tensor Z) :=
  match o with
  | OVec => tensor_to_vec t
  | OUnvec s => vec_to_tensor t s
  | OUnfold m => unfold 0%Z t m
  | OFold m s => fold 0%Z t m s
  | OPUnfold m sb se rav => partial_unfold 0%Z t m sb se rav
  | OPFold m s sb se => partial_fold 0%Z t m s sb se
  | OPVec sb se => partial_tensor_to_vec 0%Z t sb se
  | OPUnvec s sb se => partial_vec_to_tensor 0%Z t s sb se
  | OMat rows cols => matricize 0%Z t rows cols
  | OMove a b => if (a <? ndim t) && (b <? ndim t) then Ok (moveaxis 0%Z t a b) else Err
  | OTrans p => if is_permb (ndim t) p then Ok (transpose 0%Z p t) else Err
  | OReshape spec => reshape_spec spec t
  end.

Definition case := (nat * op * tensor Z * res (tensor Z))%type.
Definition agree (c : case) : bool := let '(_, o, t, expected) := c in res_eqb zt_eqb (run o t) expected.
Definition ident (c : case) : nat := let '(i, _, _, _) := c in i.
Definition failing := failing_ids agree ident.
