(* Correspondence for C01: run the model of tensorly/base.py (and of the NumPy primitives it
   relies on) on the same inputs as the implementation and compare bit for bit.
   Modes are signed (Z) as in Python; tensors of the generated cases carry the labels 0..n-1. *)
From Coq Require Import List Arith ZArith Bool Uint63.
From TLV Require Import Base.Shape Base.PyList Base.Tensor Model.Base Model.BaseExt Model.BasePy Model.BasePyCore Model.BasePyNp Corr.Common.
Import ListNotations.

(* Case literals: tensor data are packed, w bits per entry and 60/w entries per primitive 63-bit
   integer (lowest entry first); elaborating one primitive integer is far cheaper than a list of Z
   numerals.  `IAr s` is the tensor arange(prod s).reshape(s). *)
Fixpoint chop (fuel : nat) (w mask x : int) : list Z :=
  match fuel with
  | O => []
  | S f => Uint63.to_Z (Uint63.land x mask) :: chop f w mask (Uint63.lsr x w)
  end.
Definition unpack (w n : nat) (l : list int) : list Z :=
  let wi := Uint63.of_Z (Z.of_nat w) in
  let mask := Uint63.sub (Uint63.lsl 1%uint63 wi) 1%uint63 in
  firstn n (flat_map (chop (60 / w) wi mask) l).

Inductive lit :=
| IAr (s : list nat)
| IPk (s : list nat) (w : nat) (l : list int).

Definition dec (i : lit) : tensor Z :=
  match i with
  | IAr s => mk s (map Z.of_nat (seq 0 (prod s)))
  | IPk s w l => mk s (unpack w (prod s) l)
  end.

Inductive op :=
| OVec | OUnvec (s : list nat) | OUnfold (m : Z) | OFold (m : Z) (s : list nat)
| OPUnfold (m : Z) (sb se : nat) (rav : bool) | OPFold (m : Z) (s : list nat) (sb se : nat)
| OPVec (sb se : nat) | OPUnvec (s : list nat) (sb se : nat)
| OMat (rows : pyseq) (cols : option pyseq)
(* signed skip_begin / skip_end (negative values are outside the documented domain: what the source does with them is
   deterministic and is compared with the statement-by-statement model only) *)
| OPUnfoldZ (m sb se : Z) (rav : bool) | OPFoldZ (m : Z) (s : list nat) (sb se : Z)
| OPVecZ (sb se : Z) | OPUnvecZ (s : list nat) (sb se : Z)
(* NumPy primitives as dispatched by the backend, validating Base/Tensor.v; OMoveG is the generic
   Backend.moveaxis of tensorly/backend/core.py *)
| OMove (a b : Z) | OMoveG (a b : Z) | OTrans (p : list nat) | OReshape (spec : list (option nat))
(* the argument forms of the backend calls (Model/BasePyNp.v): tl.reshape with an int or a sequence of signed ints,
   tl.transpose with signed axes or None, tl.shape (returned as a 1-D array) and tl.ndim (as a 0-d array) *)
| OReshapeA (a : shape_arg) | OTransOpt (axes : option (list Z)) | OShape | ONdim.

Definition aslist (x : pyseq) : list Z := match x with PInt z => [z] | PSeq l => l end.
(* the hand model of Model/Base.v / BaseExt.v (None: the request is outside its argument types) *)
Definition run (o : op) (t : tensor Z) : option (res (tensor Z)) :=
  match o with
  | OVec => Some (tensor_to_vec t)
  | OUnvec s => Some (vec_to_tensor t s)
  | OUnfold m => Some (unfold_z 0%Z t m)
  | OFold m s => Some (fold_z 0%Z t m s)
  | OPUnfold m sb se rav => Some (partial_unfold_z 0%Z t m sb se rav)
  | OPFold m s sb se => Some (partial_fold_z 0%Z t m s sb se)
  | OPVec sb se => Some (partial_tensor_to_vec 0%Z t sb se)
  | OPUnvec s sb se => Some (partial_vec_to_tensor 0%Z t s sb se)
  | OMat rows cols => Some (matricize_z 0%Z t (aslist rows) (option_map aslist cols))
  | OMove a b => Some (moveaxis_z 0%Z t a b)
  | OMoveG a b => Some (moveaxis_generic_z 0%Z t a b)
  | OTrans p => Some (if is_permb (ndim t) p then Ok (transpose 0%Z p t) else Err)
  | OReshape spec => Some (reshape_spec spec t)
  | OPUnfoldZ _ _ _ _ | OPFoldZ _ _ _ _ | OPVecZ _ _ | OPUnvecZ _ _ _ => None
  | OReshapeA _ | OTransOpt _ | OShape | ONdim => None
  end.

(* The same request on the statement-by-statement model of Model/BasePy.v (what the ast translator regenerates from the
   source), on the TYPED NumPy backend: arrays carry a dtype tag (an integer code chosen by the harness).  OMoveG is the
   statement-by-statement model of the generic Backend.moveaxis of core.py (Model/BasePyCore.v). *)
Definition zspec (spec : list (option nat)) : list Z := map (fun o => match o with Some n => Z.of_nat n | None => (-1)%Z end) spec.
Definition TB := typed 0%Z Z.
Definition run_g (o : op) (a : ndarray Z Z) : option (res (ndarray Z Z)) :=
  match o with
  | OVec => Some (g_tensor_to_vec TB a)
  | OUnvec s => Some (g_vec_to_tensor TB a (map Z.of_nat s))
  | OUnfold m => Some (g_unfold TB a m)
  | OFold m s => Some (g_fold TB a m (map Z.of_nat s))
  | OPUnfold m sb se rav => Some (g_partial_unfold TB a m (Z.of_nat sb) (Z.of_nat se) rav)
  | OPFold m s sb se => Some (g_partial_fold TB a m (map Z.of_nat s) (Z.of_nat sb) (Z.of_nat se))
  | OPVec sb se => Some (g_partial_tensor_to_vec TB a (Z.of_nat sb) (Z.of_nat se))
  | OPUnvec s sb se => Some (g_partial_vec_to_tensor TB a (map Z.of_nat s) (Z.of_nat sb) (Z.of_nat se))
  | OMat rows cols => Some (g_matricize TB a rows cols)
  | OPUnfoldZ m sb se rav => Some (g_partial_unfold TB a m sb se rav)
  | OPFoldZ m s sb se => Some (g_partial_fold TB a m (map Z.of_nat s) sb se)
  | OPVecZ sb se => Some (g_partial_tensor_to_vec TB a sb se)
  | OPUnvecZ s sb se => Some (g_partial_vec_to_tensor TB a (map Z.of_nat s) sb se)
  | OMove x y => Some (b_moveaxis TB a x y)
  | OMoveG x y => Some (g_moveaxis_generic TB a x y)
  | OTrans p => Some (b_transpose TB a (map Z.of_nat p))
  | OReshape spec => Some (b_reshape TB a (zspec spec))
  | OReshapeA s => Some (np_reshape_typed 0%Z a s)
  | OTransOpt axes => Some (np_transpose_opt_typed 0%Z a axes)
  | OShape => Some (Ok (mkarr (dt a) (mk [length (shape (arr a))] (np_shape 0%Z (arr a)))))
  | ONdim => Some (Ok (mkarr (dt a) (mk [] [np_ndim 0%Z (arr a)])))
  end.
Definition arr_eqb (a b : ndarray Z Z) : bool := Z.eqb (dt a) (dt b) && zt_eqb (arr a) (arr b).

(* a case: id, request, input, the implementation's outcome, and the dtype codes of the input and of the result
   (taken from the run of the same request on another dtype; equal codes when the request is rejected) *)
Definition case := (int * op * lit * res lit * (Z * Z))%type.
(* Every case is evaluated on the statement-by-statement model (typed backend).  The hand model of Model/Base.v /
   BaseExt.v is the same function by theorem (C01_g_is_model, C01_g_matricize_signed_is_model,
   C01_g_moveaxis_generic_is_model; OMove / OTrans / OReshape are the same primitives in both), so evaluating it as well
   doubles the cost without adding information: it is evaluated on one case in eight as a cross-check of the decoder and
   of the `run` wrapper. *)
Definition agree (c : case) : bool :=
  let '(i, o, t, expected, (tin, tout)) := c in
  match run_g o (mkarr tin (dec t)) with
  | Some r => res_eqb arr_eqb r (match expected with Ok e => Ok (mkarr tout (dec e)) | Err => Err end)
  | None => false
  end &&
  (if Uint63.eqb (Uint63.land i 7%uint63) 0%uint63
   then match run o (dec t) with
        | Some r => res_eqb zt_eqb r (match expected with Ok e => Ok (dec e) | Err => Err end)
        | None => true
        end
   else true).
(* The ids of the failing cases are returned as Z (binary), not nat: reading a unary nat of depth ~50000 back from the
   VM overflows the stack, which would turn a run WITH disagreements into "shard not evaluated". *)
Definition ident (c : case) : Z := let '(i, _, _, _, _) := c in Uint63.to_Z i.
Definition failing (cs : list case) : list Z := map ident (filter (fun c => negb (agree c)) cs).

(* the decoder on a hand-made literal: 7 entries, 10 bits each, 6 per integer *)
Example unpack_example :
  unpack 10 7 [(5 + 1024 * (1023 + 1024 * (0 + 1024 * (7 + 1024 * (8 + 1024 * 9)))))%uint63; 3%uint63]
  = [5; 1023; 0; 7; 8; 9; 3]%Z.
Proof. vm_compute. reflexivity. Qed.

(* ---------- a finite box of requests, used by the harness only when the universal proof  ast_f = g_f  of a function
   regenerated from the Python source does not go through: the two are then compared on every request of the box ---------- *)
Fixpoint lists_over {X} (vals : list X) (n : nat) : list (list X) :=
  match n with O => [[]] | S k => flat_map (fun x => map (cons x) (lists_over vals k)) vals end.
Definition box_shapes : list (list nat) :=
  flat_map (lists_over [0; 1; 2; 3]) [0; 1; 2; 3] ++ lists_over [1; 2] 4.
Definition zrange (a : Z) (n : nat) : list Z := map (fun k => (a + Z.of_nat k)%Z) (seq 0 n).
Definition box_modes (s : list nat) : list Z := zrange (- Z.of_nat (length s) - 1) (2 * length s + 3).
Definition box_skips (s : list nat) : list Z := zrange 0 (length s + 2).
Definition box_targets (s : list nat) : list (list Z) :=
  let z := map Z.of_nat s in [z; rev z; (1 :: z)%Z; tl z].
Definition box_mode_lists (s : list nat) : list (list Z) :=
  flat_map (lists_over (zrange (-1) (length s + 2))) (seq 0 (Nat.min (length s + 1) 4)).
Definition P0 := @plain Z 0%Z.
Definition differ (x y : res (tensor Z)) : bool := negb (res_eqb zt_eqb x y).
Definition arange (s : list nat) : tensor Z := dec (IAr s).
