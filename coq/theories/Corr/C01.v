(* Correspondence for C01: run the model of tensorly/base.py (and of the NumPy primitives it
   relies on) on the same inputs as the implementation and compare bit for bit.
   Modes are signed (Z) as in Python; tensors of the generated cases carry the labels 0..n-1. *)
From Coq Require Import List Arith ZArith Bool Uint63.
From TLV Require Import Base.Shape Base.PyList Base.Tensor Model.Base Model.BaseExt Corr.Common.
Import ListNotations.

(* Case literals: tensor data are packed, w bits per entry and 60/w entries per primitive 63-bit
   integer (lowest entry first); elaborating one primitive integer is far cheaper than a list of Z
   numerals.  `IAr s` is the tensor arange(prod s).reshape(s). *)
Fixpoint chop (fuel : nat) (w mask x : int) : list Z :=
  match fuel with
  | O => []
  | S f => Uint63.to_Z (Uint63.land x mask) :: chop f w mask (Uint63.lsr x w)
  end.
Definition unpack (w n : nat) (l : list int) : list Z :=
  let wi := Uint63.of_Z (Z.of_nat w) in
  let mask := Uint63.sub (Uint63.lsl 1%uint63 wi) 1%uint63 in
  firstn n (flat_map (chop (60 / w) wi mask) l).

Inductive lit :=
| IAr (s : list nat)
| IPk (s : list nat) (w : nat) (l : list int).

Definition dec (i : lit) : tensor Z :=
  match i with
  | IAr s => mk s (map Z.of_nat (seq 0 (prod s)))
  | IPk s w l => mk s (unpack w (prod s) l)
  end.

Inductive op :=
| OVec | OUnvec (s : list nat) | OUnfold (m : Z) | OFold (m : Z) (s : list nat)
| OPUnfold (m : Z) (sb se : nat) (rav : bool) | OPFold (m : Z) (s : list nat) (sb se : nat)
| OPVec (sb se : nat) | OPUnvec (s : list nat) (sb se : nat)
| OMat (rows : list Z) (cols : option (list Z))
(* NumPy primitives as dispatched by the backend, validating Base/Tensor.v; OMoveG is the generic
   Backend.moveaxis of tensorly/backend/core.py *)
| OMove (a b : Z) | OMoveG (a b : Z) | OTrans (p : list nat) | OReshape (spec : list (option nat)).

Definition run (o : op) (t : tensor Z) : res (tensor Z) :=
  match o with
  | OVec => tensor_to_vec t
  | OUnvec s => vec_to_tensor t s
  | OUnfold m => unfold_z 0%Z t m
  | OFold m s => fold_z 0%Z t m s
  | OPUnfold m sb se rav => partial_unfold_z 0%Z t m sb se rav
  | OPFold m s sb se => partial_fold_z 0%Z t m s sb se
  | OPVec sb se => partial_tensor_to_vec 0%Z t sb se
  | OPUnvec s sb se => partial_vec_to_tensor 0%Z t s sb se
  | OMat rows cols => matricize_z 0%Z t rows cols
  | OMove a b => moveaxis_z 0%Z t a b
  | OMoveG a b => moveaxis_generic_z 0%Z t a b
  | OTrans p => if is_permb (ndim t) p then Ok (transpose 0%Z p t) else Err
  | OReshape spec => reshape_spec spec t
  end.

Definition case := (int * op * lit * res lit)%type.
Definition agree (c : case) : bool :=
  let '(_, o, t, expected) := c in
  res_eqb zt_eqb (run o (dec t)) (match expected with Ok e => Ok (dec e) | Err => Err end).
(* The ids of the failing cases are returned as Z (binary), not nat: reading a unary nat of depth ~50000 back from the
   VM overflows the stack, which would turn a run WITH disagreements into "shard not evaluated". *)
Definition ident (c : case) : Z := let '(i, _, _, _) := c in Uint63.to_Z i.
Definition failing (cs : list case) : list Z := map ident (filter (fun c => negb (agree c)) cs).

(* the decoder on a hand-made literal: 7 entries, 10 bits each, 6 per integer *)
Example unpack_example :
  unpack 10 7 [(5 + 1024 * (1023 + 1024 * (0 + 1024 * (7 + 1024 * (8 + 1024 * 9)))))%uint63; 3%uint63]
  = [5; 1023; 0; 7; 8; 9; 3]%Z.
Proof. vm_compute. reflexivity. Qed.
