(* Correspondence for C02: run the model of tensorly/tenalg (core and einsum backends, memory MTTKRP,
   sample_khatri_rao) on the same integer / Gaussian-integer operands as the implementation and
   compare bit for bit. *)
From Coq Require Import List Arith ZArith Bool.
From TLV Require Import Base.Shape Base.PyList Base.Tensor Model.Base Model.Tenalg Model.TenalgRaw Corr.Common.
Import ListNotations.

(* be: false = core backend, true = einsum backend *)
Inductive op :=
| OModeDot (be : bool) (mode : nat) (tr : bool)                                     (* operands [T; M] *)
| OModeDotZ (be : bool) (mode : Z) (tr : bool)                                     (* [T; M]; mode as a Python int *)
| OMulti (be : bool) (modes : option (list nat)) (skip : option nat) (tr : bool)    (* [T; M1; ...] *)
| OMultiZ (be : bool) (modes : list Z) (skip : option nat) (tr : bool)            (* [T; M1; ...]; modes as Python ints *)
| OKhatri (be : bool) (hasw hasmask : bool) (skip : option nat)                     (* Ms ++ [w] ++ [mask] *)
| OKron (be : bool) (skip : option nat) (reverse : bool)                            (* Ms *)
| OInner (be : bool) (n_modes : option nat)                                         (* [A; B] *)
| OInnerAsIs (n_modes : nat)      (* [A; B]; core inner as the code is, n_modes beyond the order of A (Model/TenalgRaw.v) *)
| OOuter (be : bool) | OBOuter (be : bool)                                          (* ts *)
| OTdot (be : bool) (m1 m2 b1 b2 : list nat)                                        (* [A; B] *)
| OTdotRaw (be : bool) (ma ba : marg)            (* [A; B]; modes / batched_modes in the argument form given to the code *)
| OMttkrp (variant : nat) (hasw : bool) (mode : nat)      (* 0 core, 1 einsum, 2 memory; T :: fs ++ [w] *)
| OMoment (be : bool) (order : nat)                                                 (* [T]; n_samples * moment *)
| OSampleRows (skip : option nat) (inds : list (list nat)) (n : nat)                (* Ms *)
| OSampleIdx (skip : option nat) (inds : list (list nat)) (n : nat).                (* Ms *)

Section Run.
Context {F : Type} (Op : rops F) (inj : nat -> F).

Definition split_last (has : bool) (l : list (tensor F)) : list (tensor F) * option (tensor F) :=
  if has then (removelast l, Some (last l (mk [] []))) else (l, None).

Definition run (o : op) (ts : list (tensor F)) : res (tensor F) :=
  match o with
  | OModeDot be mode tr =>
      match ts with [T; M] => (if be then mode_dot_e else mode_dot) Op T M mode tr | _ => Err end
  | OModeDotZ be z tr =>
      match ts with [T; M] => (if be then mode_dot_e_z else mode_dot_z) Op T M z tr | _ => Err end
  | OMulti be modes skip tr =>
      match ts with T :: Ms => (if be then multi_mode_dot_e else multi_mode_dot) Op T Ms modes skip tr | _ => Err end
  | OMultiZ be modes skip tr =>
      match ts with T :: Ms => (if be then multi_mode_dot_e_z else multi_mode_dot_z) Op T Ms modes skip tr | _ => Err end
  | OKhatri be hasw hasmask skip =>
      let '(l1, mask) := split_last hasmask ts in
      let '(Ms, w) := split_last hasw l1 in
      (if be then khatri_rao_e else khatri_rao) Op Ms w mask skip
  | OKron be skip reverse => (if be then kronecker_e else kronecker) Op ts skip reverse
  | OInner be n => match ts with [A; B] => (if be then inner_e else inner) Op A B n | _ => Err end
  | OInnerAsIs n => match ts with [A; B] => inner_as_is Op A B n | _ => Err end
  | OOuter be => (if be then outer_e else outer) Op ts
  | OBOuter be => (if be then batched_outer_e else batched_outer) Op ts
  | OTdot be m1 m2 b1 b2 =>
      match ts with [A; B] => (if be then tensordot_e else tensordot) Op A B m1 m2 b1 b2 | _ => Err end
  | OTdotRaw be ma ba =>
      match ts with [A; B] => tensordot_raw Op (negb be) A B ma ba | _ => Err end
  | OMttkrp v hasw mode =>
      match ts with
      | T :: rest =>
          let '(fs, w) := split_last hasw rest in
          match v with
          | 0 => mttkrp Op T w fs mode
          | 1 => mttkrp_e Op T w fs mode
          | _ => mttkrp_memory Op T w fs mode
          end
      | _ => Err end
  | OMoment be order =>
      match ts with [T] => (if be then higher_order_moment_sum_e else higher_order_moment_sum) Op T order | _ => Err end
  | OSampleRows skip inds n => Ok (sample_kr_rows Op ts skip inds n)
  | OSampleIdx skip inds n => Ok (mk [n] (map inj (sample_kr_indices ts skip inds n)))
  end.
End Run.

Definition gi_eqb (a b : GI) : bool := Z.eqb (fst a) (fst b) && Z.eqb (snd a) (snd b).
Fixpoint gi_list_eqb (a b : list GI) : bool :=
  match a, b with [], [] => true | x :: a', y :: b' => gi_eqb x y && gi_list_eqb a' b' | _, _ => false end.
Definition gt_eqb (a b : tensor GI) : bool := nat_list_eqb (shape a) (shape b) && gi_list_eqb (data a) (data b).

Inductive case :=
| CZ (id : nat) (o : op) (ts : list (tensor Z)) (expected : res (tensor Z))
| CG (id : nat) (o : op) (ts : list (tensor GI)) (expected : res (tensor GI)).

Definition agree (c : case) : bool :=
  match c with
  | CZ _ o ts e => res_eqb zt_eqb (run ZR Z.of_nat o ts) e
  | CG _ o ts e => res_eqb gt_eqb (run GR (fun n => (Z.of_nat n, 0%Z)) o ts) e
  end.
Definition ident (c : case) : nat := match c with CZ i _ _ _ => i | CG i _ _ _ => i end.
Definition failing := failing_ids agree ident.
