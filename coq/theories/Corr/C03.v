(* Correspondence for C03: run the model of the factorised-tensor modules (Model/Factorized.v, at Zops) on the
   same integer-valued decompositions as the implementation and compare every observed view bit for bit
   (cp_norm: toleranced, it goes through sqrt).  A case is one decomposition together with the list of
   (view, observed output) pairs collected over both tenalg backends, tuple / wrapper-object inputs and
   multi-step view sequences. *)
From Coq Require Import List Arith ZArith QArith Qabs Bool.
From TLV Require Import Base.Shape Base.PyList Base.Tensor Base.Ops Model.Base Model.Factorized Corr.Common.
Import ListNotations.

Inductive decomp :=
| DCp (w : option (tensor Z)) (fs : list (tensor Z)) (mask : option (tensor Z))
| DTucker (core : tensor Z) (fs : list (tensor Z)) (skip : option nat) (tr : bool)
| DTt (cores : list (tensor Z))
| DTr (cores : list (tensor Z))
| DTtm (cores : list (tensor Z))
| DP2 (w : option (tensor Z)) (fs ps : list (tensor Z)).

Inductive view :=
| VValidate | VTensor | VUnfolded (m : nat) | VVec | VNorm | VMatrix | VSlice (i : nat) | VSlices
| VEin (v : view).   (* view v taken under the einsum tenalg backend, for the family whose einsum route is modelled separately (TT-matrix) *)

Inductive out :=
| OT (t : tensor Z)                      (* an array *)
| OSR (s r : list nat)                   (* (shape, rank) *)
| OSS (s : list (list nat)) (r : nat)    (* PARAFAC2: (slice shapes, rank) *)
| OL (l : list (tensor Z))               (* list of arrays *)
| ONorm (q : Q)                          (* cp_norm, a float *)
| OErr                                   (* the call raised *)
| OBad.                                  (* output not representable (non-integer / non-finite entries): never agrees *)

Definition rt (r : res (tensor Z)) : out := match r with Ok t => OT t | Err => OErr end.
Definition rsr (r : res (list nat * list nat)) : out := match r with Ok (s, k) => OSR s k | Err => OErr end.

(* wrapper.norm() of the families without a factor-based norm = FactorizedTensor.norm = l2 norm of to_tensor(): the model value is
   the exact sum of squares of the reconstruction, compared with the observed float like cp_norm *)
Definition sumsq (t : tensor Z) : Z := fold_left (fun acc x => (acc + x * x)%Z) (data t) 0%Z.
Definition rnorm (r : res (tensor Z)) : out := match r with Ok t => ONorm (inject_Z (sumsq t)) | Err => OErr end.

Definition run (d : decomp) (v : view) : out :=
  match d, v with
  | DCp w fs _, VValidate => match validate_cp w fs with Ok (s, r) => OSR s [r] | Err => OErr end
  | DCp w fs mask, VTensor => rt (cp_to_tensor Zops w fs mask)
  | DCp w fs _, VUnfolded m => rt (cp_to_unfolded Zops w fs m)
  | DCp w fs _, VVec => rt (cp_to_vec Zops w fs)
  | DCp w fs _, VNorm => match cp_normsq Zops w fs with Ok n => ONorm (inject_Z n) | Err => OErr end
  | DTucker c fs _ _, VValidate => rsr (validate_tucker c fs)
  | DTucker c fs skip tr, VTensor => rt (tucker_to_tensor Zops c fs skip tr)
  | DTucker c fs skip tr, VUnfolded m => rt (tucker_to_unfolded Zops c fs m skip tr)
  | DTucker c fs skip tr, VVec => rt (tucker_to_vec Zops c fs skip tr)
  | DTucker c fs _ _, VNorm => rnorm (tucker_to_tensor Zops c fs None false)
  | DTt cs, VNorm => rnorm (tt_to_tensor Zops cs)
  | DTr cs, VNorm => rnorm (tr_to_tensor Zops cs)
  | DTtm cs, VNorm => rnorm (ttm_to_tensor Zops cs)
  | DP2 w fs ps, VNorm => rnorm (parafac2_to_tensor Zops w fs ps)
  | DTt cs, VValidate => rsr (validate_tt cs)
  | DTt cs, VTensor => rt (tt_to_tensor Zops cs)
  | DTt cs, VUnfolded m => rt (tt_to_unfolded Zops cs m)
  | DTt cs, VVec => rt (tt_to_vec Zops cs)
  | DTr cs, VValidate => rsr (validate_tr cs)
  | DTr cs, VTensor => rt (tr_to_tensor Zops cs)
  | DTr cs, VUnfolded m => rt (tr_to_unfolded Zops cs m)
  | DTr cs, VVec => rt (tr_to_vec Zops cs)
  | DTtm cs, VValidate => rsr (validate_ttm cs)
  | DTtm cs, VTensor => rt (ttm_to_tensor Zops cs)
  | DTtm cs, VMatrix => rt (ttm_to_matrix Zops cs)
  | DTtm cs, VUnfolded m => rt (ttm_to_unfolded Zops cs m)
  | DTtm cs, VVec => rt (ttm_to_vec Zops cs)
  | DTtm cs, VEin VValidate => rsr (validate_ttm cs)
  | DTtm cs, VEin VTensor => rt (ttm_to_tensor_einsum Zops cs)
  | DTtm cs, VEin VMatrix => rt (ttm_to_matrix_einsum Zops cs)
  | DTtm cs, VEin (VUnfolded m) => rt (ttm_to_unfolded_einsum Zops cs m)
  | DTtm cs, VEin VVec => rt (ttm_to_vec_einsum Zops cs)
  | DTtm cs, VEin VNorm => rnorm (ttm_to_tensor_einsum Zops cs)
  | DP2 w fs ps, VValidate => match validate_parafac2 Zops w fs ps with Ok (s, r) => OSS s r | Err => OErr end
  | DP2 w fs ps, VSlice i => rt (parafac2_to_slice Zops w fs ps i)
  | DP2 w fs ps, VSlices => match parafac2_to_slices Zops w fs ps with Ok l => OL l | Err => OErr end
  | DP2 w fs ps, VTensor => rt (parafac2_to_tensor Zops w fs ps)
  | DP2 w fs ps, VUnfolded m => rt (parafac2_to_unfolded Zops w fs ps m)
  | DP2 w fs ps, VVec => rt (parafac2_to_vec Zops w fs ps)
  | _, _ => OBad
  end.

Fixpoint list_eqb {A} (eqb : A -> A -> bool) (a b : list A) : bool :=
  match a, b with [], [] => true | x :: a', y :: b' => eqb x y && list_eqb eqb a' b' | _, _ => false end.

(* model value n = norm^2 exactly; observed q = cp_norm (float64): compare q^2 with n *)
Definition norm_close (n q : Q) : bool :=
  Qle_bool 0 q && qclose (1 # 1000000000) (1 # 1000000000) (q * q) n.

Definition out_eqb (model obs : out) : bool :=
  match model, obs with
  | OT a, OT b => zt_eqb a b
  | OSR s r, OSR s' r' => nat_list_eqb s s' && nat_list_eqb r r'
  | OSS s r, OSS s' r' => list_eqb nat_list_eqb s s' && Nat.eqb r r'
  | OL a, OL b => list_eqb zt_eqb a b
  | ONorm n, ONorm q => norm_close n q
  | OErr, OErr => true
  | _, _ => false
  end.

Definition case := (nat * decomp * list (view * out))%type.
Definition agree (c : case) : bool :=
  let '(_, d, vs) := c in forallb (fun vo => out_eqb (run d (fst vo)) (snd vo)) vs.
Definition ident (c : case) : nat := let '(i, _, _) := c in i.
Definition failing := failing_ids agree ident.
