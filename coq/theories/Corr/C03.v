(* Correspondence for C03: run the model of the factorised-tensor modules (Model/Factorized.v, at Zops) on the
   same integer-valued decompositions as the implementation and compare every observed view bit for bit
   (cp_norm: toleranced, it goes through sqrt).  A case is one decomposition together with the list of
   (view, observed output) pairs collected over both tenalg backends, tuple / wrapper-object inputs and
   multi-step view sequences. *)
From Coq Require Import List Arith ZArith QArith Qabs Bool.
From TLV Require Import Base.Shape Base.PyList Base.Tensor Base.Ops Model.Base Model.Factorized Model.Factorized2 Corr.Common.
Import ListNotations.

Inductive decomp :=
| DCp (w : option (tensor Z)) (fs : list (tensor Z)) (mask : option (tensor Z))
| DTucker (core : tensor Z) (fs : list (tensor Z)) (skip : option nat) (tr : bool)
| DTuckerModes (core : tensor Z) (fs : list (tensor Z)) (ms : list nat)   (* tucker_to_tensor((core, fs), modes=ms), any modes (repeated ones included) *)
| DCpNum (x : Z) (mask : option (tensor Z))   (* a Python number handed to the cp_tensor functions (0-order tensor) *)
| DTtNum (x : Z)                             (* ... to the tt_tensor functions *)
| DCpG (w : option (tensor (Z * Z))) (fs : list (tensor (Z * Z)))   (* CP tensor with complex (Gaussian-integer) weights and factors *)
| DTuckerG (core : tensor (Z * Z)) (fs : list (tensor (Z * Z))) (skip : option nat) (tr : bool)   (* complex Tucker / TT / TR / TT-matrix *)
| DTtG (cores : list (tensor (Z * Z)))
| DTrG (cores : list (tensor (Z * Z)))
| DTtmG (cores : list (tensor (Z * Z)))
| DP2G (herm : bool) (w : option (tensor (Z * Z))) (fs ps : list (tensor (Z * Z)))   (* complex PARAFAC2 (complex projections included); herm: the source's orthonormality test is P^H P = I (read from the current source on every run) *)
| DTt (cores : list (tensor Z))
| DTr (cores : list (tensor Z))
| DTtm (cores : list (tensor Z))
| DP2 (w : option (tensor Z)) (fs ps : list (tensor Z))
| DP2Q (w : option (tensor Q)) (fs ps : list (tensor Q)).   (* rational entries (dyadic): the validator only (sub-orthonormal projections) *)

Inductive view :=
| VValidate | VTensor | VUnfolded (m : nat) | VUnfoldedNeg (k : nat) (* mode = -k *) | VVec | VNorm | VMatrix | VSlice (i : nat) | VSlices
| VEin (v : view).   (* view v taken under the einsum tenalg backend, for the families whose einsum route is modelled separately (CP, Tucker, TT-matrix) *)

Inductive out :=
| OT (t : tensor Z)                      (* an array *)
| OSR (s r : list nat)                   (* (shape, rank) *)
| OSS (s : list (list nat)) (r : nat)    (* PARAFAC2: (slice shapes, rank) *)
| OL (l : list (tensor Z))               (* list of arrays *)
| ONorm (q : Q)                          (* cp_norm, a float *)
| OTG (t : tensor (Z * Z))               (* a complex array with Gaussian-integer entries *)
| ONormC (re im : Q)                      (* cp_norm of a complex CP tensor: a complex float *)
| OErr                                   (* the call raised *)
| OBad.                                  (* output not representable (non-integer / non-finite entries): never agrees *)

Definition rt (r : res (tensor Z)) : out := match r with Ok t => OT t | Err => OErr end.
Definition rsr (r : res (list nat * list nat)) : out := match r with Ok (s, k) => OSR s k | Err => OErr end.

(* wrapper.norm() of the families without a factor-based norm = FactorizedTensor.norm = l2 norm of to_tensor(): the model value is
   the exact sum of squares of the reconstruction, compared with the observed float like cp_norm *)
Definition sumsq (t : tensor Z) : Z := fold_left (fun acc x => (acc + x * x)%Z) (data t) 0%Z.
Definition rnorm (r : res (tensor Z)) : out := match r with Ok t => ONorm (inject_Z (sumsq t)) | Err => OErr end.

(* _validate_parafac2_tensor on complex input: the Hermitian test dot(conj(transpose(P)), P) = I (/repo 0c112da) when herm = true - the
   harness reads from the CURRENT source which test it has; herm = false is the test before 0c112da, dot(transpose(P), P) = I *)
Definition p2g_validate (herm : bool) w fs ps := if herm then validate_parafac2_h GIops gconj w fs ps else validate_parafac2 GIops w fs ps.
Definition rtg (r : res (tensor (Z * Z))) : out := match r with Ok t => OTG t | Err => OErr end.
Definition run (d : decomp) (v : view) : out :=
  match d, v with
  | DCpG w fs, VValidate => match validate_cp w fs with Ok (s, r) => OSR s [r] | Err => OErr end
  | DCpG w fs, VTensor => rtg (cp_to_tensor GIops w fs None)
  | DCpG w fs, VUnfolded m => rtg (cp_to_unfolded GIops w fs m)
  | DCpG w fs, VVec => rtg (cp_to_vec GIops w fs)
  | DTuckerG c fs _ _, VValidate => rsr (validate_tucker c fs)
  | DTuckerG c fs skip tr, VTensor => rtg (tucker_to_tensor_conj GIops gconj c fs skip tr)
  | DTuckerG c fs skip tr, VUnfolded m => rtg (rbind (tucker_to_tensor_conj GIops gconj c fs skip tr) (fun t => unfold (0, 0)%Z t m))
  | DTuckerG c fs skip tr, VVec => rtg (rbind (tucker_to_tensor_conj GIops gconj c fs skip tr) tensor_to_vec)
  | DTtG cs, VValidate => rsr (validate_tt cs)
  | DTtG cs, VTensor => rtg (tt_to_tensor GIops cs)
  | DTtG cs, VUnfolded m => rtg (tt_to_unfolded GIops cs m)
  | DTtG cs, VVec => rtg (tt_to_vec GIops cs)
  | DTrG cs, VValidate => rsr (validate_tr cs)
  | DTrG cs, VTensor => rtg (tr_to_tensor GIops cs)
  | DTrG cs, VUnfolded m => rtg (tr_to_unfolded GIops cs m)
  | DTrG cs, VVec => rtg (tr_to_vec GIops cs)
  (* _validate_parafac2_tensor as the current source has it (flag h), then the reconstruction behind that answer (C03_parafac2_h_validated) *)
  | DP2G h w fs ps, VValidate => match p2g_validate h w fs ps with Ok (s, r) => OSS s r | Err => OErr end
  | DP2G h w fs ps, VSlice i => rtg (parafac2_to_slice_from GIops (p2g_validate h w fs ps) w fs ps i)
  | DP2G h w fs ps, VTensor => rtg (parafac2_to_tensor_from GIops (p2g_validate h w fs ps) w fs ps)
  | DP2G h w fs ps, VUnfolded m => rtg (rbind (parafac2_to_tensor_from GIops (p2g_validate h w fs ps) w fs ps) (fun t => unfold (0, 0)%Z t m))
  | DP2G h w fs ps, VVec => rtg (rbind (parafac2_to_tensor_from GIops (p2g_validate h w fs ps) w fs ps) tensor_to_vec)
  | DTtmG cs, VValidate => rsr (validate_ttm cs)
  | DTtmG cs, VTensor => rtg (ttm_to_tensor GIops cs)
  | DTtmG cs, VMatrix => rtg (ttm_to_matrix GIops cs)
  | DTtmG cs, VUnfolded m => rtg (ttm_to_unfolded GIops cs m)
  | DTtmG cs, VVec => rtg (ttm_to_vec GIops cs)
  (* cp_norm since /repo 20cafdc: w_r * conj(w_s) (Model/Factorized2.v, conj_weights = true) *)
  | DCpG w fs, VNorm => match cp_normsq_conj GIops gconj true w fs with Ok (a, b) => ONormC (inject_Z a) (inject_Z b) | Err => OErr end
  | DCp w fs _, VValidate => match validate_cp w fs with Ok (s, r) => OSR s [r] | Err => OErr end
  | DCp w fs mask, VTensor => rt (cp_to_tensor Zops w fs mask)
  | DCp w fs _, VUnfolded m => rt (cp_to_unfolded Zops w fs m)
  | DCp w fs _, VVec => rt (cp_to_vec Zops w fs)
  | DCp w fs _, VUnfoldedNeg k => rt (cp_to_unfolded_neg Zops w fs k)
  | DCp w fs _, VEin (VUnfoldedNeg k) => rt (cp_to_unfolded_from_neg_einsum Zops (validate_cp w fs) w fs k)
  | DCp w fs _, VNorm => match cp_normsq Zops w fs with Ok n => ONorm (inject_Z n) | Err => OErr end
  | DTucker c fs _ _, VValidate => rsr (validate_tucker c fs)
  | DTucker c fs skip tr, VTensor => rt (tucker_to_tensor Zops c fs skip tr)
  | DTucker c fs skip tr, VUnfolded m => rt (tucker_to_unfolded Zops c fs m skip tr)
  | DTucker c fs skip tr, VVec => rt (tucker_to_vec Zops c fs skip tr)
  | DTucker c fs _ _, VNorm => rnorm (tucker_to_tensor Zops c fs None false)
  | DTuckerModes c fs ms, VTensor | DTuckerModes c fs ms, VEin VTensor => rt (tucker_to_tensor_modes_sorted Zops c fs ms)
  | DCpNum x _, VValidate => match validate_cp_in (CpNum x) with Ok (s, r) => OSR s [r] | Err => OErr end
  | DCpNum x mask, VTensor => rt (cp_to_tensor_in Zops (CpNum x) mask)
  | DCpNum x _, VVec => rt (cp_to_vec_in Zops (CpNum x))
  | DCpNum x _, VUnfolded m => rt (cp_to_unfolded_in Zops (CpNum x) m)
  | DCpNum x _, VNorm => match cp_normsq_in Zops (CpNum x) with Ok n => ONorm (inject_Z n) | Err => OErr end
  | DTtNum x, VValidate => rsr (validate_tt_in (TtNum x))
  | DTtNum x, VTensor => rt (tt_to_tensor_in Zops (TtNum x))
  | DTtNum x, VVec => rt (tt_to_vec_in Zops (TtNum x))
  | DTtNum x, VUnfolded m => rt (tt_to_unfolded_in Zops (TtNum x) m)
  | DTt cs, VNorm => rnorm (tt_to_tensor Zops cs)
  | DTr cs, VNorm => rnorm (tr_to_tensor Zops cs)
  | DTtm cs, VNorm => rnorm (ttm_to_tensor Zops cs)
  | DP2 w fs ps, VNorm => rnorm (parafac2_to_tensor Zops w fs ps)
  | DTt cs, VValidate => rsr (validate_tt cs)
  | DTt cs, VTensor => rt (tt_to_tensor Zops cs)
  | DTt cs, VUnfolded m => rt (tt_to_unfolded Zops cs m)
  | DTt cs, VVec => rt (tt_to_vec Zops cs)
  | DTr cs, VValidate => rsr (validate_tr cs)
  | DTr cs, VTensor => rt (tr_to_tensor Zops cs)
  | DTr cs, VUnfolded m => rt (tr_to_unfolded Zops cs m)
  | DTr cs, VVec => rt (tr_to_vec Zops cs)
  | DTtm cs, VValidate => rsr (validate_ttm cs)
  | DTtm cs, VTensor => rt (ttm_to_tensor Zops cs)
  | DTtm cs, VMatrix => rt (ttm_to_matrix Zops cs)
  | DTtm cs, VUnfolded m => rt (ttm_to_unfolded Zops cs m)
  | DTtm cs, VVec => rt (ttm_to_vec Zops cs)
  | DTucker c fs skip tr, VUnfoldedNeg k => rt (unfolded_neg Zops (tucker_to_tensor Zops c fs skip tr) k)
  | DTucker c fs skip tr, VEin (VUnfoldedNeg k) => rt (unfolded_neg Zops (tucker_to_tensor_einsum_b Zops c fs skip tr) k)
  | DTt cs, VUnfoldedNeg k => rt (unfolded_neg Zops (tt_to_tensor Zops cs) k)
  | DTr cs, VUnfoldedNeg k => rt (unfolded_neg Zops (tr_to_tensor Zops cs) k)
  | DTtm cs, VUnfoldedNeg k => rt (unfolded_neg Zops (ttm_to_tensor Zops cs) k)
  | DTtm cs, VEin (VUnfoldedNeg k) => rt (unfolded_neg Zops (ttm_to_tensor_einsum Zops cs) k)
  | DP2 w fs ps, VUnfoldedNeg k => rt (unfolded_neg Zops (parafac2_to_tensor Zops w fs ps) k)
  | DCp w fs _, VEin VValidate => match validate_cp w fs with Ok (s, r) => OSR s [r] | Err => OErr end
  | DCp w fs mask, VEin VTensor => rt (cp_to_tensor_from_einsum Zops (validate_cp w fs) w fs mask)
  | DCp w fs _, VEin (VUnfolded m) => rt (cp_to_unfolded_from_einsum Zops (validate_cp w fs) w fs m)
  | DCp w fs _, VEin VVec => rt (cp_to_vec_from_einsum Zops (validate_cp w fs) w fs)
  | DCp w fs _, VEin VNorm => match cp_normsq Zops w fs with Ok n => ONorm (inject_Z n) | Err => OErr end
  | DTucker c fs _ _, VEin VValidate => rsr (validate_tucker c fs)
  | DTucker c fs skip tr, VEin VTensor => rt (tucker_to_tensor_einsum_b Zops c fs skip tr)
  | DTucker c fs skip tr, VEin (VUnfolded m) => rt (tucker_to_unfolded_einsum_b Zops c fs m skip tr)
  | DTucker c fs skip tr, VEin VVec => rt (tucker_to_vec_einsum_b Zops c fs skip tr)
  | DTucker c fs _ _, VEin VNorm => rnorm (tucker_to_tensor_einsum_b Zops c fs None false)
  | DTtm cs, VEin VValidate => rsr (validate_ttm cs)
  | DTtm cs, VEin VTensor => rt (ttm_to_tensor_einsum Zops cs)
  | DTtm cs, VEin VMatrix => rt (ttm_to_matrix_einsum Zops cs)
  | DTtm cs, VEin (VUnfolded m) => rt (ttm_to_unfolded_einsum Zops cs m)
  | DTtm cs, VEin VVec => rt (ttm_to_vec_einsum Zops cs)
  | DTtm cs, VEin VNorm => rnorm (ttm_to_tensor_einsum Zops cs)
  | DP2Q w fs ps, VValidate => match validate_parafac2 Qops w fs ps with Ok (s, r) => OSS s r | Err => OErr end
  | DP2 w fs ps, VValidate => match validate_parafac2 Zops w fs ps with Ok (s, r) => OSS s r | Err => OErr end
  | DP2 w fs ps, VSlice i => rt (parafac2_to_slice Zops w fs ps i)
  | DP2 w fs ps, VSlices => match parafac2_to_slices Zops w fs ps with Ok l => OL l | Err => OErr end
  | DP2 w fs ps, VTensor => rt (parafac2_to_tensor Zops w fs ps)
  | DP2 w fs ps, VUnfolded m => rt (parafac2_to_unfolded Zops w fs ps m)
  | DP2 w fs ps, VVec => rt (parafac2_to_vec Zops w fs ps)
  | _, _ => OBad
  end.

Fixpoint list_eqb {A} (eqb : A -> A -> bool) (a b : list A) : bool :=
  match a, b with [], [] => true | x :: a', y :: b' => eqb x y && list_eqb eqb a' b' | _, _ => false end.

(* model value n = norm^2 exactly; observed q = cp_norm (float64): compare q^2 with n *)
Definition norm_close (n q : Q) : bool :=
  Qle_bool 0 q && qclose (1 # 1000000000) (1 # 1000000000) (q * q) n.

Definition out_eqb (model obs : out) : bool :=
  match model, obs with
  | OT a, OT b => zt_eqb a b
  | OSR s r, OSR s' r' => nat_list_eqb s s' && nat_list_eqb r r'
  | OSS s r, OSS s' r' => list_eqb nat_list_eqb s s' && Nat.eqb r r'
  | OL a, OL b => list_eqb zt_eqb a b
  | ONorm n, ONorm q => norm_close n q
  | OTG a, OTG b => nat_list_eqb (shape a) (shape b) && list_eqb (fun x y => Z.eqb (fst x) (fst y) && Z.eqb (snd x) (snd y)) (data a) (data b)
  (* model value n = the Gram-Hadamard number (complex); observed q = its principal square root: compare q^2 with n *)
  | ONormC nr ni, ONormC qr qi => Qle_bool 0 qr && qclose (1 # 1000000000) (1 # 1000000000) (qr * qr - qi * qi) nr
                                  && qclose (1 # 1000000000) (1 # 1000000000) (2 * qr * qi) ni
  | OErr, OErr => true
  | _, _ => false
  end.

(* ---------- wrapper objects: a history = construction from the decomposition's contents, then views and __setitem__ calls ---------- *)
Inductive ostep :=
| SView (v : view) (o : out)
| SSetW (w : option (tensor Z))          (* CPTensor: obj[0] = w *)
| SSetF (fs : list (tensor Z))           (* CPTensor / TuckerTensor: obj[1] = fs *)
| SSetCore (c : tensor Z)                (* TuckerTensor: obj[0] = core *)
| SSetK (k : nat) (c : tensor Z).        (* TTTensor / TRTensor / TTMatrix: obj[k] = core *)

Inductive obj :=
| OCp (o : cp_obj (F:=Z)) | OTk (o : tk_obj (F:=Z)) | OTt (o : ch_obj (F:=Z)) | OTr (o : ch_obj (F:=Z)) | OTtm (o : ch_obj (F:=Z))
| OP2 (o : p2_obj (F:=Z)).

Definition obj_new (d : decomp) : res obj :=
  match d with
  | DCp w fs _ => rbind (cp_new Zops w fs) (fun o => Ok (OCp o))
  | DTucker c fs _ _ => rbind (tucker_new c fs) (fun o => Ok (OTk o))
  | DTt cs => rbind (ch_new validate_tt cs) (fun o => Ok (OTt o))
  | DTr cs => rbind (ch_new validate_tr cs) (fun o => Ok (OTr o))
  | DTtm cs => rbind (ch_new validate_ttm cs) (fun o => Ok (OTtm o))
  | DP2 w fs ps => rbind (p2_new Zops w fs ps) (fun o => Ok (OP2 o))
  | DP2Q _ _ _ => Err
  | DTuckerModes _ _ _ => Err
  | DCpNum _ _ => Err
  | DTtNum _ => Err
  | DCpG _ _ => Err
  | DTuckerG _ _ _ _ => Err
  | DTtG _ => Err
  | DTrG _ => Err
  | DTtmG _ => Err
  | DP2G _ _ _ _ => Err
  end.

(* the call arguments (mask, skip_factor, transpose_factors) are those of the decomposition the history started from *)
Definition obj_view (d : decomp) (x : obj) (v : view) : out :=
  match x, v with
  | OCp o, VValidate => OSR (cpo_shape o) [cpo_rank o]
  | OCp o, VTensor => rt (cpo_to_tensor Zops o (match d with DCp _ _ m => m | _ => None end))
  | OCp o, VUnfolded m => rt (cpo_to_unfolded Zops o m)
  | OCp o, VVec => rt (cpo_to_vec Zops o)
  | OCp o, VUnfoldedNeg k => rt (cp_to_unfolded_from_neg Zops (cpo_validate o) (cpo_weights o) (cpo_factors o) k)
  | OCp o, VEin (VUnfoldedNeg k) => rt (cp_to_unfolded_from_neg_einsum Zops (cpo_validate o) (cpo_weights o) (cpo_factors o) k)
  | OCp o, VNorm => match cpo_normsq Zops o with Ok n => ONorm (inject_Z n) | Err => OErr end
  | OCp o, VEin VValidate => OSR (cpo_shape o) [cpo_rank o]
  | OCp o, VEin VTensor => rt (cp_to_tensor_from_einsum Zops (cpo_validate o) (cpo_weights o) (cpo_factors o) (match d with DCp _ _ m => m | _ => None end))
  | OCp o, VEin (VUnfolded m) => rt (cp_to_unfolded_from_einsum Zops (cpo_validate o) (cpo_weights o) (cpo_factors o) m)
  | OCp o, VEin VVec => rt (cp_to_vec_from_einsum Zops (cpo_validate o) (cpo_weights o) (cpo_factors o))
  | OCp o, VEin VNorm => match cpo_normsq Zops o with Ok n => ONorm (inject_Z n) | Err => OErr end
  | OTk o, VValidate | OTk o, VEin VValidate => OSR (tko_shape o) (tko_rank o)
  | OTk o, v' => let '(skip, tr) := match d with DTucker _ _ s t => (s, t) | _ => (None, false) end in
                 run (DTucker (tko_core o) (tko_factors o) skip tr) v'
  | OTt o, VValidate | OTr o, VValidate | OTtm o, VValidate => OSR (cho_shape o) (cho_rank o)
  | OTtm o, VEin VValidate => OSR (cho_shape o) (cho_rank o)
  | OTt o, VTensor => rt (tt_to_tensor_from Zops (Ok (cho_shape o, cho_rank o)) (cho_cores o))
  | OTt o, VUnfolded m => rt (tt_to_unfolded_from Zops (Ok (cho_shape o, cho_rank o)) (cho_cores o) m)
  | OTt o, VVec => rt (tt_to_vec_from Zops (Ok (cho_shape o, cho_rank o)) (cho_cores o))
  | OTt o, VUnfoldedNeg k => rt (unfolded_neg Zops (tt_to_tensor_from Zops (Ok (cho_shape o, cho_rank o)) (cho_cores o)) k)
  | OTt o, VNorm => rnorm (tt_to_tensor_from Zops (Ok (cho_shape o, cho_rank o)) (cho_cores o))
  | OTt o, _ => OBad
  | OTr o, v' => run (DTr (cho_cores o)) v'
  | OTtm o, v' => run (DTtm (cho_cores o)) v'
  | OP2 o, VValidate => OSS (p2o_shape o) (p2o_rank o)
  | OP2 o, VSlice i => rt (p2o_to_slice Zops o i)
  | OP2 o, VSlices => match p2o_to_slices Zops o with Ok l => OL l | Err => OErr end
  | OP2 o, VTensor => rt (p2o_to_tensor Zops o)
  | OP2 o, VUnfolded m => rt (rbind (p2o_to_tensor Zops o) (fun t => unfold 0%Z t m))
  | OP2 o, VVec => rt (rbind (p2o_to_tensor Zops o) tensor_to_vec)
  | OP2 o, VUnfoldedNeg k => rt (unfolded_neg Zops (p2o_to_tensor Zops o) k)
  | OP2 o, VNorm => rnorm (p2o_to_tensor Zops o)
  | _, _ => OBad
  end.

Definition obj_set (x : obj) (s : ostep) : res obj :=
  match x, s with
  | OCp o, SSetW w => Ok (OCp (cp_set_weights o w))
  | OCp o, SSetF fs => Ok (OCp (cp_set_factors o fs))
  | OTk o, SSetCore c => Ok (OTk (tk_set_core o c))
  | OTk o, SSetF fs => Ok (OTk (tk_set_factors o fs))
  | OTt o, SSetK k c => rbind (ch_set o k c) (fun o' => Ok (OTt o'))
  | OTr o, SSetK k c => rbind (ch_set o k c) (fun o' => Ok (OTr o'))
  | OTtm o, SSetK k c => rbind (ch_set o k c) (fun o' => Ok (OTtm o'))
  | _, _ => Err
  end.

Fixpoint run_steps (d : decomp) (x : obj) (steps : list ostep) : bool :=
  match steps with
  | [] => true
  | SView v o :: r => out_eqb (obj_view d x v) o && run_steps d x r
  | s :: r => match obj_set x s with Ok x' => run_steps d x' r | Err => false end
  end.

(* constructed = the wrapper constructor succeeded (it must succeed exactly when the model's validation accepts) *)
Definition agree_obj (d : decomp) (constructed : bool) (steps : list ostep) : bool :=
  match obj_new d with
  | Ok x => constructed && run_steps d x steps
  | Err => negb constructed
  end.

Inductive case :=
| CViews (id : nat) (d : decomp) (vs : list (view * out))
| CObj (id : nat) (d : decomp) (constructed : bool) (steps : list ostep).
Definition agree (c : case) : bool :=
  match c with
  | CViews _ d vs => forallb (fun vo => out_eqb (run d (fst vo)) (snd vo)) vs
  | CObj _ d k steps => agree_obj d k steps
  end.
Definition ident (c : case) : nat := match c with CViews i _ _ => i | CObj i _ _ _ => i end.
Definition failing := failing_ids agree ident.
