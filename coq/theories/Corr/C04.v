(* Correspondence for C04: run Model/Transforms.v on the inputs given to the implementation (plus the recorded
   oracle answers) and compare with the implementation's outputs: bit-exact on Z, toleranced on Q. *)
From Coq Require Import List Arith ZArith QArith Qabs Bool.
From TLV Require Import Base.Shape Base.PyList Base.Tensor Base.Ops Model.Transforms Corr.Common.
Import ListNotations.

Fixpoint list_eqb {A} (eqb : A -> A -> bool) (a b : list A) : bool :=
  match a, b with [], [] => true | x :: a', y :: b' => eqb x y && list_eqb eqb a' b' | _, _ => false end.
Definition zmat_eqb : mat Z -> mat Z -> bool := list_eqb z_list_eqb.
Definition zcp_eqb (a b : list Z * list (mat Z)) : bool :=
  z_list_eqb (fst a) (fst b) && list_eqb zmat_eqb (snd a) (snd b).

Definition ATOL : Q := Qmake 1 1000000000000.
Definition RTOL : Q := Qmake 1 1000000000.
Definition qv_close : list Q -> list Q -> bool := q_list_close ATOL RTOL.
Definition qmat_close : mat Q -> mat Q -> bool := list_eqb qv_close.
Definition qcp_close (a b : list Q * list (mat Q)) : bool :=
  qv_close (fst a) (fst b) && list_eqb qmat_close (snd a) (snd b).

(* contract of the square-root tape: s >= 0 and s*s = sum of squares of the column (relative 1e-9) *)
Definition norm_okb (rk : nat) (sc : list Q) (A : mat Q) : bool :=
  Nat.eqb (length sc) rk &&
  forallb (fun r => let s := vget Qops sc r in
                    Qle_bool 0 s && qclose ATOL RTOL (Qred (s * s)) (colsumsq Qops A r)) (seq 0 rk).
Fixpoint tape_okb (rk : nat) (tape : list (list Q)) (fs : list (mat Q)) : bool :=
  match tape, fs with
  | [], [] => true
  | sc :: t', A :: f' => norm_okb rk sc A && tape_okb rk t' f'
  | _, _ => false
  end.

Inductive body :=
| ZDense (w : list Z) (fs : list (mat Z)) (expected : tensor Z)
| ZFlip (w : list Z) (fs : list (mat Z)) (mode : nat) (expected : res (list Z * list (mat Z)))
| ZPerm (p : list nat) (w : list Z) (fs : list (mat Z)) (expected : res (list Z * list (mat Z)))
| ZModeDot (w : list Z) (fs : list (mat Z)) (x : operand (F:=Z)) (mode : nat) (keep_dim : bool)
           (expected : res (list Z * list (mat Z)))
| QNorm (tape : list (list Q)) (w : list Q) (fs : list (mat Q)) (expected : list Q * list (mat Q)).

Definition agree_body (b : body) : bool :=
  match b with
  | ZDense w fs e => zt_eqb (cp_to_tensor Zops w fs) e
  | ZFlip w fs m e => res_eqb zcp_eqb (cp_flip_sign Zops (col_sum Zops) w fs m) e
  | ZPerm p w fs e => res_eqb zcp_eqb (cp_permute Zops p w fs) e
  | ZModeDot w fs x m kd e => res_eqb zcp_eqb (cp_mode_dot Zops w fs x m kd) e
  | QNorm tape w fs e =>
      tape_okb (length w) tape (norm_inputs Qops w fs) && qcp_close (cp_normalize Qops tape w fs) e
  end.

Definition case := (nat * body)%type.
Definition agree (c : case) : bool := agree_body (snd c).
Definition ident (c : case) : nat := fst c.
Definition failing := failing_ids agree ident.
