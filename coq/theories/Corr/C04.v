(* Correspondence for C04: run Model/Transforms.v on the inputs given to the implementation (plus the recorded
   oracle answers) and compare with the implementation's outputs: bit-exact on Z, toleranced on Q. *)
From Coq Require Import List Arith ZArith QArith Qabs Qround Bool.
From TLV Require Import Base.Shape Base.PyList Base.Tensor Base.Ops Model.Transforms Model.TransformsApi Model.TransformsHeap Model.TransformsCplx Model.TransformsRT Model.TransformsTkObj Model.TransformsPfHeap Model.TransformsTkObj8 Model.TransformsPfObj Corr.Common.
Import ListNotations.

Fixpoint list_eqb {A} (eqb : A -> A -> bool) (a b : list A) : bool :=
  match a, b with [], [] => true | x :: a', y :: b' => eqb x y && list_eqb eqb a' b' | _, _ => false end.
Definition zmat_eqb : mat Z -> mat Z -> bool := list_eqb z_list_eqb.
Definition zcp_eqb (a b : list Z * list (mat Z)) : bool :=
  z_list_eqb (fst a) (fst b) && list_eqb zmat_eqb (snd a) (snd b).

Definition ATOL : Q := Qmake 1 1000000000000.
Definition RTOL : Q := Qmake 1 1000000000.
Definition qv_close : list Q -> list Q -> bool := q_list_close ATOL RTOL.
Definition qmat_close : mat Q -> mat Q -> bool := list_eqb qv_close.
Definition qcp_close (a b : list Q * list (mat Q)) : bool :=
  qv_close (fst a) (fst b) && list_eqb qmat_close (snd a) (snd b).

(* contract of the square-root tape: s >= 0 and s*s = sum of squares of the column (relative 1e-9) *)
Definition norm_okb (rk : nat) (sc : list Q) (A : mat Q) : bool :=
  Nat.eqb (length sc) rk &&
  forallb (fun r => let s := vget Qops sc r in
                    Qle_bool 0 s && qclose ATOL RTOL (Qred (s * s)) (colsumsq Qops A r)) (seq 0 rk).
Fixpoint tape_okb (rk : nat) (tape : list (list Q)) (fs : list (mat Q)) : bool :=
  match tape, fs with
  | [], [] => true
  | sc :: t', A :: f' => norm_okb rk sc A && tape_okb rk t' f'
  | _, _ => false
  end.

Definition zts_eqb : list (tensor Z) -> list (tensor Z) -> bool := list_eqb zt_eqb.
Definition ztk_eqb (a b : tensor Z * list (mat Z)) : bool := zt_eqb (fst a) (fst b) && list_eqb zmat_eqb (snd a) (snd b).
Definition qtk_close (a b : tensor Q * list (mat Q)) : bool :=
  qt_close ATOL RTOL (fst a) (fst b) && list_eqb qmat_close (snd a) (snd b).
Fixpoint tk_tape_okb (sh : list nat) (tape : list (list Q)) (fs : list (mat Q)) : bool :=
  match sh, tape, fs with
  | [], [], [] => true
  | n :: sh', sc :: t', A :: f' => norm_okb n sc A && tk_tape_okb sh' t' f'
  | _, _, _ => false
  end.
Definition opt_close (a b : option (mat Q)) : bool :=
  match a, b with None, None => true | Some x, Some y => qmat_close x y | _, _ => false end.
Definition slice_close (a b : mat Q * option (mat Q)) : bool := qmat_close (fst a) (fst b) && opt_close (snd a) (snd b).
(* contract of a complete SVD answer: U diag(s) Vh = X *)
Definition svd_okb (X : mat Q) (usv : mat Q * list Q * mat Q) : bool :=
  let '(U, s, Vh) := usv in qmat_close (matmul Qops U (scale_rows Qops s Vh)) X.
Fixpoint svds_okb (full : list bool) (Xs : list (mat Q)) (tapes : list (mat Q * list Q * mat Q)) : bool :=
  match full, Xs, tapes with
  | [], [], [] => true
  | b :: f', X :: x', t :: t' => (if b then svd_okb X t else true) && svds_okb f' x' t'
  | _, _, _ => false
  end.

(* mode products are compared at the level the property speaks about: the represented dense tensor (and its shape),
   not the particular factor that absorbed a contracted vector *)
Definition zcp_dense_eqb (a b : list Z * list (mat Z)) : bool :=
  zt_eqb (cp_to_tensor Zops (fst a) (snd a)) (cp_to_tensor Zops (fst b) (snd b)).
Definition ztk_dense_eqb (a b : tensor Z * list (mat Z)) : bool :=
  Nat.eqb (length (snd a)) (length (snd b)) &&
  zt_eqb (tucker_to_tensor Zops (fst a) (snd a)) (tucker_to_tensor Zops (fst b) (snd b)).
(* compressed slices are compared through what they represent: loading x score (the score itself when nothing was compressed) *)
Definition recon (p : mat Q * option (mat Q)) : mat Q :=
  match snd p with Some L => matmul Qops L (fst p) | None => fst p end.
Definition recon_close (a b : mat Q * option (mat Q)) : bool := qmat_close (recon a) (recon b).

(* the operand in the form the harness used: a CPTensor object built by the validating constructor, or the plain tuple *)
Definition mk_operand (is_class : bool) (w : option (list Z)) (fs : list (mat Z)) : res (cp_operand (F:=Z)) :=
  if is_class then match cp_new Zops w fs with Ok o => Ok (CpObject o) | Err => Err end else Ok (CpTuple w fs).
Definition res_eqb2 {A B} (eqb : A -> B -> bool) (a : res A) (b : res B) : bool :=
  match a, b with Ok x, Ok y => eqb x y | Err, Err => true | _, _ => false end.
(* result object vs (shape attribute, (weights, factors)) reported by the implementation: cached shape exactly, contents through cmp *)
Definition obj_eqb (cmp : list Z * list (mat Z) -> list Z * list (mat Z) -> bool) (o : cp_obj (F:=Z))
  (e : list nat * (list Z * list (mat Z))) : bool :=
  nat_list_eqb (cpo_shape o) (fst e) && cmp (cpo_w o, cpo_fs o) (snd e).

(* ---- round 5: validating constructors (Model/TransformsApi.v) and the heap model of the copy flag (Model/TransformsHeap.v) *)
Fixpoint list_eqb2 {A B} (eqb : A -> B -> bool) (a : list A) (b : list B) : bool :=
  match a, b with [], [] => true | x :: a', y :: b' => eqb x y && list_eqb2 eqb a' b' | _, _ => false end.
Definition qclose5 (x y : Q) : bool := Qle_bool (Qabs (x - y)) (Qmake 1 100000).      (* the code's orthonormality test: max |P^T P - I| <= 1e-5 *)
Definition nat_lists_eqb : list (list nat) -> list (list nat) -> bool := list_eqb nat_list_eqb.
Definition mk_pf2 (is_class : bool) (w : option (list Z)) (fs Ps : list (mat Z)) : res (pf2_operand (F:=Z)) :=
  if is_class then match pf2_new Zops Z.eqb w fs Ps with Ok o => Ok (Pf2Object o) | Err => Err end else Ok (Pf2Tuple w fs Ps).
(* the heap the harness built: the arrays it holds, ONE factor list (possibly naming an array twice), and for an object operand
   the CPTensor built from them *)
Definition heap0 (arrs : list (mat Z)) (ls : list nat) (w : option nat) (is_class : bool) : heap (F:=Z) * href :=
  if is_class then
    (mk_heap arrs [ls] [mk_cell (cp_shape (map (fun l => nth l arrs []) ls)) (match w with Some l => l | None => 0 end) 0], RObject 0)
  else (mk_heap arrs [ls] [], RTuple w 0).
(* copy=True : the caller's arrays and list are untouched and the result shares no memory with them;
   copy=False: no caller-held array is clobbered silently (it keeps its value or is owned by the result) *)
Fixpoint no_clobberb (before after : list (mat Z)) (shared : list bool) : bool :=
  match before, after, shared with
  | [], [], [] => true
  | b :: bs, a :: as_, s :: ss => (zmat_eqb b a || s) && no_clobberb bs as_ ss
  | _, _, _ => false
  end.
Definition alias_okb (copy : bool) (before after : list (mat Z)) (shared : list bool) (list_same : bool) : bool :=
  if copy then list_eqb zmat_eqb before after && negb (existsb (fun b => b) shared) && list_same && Nat.eqb (length shared) (length before)
  else no_clobberb before after shared.
Definition model_alias (copy : bool) (arrs : list (mat Z)) (ls : list nat) (h' : heap (F:=Z)) (o : nat) : bool :=
  alias_okb copy arrs (firstn (length arrs) (h_arr h'))
            (map (fun i => existsb (Nat.eqb i) (owned h' o)) (seq 0 (length arrs)))
            (nat_list_eqb (lst h' 0) ls).

(* tucker_mode_dot on the heap: arrays and core never change; copy=True: the caller's list untouched, nothing shared with the result *)
Definition tk_alias_okb (copy : bool) (before after : list (mat Z)) (core core_after : tensor Z) (shared : list bool) (core_shared list_same : bool) : bool :=
  list_eqb zmat_eqb before after && zt_eqb core core_after &&
  (if copy then negb (existsb (fun b => b) shared) && negb core_shared && list_same else true).
(* round 6: the same on Q (cp_normalize), object methods, item assignment *)
Definition heap0q (arrs : list (mat Q)) (ls : list nat) (w : option nat) (is_class : bool) : heap (F:=Q) * href :=
  if is_class then
    (mk_heap arrs [ls] [mk_cell (cp_shape (map (fun l => nth l arrs []) ls)) (match w with Some l => l | None => 0%nat end) 0%nat], RObject 0%nat)
  else (mk_heap arrs [ls] [], RTuple w 0%nat).
Definition qmat_same : mat Q -> mat Q -> bool := list_eqb (list_eqb Qeq_bool).
(* an all-fresh answer: the caller's arrays and list untouched, no memory shared *)
Definition fresh_okq (before after : list (mat Q)) (shared : list bool) (list_same : bool) : bool :=
  list_eqb qmat_same before after && negb (existsb (fun b => b) shared) && list_same && Nat.eqb (length shared) (length before).
Definition qobj_close (o : cp_obj (F:=Q)) (e : list nat * (list Q * list (mat Q))) : bool :=
  nat_list_eqb (cpo_shape o) (fst e) && qcp_close (cpo_w o, cpo_fs o) (snd e).
Definition owned_any {F} (h' : heap (F:=F)) (objs : list nat) (n : nat) : list bool :=
  map (fun i => existsb (fun o => existsb (Nat.eqb i) (owned h' o)) objs) (seq 0%nat n).

(* ---- round 7: complex-valued cores (Gaussian integers, Model/TransformsCplx.v); the compress -> fit -> decompress pipeline on
   slice lists of mixed heights (Model/TransformsRT.v) *)
Definition g_eqb (a b : Z * Z) : bool := Z.eqb (fst a) (fst b) && Z.eqb (snd a) (snd b).
Definition gt_eqb (a b : tensor (Z * Z)) : bool := nat_list_eqb (shape a) (shape b) && list_eqb g_eqb (data a) (data b).
Definition gts_eqb : list (tensor (Z * Z)) -> list (tensor (Z * Z)) -> bool := list_eqb gt_eqb.
Definition g_dense (ring : bool) (cores : list (tensor (Z * Z))) : tensor (Z * Z) :=
  if ring then tr_to_tensor Gops cores else tt_to_tensor Gops cores.
Definition gcp_dense_eqb (a b : list (Z * Z) * list (mat (Z * Z))) : bool :=
  gt_eqb (cp_to_tensor Gops (fst a) (snd a)) (cp_to_tensor Gops (fst b) (snd b)).
Definition gtk_dense_eqb (a b : tensor (Z * Z) * list (mat (Z * Z))) : bool :=
  Nat.eqb (length (snd a)) (length (snd b)) && gt_eqb (tucker_to_tensor Gops (fst a) (snd a)) (tucker_to_tensor Gops (fst b) (snd b)).
Definition order3b {F} (cores : list (tensor F)) : bool := forallb (fun G => Nat.eqb (length (shape G)) 3) cores.

(* TuckerTensor objects on the heap (Model/TransformsTkObj.v): the harness's object is cell 0 of the heap built from its core, arrays and list *)
(* round 8: Parafac2Tensor objects: shape attribute, rank attribute, (weights, factors, projections) held *)
Definition pf_obs := (list (list nat) * nat * (list Z * list (mat Z) * list (mat Z)))%type.
Definition pf_observe (h : poheap (F:=Z)) (cells : list pcell) (o : nat) : pf_obs :=
  (pc_shape (pcellr cells o), pc_rank (pcellr cells o), pobj_read h cells o).
Definition pfobs_eqb (a b : pf_obs) : bool :=
  let '(sa, ra, (wa, fa, pa)) := a in let '(sb, rb, (wb, fb, pb)) := b in
  list_eqb (list_eqb Nat.eqb) sa sb && Nat.eqb ra rb && z_list_eqb wa wb && list_eqb zmat_eqb fa fb && list_eqb zmat_eqb pa pb.
Definition tk_obs (F : Type) := (list nat * list nat * (tensor F * list (mat F)))%type.      (* shape attribute, rank attribute, (core, factors) held *)
Definition tk_observe {F} (th : theap (F:=F)) (cells : list tcell) (o : nat) : tk_obs F :=
  (tc_shape (tcellr cells o), tc_rank (tcellr cells o), tobj_read th cells o).
Definition ztk_struct_eqb (a b : tensor Z * list (mat Z)) : bool := zt_eqb (fst a) (fst b) && list_eqb zmat_eqb (snd a) (snd b).
Definition zobs_eqb (cmp : tensor Z * list (mat Z) -> tensor Z * list (mat Z) -> bool) (a b : tk_obs Z) : bool :=
  nat_list_eqb (fst (fst a)) (fst (fst b)) && nat_list_eqb (snd (fst a)) (snd (fst b)) && cmp (snd a) (snd b).
Definition qobs_close (a b : tk_obs Q) : bool :=
  nat_list_eqb (fst (fst a)) (fst (fst b)) && nat_list_eqb (snd (fst a)) (snd (fst b)) && qtk_close (snd a) (snd b).

Inductive body :=
| ZDense (w : list Z) (fs : list (mat Z)) (expected : tensor Z)
| ZFlip (w : list Z) (fs : list (mat Z)) (mode : nat) (expected : res (list Z * list (mat Z)))
| ZPerm (p : list nat) (w : list Z) (fs : list (mat Z)) (expected : res (list Z * list (mat Z)))
| ZModeDot (w : list Z) (fs : list (mat Z)) (x : operand (F:=Z)) (mode : nat) (keep_dim : bool)
           (expected : res (list Z * list (mat Z)))
| QNorm (tape : list (list Q)) (w : list Q) (fs : list (mat Q)) (expected : list Q * list (mat Q))
| ZTTDense (ring : bool) (cores : list (tensor Z)) (expected : tensor Z)
| ZPad (cores : list (tensor Z)) (npad : nat) (pb : bool) (expected : res (list (tensor Z)))
| ZTkDense (core : tensor Z) (fs : list (mat Z)) (expected : tensor Z)
| ZTkDot (core : tensor Z) (fs : list (mat Z)) (x : operand (F:=Z)) (mode : nat) (keep_dim : bool)
         (expected : res (tensor Z * list (mat Z)))
| QTkNorm (tape : list (list Q)) (core : tensor Q) (fs : list (mat Q)) (expected : tensor Q * list (mat Q))
| QPf2Norm (tape : list (list Q)) (w : list Q) (A B C : mat Q) (expected : list Q * list (mat Q))
| ZPf2Slice (w : list Z) (A B C : mat Z) (Ps : list (mat Z)) (i : nat) (expected : mat Z)
| ZDecomp (w : list Z) (A B C : mat Z) (Ps : list (mat Z)) (Ls : list (option (mat Z))) (expected : res (list (mat Z)))
| QFromCP (Qm Rm : mat Q) (w : list Q) (A B C : mat Q) (expected : list Q * list (mat Q) * list (mat Q))
| QCompress (slices : list (mat Q)) (thr : Q) (max_rank : option nat) (tapes : list (mat Q * list Q * mat Q))
            (full : list bool) (expected : list (mat Q * option (mat Q)))
| ZModeDotApi (is_class copy : bool) (w : option (list Z)) (fs : list (mat Z)) (x : operand (F:=Z)) (mode : nat) (keep_dim : bool)
              (expected : res (list nat * (list Z * list (mat Z))))       (* the result's .shape attribute, weights, factors *)
| ZFlipApi (is_class : bool) (w : option (list Z)) (fs : list (mat Z)) (mode : nat) (expected : res (list nat * (list Z * list (mat Z))))
| ZPermList (ps : list (list nat)) (ts : list (list Z * list (mat Z))) (expected : res (list (list Z * list (mat Z))))
| ZTTMDense (cores : list (tensor Z)) (expected : tensor Z)
| ZModeDotZ (w : list Z) (fs : list (mat Z)) (x : operand (F:=Z)) (mode : Z) (keep_dim : bool) (expected : res (list Z * list (mat Z)))
| ZTkDotZ (core : tensor Z) (fs : list (mat Z)) (x : operand (F:=Z)) (mode : Z) (keep_dim : bool) (expected : res (tensor Z * list (mat Z)))
| ZFlipZ (w : list Z) (fs : list (mat Z)) (mode : Z) (expected : res (list Z * list (mat Z)))
| ZPf2New (w : option (list Z)) (fs Ps : list (mat Z)) (expected : res (list (list nat) * nat))     (* Parafac2Tensor(...): shape, rank attributes *)
| ZDecompApi (is_class : bool) (w : option (list Z)) (fs Ps : list (mat Z)) (Ls : list (option (mat Z)))
             (expected : res (list (list nat) * list (mat Z)))                                       (* shape attribute, projections *)
| QPf2NormApi (tape : list (list Q)) (w : option (list Q)) (fs Ps : list (mat Q)) (expected : res (list (list nat)))
| QFromApi (Qm Rm : mat Q) (w : option (list Q)) (fs : list (mat Q)) (expected : res (list (list nat)))
| ZFromPf2 (is_class ok : bool) (w : option (list Z)) (fs Ps : list (mat Z)) (expected : res (list (list nat)))
| ZTkNew (core : tensor Z) (fs : list (mat Z)) (expected : res (list nat * list nat))               (* TuckerTensor(...): shape, rank *)
| ZTkDotApi (core : tensor Z) (fs : list (mat Z)) (x : operand (F:=Z)) (mode : Z) (keep_dim : bool) (expected : res (list nat * list nat))
| QTkNormApi (tape : list (list Q)) (core : tensor Q) (fs : list (mat Q)) (expected : res (list nat * list nat))
| ZHeapDot (inplace : bool) (arrs : list (mat Z)) (ls : list nat) (w : option nat) (is_class copy : bool) (x : operand (F:=Z)) (mode : nat) (keep_dim : bool)
           (expected : res (list nat * (list Z * list (mat Z)))) (after : list (mat Z)) (shared : list bool) (list_same : bool)
| ZHeapSeq (arrs : list (mat Z)) (ls : list nat) (w : option nat) (is_class : bool) (ops : list (nat * operand (F:=Z) * nat * bool))
           (expected : res (list (list nat * (list Z * list (mat Z))))) (after : list (mat Z)) (shared : list bool) (list_same : bool)
| ZTkHeap (core : tensor Z) (arrs : list (mat Z)) (ls : list nat) (copy : bool) (x : operand (F:=Z)) (mode : nat) (keep_dim : bool)
          (expected : res (tensor Z * list (mat Z))) (after : list (mat Z)) (core_after : tensor Z) (shared : list bool) (core_shared list_same : bool)
| ZHeapFlip (arrs : list (mat Z)) (ls : list nat) (w : option nat) (is_class : bool) (mode : nat)
            (expected : res (list nat * (list Z * list (mat Z)))) (after : list (mat Z)) (shared : list bool) (list_same : bool)
| ZHeapPerm (p : list nat) (arrs : list (mat Z)) (ls : list nat) (w : nat)
            (expected : res (list nat * (list Z * list (mat Z)))) (after : list (mat Z)) (shared : list bool) (list_same : bool)
| QHeapNorm (tape : list (list Q)) (arrs : list (mat Q)) (ls : list nat) (w : option nat) (is_class : bool) (meth : nat)
            (expected : res (list nat * (list Q * list (mat Q)))) (after : list (mat Q)) (shared : list bool) (list_same self_is_result : bool)
| ZHeapStale (inplace refresh : bool) (arrs : list (mat Z)) (ls newls : list nat) (w : nat) (copy : bool) (x : operand (F:=Z)) (mode : nat) (keep_dim : bool)
             (expected : res (list nat * (list Z * list (mat Z))))
| QTkNormBc (tape : list (list Q)) (core : tensor Q) (fs : list (mat Q)) (expected : res (list nat * list nat * (tensor Q * list (mat Q))))
| GPad (ring : bool) (cores : list (tensor (Z * Z))) (npad : nat) (pb : bool) (expected : res (list (tensor (Z * Z))))
| GTTDense (ring : bool) (cores : list (tensor (Z * Z))) (expected : tensor (Z * Z))
| GModeDot (w : list (Z * Z)) (fs : list (mat (Z * Z))) (x : operand (F:=Z * Z)) (mode : Z) (keep_dim : bool)
           (expected : res (list (Z * Z) * list (mat (Z * Z))))
| GTkDot (core : tensor (Z * Z)) (fs : list (mat (Z * Z))) (x : operand (F:=Z * Z)) (mode : Z) (keep_dim : bool)
         (expected : res (tensor (Z * Z) * list (mat (Z * Z))))
| ZDecompHeap (arrs : list (mat Z)) (ls : list nat) (Ls : list (option (mat Z))) (expected : res (list (mat Z)))
              (after : list (mat Z)) (shared : list bool) (list_same : bool)
| QRoundTrip (slices : list (mat Q)) (max_rank : option nat) (tapes : list (mat Q * list Q * mat Q)) (full : list bool)
             (w : list Q) (A B C : mat Q) (Qs : list (mat Q)) (expected : res (list (mat Q)))
| ZTkObjDot (core : tensor Z) (arrs : list (mat Z)) (ls : list nat) (copy : bool) (x : operand (F:=Z)) (mode : nat) (keep_dim : bool)
            (expected : res (tk_obs Z * tk_obs Z * bool))        (* the result object, the operand object afterwards, is the operand still a valid Tucker tensor *)
| QTkObjNorm (tape : list (list Q)) (core : tensor Q) (arrs : list (mat Q)) (ls : list nat) (expected : res (tk_obs Q))
| ZTkObjSet (core : tensor Z) (arrs : list (mat Z)) (ls newls : list nat) (expected : res (tk_obs Z * bool))
| ZTkObjCopy (core : tensor Z) (arrs : list (mat Z)) (ls : list nat) (expected : res (tk_obs Z)) (shares : bool)
| ZPfObjDecomp (w : list Z) (fs : list (mat Z)) (arrs : list (mat Z)) (ls : list nat) (Ls : list (option (mat Z))) (expected : res (pf_obs * pf_obs))
| ZTkObjSetIdx (idx : nat) (core newcore : tensor Z) (arrs : list (mat Z)) (ls newls : list nat) (expected : res (tk_obs Z * bool)) (reads_back : bool)
| QAlign (norm_t : bool) (rw : list Q) (rfs : list (mat Q)) (tw : list Q) (tfs : list (mat Q)) (tA tB : list (list Q)) (perm : list nat).

Definition agree_body (b : body) : bool :=
  match b with
  | ZDense w fs e => zt_eqb (cp_to_tensor Zops w fs) e
  | ZFlip w fs m e => res_eqb zcp_eqb (cp_flip_sign Zops (col_sum Zops) w fs m) e
  | ZPerm p w fs e => res_eqb zcp_eqb (cp_permute Zops p w fs) e
  | ZModeDot w fs x m kd e => res_eqb zcp_dense_eqb (cp_mode_dot Zops w fs x m kd) e
  | QNorm tape w fs e =>
      tape_okb (length w) tape (norm_inputs Qops w fs) && qcp_close (cp_normalize Qops tape w fs) e
  | ZTTDense ring cores e => zt_eqb (if ring then tr_to_tensor Zops cores else tt_to_tensor Zops cores) e
  | ZPad cores npad pb e => res_eqb zts_eqb (pad_tt_rank Zops cores npad pb) e
  | ZTkDense core fs e => zt_eqb (tucker_to_tensor Zops core fs) e
  | ZTkDot core fs x m kd e => res_eqb ztk_dense_eqb (tucker_mode_dot Zops core fs x m kd) e
  | QTkNorm tape core fs e =>
      tk_tape_okb (shape core) tape fs && qtk_close (tucker_normalize Qops tape core fs) e
  | QPf2Norm tape w A B C e =>
      tape_okb (length w) tape (norm_inputs Qops w [A; B; C]) &&
      qcp_close (fst (parafac2_normalise Qops tape w A B C [])) e
  | ZPf2Slice w A B C Ps i e => zmat_eqb (pf2_slice Zops w A B C Ps i) e
  | ZDecomp w A B C Ps Ls e =>
      match svd_decompress Zops w A B C Ps Ls, e with
      | Ok (_, _, ps), Ok e' => list_eqb zmat_eqb ps e' && forallb (orthob Zops Z.eqb (length w)) e'
      | Err, Err => true
      | _, _ => false
      end
  | QFromCP Qm Rm w A B C e =>
      qmat_close (matmul Qops Qm Rm) B && orthob Qops (qclose ATOL RTOL) (length w) Qm &&
      forallb (orthob Qops (qclose ATOL RTOL) (length w)) (snd e) &&
      (let '(w', fs', ps') := from_cp Qm Rm w A B C in
       let '(ew, efs, eps) := e in
       qv_close w' ew && list_eqb qmat_close fs' efs && list_eqb qmat_close ps' eps)
  | QCompress slices thr mr tapes full e =>
      svds_okb full slices tapes && list_eqb recon_close (svd_compress Qops slices thr mr tapes) e &&
      forallb (fun p => match snd p with Some L => orthob Qops (qclose ATOL RTOL) (ncols L) L | None => true end) e
  | ZModeDotApi cl cp w fs x m kd e =>
      res_eqb2 (obj_eqb zcp_dense_eqb) (rbind (mk_operand cl w fs) (fun o => cp_mode_dot_api Zops o cp x m kd)) e
  | ZFlipApi cl w fs m e =>
      res_eqb2 (obj_eqb zcp_eqb) (rbind (mk_operand cl w fs) (fun o => cp_flip_sign_api Zops o (col_sum Zops) m)) e
  | ZPermList ps ts e => res_eqb (list_eqb zcp_eqb) (cp_permute_list Zops ps ts) e
  | ZTTMDense cores e => zt_eqb (ttm_to_tensor Zops cores) e
  | ZModeDotZ w fs x m kd e => res_eqb zcp_dense_eqb (cp_mode_dot_z Zops w fs x m kd) e
  | ZTkDotZ core fs x m kd e => res_eqb ztk_dense_eqb (tucker_mode_dot_z Zops core fs x m kd) e
  | ZFlipZ w fs m e => res_eqb zcp_eqb (cp_flip_sign_z Zops (col_sum Zops) w fs m) e
  | ZPf2New w fs Ps e =>
      res_eqb2 (fun o e' => nat_lists_eqb (pfo_shape o) (fst e') && Nat.eqb (pfo_rank o) (snd e')) (pf2_new Zops Z.eqb w fs Ps) e
  | ZDecompApi cl w fs Ps Ls e =>
      res_eqb2 (fun o e' => nat_lists_eqb (pfo_shape o) (fst e') && list_eqb zmat_eqb (pfo_ps o) (snd e'))
               (rbind (mk_pf2 cl w fs Ps) (fun x => svd_decompress_api Zops Z.eqb x Ls)) e
  | QPf2NormApi tape w fs Ps e =>
      res_eqb2 (fun o e' => nat_lists_eqb (pfo_shape o) e') (parafac2_normalise_api Qops qclose5 tape (Pf2Tuple w fs Ps)) e
  | QFromApi Qm Rm w fs e =>
      res_eqb2 (fun o e' => nat_lists_eqb (pfo_shape o) e') (from_cp_api Qops qclose5 Qm Rm (FromCp (CpTuple w fs)) false) e
  | ZFromPf2 cl ok w fs Ps e =>
      res_eqb2 (fun o e' => nat_lists_eqb (pfo_shape o) e')
               (rbind (mk_pf2 cl w fs Ps) (fun x => from_cp_api Zops Z.eqb [] [] (FromPf2 x) ok)) e
  | ZTkNew core fs e =>
      res_eqb2 (fun o e' => nat_list_eqb (tko_shape o) (fst e') && nat_list_eqb (tko_rank o) (snd e')) (tucker_new core fs) e
  | ZTkDotApi core fs x m kd e =>
      res_eqb2 (fun o e' => nat_list_eqb (tko_shape o) (fst e') && nat_list_eqb (tko_rank o) (snd e')) (tucker_mode_dot_api Zops core fs x m kd) e
  | QTkNormApi tape core fs e =>
      res_eqb2 (fun o e' => nat_list_eqb (tko_shape o) (fst e') && nat_list_eqb (tko_rank o) (snd e')) (tucker_normalize_api Qops tape core fs) e &&
      match tucker_normalize_api Qops tape core fs, tucker_normalize_bc Qops tape core fs with      (* the broadcasting model agrees *)
      | Ok a, Ok b => qtk_close (tko_core a, tko_fs a) (tko_core b, tko_fs b) && nat_list_eqb (tko_shape a) (tko_shape b)
      | Err, Err => true
      | _, _ => false
      end
  | ZHeapDot inplace arrs ls w cl cp x m kd e after shared same =>
      let (h0, r) := heap0 arrs ls w cl in
      match cp_mode_dot_h_src Zops inplace h0 r cp x m kd, e with
      | Ok (h', o), Ok e' =>
          obj_eqb zcp_dense_eqb (read_obj h' o) e' &&
          Bool.eqb (model_alias cp arrs ls h' o) (alias_okb cp arrs after shared same)
      | Err, Err => true
      | _, _ => false
      end
  | ZHeapSeq arrs ls w cl ops e after shared same =>
      (* a history of copy=True calls, each on any tensor seen so far: every result's value and shape attribute; the caller's
         arrays and list untouched, no memory shared with any result *)
      let (h0, r) := heap0 arrs ls w cl in
      match run_ops Zops h0 [r] ops, e with
      | Ok (h', refs'), Ok es =>
          let objs := flat_map (fun rf => match rf with RObject o => [o] | RTuple _ _ => [] end) (tl refs') in
          list_eqb2 (fun o e' => obj_eqb zcp_dense_eqb (read_obj h' o) e') objs es &&
          Bool.eqb (alias_okb true arrs (firstn (length arrs) (h_arr h'))
                              (map (fun i => existsb (fun o => existsb (Nat.eqb i) (owned h' o)) objs) (seq 0 (length arrs)))
                              (nat_list_eqb (lst h' 0) ls))
                   (alias_okb true arrs after shared same)
      | Err, Err => true
      | _, _ => false
      end
  | ZTkHeap core arrs ls cp x m kd e after core_after shared core_shared same =>
      let th0 := mk_theap [core] arrs [ls] in
      match tucker_mode_dot_h Zops th0 0 0 cp x m kd, e with
      | Ok (th', (cl', fl')), Ok e' =>
          ztk_dense_eqb (tread th' cl' fl') e' &&
          Bool.eqb (tk_alias_okb cp arrs (firstn (length arrs) (t_arr th')) core (tcore th' 0)
                                 (map (fun i => existsb (Nat.eqb i) (tlst th' fl')) (seq 0 (length arrs)))
                                 (Nat.eqb cl' 0) (nat_list_eqb (tlst th' 0) ls))
                   (tk_alias_okb cp arrs after core core_after shared core_shared same)
      | Err, Err => true
      | _, _ => false
      end
  | ZHeapFlip arrs ls w cl m e after shared same =>
      let (h0, r) := heap0 arrs ls w cl in
      match cp_flip_sign_h Zops (col_sum Zops) h0 r m, e with
      | Ok (h', o), Ok e' =>
          obj_eqb zcp_eqb (read_obj h' o) e' &&
          Bool.eqb (alias_okb true arrs (firstn (length arrs) (h_arr h')) (owned_any h' [o] (length arrs)) (nat_list_eqb (lst h' 0) ls))
                   (alias_okb true arrs after shared same)
      | Err, Err => true
      | _, _ => false
      end
  | ZHeapPerm p arrs ls w e after shared same =>
      let (h0, r) := heap0 arrs ls (Some w) true in
      match cp_permute_h Zops p h0 r, e with
      | Ok (h', o), Ok e' =>
          obj_eqb zcp_eqb (read_obj h' o) e' &&
          Bool.eqb (alias_okb true arrs (firstn (length arrs) (h_arr h')) (owned_any h' [o] (length arrs)) (nat_list_eqb (lst h' 0) ls))
                   (alias_okb true arrs after shared same)
      | Err, Err => true
      | _, _ => false
      end
  | QHeapNorm tape arrs ls w cl meth e after shared same self_res =>
      (* meth 0: cp_normalize(operand); 1: obj.normalize(inplace=True); 2: obj.normalize(inplace=False) *)
      let (h0, r) := heap0q arrs ls w cl in
      let run := match meth with
                 | 0%nat => cp_normalize_h Qops tape h0 r
                 | 1%nat => cp_normalize_method_h Qops tape h0 0%nat true
                 | _ => cp_normalize_method_h Qops tape h0 0%nat false
                 end in
      match run, e with
      | Ok (h', o), Ok e' =>
          qobj_close (read_obj h' o) e' &&
          Bool.eqb (fresh_okq arrs (firstn (length arrs) (h_arr h')) (owned_any h' [o] (length arrs))
                              (nat_list_eqb (lst h' 0) ls &&
                               match meth with                              (* inplace=False: the operand's own cell is left alone *)
                               | 2%nat => Nat.eqb (c_fs (obj h' 0%nat)) 0%nat && Nat.eqb (c_w (obj h' 0%nat)) (c_w (obj h0 0%nat))
                               | _ => true
                               end))
                   (fresh_okq arrs after shared same) &&
          Bool.eqb (match meth with 0%nat => false | _ => Nat.eqb o 0%nat end) self_res
      | Err, Err => true
      | _, _ => false
      end
  | ZHeapStale inplace refresh arrs ls newls w cp x m kd e =>
      (* obj[1] = <another list of factors> (the shape attribute stays), then a mode product on the object *)
      let h0 := mk_heap arrs [ls; newls] [mk_cell (cp_shape (map (fun l => nth l arrs []) ls)) w 0%nat] in
      match rbind ((if refresh then setitem_refresh_h else setitem_h) h0 0%nat 1%nat 1%nat) (fun h1 => cp_mode_dot_h_src Zops inplace h1 (RObject 0%nat) cp x m kd), e with
      | Ok (h', o), Ok e' => obj_eqb zcp_dense_eqb (read_obj h' o) e'
      | Err, Err => true
      | _, _ => false
      end
  | QTkNormBc tape core fs e =>
      (* tucker_normalize on any (core, factors), NumPy broadcasting included: verdict, shape / rank attributes, core and factors *)
      res_eqb2 (fun o e' => nat_list_eqb (tko_shape o) (fst (fst e')) && nat_list_eqb (tko_rank o) (snd (fst e')) &&
                            qtk_close (tko_core o, tko_fs o) (snd e'))
               (tucker_normalize_bc Qops tape core fs) e
  | GPad ring cores npad pb e =>
      (* the padded cores exactly (imaginary parts included), and the dense tensor of the implementation's answer is the operand's *)
      res_eqb gts_eqb (pad_tt_rank Gops cores npad pb) e &&
      match e with
      | Ok e' => if order3b cores && order3b e' then gt_eqb (g_dense ring e') (g_dense ring cores) else true
      | Err => true
      end
  | GTTDense ring cores e => gt_eqb (g_dense ring cores) e
  | GModeDot w fs x m kd e => res_eqb gcp_dense_eqb (cp_mode_dot_z Gops w fs x m kd) e
  | GTkDot core fs x m kd e => res_eqb gtk_dense_eqb (tucker_mode_dot_z Gops core fs x m kd) e
  | ZDecompHeap arrs ls Ls e after shared same =>
      (* svd_decompress on the heap: the projections read back as the pure answer; the caller's arrays and projection list are untouched;
         an entry WITH a loading is a fresh array (entries without one may or may not share: not part of the property) *)
      let ph0 := mk_pheap arrs [ls] in
      match svd_decompress_h Zops ph0 0%nat Ls, e with
      | Ok (ph', pl'), Ok e' =>
          list_eqb zmat_eqb (pread ph' pl') e' &&
          list_eqb zmat_eqb (firstn (length arrs) (p_arr ph')) after && Bool.eqb (nat_list_eqb (plst ph' 0%nat) ls) same &&
          Nat.eqb (length shared) (length ls) &&
          forallb (fun k => match nth k Ls None with
                            | Some _ => Bool.eqb (nth k (plst ph' pl') 0%nat <? length arrs) (nth k shared true)
                            | None => true
                            end) (seq 0%nat (length ls))
      | Err, Err => true
      | _, _ => false
      end
  | QRoundTrip slices mr tapes full w A B C Qs e =>
      (* slice i of the decompressed tensor (the model's and the implementation's) is slice i of the data *)
      svds_okb full slices tapes &&
      match compress_then_decompress Qops slices 0 mr tapes w A B C Qs, e with
      | Ok (_, _, ps), Ok e' =>
          Nat.eqb (length e') (length slices) &&
          list_eqb qmat_close (map (pf2_slice Qops w A B C ps) (seq 0 (length slices))) slices &&
          list_eqb qmat_close (map (pf2_slice Qops w A B C e') (seq 0 (length slices))) slices
      | Err, Err => true
      | _, _ => false
      end
  | ZTkObjDot core arrs ls cp x m kd e =>
      (* obj = TuckerTensor((core, [arrs[l] for l in ls])); r = obj.mode_dot(x, mode, keep_dim, copy): the result object (attributes, dense
         tensor), what the OPERAND object names afterwards (exactly: copy=False leaves it the old core with the updated list) and whether that
         still passes the validator *)
      let th0 := mk_theap [core] arrs [ls] in
      match tucker_new_h th0 [] 0 0 with
      | Err => match e with Err => true | Ok _ => false end
      | Ok (cells0, o) =>
          match tucker_mode_dot_method_h Zops th0 cells0 o cp x m kd, e with
          | Ok (th', cells', o'), Ok (er, eo, valid) =>
              zobs_eqb ztk_dense_eqb (tk_observe th' cells' o') er &&
              ((zobs_eqb ztk_struct_eqb (tk_observe th' cells' o) eo && Bool.eqb (let '(c, fs) := tobj_read th' cells' o in tucker_okb c fs) valid)
               (* copy=False allows the in-place update but does not demand it: an untouched operand is accepted too *)
               || (negb cp && zobs_eqb ztk_struct_eqb (tk_observe th0 cells0 o) eo && valid))
          | Err, Err => true
          | _, _ => false
          end
      end
  | QTkObjNorm tape core arrs ls e =>
      (* obj.normalize(): in place; attributes kept, the object holds the normalised tensor *)
      let th0 := mk_theap [core] arrs [ls] in
      match tucker_new_h th0 [] 0%nat 0%nat with
      | Err => match e with Err => true | Ok _ => false end
      | Ok (cells0, o) =>
          match tucker_normalize_method_h Qops tape th0 cells0 o, e with
          | Ok (th', cells'), Ok eo =>
              tk_tape_okb (shape core) tape (map (fun l => nth l arrs []) ls) && qobs_close (tk_observe th' cells' o) eo
          | Err, Err => true
          | _, _ => false
          end
      end
  | ZTkObjSet core arrs ls newls e =>
      (* obj[1] = [arrs[l] for l in newls]: attributes kept, the object names the new list; does it still pass the validator *)
      let th0 := mk_theap [core] arrs [ls; newls] in
      match tucker_new_h th0 [] 0%nat 0%nat with
      | Err => match e with Err => true | Ok _ => false end
      | Ok (cells0, o) =>
          match tucker_setitem_h cells0 o 1%nat 1%nat, e with
          | Ok cells1, Ok (eo, valid) =>
              zobs_eqb ztk_struct_eqb (tk_observe th0 cells1 o) eo && Bool.eqb (let '(c, fs) := tobj_read th0 cells1 o in tucker_okb c fs) valid
          | Err, Err => true
          | _, _ => false
          end
      end
  | ZPfObjDecomp w fs arrs ls Ls e =>
      (* round 8: svd_decompress_parafac2_tensor on a Parafac2Tensor OBJECT whose projection list may name one array for several slices:
         the result object (attributes and contents) and the operand object afterwards (untouched) *)
      let h0 := mk_poheap [w] [fs] (mk_pheap arrs [ls]) in
      match pf2_new_h Zops Z.eqb h0 [] 0%nat 0%nat 0%nat with
      | Err => match e with Err => true | Ok _ => false end
      | Ok (cells0, o) =>
          match svd_decompress_obj_h Zops Z.eqb h0 cells0 o Ls, e with
          | Ok (h', cells', o'), Ok (er, eo) => pfobs_eqb (pf_observe h' cells' o') er && pfobs_eqb (pf_observe h' cells' o) eo
          | Err, Err => true
          | _, _ => false
          end
      end
  | ZTkObjSetIdx idx core newcore arrs ls newls e reads_back =>
      (* round 8: obj[idx] = value for ANY index; value = the core at location 1 (idx 0) / the list at location 1 (idx 1); other indices
         are refused; afterwards obj[idx] and unpacking hand out the assigned reference *)
      let th0 := mk_theap [core; newcore] arrs [ls; newls] in
      match tucker_new_h th0 [] 0%nat 0%nat with
      | Err => match e with Err => true | Ok _ => false end
      | Ok (cells0, o) =>
          match tucker_setitem_h cells0 o idx 1%nat, e with
          | Ok cells1, Ok (eo, valid) =>
              zobs_eqb ztk_struct_eqb (tk_observe th0 cells1 o) eo && Bool.eqb (let '(c, fs) := tobj_read th0 cells1 o in tucker_okb c fs) valid &&
              Bool.eqb reads_back (match tucker_getitem_h cells1 o idx with Ok l => Nat.eqb l 1%nat | Err => false end &&
                                   Nat.eqb (nth idx (tucker_iter_h cells1 o) 99%nat) 1%nat)
          | Err, Err => true
          | _, _ => false
          end
      end
  | ZTkObjCopy core arrs ls e shares =>
      let th0 := mk_theap [core] arrs [ls] in
      match tucker_new_h th0 [] 0 0 with
      | Err => match e with Err => true | Ok _ => false end
      | Ok (cells0, o) =>
          match tucker_copy_h th0 cells0 o, e with
          | Ok (th', cells', o'), Ok eo =>
              zobs_eqb ztk_struct_eqb (tk_observe th' cells' o') eo &&
              (* the copy names fresh locations only *)
              Bool.eqb (negb ((1 <=? tc_core (tcellr cells' o')) && forallb (fun l => length arrs <=? l) (tlst th' (tc_fs (tcellr cells' o'))))) shares
          | Err, Err => true
          | _, _ => false
          end
      end
  | QAlign nt rw rfs tw tfs tA tB perm =>
      let A := norm_inputs Qops rw rfs in
      let B := if nt then norm_inputs Qops tw tfs else tfs in
      tape_okb (length rw) tA A && tape_okb (length rw) tB B &&
      (let n := length rw in
       (* congruences in [0,1] rounded to multiples of 2^-40 (error n * 2^-40 << the tolerance 2e-9): the search runs on small integers *)
       let Mx := map (fun i => map (fun j => Qfloor (congr_entry Qops tA tB A B i j * inject_Z (2 ^ 40))) (seq 0 n)) (seq 0 n) in
       is_optimalb Zops 2200%Z n (fun i j => nth j (nth i Mx []) 0%Z) perm)
  end.

Definition case := (nat * body)%type.
Definition agree (c : case) : bool := agree_body (snd c).
Definition ident (c : case) : nat := fst c.
Definition failing := failing_ids agree ident.
