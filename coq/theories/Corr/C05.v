(* Correspondence for C05: run the model of tensorly/tenalg/svd.py on the implementation's inputs, with the
   taped answers of LAPACK (tl.svd, both values of full_matrices) or of the non-modelled back end
   (symeig / randomized / callable), and compare with the implementation's output.
   Slicing and multiplication by +-1 are exact in floating point => exact comparison in Q;
   imputation (matrix products) and NNDSVD (sqrt, division) => toleranced. *)
From Coq Require Import List Arith ZArith QArith Qabs Bool.
From Coq Require Uint63.
From TLV Require Import Base.Ops Base.Tensor Model.Svd Model.SvdConj Model.SvdComplex Model.SvdValidate Corr.Common.
Import ListNotations.

Definition qmat := list (list Q).

(* literal decoder: a float64 is (-1)^neg * m / 2^e with m < 2^53.  Primitive 63-bit integers are used ONLY to
   make the generated case files cheap to parse (a decimal Z literal costs ~10x more); the value is a plain Q. *)
Definition dy (neg : bool) (m e : Uint63.int) : Q :=
  let z := Uint63.to_Z m in
  Qred (Qmake (if neg then Z.opp z else z) (Z.to_pos (Z.pow 2 (Uint63.to_Z e)))).
Fixpoint mat_rel (r : list Q -> list Q -> bool) (a b : qmat) : bool :=
  match a, b with [], [] => true | x :: a', y :: b' => r x y && mat_rel r a' b' | _, _ => false end.
Definition mat_eqb := mat_rel q_list_eqb.
Definition mat_close (atol rtol : Q) := mat_rel (q_list_close atol rtol).
Definition triple_eqb (a b : triple Q) : bool :=
  let '(U, S1, V) := a in let '(U', S', V') := b in mat_eqb U U' && q_list_eqb S1 S' && mat_eqb V V'.
Definition triple_close (atol rtol : Q) (a b : triple Q) : bool :=
  let '(U, S1, V) := a in let '(U', S', V') := b in
  mat_close atol rtol U U' && q_list_close atol rtol S1 S' && mat_close atol rtol V V'.

(* rational square root by integer square root: |qsqrt q - sqrt q| <= 2^-70 / den *)
Definition qsqrt (q : Q) : Q :=
  let q := Qred q in
  if Qle_bool q 0 then 0 else
  let n := Qnum q in let d := Zpos (Qden q) in
  let sh := (2 ^ 70)%Z in
  Qred (Qmake (Z.sqrt (n * d * sh * sh)) (Z.to_pos (d * sh))).

(* one taped call: the matrix the oracle was handed, and its answer(s).
   MTruncated: a = tl.svd(.., full_matrices=True), b = Some (tl.svd(.., full_matrices=False));
   otherwise a = the dispatched function's answer and b = None *)
Definition tape_entry := (qmat * triple Q * option (triple Q))%type.
Definition empty3 : triple Q := ([], [], []).
Definition lookup_tol : Q := Qmake 1 1000000000.

(* alt (round 8): when the clamped request equals min(shape), LAPACK's full and thin answers have the same leading min(shape) vectors up
   to rounding, so which of the two the code asks for is immaterial for the property; with alt = true the model slices the FULL answer in
   that boundary case (and behaves as usual elsewhere).  agree_sub accepts a request that matches either run exactly. *)
Definition tape_fun (alt : bool) (meth : method) (d1 d2 : nat) (n : option nat) (tape : list tape_entry) (k : nat) (M' : qmat) : triple Q :=
  match nth_error tape k with
  | None => empty3
  | Some (Min, a, b) =>
      if mat_close lookup_tol lookup_tol Min M' then
        match meth, b with
        | MTruncated, Some b =>
            let '(kk, mn, _) := svd_checks d1 d2 n in
            truncated_svd (fun f : bool => if f || (alt && Nat.eqb kk mn) then a else b) d1 d2 n
        | MTruncated, None => empty3
        | _, _ => a
        end
      else empty3
  end.

(* A group = one matrix, one method, one mask setting and ONE answer tape, shared by several requests
   (n_eigenvecs, flip_sign, u_based_flip_sign, non_negative) each with the implementation's output.
   Sharing is sound because the harness only groups requests whose recorded tapes are identical. *)
Inductive sub :=
  Sub (id : nat) (n : option nat) (flip ub : bool) (nn : option nntype) (expected : res (triple Q)).
Definition fname_eqb (a b : fname) : bool :=
  match a, b with FTruncated, FTruncated | FSymeig, FSymeig | FRandomized, FRandomized | FUser, FUser => true | _, _ => false end.

(* ftape: the function whose answers the tape holds.  For FTruncated these are LAPACK's answers recorded during the run; for
   the other functions the harness obtains them by calling THAT function of tensorly directly (not through svd_interface)
   on every matrix the interface handed to its back end - so a wrong method -> function dispatch in the implementation shows
   up as a value disagreement, and a wrong `dispatch` in the model finds no tape. *)
Inductive case :=
  Group (d1 d2 : nat) (meth : method) (ftape : fname) (M : qmat) (mask : option qmat) (iters : nat) (tape : list tape_entry) (subs : list sub).

Definition eps64 : Q := Qmake 1 4503599627370496.   (* 2^-52 *)

Definition funs_of_tape (alt : bool) (meth : method) (ftape : fname) (d1 d2 : nat) (n : option nat) (tape : list tape_entry)
  (f : fname) (k : nat) (M' : qmat) : triple Q :=
  if fname_eqb f ftape then
    tape_fun alt (match f with FTruncated => MTruncated | _ => MCallable end) d1 d2 n tape k M'
  else empty3.

Definition run_sub_alt (alt : bool) (d1 d2 : nat) (meth : method) (ftape : fname) (M : qmat) (mask : option qmat) (iters : nat) (tape : list tape_entry)
    (s : sub) : res (triple Q) :=
  let '(Sub _ n flip ub nn _) := s in
  svd_interface Qops (funs_of_tape alt meth ftape d1 d2 n tape) meth d2 M n flip ub nn mask iters qsqrt eps64.
Definition run_sub := run_sub_alt false.

Definition agree_sub_alt (alt : bool) (d1 d2 : nat) (meth : method) (ftape : fname) (M : qmat) (mask : option qmat) (iters : nat)
    (tape : list tape_entry) (s : sub) : bool :=
  let '(Sub _ _ _ _ nn expected) := s in
  match run_sub_alt alt d1 d2 meth ftape M mask iters tape s, expected with
  | Ok a, Ok b => match nn with
                  | None => triple_eqb a b
                  | Some _ => triple_close (Qmake 1 1000000000) (Qmake 1 10000000) a b
                  end
  | Err, Err => true
  | _, _ => false
  end.
(* the second run is evaluated only when the first disagrees, and only for the LAPACK-backed method *)
Definition agree_sub (d1 d2 : nat) (meth : method) (ftape : fname) (M : qmat) (mask : option qmat) (iters : nat) (tape : list tape_entry) (s : sub) : bool :=
  if agree_sub_alt false d1 d2 meth ftape M mask iters tape s then true
  else if fname_eqb ftape FTruncated then agree_sub_alt true d1 d2 meth ftape M mask iters tape s else false.
Definition sub_id (s : sub) : nat := let '(Sub i _ _ _ _ _) := s in i.
Definition failing_group (g : case) : list nat :=
  let '(Group d1 d2 meth ftape M mask iters tape subs) := g in
  failing_ids (agree_sub d1 d2 meth ftape M mask iters tape) sub_id subs.
Definition failing (gs : list case) : list nat := flat_map failing_group gs.

(* ---- direct calls of svd_flip / symeig_svd / randomized_svd (second case type, same shard machinery) ---- *)
(* taped oracles: tl.qr by call order (its argument must match the model's own product to 1e-9), tl.svd by argument *)
Definition lookup_qr (tape : list (qmat * qmat)) (k : nat) (X : qmat) : qmat :=
  match nth_error tape k with
  | Some (Xin, Qout) => if mat_close lookup_tol lookup_tol Xin X then Qout else []
  | None => []
  end.
Definition lookup_svd (tape : list (qmat * triple Q * triple Q)) (X : qmat) (full : bool) : triple Q :=
  match find (fun e => mat_close lookup_tol lookup_tol (fst (fst e)) X) tape with
  | Some (_, a, b) => if full then a else b
  | None => empty3
  end.

(* ---- complex requests (round 6): Gaussian rationals; a complex float64 is a pair of exact rationals.  np.sign / abs go through qsqrt,
   so every comparison is toleranced; requests whose deciding magnitudes are within rounding distance of a tie are not generated ---- *)
Definition cmat := list (list C).
Definition c_close (atol rtol : Q) (a b : C) : bool := qclose atol rtol (fst a) (fst b) && qclose atol rtol (snd a) (snd b).
Fixpoint c_list_close (atol rtol : Q) (a b : list C) : bool :=
  match a, b with [], [] => true | x :: a', y :: b' => c_close atol rtol x y && c_list_close atol rtol a' b' | _, _ => false end.
Fixpoint cmat_close (atol rtol : Q) (a b : cmat) : bool :=
  match a, b with [], [] => true | x :: a', y :: b' => c_list_close atol rtol x y && cmat_close atol rtol a' b' | _, _ => false end.
Definition ctriple_close (atol rtol : Q) (a b : triple C) : bool :=
  let '(U, S1, V) := a in let '(U', S', V') := b in
  cmat_close atol rtol U U' && c_list_close atol rtol S1 S' && cmat_close atol rtol V V'.
(* the back end of a complex interface request: LAPACK's two answers (truncated_svd) or eigh's answer (symeig_svd) *)
Inductive ctape :=
| CTsvd (full thin : triple C)
| CTeigh (Gin : cmat) (lam : list C) (W : cmat).       (* Gin: the matrix tl.eigh was handed *)
Definition cfuns (d1 d2 : nat) (n : option nat) (t : ctape) (f : fname) (_ : nat) (M : cmat) : triple C :=
  match f, t with
  | FTruncated, CTsvd a b => truncated_svd (fun fl : bool => if fl then a else b) d1 d2 n
  | FSymeig, CTeigh Gin lam W =>
      symeig_svd_conj Cops cconj (fun G => if cmat_close lookup_tol lookup_tol G Gin then (lam, W) else ([], [])) (csq qsqrt) (of_real eps64) M d1 d2 n
  | _, _ => ([], [], [])
  end.

(* ---- round 7: the hypotheses of C05_range_finder_covers evaluated on the recorded run (tolerance 1e-7: the witness C comes from a least-squares solve) ----
   The model's own final_test_g (= Proofs/SvdRandE2E.v final_test at Rops, final_test_g_real) names the LAST tl.qr call and the test matrix P;
   X = A @ P is the last sketch (it must be the recorded argument of that call: lookup_qr), Qx its recorded Q factor.  Checked:
   qr_ok (shape, Qx^T Qx = I, X = Qx (Qx^T X)), spans with the witness Cw supplied by the harness (A = X Cw), the conclusion A = Qx (Qx^T A),
   and that the model's range finder returns exactly Qx. *)
Definition sk_tol : Q := Qmake 1 10000000.
Definition is_rect (r c : nat) (X : qmat) : bool := Nat.eqb (length X) r && forallb (fun row => Nat.eqb (length row) c) X.
Definition ident (c : nat) : qmat := map (fun a => map (fun b => if Nat.eqb a b then 1 else 0) (seq 0 c)) (seq 0 c).
Definition sketch_ok (d1 d2 : nat) (n : option nat) (n_over n_iter : nat) (M G : qmat) (qrs : list (qmat * qmat)) (Cw : qmat) : bool :=
  let '(k, mn, mx) := svd_checks d1 d2 n in
  let n_dims := Nat.min (k + n_over) mx in
  let t := Nat.min mn n_dims in
  let tr := ((d2 <? d1) && (t <? k)) || ((d1 <? d2) && (k <? t)) in
  let A := if tr then transp Qops d2 M else M in
  let r := if tr then d2 else d1 in
  let cA := if tr then d1 else d2 in
  let '(idx, P) := final_test_g Qops (lookup_qr qrs) A cA G n_iter in
  let w := ncols P in
  let X := mmul Qops w A P in
  let Qx := lookup_qr qrs idx X in
  let c := Nat.min r w in
  let Qt := transp Qops c Qx in
  is_rect r c Qx && is_rect w cA Cw
  && mat_close sk_tol sk_tol (mmul Qops c Qt Qx) (ident c)
  && mat_close sk_tol sk_tol X (mmul Qops w Qx (mmul Qops w Qt X))
  && mat_close sk_tol sk_tol A (mmul Qops cA X Cw)
  && mat_close sk_tol sk_tol A (mmul Qops cA Qx (mmul Qops cA Qt A))
  && mat_eqb (range_finder Qops (lookup_qr qrs) A cA G n_iter) Qx.

(* complex oracles: tl.qr by call order, tl.svd by argument *)
Definition clookup_qr (tape : list (cmat * cmat)) (k : nat) (X : cmat) : cmat :=
  match nth_error tape k with
  | Some (Xin, Qout) => if cmat_close lookup_tol lookup_tol Xin X then Qout else []
  | None => []
  end.
Definition clookup_svd (tape : list (cmat * triple C * triple C)) (X : cmat) (full : bool) : triple C :=
  match find (fun e => cmat_close lookup_tol lookup_tol (fst (fst e)) X) tape with
  | Some (_, a, b) => if full then a else b
  | None => ([], [], [])
  end.
(* complex request with a mask, method truncated_svd: LAPACK's two answers for the matrix of every back-end call, by call order *)
Definition cmfuns (d1 d2 : nat) (n : option nat) (tape : list (cmat * triple C * triple C)) (f : fname) (k : nat) (M' : cmat) : triple C :=
  match f, nth_error tape k with
  | FTruncated, Some (Min, a, b) =>
      if cmat_close lookup_tol lookup_tol Min M' then truncated_svd (fun fl : bool => if fl then a else b) d1 d2 n else ([], [], [])
  | _, _ => ([], [], [])
  end.

Inductive dcase :=
| DFlip (id : nat) (U V : qmat) (ub : bool) (eU eV : qmat)
| DSymeig (id : nat) (d1 d2 : nat) (n : option nat) (M Gin : qmat) (lam : list Q) (W : qmat) (expected : triple Q)
| DRandom (id : nat) (d1 d2 : nat) (n : option nat) (n_over n_iter : nat) (M G : qmat)
          (qrs : list (qmat * qmat)) (svds : list (qmat * triple Q * triple Q)) (expected : triple Q)
| DFlipC (id : nat) (U V : cmat) (ub : bool) (eU eV : cmat)
| DIfaceC (id : nat) (d1 d2 : nat) (meth : method) (n : option nat) (flip ub : bool) (M : cmat) (t : ctape) (expected : res (triple C))
| DReject (id : nat) (shape : list nat) (meth : method) (nn : nnreq) (rejected : bool)
(* round 7 *)
| DSketch (id : nat) (d1 d2 : nat) (n : option nat) (n_over n_iter : nat) (M G : qmat) (qrs : list (qmat * qmat)) (Cw : qmat)
| DRandomC (id : nat) (d1 d2 : nat) (n : option nat) (n_over n_iter : nat) (M G : cmat)
           (qrs : list (cmat * cmat)) (svds : list (cmat * triple C * triple C)) (expected : triple C)
| DIfaceCM (id : nat) (d1 d2 : nat) (n : option nat) (flip ub : bool) (M mask : cmat) (iters : nat)
           (tape : list (cmat * triple C * triple C)) (expected : res (triple C))
(* make_svd_non_negative called directly on hand-made factors (entries 0 / +-1, S and the part sizes perfect squares, so that every
   norm and sqrt is exact): exact TIES m_p = m_n between the positive and the negative parts, zero parts, unequal factor counts *)
| DNN (id : nat) (M U : qmat) (Sg : list Q) (V : qmat) (ty : nntype) (eW eH : qmat).

Definition ctol_a : Q := Qmake 1 1000000000.
Definition ctol_r : Q := Qmake 1 1000000.
Definition dagree (c : dcase) : bool :=
  match c with
  | DFlip _ U V ub eU eV => let '(U', V') := svd_flip Qops U V ub in mat_eqb U' eU && mat_eqb V' eV
  | DSymeig _ d1 d2 n M Gin lam W e =>       (* the Gram matrix the model builds must be the one eigh was handed *)
      triple_close (Qmake 1 1000000000) (Qmake 1 1000000)
        (symeig_svd Qops (fun G => if mat_close lookup_tol lookup_tol G Gin then (lam, W) else ([], [])) qsqrt eps64 M d1 d2 n) e
  | DRandom _ d1 d2 n n_over n_iter M G qrs svds e =>
      triple_close (Qmake 1 1000000000) (Qmake 1 10000000)
                   (randomized_svd Qops (lookup_svd svds) (lookup_qr qrs) G M d1 d2 n n_over n_iter) e
  | DFlipC _ U V ub eU eV => let '(U', V') := svd_flip_c qsqrt U V ub in cmat_close ctol_a ctol_r U' eU && cmat_close ctol_a ctol_r V' eV
  | DIfaceC _ d1 d2 meth n flip ub M t e =>
      match svd_interface_flip (svd_flip_c qsqrt) (cfuns d1 d2 n t) meth M flip ub, e with
      | Ok a, Ok b => ctriple_close ctol_a ctol_r a b
      | Err, Err => true
      | _, _ => false
      end
  | DReject _ shape meth nn rejected => Bool.eqb (request_rejected shape meth nn) rejected
  | DSketch _ d1 d2 n n_over n_iter M G qrs Cw => sketch_ok d1 d2 n n_over n_iter M G qrs Cw
  | DRandomC _ d1 d2 n n_over n_iter M G qrs svds e =>
      ctriple_close ctol_a ctol_r (randomized_svd_conj Cops cconj (clookup_svd svds) (clookup_qr qrs) G M d1 d2 n n_over n_iter) e
  | DIfaceCM _ d1 d2 n flip ub M mask iters tape e =>
      match svd_interface_cmask Cops (svd_flip_c qsqrt) (cmfuns d1 d2 n tape) MTruncated d2 M n flip ub (Some mask) iters, e with
      | Ok a, Ok b => ctriple_close ctol_a ctol_r a b
      | Err, Err => true
      | _, _ => false
      end
  | DNN _ M U Sg V ty eW eH =>
      let '(W, H) := make_svd_non_negative Qops qsqrt eps64 M U Sg V ty in
      mat_close (Qmake 1 1000000000) (Qmake 1 1000000000) W eW && mat_close (Qmake 1 1000000000) (Qmake 1 1000000000) H eH
  end.
Definition dident (c : dcase) : nat :=
  match c with
  | DFlip i _ _ _ _ _ => i | DSymeig i _ _ _ _ _ _ _ _ => i | DRandom i _ _ _ _ _ _ _ _ _ _ => i
  | DFlipC i _ _ _ _ _ => i | DIfaceC i _ _ _ _ _ _ _ _ _ => i | DReject i _ _ _ _ => i
  | DSketch i _ _ _ _ _ _ _ _ _ => i | DRandomC i _ _ _ _ _ _ _ _ _ _ => i | DIfaceCM i _ _ _ _ _ _ _ _ _ _ => i
  | DNN i _ _ _ _ _ _ _ => i
  end.
Definition dfailing := failing_ids dagree dident.
