(* Correspondence for C06: the model (exact, Q with Qred after every operation) recomputes the
   SQUARED relative reconstruction error of the iterate a value was reported for and compares it
   with (reported value)^2;  direct calls of error_calc are compared branch by branch;  the loop
   skeleton is compared with the implementation on the observable projection of its trace. *)
From Coq Require Import List Arith ZArith QArith Qabs Bool.
From TLV Require Import Base.Shape Base.PyList Base.Tensor Base.BigSum Base.Ops Model.Errors Corr.Common.
Import ListNotations.

Definition atol : Q := Qmake 1 1000000000.
Definition rtol : Q := Qmake 1 1000000000.

(* (squared unnormalised error, squared reference norm) against a reported RELATIVE error *)
Definition rel_close (p : Q * Q) (rep : Q) : bool :=
  let '(num, den) := p in
  if Qle_bool den 0 then false else qclose atol rtol (Qred (num / den)) (Qred (rep * rep)).

(* configuration of a skeleton run; decisions: the iteration at which the callback asks to stop, and
   whether the line search accepts (same answer at every line-search iteration: both are tried) *)
Record trace_obs := mkObs { n_reports : nat; n_callbacks : nat; n_updates : nat; broke : bool }.

Inductive kind :=
| KCP (X : tensor Q) (R : nat) (w : option (list Q)) (fs : list (tensor Q)) (Sp mask : option (tensor Q)) (rep : Q)
| KCPfast (X : tensor Q) (R : nat) (w : option (list Q)) (fs : list (tensor Q)) (n : nat) (rep : Q)
| KErrCalc (X : tensor Q) (R : nat) (w : option (list Q)) (fs : list (tensor Q)) (M : tensor Q) (n : nat) (rep : Q)
| KTucker (X G : tensor Q) (fs : list (tensor Q)) (rep : Q)
| KHooi (X G : tensor Q) (rep : Q)
| KDense (X L : tensor Q) (rep : Q)
| KCmtf (X : tensor Q) (R : nat) (fs : list (tensor Q)) (Y : tensor Q) (fsY : list (tensor Q)) (w wY : option (list Q)) (rep : Q)
| KTrace (modes : list nat) (normalize linesearch cb : bool) (n_iter_max : nat) (stop_at : option nat) (accept_ls : bool)
         (obs : trace_obs).

Definition count_events {B E} (p : event B E -> bool) (l : list (event B E)) : nat := length (filter p l).

Definition run_trace (modes : list nat) (normalize linesearch cb : bool) (n_iter_max : nat) (stop_at : option nat)
           (accept_ls : bool) : trace_obs :=
  let orc := @mkOracle unit (fun _ _ _ => tt) (fun st => st) (fun _ _ st => st) (fun _ => accept_ls)
                      (fun it => match stop_at with Some j => Nat.eqb it j | None => false end) in
  let cfg := mkConfig modes (last modes 0%nat) normalize false false linesearch true cb in
  let l := @run unit unit (fun _ _ _ => tt) (fun _ => tt) orc cfg n_iter_max (fun _ => tt) in
  mkObs (length (errs l))
        (count_events (fun ev => match ev with ECallback _ _ => true | _ => false end) (trace l))
        (count_events (fun ev => match ev with EUpdate _ => true | _ => false end) (trace l))
        (Nat.ltb 0%nat (count_events (fun ev => match ev with EBreak => true | _ => false end) (trace l))).

Definition obs_eqb (a b : trace_obs) : bool :=
  Nat.eqb (n_reports a) (n_reports b) && Nat.eqb (n_callbacks a) (n_callbacks b) &&
  Nat.eqb (n_updates a) (n_updates b) && Bool.eqb (broke a) (broke b).

Definition agree_kind (k : kind) : bool :=
  match k with
  | KCP X R w fs Sp mask rep => rel_close (err_cp_true Qops X R w fs Sp mask) rep
  | KCPfast X R w fs n rep =>
      let f := err_shortcut Qops X R w fs n in
      let t := err_cp_true Qops X R w fs None None in
      rel_close f rep && Qeq_bool (fst f) (fst t) && Qeq_bool (snd f) (snd t)
  | KErrCalc X R w fs M n rep => rel_close (err_shortcut_with Qops X R w fs M n) rep
  | KTucker X G fs rep => rel_close (err_tucker_true Qops X G fs) rep
  | KHooi X G rep => rel_close (err_hooi Qops X G) rep
  | KDense X L rep => rel_close (err_dense Qops X L) rep
  | KCmtf X R fs Y fsY w wY rep =>
      let a := err_cp_true Qops X R w fs None None in
      let b := err_cp_true Qops Y R wY fsY None None in
      (* documented squared, unnormalised form; compared relative to ||X||^2 + ||Y||^2 *)
      let den := Qred (snd a + snd b) in
      if Qle_bool den 0 then false
      else qclose atol rtol (Qred ((fst a + fst b) / den)) (Qred (rep / den))
  | KTrace modes nrm ls cb n stop_at acc obs => obs_eqb (run_trace modes nrm ls cb n stop_at acc) obs
  end.

Definition case := (nat * kind)%type.
Definition agree (c : case) : bool := agree_kind (snd c).
Definition ident (c : case) : nat := fst c.
Definition failing := failing_ids agree ident.
