(* Correspondence for C06: the model (exact, Q with Qred after every operation) recomputes the
   SQUARED relative reconstruction error of the iterate a value was reported for and compares it
   with (reported value)^2;  direct calls of error_calc are compared branch by branch;  the loop
   skeleton is compared with the implementation on the observable projection of its trace;  PARAFAC2's
   slice-wise shortcut (both forms of B_i^T X_i) and the residual from scratch are evaluated from the returned
   (weights, (A, B, C), projections) and must coincide exactly. *)
From Coq Require Import List Arith ZArith QArith Qabs Bool.
From TLV Require Import Base.Shape Base.PyList Base.Tensor Base.BigSum Base.Ops Model.Errors Corr.Common.
Import ListNotations.

Definition atol : Q := Qmake 1 1000000000.
Definition rtol : Q := Qmake 1 1000000000.

(* Dyadic rationals (mantissa, exponent) = mantissa * 2^(-exponent): every float64 is one, sums and products of
   dyadics are dyadic, and no gcd is ever needed.  The error model uses only 0, 1, +, -, * (never / or <=).
   A sample of every run's cases is ALSO executed with Op (Qred after every operation) as a cross-check. *)
Definition D := (Z * Z)%type.
Definition dalign (a b : D) : Z * Z * Z :=
  let e := Z.max (snd a) (snd b) in (Z.shiftl (fst a) (e - snd a), Z.shiftl (fst b) (e - snd b), e)%Z.
Definition dadd (a b : D) : D := let '(x, y, e) := dalign a b in (x + y, e)%Z.
Definition dsub (a b : D) : D := let '(x, y, e) := dalign a b in (x - y, e)%Z.
Definition dmul (a b : D) : D := (fst a * fst b, snd a + snd b)%Z.
Definition dopp (a : D) : D := (- fst a, snd a)%Z.
Definition dleb (a b : D) : bool := let '(x, y, _) := dalign a b in Z.leb x y.
Definition ddiv (a b : D) : D := (0, 0)%Z.   (* not a division: Model/Errors.v never divides *)
Definition Dops : fops D := mkF (0, 0)%Z (1, 0)%Z dadd dsub dmul ddiv dopp dleb.
Definition d2q (a : D) : Q :=
  if (0 <=? snd a)%Z then Qred (Qmake (fst a) (Z.to_pos (2 ^ snd a))) else inject_Z (fst a * 2 ^ (- snd a)).

Section A.
Context {F : Type} (Op : fops F) (toQ : F -> Q).

(* (squared unnormalised error, squared reference norm) against a reported RELATIVE error *)
Definition rel_close (p : F * F) (rep : F) : bool :=
  let num := toQ (fst p) in let den := toQ (snd p) in
  if Qle_bool den 0 then false else qclose atol rtol (Qred (num / den)) (toQ (fmul Op rep rep)).

(* the shortcuts take sqrt(abs(.)): the model value may be negative (HOOI under rounding) *)
Definition rel_close_abs (p : F * F) (rep : F) : bool :=
  let num := toQ (fst p) in let den := toQ (snd p) in
  if Qle_bool den 0 then false else qclose atol rtol (Qabs (Qred (num / den))) (toQ (fmul Op rep rep)).

(* configuration of a skeleton run; decisions: the iteration at which the callback asks to stop, and
   whether the line search accepts (same answer at every line-search iteration: both are tried) *)
Record trace_obs := mkObs { n_reports : nat; n_callbacks : nat; broke : bool }.

Inductive kind :=
| KCP (X : tensor F) (R : nat) (w : option (list F)) (fs : list (tensor F)) (Sp mask : option (tensor F)) (rep : F)
| KCPfast (X : tensor F) (R : nat) (w : option (list F)) (fs : list (tensor F)) (n : nat) (rep : F)
| KErrCalc (X : tensor F) (R : nat) (w : option (list F)) (fs : list (tensor F)) (M : tensor F) (n : nat) (rep : F)
| KTucker (X G : tensor F) (fs : list (tensor F)) (mask : option (tensor F)) (rep : F)
| KHooi (X G : tensor F) (rep : F)
| KEvents (modes : list nat) (normalize norm_in_sweep linesearch cb : bool) (n_iter_max : nat) (stop_at : option nat)
          (decisions : list bool) (observed : list nat)
| KP2Len (ls normalize : bool) (n_iter_max n_reported : nat)
| KSparsify (t : tensor F) (card : nat) (out : tensor F)
| KTR (X : tensor F) (cores : list (tensor F)) (rep : F)
| KParafac2 (slices : list (tensor F)) (w : option (list F)) (A B C : tensor F) (Ps : list (tensor F)) (rep : F)
| KDense (X L : tensor F) (rep : F)
| KCmtf (X : tensor F) (R : nat) (fs : list (tensor F)) (Y : tensor F) (fsY : list (tensor F)) (w wY : option (list F)) (rep : F)
| KTrace (modes : list nat) (normalize linesearch cb : bool) (n_iter_max : nat) (stop_at : option nat) (accept_ls : bool)
         (obs : trace_obs)
(* direct call of cp_normalize((w, fs)) -> (w', fs'); sc = column norms of the factors (factor 0 after it absorbed the weights),
   an answer tape for the square roots that is validated by squaring.  Executed with Qops only (the model divides). *)
| KNormalize (w : option (list F)) (fs : list (tensor F)) (sc : list (list F)) (w' : list F) (fs' : list (tensor F))
(* direct call of tucker_normalize((G, fs)) -> (G', fs'); sc = column norms of the factors (validated tape).  Qops only. *)
| KTuckerNormalize (G : tensor F) (fs : list (tensor F)) (sc : list (list F)) (G' : tensor F) (fs' : list (tensor F))
(* direct call of error_calc with ALL its arguments: the model selects the branch itself (Model/Errors.v:error_calc_model) and computes the
   sparse component itself; M = the implementation's MTTKRP of the last mode (None = not handed over); card = None for a falsy sparsity *)
| KErrCalcFull (X : tensor F) (R : nat) (w : option (list F)) (fs : list (tensor F)) (card : option nat) (mask M : option (tensor F)) (rep : F)
(* loops that record one value per iteration (tucker, partial_tucker, non-negative Tucker variants, CMTF, randomised CP): number of recorded
   values for n_iter_max iterations and a callback that stops the run in iteration cb_stop_at *)
| KSLoop (n_iter_max : nat) (cb_stop_at : option nat) (n_reported : nat)
(* the two hypotheses of C06_hooi_error_identity validated on the decomposition an (unmasked) HOOI run returns: every factor has
   orthonormal columns and the core is X x_k U_k^T (both up to rounding) *)
| KHooiHyp (X G : tensor F) (fs : list (tensor F))
(* event-level trace of a parafac2 run without convergence stop: 5 = _compute_projections, 10 = inner ALS update, 2 = error computation,
   1 = cp_normalize, in the order observed, against the instrumented loop model p2_loop_tr (the 1s are ignored) *)
| KP2Events (ls normalize : bool) (n_iter_max : nat) (observed : list nat)
(* one iteration of parafac on data (Model/Errors.v:parafac_iteration_error): factors before the iteration, the factors after it as the
   answer tape of the solve oracle (each updated mode is solved once per sweep), the updated modes in order, the value reported for it.
   The model computes every MTTKRP of the sweep itself and feeds the last one to error_calc_model. *)
| KSweep (X : tensor F) (R : nat) (w : option (list F)) (fs_before fs_after : list (tensor F)) (ms : list nat) (rep : F)
(* round 7: one iteration on data of constrained_parafac (variant 1: MTTKRP without weights, weights on the column sums) and of
   non_negative_parafac_hals without normalisation (variant 2: MTTKRP paired with the last UPDATED mode); tape = factors after the iteration *)
| KSweepV (variant : nat) (X : tensor F) (R : nat) (w : option (list F)) (fs_before fs_after : list (tensor F)) (ms : list nat) (rep : F)
(* round 7: one sweep with cp_normalize inside it (non_negative_parafac_hals / non_negative_parafac, normalize_factors=True) on data: state at the
   first MTTKRP call, tapes of the updated factors and of the in-sweep normalisations (both looked up by the mode), reported value *)
| KNormSweep (X : tensor F) (R : nat) (w0 : option (list F)) (fs0 : list (tensor F)) (ms : list nat) (solve_tape : list (tensor F))
             (norm_tape : list (option (list F) * list (tensor F))) (rep : F)
(* round 7: tensor_ring_als's sub-problem as the tensordot / transpose / reshape pipeline ON DATA: for every mode its residual must equal the
   index-level ls_residual2 EXACTLY; for the last mode it is also the reported value *)
| KTRData (X : tensor F) (cores : list (tensor F)) (rep : F)
(* round 7: randomised_parafac's gating: recorded values and in-loop callback invocations for the gates (compute, record, cb) *)
| KRLoop (n_iter_max : nat) (stop_at : option nat) (compute record cb : bool) (n_recorded n_callbacks : nat)
(* round 7: one iteration of the parafac loop on data with weights / line search (Model/Errors.v:fl_iteration): state and snapshot before,
   factors after the sweep (tape of the solve oracle), the printed jump and decision; the state the value belongs to and the value.
   tape = true: the candidate of the line search is the observed state (w2, fs2) - the verdict cases: a different extrapolation rule is not
   C06's business; tape = false: the candidate is the transcribed extrapolation ls_extrapolate with the printed jump (advisory cases) *)
| KIter (X : tensor F) (R : nat) (card : option nat) (w0 : option (list F)) (fs0 : list (tensor F)) (snw : option (list F)) (snfs : list (tensor F))
        (fs1 : list (tensor F)) (ms : list nat) (ls : bool) (it : nat) (tape : bool) (jump : F) (acc : bool) (w2 : option (list F)) (fs2 : list (tensor F)) (rep : F).

(* canonical form of an event list, applied to BOTH sides: what matters for "which iterate does an error belong to" is the order of
   the block updates, the kind and position of the error computations and the callbacks.  A normalisation is kept only where it
   would matter - between a block update and the next error computation (there must be none); an MTTKRP recomputed for the same
   mode right away is the same event (it does not read its own factor: C06_mttkrp_ignores_own_mode). *)
Fixpoint next_is_error (l : list nat) : bool :=
  match l with [] => false | y :: l' => if Nat.eqb y 1%nat then next_is_error l' else Nat.eqb y 2%nat || Nat.eqb y 3%nat end.
Fixpoint canon_events (prev : nat) (l : list nat) : list nat :=
  match l with
  | [] => []
  | x :: l' =>
      if Nat.eqb x 1%nat then (if Nat.leb 10%nat prev && next_is_error l' then 1%nat :: canon_events prev l' else canon_events prev l')
      else if Nat.leb 10%nat x then (if Nat.eqb x prev then canon_events prev l' else x :: canon_events x l')
      else x :: canon_events 0%nat l'
  end.

Definition count_events {B E} (p : event B E -> bool) (l : list (event B E)) : nat := length (filter p l).

Definition run_trace (modes : list nat) (normalize linesearch cb : bool) (n_iter_max : nat) (stop_at : option nat)
           (accept_ls : bool) : trace_obs :=
  let orc := @mkOracle unit (fun _ _ _ => tt) (fun st => st) (fun _ _ st => st) (fun _ => accept_ls)
                      (fun _ => false) (fun it => match stop_at with Some j => Nat.eqb it j | None => false end) in
  let cfg := mkConfig modes (last modes 0%nat) normalize false false linesearch true cb in
  let l := @run unit unit (fun _ _ _ => tt) (fun _ => tt) orc cfg n_iter_max (fun _ => tt) in
  mkObs (length (errs l))
        (count_events (fun ev => match ev with ECallback _ _ => true | _ => false end) (trace l))
        (Nat.ltb 0%nat (count_events (fun ev => match ev with EBreak => true | _ => false end) (trace l))).

Definition obs_eqb (a b : trace_obs) : bool :=
  Nat.eqb (n_reports a) (n_reports b) && Nat.eqb (n_callbacks a) (n_callbacks b) &&
  Bool.eqb (broke a) (broke b).

Definition agree_kind (k : kind) : bool :=
  match k with
  | KCP X R w fs Sp mask rep => rel_close (err_cp_true Op X R w fs Sp mask) rep
  | KCPfast X R w fs n rep =>
      let f := err_shortcut Op X R w fs n in
      let t := err_cp_true Op X R w fs None None in
      rel_close f rep && Qeq_bool (toQ (fst f)) (toQ (fst t)) && Qeq_bool (toQ (snd f)) (toQ (snd t))
  | KErrCalc X R w fs M n rep => rel_close (err_shortcut_with Op X R w fs M n) rep
  | KTucker X G fs mask rep => rel_close (err_explicit Op X (tucker_tensor_entry Op G fs) None mask) rep
  | KHooi X G rep => rel_close_abs (err_hooi Op X G) rep
  | KEvents modes nrm nis ls cb n stop_at decs observed =>
      (* event-level trace of the loop skeleton; the line-search decisions are the ones the implementation printed *)
      let orc := @mkOracle unit (fun _ _ _ => tt) (fun st => st) (fun _ _ st => st)
                           (fun it => nth (Nat.div (it - 6) 2) decs false)
                           (fun _ => false) (fun it => match stop_at with Some j => Nat.eqb it j | None => false end) in
      let cfg := mkConfig modes (last modes 0%nat) nrm nis false ls true cb in
      let l := @run unit unit (fun _ _ _ => tt) (fun _ => tt) orc cfg n (fun _ => tt) in
      (* the callback issued before the loop is preceded by an explicit error computation *)
      nat_list_eqb (canon_events 0%nat ((if cb then [3%nat] else []) ++ obs_of_trace false (trace l))) (canon_events 0%nat observed)
  | KP2Len ls nrm n n_rep =>
      (* PARAFAC2 loop skeleton (no stop): one value per iteration, line-search iterations included *)
      let orc := @mkP2 unit (fun _ st => st) (fun _ _ st => st) (fun _ => true) (fun st => st) (fun _ => false) in
      Nat.eqb (length (snd (@p2_loop unit unit (fun _ => tt) orc ls nrm false n 0%nat tt nil))) n_rep
  | KSparsify t card out =>
      let m := sparsify Op card t in
      nat_list_eqb (shape m) (shape out) && q_list_eqb (map toQ (data m)) (map toQ (data out))
  | KTR X cores rep =>
      let '(ls, t, nx) := tr_all Op X cores in
      rel_close (t, nx) rep && Qeq_bool (toQ ls) (toQ t)
  | KParafac2 slices w A B C Ps rep =>
      let '(f1, f2, t, nx) := p2_all Op slices w A B C Ps in
      rel_close (t, nx) rep && Qeq_bool (toQ f1) (toQ t) && Qeq_bool (toQ f2) (toQ t)
  | KDense X L rep => rel_close (err_dense Op X L) rep
  | KCmtf X R fs Y fsY w wY rep =>
      let a := err_cp_true Op X R w fs None None in
      let b := err_cp_true Op Y R wY fsY None None in
      (* documented squared, unnormalised form; compared relative to ||X||^2 + ||Y||^2 *)
      let den := Qred (toQ (snd a) + toQ (snd b)) in
      if Qle_bool den 0 then false
      else qclose atol rtol (Qred ((toQ (fst a) + toQ (fst b)) / den)) (Qred (toQ rep / den))
  | KTrace modes nrm ls cb n stop_at acc obs => obs_eqb (run_trace modes nrm ls cb n stop_at acc) obs
  | KNormalize w fs sc w' fs' =>
      let s := rows_of fs in let N := length fs in
      let R := nth 1%nat (shape (hd (mk [] []) fs)) 0%nat in
      let st := blocks_of Op w fs in
      let scf := fun k r => nth r (nth k sc []) (f0 Op) in
      let ab := absorb_weights_F Op s st in
      let out := cp_normalize_F Op s scf st in
      let st' := blocks_of Op (Some w') fs' in
      (* the tape: non-negative numbers whose squares are the column sums of squares (hypothesis good_tape of
         C06_cp_normalize_tape_preserves_error, up to rounding) *)
      forallb (fun k => forallb (fun r => fleb Op (f0 Op) (scf k r) &&
                                           qclose atol rtol (toQ (fmul Op (scf k r) (scf k r))) (toQ (colsq Op s ab k r))) (seq 0 R)) (seq 0 N)
      && Nat.eqb (length fs') N && Nat.eqb (length w') R && nat_list_eqb (rows_of fs') s
      && forallb (fun k => forallb (fun i => forallb (fun r => qclose atol rtol (toQ (out k i r)) (toQ (st' k i r))) (seq 0 R))
                                   (seq 0 (nth k s 0%nat))) (seq 0 N)
      && forallb (fun r => qclose atol rtol (toQ (out N 0%nat r)) (toQ (st' N 0%nat r))) (seq 0 R)
  | KErrCalcFull X R w fs card mask M rep => rel_close (error_calc_model Op X R w fs card mask M) rep
  | KSLoop n stop_at n_rep => Nat.eqb (s_loop_count n stop_at) n_rep
  | KP2Events ls nrm n observed =>
      (* canonical form on both sides: the position of cp_normalize relative to the error computation is immaterial for C06
         (the normalisation keeps the error: C06_parafac2_rescaling_preserves_error), so the 1s are dropped *)
      let drop1 := filter (fun e => negb (Nat.eqb e 1%nat)) in
      nat_list_eqb (drop1 (p2_events ls nrm n)) (drop1 observed)
  | KSweep X R w fs0 fs1 ms rep =>
      let solve := fun (m : nat) (_ : tensor F) (_ : list (tensor F)) => nth m fs1 (mk [] []) in
      let res := data_sweep Op solve X R w ms fs0 None in
      (* the tape is consistent: after the sweep the model holds exactly the factors the implementation returned *)
      forallb (fun k => nat_list_eqb (shape (nth k (fst res) (mk [] []))) (shape (nth k fs1 (mk [] []))) &&
                        q_list_eqb (map toQ (data (nth k (fst res) (mk [] [])))) (map toQ (data (nth k fs1 (mk [] []))))) (seq 0 (length fs1))
      && rel_close (parafac_iteration_error Op solve X R w None ms fs0) rep
  | KSweepV variant X R w fs0 fs1 ms rep =>
      let solve := fun (m : nat) (_ : tensor F) (_ : list (tensor F)) => nth m fs1 (mk [] []) in
      let wm := if Nat.eqb variant 1%nat then None else w in
      let res := data_sweep Op solve X R wm ms fs0 None in
      forallb (fun k => nat_list_eqb (shape (nth k (fst res) (mk [] []))) (shape (nth k fs1 (mk [] []))) &&
                        q_list_eqb (map toQ (data (nth k (fst res) (mk [] [])))) (map toQ (data (nth k fs1 (mk [] []))))) (seq 0 (length fs1))
      && rel_close (if Nat.eqb variant 1%nat then constrained_iteration_error Op solve X R w ms fs0 else hals_iteration_error Op solve X R w ms fs0) rep
  | KNormSweep X R w0 fs0 ms solve_tape norm_tape rep =>
      let pos := fun m => index_of m ms in
      let solve := fun (m : nat) (_ : tensor F) (_ : list (tensor F)) => nth (pos m) solve_tape (mk [] []) in
      let norm := fun (m : nat) (st : @cpstate F) => nth (pos m) norm_tape st in
      Nat.eqb (length solve_tape) (length ms) && rel_close (norm_sweep_error Op solve norm true X R ms (w0, fs0)) rep
  | KTRData X cores rep =>
      let s := shape X in let N := length s in
      let r0 := nth 0 (shape (hd (mk [] []) cores)) 0%nat in
      let cs := map (core_of Op) cores in
      Nat.eqb (length cores) N &&
      forallb (fun d => Qeq_bool (toQ (tr_residual2_data Op X cores d)) (toQ (ls_residual2 Op s (tfun Op X) r0 cs d))) (seq 0 N) &&
      rel_close (tr_residual2_data Op X cores (N - 1), normsq Op s (tfun Op X)) rep
  | KRLoop n stop_at compute record cb nr nc =>
      let c := r_loop_counts n stop_at compute record cb in Nat.eqb (fst c) nr && Nat.eqb (snd c) nc
  | KIter X R card w0 fs0 snw snfs fs1 ms ls it tape jump acc w2 fs2 rep =>
      let orc := @mkFL F (fun _ m _ _ => nth m fs1 (mk [] [])) (fun _ sn st => if tape then (w2, fs2) else ls_extrapolate Op jump sn st) (fun _ _ _ => acc)
                         (fun st => st) (fun _ _ => false) in
      let r := fl_iteration Op orc X R card ms ls it (w0, fs0) (snw, snfs) [] in
      let st2 := fst (fst r) in
      rel_close (snd r) rep
      && Nat.eqb (length (snd st2)) (length fs2)
      && q_list_close atol rtol (map (fun r0 => toQ (wfun Op (fst st2) r0)) (seq 0 R)) (map (fun r0 => toQ (wfun Op w2 r0)) (seq 0 R))
      && forallb (fun k => nat_list_eqb (shape (nth k (snd st2) (mk [] []))) (shape (nth k fs2 (mk [] []))) &&
                           q_list_close atol rtol (map toQ (data (nth k (snd st2) (mk [] [])))) (map toQ (data (nth k fs2 (mk [] []))))) (seq 0 (length fs2))
  | KHooiHyp X G fs =>
      let s := shape X in let rs := shape G in let us := matsT Op fs in
      Nat.eqb (length fs) (length s) && Nat.eqb (length rs) (length s) &&
      forallb (fun k => let u := nth k us (fun _ _ => f0 Op) in let d := nth k s 0%nat in let r := nth k rs 0%nat in
                        forallb (fun a => forallb (fun b => qclose atol rtol (toQ (gram Op d (fun i => u i a) (fun i => u i b)))
                                                                   (if Nat.eqb a b then 1 else 0)) (seq 0 r)) (seq 0 r)) (seq 0 (length s)) &&
      q_list_close atol rtol (map toQ (data (tabulate rs (project Op s (tfun Op X) us)))) (map toQ (data G))
  | KTuckerNormalize G fs sc G' fs' =>
      let s := rows_of fs in let N := length fs in
      let rk := fun k => nth 1%nat (shape (nth k fs (mk [] []))) 0%nat in
      let st := blocks_of Op None fs in
      let scf := fun k a => nth a (nth k sc []) (f0 Op) in
      let outG := tabulate (shape G) (tucker_normalize_core Op N scf (tfun Op G)) in
      let outF := tucker_normalize_factors Op scf st in
      let st' := blocks_of Op None fs' in
      forallb (fun k => forallb (fun a => fleb Op (f0 Op) (scf k a) &&
                                           qclose atol rtol (toQ (fmul Op (scf k a) (scf k a))) (toQ (colsq Op s st k a))) (seq 0 (rk k))) (seq 0 N)
      && Nat.eqb (length fs') N && nat_list_eqb (rows_of fs') s && nat_list_eqb (shape G') (shape G)
      && q_list_close atol rtol (map toQ (data outG)) (map toQ (data G'))
      && forallb (fun k => forallb (fun i => forallb (fun a => qclose atol rtol (toQ (outF k i a)) (toQ (st' k i a))) (seq 0 (rk k)))
                                   (seq 0 (nth k s 0%nat))) (seq 0 N)
  end.

End A.

(* inl: dyadic execution; inr: the same case executed with Qops *)
Definition case := (nat * (@kind D + @kind Q))%type.
Definition agree (c : case) : bool :=
  match snd c with
  | inl k => agree_kind Dops d2q k
  | inr k => agree_kind Qops (fun x => x) k
  end.
Definition ident (c : case) : nat := fst c.
Definition failing := failing_ids agree ident.
