(* Correspondence for C07: the implementation's captured block states are pushed through ONE block of the
   model in exact rational arithmetic (Qops, reduced after every operation).
   * CPBlock   : state (X, weights, factors, mode, l2_reg) captured before a block of parafac /
                 non_negative_parafac_hals, the implementation's pseudo_inverse, mttkrp and new factor:
                 model G and MTTKRP must match the implementation's, the implementation's new factor must satisfy
                 the solve certificate x*G = mttkrp of the MODEL's system, and the exact block objective must not
                 increase (these are the hypotheses / the conclusion of C07_cp_block_descent).
   * Hals      : hals_nnls iterates observed through its callback: one model pass from every implementation
                 iterate must reproduce the next one, the exact objective must not increase.
   * LSBlock   : design matrix / right-hand sides / solution captured at a least-squares block (tensor ring ALS,
                 regressors, CMTF): normal equations hold for the implementation's solution, objective not above
                 the objective of the previous iterate.
   * SpecCert  : the spectral certificate of C07_ky_fan_bound / C07_hooi_*_descent on a recorded HOOI block: the matrix Y handed to the
                 SVD, an independently computed eigen-decomposition (Q, lam) of Y Y' and the implementation's factor U: Q'Q = QQ' = I,
                 Q'YY'Q = diag(lam), lam sorted, U'U = I, and U ATTAINS the sum of the leading eigenvalues (all toleranced).
   * ProcCert  : the thin-SVD certificate of C07_procrustes_bound / C07_parafac2_projection_descent on a recorded PARAFAC2 projection:
                 slice X, M = B diag(a_i) C', Z = X M' formed exactly, (A, sg, B) with unit columns / B'B = I / sg >= 0 / Z = A diag(sg) B',
                 the implementation's projection P has orthonormal columns and ATTAINS sum(sg) = <P, Z>.
   * CPReport  : the error parafac reports for an iterate: the model's | ||X||^2 + cp_norm^2 - 2 iprod | equals the exact squared error
                 (instance of C07_cp_reported_is_sqerr, exactly) and is (reported relative error * ||X||)^2 up to rounding.
   * Modes     : the modes updated by the first sweep of parafac / non_negative_parafac_hals == the model's reading of fixed_modes.
   * TkSweep   : a whole HOOI sweep block by block + the error reported for it (multi-step).
   * Loop      : the outer loop with its stopping rule (Model/DescentLoop.v) replayed on the values an implementation run recorded (reported errors /
                 norms of the weight tensor): the model stops after exactly as many iterations as the implementation did.
   * Norm      : cp_normalize on states of normalize_factors runs (and states with an all-zero column): model == implementation,
                 squared error exactly unchanged by the model's normalisation. *)
From Coq Require Import List Arith ZArith QArith Qabs Bool.
From TLV Require Import Base.Shape Base.PyList Base.Tensor Base.Ops Model.Descent Model.DescentReport Model.DescentModes Model.DescentLoop Corr.Common.
Import ListNotations.

Definition qmat := list (list Q).
Fixpoint mat_close (atol rtol : Q) (a b : qmat) : bool :=
  match a, b with
  | [], [] => true
  | x :: a', y :: b' => q_list_close atol rtol x y && mat_close atol rtol a' b'
  | _, _ => false
  end.
Definition qle (a b : Q) : bool := Qle_bool a b.
Definition forall_lt (n : nat) (p : nat -> bool) : bool := forallb p (seq 0 n).
Definition qsumabs (n : nat) (f : nat -> Q) : Q := gsum Qops n (fun i => Qred (Qabs (f i))).

(* tolerances *)
Definition tol_match : Q := 1 # 1000000000.       (* 1e-9: model vs implementation values *)
Definition tol_cert : Q := 1 # 100000000.         (* 1e-8: relative residual of solve certificates *)
Definition tol_obj : Q := 1 # 1000000000.         (* 1e-9: slack of objective comparisons, relative *)
Definition atol_tiny : Q := 1 # 1000000000000000. (* 1e-15 *)

Record cpcase := mkCP {
  cp_X : tensor Q; cp_w : list Q; cp_facs : list qmat; cp_k : nat; cp_lam : Q; cp_rank : nat;
  cp_Gimpl : qmat; cp_Mimpl : qmat; cp_xnew : qmat; cp_check_cert : bool }.

Definition cp_agree (c : cpcase) : bool :=
  let s := shape (cp_X c) in
  let G := cp_G_mat Qops s (cp_w c) (cp_facs c) (cp_k c) (cp_lam c) (cp_rank c) in
  let M := cp_mttkrp_mat Qops (cp_X c) (cp_w c) (cp_facs c) (cp_k c) (cp_rank c) in
  let dk := nth (cp_k c) s 0%nat in
  let normX2 := gsum Qops (prod s) (fun o => Qred (nth o (data (cp_X c)) 0 * nth o (data (cp_X c)) 0)) in
  let gscale := qsumabs (cp_rank c) (fun r => qsumabs (cp_rank c) (fun t => mget Qops G r t)) in
  let mscale := qsumabs dk (fun i => qsumabs (cp_rank c) (fun r => mget Qops M i r)) in
  (* 1. the system the code builds is the model's system (normwise tolerance) *)
  forall_lt (cp_rank c) (fun r => forall_lt (cp_rank c) (fun t =>
     qle (Qabs (mget Qops G r t - mget Qops (cp_Gimpl c) r t)) (tol_match * gscale + atol_tiny))) &&
  forall_lt dk (fun i => forall_lt (cp_rank c) (fun r =>
     qle (Qabs (mget Qops M i r - mget Qops (cp_Mimpl c) i r)) (tol_match * mscale + atol_tiny))) &&
  (* 2. the implementation's new factor satisfies the certificate of the model's system *)
  (negb (cp_check_cert c) ||
   forall_lt dk (fun i => forall_lt (cp_rank c) (fun r =>
     let lhs := cp_cert_lhs Qops s (cp_w c) (cp_facs c) (cp_k c) (cp_lam c) (cp_rank c) (cp_xnew c) i r in
     let sc := qsumabs (cp_rank c) (fun t => mget Qops (cp_xnew c) i t * qsumabs (cp_rank c) (fun t' => mget Qops G t' r)) in
     qle (Qabs (lhs - mget Qops M i r)) (tol_cert * (sc + Qabs (mget Qops M i r)) + atol_tiny)))) &&
  (* 3. the exact block objective does not increase *)
  (let before := cp_obj Qops (cp_X c) (cp_w c) (cp_facs c) (cp_k c) (cp_lam c) (cp_rank c) in
   let after := cp_obj Qops (cp_X c) (cp_w c) (set_nth (cp_k c) (cp_xnew c) (cp_facs c)) (cp_k c) (cp_lam c) (cp_rank c) in
   qle after (before + tol_obj * (before + normX2))).

Record halscase := mkH {
  h_G : qmat; h_B : qmat; h_l1 : Q; h_l2 : Q; h_eps : Q; h_rank : nat; h_ncols : nat;
  h_iterates : list qmat  (* V0 (initial), V1, V2, ... as seen by the callback *) }.

Fixpoint hals_chain (c : halscase) (prev : qmat) (rest : list qmat) : bool :=
  match rest with
  | [] => true
  | V :: rest' =>
      let model := hals_pass Qops (h_G c) (h_B c) (h_l1 c) (h_l2 c) (h_eps c) (h_rank c) (h_ncols c) prev in
      let ob := hals_obj Qops (h_G c) (h_B c) prev (h_l1 c) (h_l2 c) (h_rank c) (h_ncols c) in
      let oa := hals_obj Qops (h_G c) (h_B c) V (h_l1 c) (h_l2 c) (h_rank c) (h_ncols c) in
      let om := hals_obj Qops (h_G c) (h_B c) model (h_l1 c) (h_l2 c) (h_rank c) (h_ncols c) in
      let sc := qsumabs (h_rank c) (fun i => qsumabs (h_ncols c) (fun j => mget Qops (h_B c) i j * mget Qops prev i j)) + 1 in
      mat_close (1 # 1000000000000) tol_match model V &&
      qle om ob &&                                    (* the theorem, on this instance, exactly *)
      qle oa (ob + tol_obj * (Qabs ob + sc)) &&       (* the implementation's iterate, toleranced *)
      hals_chain c V rest'
  end.
Definition hals_agree (c : halscase) : bool :=
  match h_iterates c with [] => false | V0 :: rest => hals_chain c V0 rest end.

Record lscase := mkLS {
  ls_A : qmat; ls_Y : qmat; ls_lam : Q; ls_m : nat; ls_n : nat; ls_p : nat; ls_X : qmat; ls_prev : qmat }.
Definition ls_agree (c : lscase) : bool :=
  let A := ls_A c in let Y := ls_Y c in
  forall_lt (ls_n c) (fun j => forall_lt (ls_p c) (fun cc =>
    let lhs := ls_normal_lhs Qops A Y (ls_X c) (ls_m c) (ls_n c) j cc in
    let sc := qsumabs (ls_m c) (fun i => mget Qops A i j *
                 (Qabs (mget Qops Y i cc) + qsumabs (ls_n c) (fun t => mget Qops A i t * mget Qops (ls_X c) t cc))) in
    qle (Qabs (lhs - ls_lam c * mget Qops (ls_X c) j cc)) (tol_cert * (sc + Qabs (ls_lam c * mget Qops (ls_X c) j cc)) + atol_tiny))) &&
  (let after := ls_obj_m Qops A Y (ls_X c) (ls_lam c) (ls_m c) (ls_n c) (ls_p c) in
   let before := ls_obj_m Qops A Y (ls_prev c) (ls_lam c) (ls_m c) (ls_n c) (ls_p c) in
   let ny := gsum Qops (ls_p c) (fun cc => gsum Qops (ls_m c) (fun i => Qred (mget Qops Y i cc * mget Qops Y i cc))) in
   qle after (before + tol_obj * (before + ny))).

(* cp_normalize (cp_tensor.py) on a state of a normalize_factors run: the column norms are an answer tape (sqrt is an oracle),
   per mode (scales, scales_non_zero); the model's normalised state must be the implementation's, and - the instance of
   C07_cp_normalize_invariant - the model's squared error is EXACTLY unchanged, the implementation's up to rounding *)
Record normcase := mkN {
  n_X : tensor Q; n_w : list Q; n_facs : list qmat; n_rank : nat;
  n_tape : list (list Q * list Q); n_wimpl : list Q; n_facsimpl : list qmat }.
Fixpoint mats_close (atol rtol : Q) (a b : list qmat) : bool :=
  match a, b with
  | [], [] => true
  | x :: a', y :: b' => mat_close atol rtol x y && mats_close atol rtol a' b'
  | _, _ => false
  end.
Definition norm_agree (c : normcase) : bool :=
  let s := shape (n_X c) in
  let norms := fun (k : nat) (_ : @cpstate Q) => nth k (n_tape c) ([], []) in
  let st' := cp_normalize_m Qops s (n_rank c) norms (n_w c, n_facs c) in
  let before := cp_sqerr Qops (n_X c) (n_w c) (n_facs c) (n_rank c) in
  let after_model := cp_sqerr Qops (n_X c) (fst st') (snd st') (n_rank c) in
  let after_impl := cp_sqerr Qops (n_X c) (n_wimpl c) (n_facsimpl c) (n_rank c) in
  let normX2 := gsum Qops (prod s) (fun o => Qred (nth o (data (n_X c)) 0 * nth o (data (n_X c)) 0)) in
  q_list_close (1 # 1000000000000) tol_match (fst st') (n_wimpl c) &&
  mats_close (1 # 1000000000000) tol_match (snd st') (n_facsimpl c) &&
  Qeq_bool after_model before &&
  qle (Qabs (after_impl - before)) (tol_obj * (before + normX2)).

(* ridge block of CPRegressor.fit (scalar responses): samples, responses, factors before the block, mode, the implementation's
   new factor.  The design matrix is NOT taken from the implementation: the model derives it from the samples (flattened MTTKRPs);
   the implementation's new factor must satisfy the normal equations of that model system and must not increase the exact objective *)
Record regcase := mkRg {
  r_Xs : list (tensor Q); r_ys : list Q; r_facs : list qmat; r_k : nat; r_rank : nat; r_reg : Q; r_xnew : qmat }.
Definition reg_agree (c : regcase) : bool :=
  let w := map (fun _ : nat => 1) (seq 0 (r_rank c)) in
  let X0 := nth 0 (r_Xs c) (mk [] []) in
  let dk := nth (r_k c) (shape X0) 0%nat in
  let ns := length (r_Xs c) in
  let ny := gsum Qops ns (fun s => Qred (nth s (r_ys c) 0 * nth s (r_ys c) 0)) in
  (* predictions with the new factor, computed once: cpreg_normal_lhs = sum_s MTTKRP_s(i,r) * (y_s - prediction_s) *)
  let preds := map (fun X => cp_inner Qops X w (set_nth (r_k c) (r_xnew c) (r_facs c)) (r_rank c)) (r_Xs c) in
  (* the MTTKRP of every sample (the rows of the model's design matrix), computed once *)
  let Mts := map (fun X => cp_mttkrp_mat Qops X w (r_facs c) (r_k c) (r_rank c)) (r_Xs c) in
  let mt := fun (s i r : nat) => mget Qops (nth s Mts []) i r in
  forall_lt dk (fun i => forall_lt (r_rank c) (fun r =>
    let lhs := gsum Qops ns (fun s => Qred (mt s i r * (nth s (r_ys c) 0 - nth s preds 0))) in
    let rhs := Qred (r_reg c * mget Qops (r_xnew c) i r) in
    let sc := qsumabs ns (fun s => mt s i r * (Qabs (nth s (r_ys c) 0) + Qabs (nth s preds 0))) in
    qle (Qabs (lhs - rhs)) (tol_cert * (sc + Qabs rhs) + atol_tiny))) &&
  (let before := cpreg_obj Qops (r_Xs c) (r_ys c) w (r_facs c) (r_k c) dk (r_rank c) (r_reg c) in
   let after := cpreg_obj Qops (r_Xs c) (r_ys c) w (set_nth (r_k c) (r_xnew c) (r_facs c)) (r_k c) dk (r_rank c) (r_reg c) in
   qle after (before + tol_obj * (before + ny))).

(* Tucker / HOOI: factors before and after one HOOI block (identity on undecomposed modes), the implementation's core computed from
   the factors after the block: the model core is the implementation's, the factors have orthonormal columns, the identity
   ||X - core x U||^2 = ||X||^2 - ||core||^2 holds on the instance, and the exact Tucker objective does not increase over the block *)
Record tkcase := mkTk { t_X : tensor Q; t_rs : list nat; t_before : list qmat; t_after : list qmat; t_core : list Q; t_k : nat; t_Y : qmat }.
Fixpoint orth_defect_ok (s rs : list nat) (Us : list qmat) : bool :=
  match s, rs, Us with
  | d :: s', r :: rs', U :: Us' =>
      forall_lt r (fun a => forall_lt r (fun b =>
        qle (Qabs (gsum Qops d (fun i => Qred (mget Qops U i a * mget Qops U i b)) - (if Nat.eqb a b then 1 else 0))) tol_cert)) &&
      orth_defect_ok s' rs' Us'
  | [], [], [] => true
  | _, _, _ => false
  end.
Definition tk_agree (c : tkcase) : bool :=
  let X := t_X c in let rs := t_rs c in
  let normX2 := gsum Qops (prod (shape X)) (fun o => Qred (nth o (data X) 0 * nth o (data X) 0)) in
  let core := data (tk_core Qops X (t_after c) rs) in
  let cscale := qsumabs (prod rs) (fun q => nth q core 0) in
  let core_n2 := gsum Qops (prod rs) (fun q => Qred (nth q core 0 * nth q core 0)) in      (* = tk_core_norm2, from the core computed once *)
  let obj_after := tk_sqerr Qops X rs core (t_after c) in                                  (* = tk_hooi_obj by definition *)
  let obj_before := tk_hooi_obj Qops X rs (t_before c) in
  orth_defect_ok (shape X) rs (t_after c) &&
  Nat.eqb (length (t_core c)) (prod rs) &&
  forall_lt (prod rs) (fun q => qle (Qabs (nth q core 0 - nth q (t_core c) 0)) (tol_match * cscale + atol_tiny)) &&
  qle (Qabs (obj_after - (normX2 - core_n2))) (tol_cert * normX2) &&
  qle obj_after (obj_before + tol_cert * normX2) &&
  (* the matrix the implementation handed to the SVD of this block is the model's mode-k unfolding of X x_{j<>k} U_j'
     (unfold_k of Proofs/DescentProofsUnfold.v: the core with the unit vector e_i in place of factor k, core index 0 in mode k),
     compared through the Gram matrix Y Y' - what the leading left singular vectors and the objective depend on: invariant under a
     re-ordering / sign change / rotation of the columns of the other factors (harmless refactorings), sensitive to wrong or stale factors *)
  (let k := t_k c in let d := nth k (shape X) 0%nat in let rs' := set_nth k 1%nat rs in let p := prod rs' in
   let Ym := tab2 d p (fun i cc => tk_core_at Qops X (set_nth k (unit_mat Qops d 1 i 0) (t_before c)) (unravel rs' cc)) in
   let gm := fun (M : qmat) (i i' : nat) => gsum Qops p (fun cc => Qred (mget Qops M i cc * mget Qops M i' cc)) in
   let yscale := gsum Qops d (fun i => gm (t_Y c) i i) in
   forall_lt d (fun i => forall_lt d (fun i' =>
     qle (Qabs (gm Ym i i' - gm (t_Y c) i i')) (tol_match * yscale + atol_tiny)))).

(* coupled block of CMTF: state before the block, V, the implementation's new coupled factor: normal equations of the MODEL system
   G + V'V against MTTKRP + Y V, exact coupled objective does not increase *)
Record cmtfcase := mkCm { m_X : tensor Q; m_Y : qmat; m_facs : list qmat; m_V : qmat; m_q : nat; m_rank : nat; m_xnew : qmat }.
Definition cmtf_agree (c : cmtfcase) : bool :=
  let s := shape (m_X c) in let w := map (fun _ : nat => 1) (seq 0 (m_rank c)) in
  let d0 := nth 0 s 0%nat in
  forall_lt d0 (fun i => forall_lt (m_rank c) (fun r =>
    let lhs := cmtf_cert_lhs Qops s w (m_facs c) (m_V c) (m_q c) (m_rank c) (m_xnew c) i r in
    let rhs := cmtf_M Qops (m_X c) (m_Y c) w (m_facs c) (m_V c) (m_q c) i r in
    let sc := qsumabs (m_rank c) (fun t => mget Qops (m_xnew c) i t * qsumabs (m_rank c) (fun t' => cmtf_G Qops s w (m_facs c) (m_V c) (m_q c) t' r)) in
    qle (Qabs (lhs - rhs)) (tol_cert * (sc + Qabs rhs) + atol_tiny))) &&
  (let before := cmtf_obj Qops (m_X c) (m_Y c) w (m_facs c) (m_V c) (m_q c) (m_rank c) in
   let after := cmtf_obj Qops (m_X c) (m_Y c) w (set_nth 0 (m_xnew c) (m_facs c)) (m_V c) (m_q c) (m_rank c) in
   qle after (before + tol_obj * (before + 1))).

(* ridge blocks of TuckerRegressor.fit (scalar responses): samples, responses, core and factors before the block; the block is the
   core (g_iscore) or factor g_k; the implementation's answer must satisfy the normal equations of the MODEL-derived design
   (projected samples / unit-matrix predictions) and must not increase the exact block objective *)
Record tkregcase := mkTg {
  g_Xs : list (tensor Q); g_ys : list Q; g_rs : list nat; g_core : list Q; g_Us : list qmat; g_iscore : bool; g_k : nat; g_reg : Q;
  g_newcore : list Q; g_newfac : qmat }.
Definition tkreg_agree (c : tkregcase) : bool :=
  let Xs := g_Xs c in let ys := g_ys c in let rs := g_rs c in let ns := length Xs in
  let ny := gsum Qops ns (fun s => Qred (nth s ys 0 * nth s ys 0)) in
  if g_iscore c then
    (* predictions with the new core, computed once *)
    let preds := map (fun X => tk_inner Qops X rs (g_newcore c) (g_Us c)) Xs in
    let proj := map (fun X => data (tk_core Qops X (g_Us c) rs)) Xs in       (* projected samples, computed once *)
    let pj := fun (s q : nat) => nth q (nth s proj []) 0 in
    forall_lt (prod rs) (fun q =>
      let lhs := gsum Qops ns (fun s => Qred (pj s q * (nth s ys 0 - nth s preds 0))) in
      let rhs := Qred (g_reg c * nth q (g_newcore c) 0) in
      let sc := qsumabs ns (fun s => pj s q * (Qabs (nth s ys 0) + Qabs (nth s preds 0))) in
      qle (Qabs (lhs - rhs)) (tol_cert * (sc + Qabs rhs) + atol_tiny)) &&
    qle (tkreg_obj_core Qops Xs ys rs (g_newcore c) (g_Us c) (g_reg c))
        (tkreg_obj_core Qops Xs ys rs (g_core c) (g_Us c) (g_reg c) + tol_obj * (ny + 1))
  else
    let k := g_k c in let dk := nth k (shape (nth 0 Xs (mk [] []))) 0%nat in
    let Us' := set_nth k (g_newfac c) (g_Us c) in
    let preds := map (fun X => tk_inner Qops X rs (g_core c) Us') Xs in
    let coefs := map (fun X => tab2 dk (nth k rs 0%nat) (fun i b => tkreg_coef Qops X rs (g_core c) (g_Us c) k i b)) Xs in   (* once *)
    let cf := fun (s i b : nat) => mget Qops (nth s coefs []) i b in
    forall_lt dk (fun i => forall_lt (nth k rs 0%nat) (fun b =>
      let lhs := gsum Qops ns (fun s => Qred (cf s i b * (nth s ys 0 - nth s preds 0))) in
      let rhs := Qred (g_reg c * mget Qops (g_newfac c) i b) in
      let sc := qsumabs ns (fun s => cf s i b * (Qabs (nth s ys 0) + Qabs (nth s preds 0))) in
      qle (Qabs (lhs - rhs)) (tol_cert * (sc + Qabs rhs) + atol_tiny))) &&
    qle (tkreg_obj_fac Qops Xs ys rs (g_core c) Us' k dk (g_reg c))
        (tkreg_obj_fac Qops Xs ys rs (g_core c) (g_Us c) k dk (g_reg c) + tol_obj * (ny + 1)).

(* tensor-ring ALS block: cores before the block, the block index, the implementation's new core and (lstsq variant) its design
   matrix: the model's sub-chain design matrix is the implementation's, the new core satisfies the normal equations of the MODEL
   design, the rotated block objective equals the true squared error of the ring EXACTLY (trace cyclicity on the instance) and does
   not increase *)
Record trcase := mkTr { tr_X : tensor Q; tr_cores : list (tensor Q); tr_dim : nat; tr_new : tensor Q; tr_has_design : bool; tr_design : qmat }.
Definition tr_agree (c : trcase) : bool :=
  let X := tr_X c in let s := shape X in let cs := tr_cores c in let d := tr_dim c in let G := tr_new c in
  let ra := nth 0 (shape G) 0%nat in let rb := nth 2 (shape G) 0%nat in
  let normX2 := gsum Qops (prod s) (fun o => Qred (nth o (data X) 0 * nth o (data X) 0)) in
  let newcs := set_nth d G cs in
  let obj_new := tr_block_obj Qops X cs d G in
  let obj_old := tr_block_obj Qops X cs d (nth d cs (mk [] [])) in
  Qeq_bool obj_new (tr_sqerr Qops X newcs) && Qeq_bool obj_old (tr_sqerr Qops X cs) &&
  qle obj_new (obj_old + tol_obj * (obj_old + normX2)) &&
  forall_lt (nth d s 0%nat) (fun i => forall_lt (ra * rb) (fun j =>
    qle (Qabs (tr_normal_lhs Qops X cs d G i j)) (tol_cert * (qsumabs (prod s) (fun o =>
       tr_sub Qops cs (unravel s o) d (j mod rb) (j / rb) * (Qabs (nth o (data X) 0) + Qabs (tr_pred_block Qops cs G d (unravel s o))))) + atol_tiny))) &&
  (negb (tr_has_design c) ||
   (* rows of the implementation's design matrix: the other modes in their natural order, row-major *)
   let others := remove_nth d s in
   forall_lt (prod others) (fun row =>
     let idx := insert_at d 0%nat (unravel others row) in
     forall_lt (ra * rb) (fun j =>
       qle (Qabs (tr_sub Qops cs idx d (j mod rb) (j / rb) - mget Qops (tr_design c) row j)) (tol_match * 1 + tol_match * Qabs (mget Qops (tr_design c) row j))))).

(* ---------- certificates of the two spectral oracles (hypotheses of C07_hooi_block_descent / C07_parafac2_projection_descent) ---------- *)
Definition qdot (n : nat) (f g : nat -> Q) : Q := gsum Qops n (fun i => Qred (f i * g i)).
Definition qdelta (a b : nat) : Q := if Nat.eqb a b then 1 else 0.
Record speccase := mkSp { s_m : nat; s_p : nat; s_r : nat; s_Y : qmat; s_Q : qmat; s_lam : list Q; s_U : qmat }.
Definition spec_agree (c : speccase) : bool :=
  let m := s_m c in let p := s_p c in let r := s_r c in let Y := s_Y c in let Qm := s_Q c in let U := s_U c in
  let ny := gsum Qops m (fun i => gsum Qops p (fun cc => Qred (mget Qops Y i cc * mget Qops Y i cc))) in
  (* Q'Y once *)
  let QtY := tab2 m p (fun i cc => qdot m (fun t => mget Qops Qm t i) (fun t => mget Qops Y t cc)) in
  let UtY2 := gsum Qops r (fun a => gsum Qops p (fun cc =>
                 let v := qdot m (fun t => mget Qops U t a) (fun t => mget Qops Y t cc) in Qred (v * v))) in
  Nat.leb r m &&
  forall_lt m (fun i => forall_lt m (fun j =>
    qle (Qabs (qdot m (fun t => mget Qops Qm t i) (fun t => mget Qops Qm t j) - qdelta i j)) tol_cert &&
    qle (Qabs (qdot m (fun t => mget Qops Qm i t) (fun t => mget Qops Qm j t) - qdelta i j)) tol_cert &&
    qle (Qabs (qdot p (fun cc => mget Qops QtY i cc) (fun cc => mget Qops QtY j cc) - qdelta i j * nth i (s_lam c) 0)) (tol_cert * ny + atol_tiny) &&
    (negb (Nat.leb i j) || qle (nth j (s_lam c) 0) (nth i (s_lam c) 0 + tol_cert * ny)))) &&
  forall_lt r (fun a => forall_lt r (fun b =>
    qle (Qabs (qdot m (fun t => mget Qops U t a) (fun t => mget Qops U t b) - qdelta a b)) tol_cert)) &&
  qle (gsum Qops r (fun i => nth i (s_lam c) 0)) (UtY2 + tol_cert * ny + atol_tiny).

Record proccase := mkPc { p_J : nat; p_R : nat; p_K : nat; p_X : qmat; p_M : qmat; p_A : qmat; p_sg : list Q; p_B : qmat; p_P : qmat }.
Definition proc_agree (c : proccase) : bool :=
  let J := p_J c in let R' := p_R c in let K := p_K c in
  let Z := tab2 J R' (fun i j => qdot K (fun cc => mget Qops (p_X c) i cc) (fun cc => mget Qops (p_M c) j cc)) in     (* X M' *)
  let nz := qsumabs J (fun i => qsumabs R' (fun j => mget Qops Z i j)) in
  let ssg := gsum Qops R' (fun k => nth k (p_sg c) 0) in
  let PZ := gsum Qops J (fun i => gsum Qops R' (fun j => Qred (mget Qops (p_P c) i j * mget Qops Z i j))) in
  forall_lt R' (fun k =>
    qle (Qabs (qdot J (fun i => mget Qops (p_A c) i k) (fun i => mget Qops (p_A c) i k) - 1)) tol_cert &&
    qle 0 (nth k (p_sg c) 0) &&
    forall_lt R' (fun l =>
      qle (Qabs (qdot R' (fun i => mget Qops (p_B c) i k) (fun i => mget Qops (p_B c) i l) - qdelta k l)) tol_cert &&
      qle (Qabs (qdot J (fun i => mget Qops (p_P c) i k) (fun i => mget Qops (p_P c) i l) - qdelta k l)) tol_cert)) &&
  forall_lt J (fun i => forall_lt R' (fun j =>
    qle (Qabs (mget Qops Z i j - gsum Qops R' (fun k => Qred (Qred (mget Qops (p_A c) i k * nth k (p_sg c) 0) * mget Qops (p_B c) j k))))
        (tol_cert * nz + atol_tiny))) &&
  qle ssg (PZ + tol_cert * (ssg + nz) + atol_tiny).

(* the error parafac reports for an iterate (w, facs): rel = sqrt(| ||X||^2 + cp_norm^2 - 2 iprod |) / ||X|| *)
Record repcase := mkRp { e_X : tensor Q; e_w : list Q; e_facs : list qmat; e_k : nat; e_rank : nat; e_rel : Q }.
Definition rep_agree (c : repcase) : bool :=
  let X := e_X c in
  let normX2 := tnormsq Qops X in
  let rep := cp_err2_reported Qops X (e_w c) (e_facs c) (e_k c) (e_rank c) in
  let sq := cp_sqerr Qops X (e_w c) (e_facs c) (e_rank c) in
  Qeq_bool rep sq &&
  qle (Qabs (Qred (Qred (e_rel c * e_rel c) * normX2) - sq)) (tol_cert * normX2 + tol_cert * sq).

(* a WHOLE HOOI sweep (multi-step): the factor lists before the sweep and after each of its blocks (identity on undecomposed modes) and the
   error partial_tucker reported for this sweep: the exact Tucker objective does not increase at ANY block of the sweep (instance of
   C07_hooi_sweep_descent), the factors after the sweep have orthonormal columns, and the reported error is the model's
   sqrt(| ||X||^2 - ||core||^2 |) / ||X|| of the state after the sweep (C07_hooi_reported_monotone speaks about it), which is its objective *)
Record tksweepcase := mkTs { ts_X : tensor Q; ts_rs : list nat; ts_states : list (list qmat); ts_rel : Q }.
Fixpoint nonincreasing_tol (slack : Q) (l : list Q) : bool :=
  match l with
  | a :: ((b :: _) as rest) => qle b (a + slack) && nonincreasing_tol slack rest
  | _ => true
  end.
Definition tksweep_agree (c : tksweepcase) : bool :=
  let X := ts_X c in let rs := ts_rs c in
  let normX2 := gsum Qops (prod (shape X)) (fun o => Qred (nth o (data X) 0 * nth o (data X) 0)) in
  let objs := map (fun Us => tk_hooi_obj Qops X rs Us) (ts_states c) in
  let final := last (ts_states c) [] in
  let rep2 := Qred (Qred (ts_rel c * ts_rel c) * normX2) in
  Nat.leb 2 (length (ts_states c)) &&
  nonincreasing_tol (tol_cert * normX2) objs &&
  orth_defect_ok (shape X) rs final &&
  qle (Qabs (rep2 - Qabs (normX2 - tk_core_norm2 Qops X rs final))) (tol_cert * normX2) &&
  qle (Qabs (rep2 - last objs 0)) (tol_cert * normX2 + tol_cert * normX2).

(* option parsing of `fixed_modes` (parafac / non_negative_parafac_hals): the modes updated by the implementation's first sweep, in order,
   are the model's list; with all modes fixed parafac returns its initialisation without a sweep *)
Fixpoint natl_eqb (a b : list nat) : bool :=
  match a, b with [] , [] => true | x :: a', y :: b' => Nat.eqb x y && natl_eqb a' b' | _, _ => false end.
Record modescase := mkMd { md_n : nat; md_fixed : list nat; md_is_nn : bool; md_observed : list nat }.
Definition modes_agree (c : modescase) : bool :=
  let expected := if md_is_nn c then nn_modes_list (md_n c) (md_fixed c)
                  else if cp_all_fixed (md_n c) (md_fixed c) then [] else cp_modes_list (md_n c) (md_fixed c) in
  natl_eqb (md_observed c) expected.

(* the outer loop with the stopping rule of the algorithm (0 parafac / nn-HALS, 1 tucker, 2 parafac2, 3 tensor_ring_als, 4 CMTF, 5 regressors),
   replayed on the recorded history (oldest first): number of iterations == the implementation's *)
Record loopcase := mkLp { lp_alg : nat; lp_abs : bool; lp_tol : Q; lp_nmax : nat; lp_tape : list Q; lp_iters : nat }.
Definition loop_agree (c : loopcase) : bool :=
  Nat.eqb (tape_iters Qops (rule_of Qops (lp_alg c) (lp_abs c) (lp_tol c)) (lp_nmax c) (lp_tape c)) (lp_iters c).

Inductive body := CPBlock (c : cpcase) | Hals (c : halscase) | LSBlock (c : lscase) | Norm (c : normcase) | RegBlock (c : regcase)
                | TkBlock (c : tkcase) | CmtfBlock (c : cmtfcase) | TkRegBlock (c : tkregcase) | TRBlock (c : trcase)
                | SpecCert (c : speccase) | ProcCert (c : proccase) | CPReport (c : repcase) | TkSweep (c : tksweepcase) | Modes (c : modescase) | Loop (c : loopcase).
Definition case := (nat * body)%type.
Definition agree (c : case) : bool :=
  match snd c with CPBlock b => cp_agree b | Hals b => hals_agree b | LSBlock b => ls_agree b | Norm b => norm_agree b | RegBlock b => reg_agree b
  | TkBlock b => tk_agree b | CmtfBlock b => cmtf_agree b | TkRegBlock b => tkreg_agree b | TRBlock b => tr_agree b
  | SpecCert b => spec_agree b | ProcCert b => proc_agree b | CPReport b => rep_agree b | TkSweep b => tksweep_agree b | Modes b => modes_agree b | Loop b => loop_agree b end.
Definition ident (c : case) : nat := fst c.
Definition failing := failing_ids agree ident.
