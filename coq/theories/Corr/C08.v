(* Correspondence for C08: run the structural model (Model/Structure.v) on the same shapes / rank
   specifications as the implementation and compare the shapes of everything that was returned
   (factor shapes, weights, core, and the .shape / .rank attributes recomputed by the wrapper
   constructors) exactly.  Oracle answers (brentq / quadratic root) come with the case and their
   defining equation is re-evaluated here in exact arithmetic. *)
From Coq Require Import List Arith NArith ZArith QArith Qabs Bool.
From TLV Require Import Base.Shape Base.Tensor Model.Structure Model.StructureQ Model.StructureHooi Model.StructureWeights Model.StructureRanks Model.StructureTrAls Model.StructureCmtf Corr.Common.
Import ListNotations.
Local Open Scope nat_scope.

Inductive op :=
(* validators *)
| VCp (shape : list nat) (spec : rspec) (rd : rounding)
| VTucker (shape : list nat) (spec : rspec) (rd : rounding) (c : Q)
| VTt (shape : list nat) (spec : rspec) (constant : bool) (rd : rounding) (allow_over : bool) (c : Q)
| VTr (shape : list nat) (spec : rspec) (rd : rounding)
| VTtm (tshape : list nat) (spec : rspec) (c : Q)
| VTuckerFm (shape : list nat) (spec : rspec) (rd : rounding) (fixed_modes : option (list nat)) (c : Q)   (* validate_tucker_rank(fixed_modes=...) *)
(* decompositions *)
| DTt (shape : list nat) (spec : rspec) (c : Q)
| DTtm (tshape : list nat) (spec : rspec) (c : Q)
| DTr (shape : list nat) (spec : rspec) (mode : nat)
| DTucker (shape : list nat) (spec : rspec) (c : Q) (random_init : bool) (n_iter : nat)
| DCp (shape : list nat) (spec : rspec)
| DParafac2 (slices : list (nat * nat)) (r : nat)
| DTrAls (shape : list nat) (spec : rspec)
| DCmtf (shape3 : list nat) (m : nat) (spec : rspec)
(* the loop of tensor_ring_als (Model/StructureTrAls.v): shapes of the returned cores for the run's iteration cap and decisions (answer tape:
   callback asked to stop, convergence fired), followed - when the run's lstsq calls were logged - by the (design matrix, right-hand side)
   shapes of the first sweep *)
(* the loop of coupled_matrix_tensor_3d_factorization (Model/StructureCmtf.v): shapes of everything returned for the run's iteration cap and decisions
   (answer tape: convergence fired, read off the returned error list), followed - when the lstsq calls were logged - by the (design matrix, right-hand
   side) shapes of the four least-squares problems of the first sweep *)
| DCmtfLoop (shape3 : list nat) (m : nat) (spec : rspec) (n_iter : nat) (decisions : list bool) (with_log : bool)
| DTrAlsLoop (shape : list nat) (spec : rspec) (tol_pos : bool) (n_iter : nat) (decisions : list (bool * bool)) (with_log : bool)
(* control flow of the CP drivers w.r.t. normalisation; the decisions are the implementation's (answer tape) *)
| DNorm (d : driver) (nf tol_set : bool) (ik : init_kind) (n_modes : nat) (fixed : list nat) (n_iter : nat)
        (decisions : list (bool * bool)) (obs_sweeps : bool)
| DNorm2 (d : driver2) (nf tol_set : bool) (n_iter : nat) (decisions : list bool)
(* partial_tucker on a list of modes; tucker with fixed factors (init = a Tucker tensor with factor m of shape I_m x rank_m) *)
| DPartialTucker (shape rank modes : list nat)
| DTuckerFixed (shape rank fixed : list nat)
| DPartialTuckerRandom0 (shape rank modes : list nat)        (* init = 'random', n_iter_max = 0: the drawn core and factors *)
| DPartialTuckerSpec (shape : list nat) (spec : option rspec) (modes : list nat)     (* rank = None / an int / a list *)
(* canonical form evaluated exactly on the implementation's outputs (floats as exact rationals) *)
| DDesc (d : desc)            (* a loop skeleton read off the source: does it satisfy the hypothesis of C08_gen_run_normalised? *)
| QOrth (k : nat) (M : list Q) (tol : Q)
| QTucker (shape ranks : list nat) (X core : list Q) (fs : list (list Q)) (tol_orth tol_proj : Q)
| CQOrth (k : nat) (M : list CQ) (tol : Q)                       (* complex data: M^H M = I *)
| CQTucker (shape ranks : list nat) (X core : list CQ) (fs : list (list CQ)) (tol_orth tol_proj : Q)   (* core = X x_k U_k^H *)
(* control flow of partial_tucker / tucker (HOOI): the log of svd_interface / multi_mode_dot calls, "the returned core is the output of the
   last full projection and no factor was assigned after it", "every returned factor is the U of the last SVD for its position" *)
| DHooi (ik : init_kind) (k : nat) (mask tol_set : bool) (n_iter : nat) (decisions : list bool)
| DHooiFixed (n_modes n_fixed : nat) (mask tol_set : bool) (n_iter : nat) (decisions : list bool)
(* svd_interface calls of tensor_train / tensor_ring / tensor_train_matrix: (n_row, n_column, n_eigenvecs) per call, then two observables:
   every core but the last is the reshaped U of its call; the last core is the reshaped S * V of the last call *)
| DTtCalls (shape : list nat) (spec : rspec) (c : Q)
| DTrCalls (shape : list nat) (spec : rspec) (mode : nat)
| DTtmCalls (tshape : list nat) (spec : rspec) (c : Q)
(* parafac2: the calls of _compute_projections (number of calls; which call's output the returned projections are, counted from the last: 0 = the
   last call, 1 = the one before; 99 = none: the initial projections) -- decisions: the implementation's (line-search acceptance, convergence) *)
| DP2Calls (ik : init_kind) (nn_builtin nf tol_set linesearch : bool) (n_iter : nat) (decisions : list (bool * bool))
| DWprog (p : list wstmt)     (* the assignments to the CP weights read off a driver's source: the hypothesis of C08_wprog_unit_weights *)
| DIpaths (ps : list (list istmt))   (* the paths of initialize_cp read off the source: the hypothesis of C08_ipaths_unit_weights *)
| DHprog (p : hprog)         (* the loop of partial_tucker read off the source: does it satisfy the hypothesis of C08_prog_run_core_projected? *)
| QCpNorm (R : nat) (w : option (list Q)) (fs scales : list (list Q)) (tol : Q) (wout : list Q) (fout : list (list Q)).

Definition is_frac (s : rspec) : bool := match s with RFrac _ => true | _ => false end.
Definition frac_of (s : rspec) : Q := match s with RFrac q => q | _ => 0%Q end.
Definition small (x : Q) : bool := Qle_bool (Qabs x) (1 # 1000000000)%Q.

(* the oracle answer must (approximately) solve the equation the code hands to brentq / the quadratic formula *)
Definition oracle_ok (o : op) : bool :=
  match o with
  | VTucker shape spec _ c | DTucker shape spec c _ _ =>
      negb (is_frac spec) || small (Qred (tucker_residual shape (frac_of spec) c / n2q (prod shape))%Q)
  | VTt shape spec constant _ _ c =>
      negb (is_frac spec) ||
      small (Qred (tt_residual (if constant then tt_quadratic_const shape (frac_of spec) else tt_quadratic shape (frac_of spec)) c
                   / n2q (prod shape))%Q)
  | VTuckerFm shape spec _ fm c =>
      negb (is_frac spec) || small (Qred (validate_tucker_rank_fm_residual shape spec fm c / n2q (prod shape))%Q)
  | DTt shape spec c | DTtCalls shape spec c =>
      negb (is_frac spec) || small (Qred (tt_residual (tt_quadratic shape (frac_of spec)) c / n2q (prod shape))%Q)
  | _ => true
  end.

Definition one {A} (r : res A) (f : A -> list (list nat)) : res (list (list nat)) := rbind r (fun a => Ok (f a)).

Definition run (o : op) : res (list (list nat)) :=
  match o with
  | VCp shape spec rd => one (validate_cp_rank shape spec rd) (fun r => [[r]])
  | VTucker shape spec rd c => one (validate_tucker_rank shape spec rd c) (fun r => [r])
  | VTt shape spec constant rd ao c => one (validate_tt_rank shape spec constant rd ao c) (fun r => [r])
  | VTr shape spec rd => one (validate_tr_rank shape spec rd) (fun r => [r])
  | VTtm tshape spec c => one (validate_tt_matrix_rank tshape spec c) (fun r => [r])
  | VTuckerFm shape spec rd fm c => one (validate_tucker_rank_fm shape spec rd fm c) (fun r => [r])
  | DTt shape spec c => one (tensor_train shape spec c) tt_observe
  | DTtm tshape spec c => tensor_train_matrix tshape spec c
  | DTr shape spec mode => one (tensor_ring shape spec mode) tt_observe
  | DTucker shape spec c ri n => tucker shape spec c ri n
  | DCp shape spec => parafac shape spec
  | DParafac2 slices r => parafac2 slices r
  | DTrAls shape spec => one (tensor_ring_als shape spec) tt_observe
  | DCmtf shape3 m spec => cmtf shape3 m spec
  | DCmtfLoop shape3 m spec n decisions with_log =>
      rbind (validate_cp_rank shape3 spec RRound) (fun r =>
      rbind (cmtf_run shape3 m spec n decisions) (fun out =>
      if with_log then rbind (cmtf_sweep shape3 [hd 0 shape3; m] (map (fun s => [s; r]) shape3))
                             (fun sw => Ok (out ++ flat_map (fun p => [fst p; snd p]) (fst (fst sw))))
      else Ok out))
  | DTrAlsLoop shape spec tol_pos n decisions with_log =>
      rbind (validate_tr_rank shape spec RRound) (fun rank =>
      rbind (tr_als_run shape spec tol_pos n decisions) (fun cores =>
      if with_log then rbind (tr_als_sweep_log shape rank (seq 0 (length shape)) (trals_cores shape rank))
                             (fun l => Ok (cores ++ flat_map (fun p => [fst p; snd p]) l))
      else Ok cores))
  | DNorm d nf tol_set ik n_modes fixed n decisions obs_sweeps =>
      (* observables: number of executed sweeps (when the implementation reports it), "the returned state is the
         output of cp_normalize", "cp_normalize was applied at all" *)
      let t := trace_run d nf tol_set ik n_modes fixed n decisions in
      let m := length (modes_list d n_modes fixed) in
      Ok [[if obs_sweeps then (if m =? 0 then 0 else length (updates t) / m) else 0];
          [if ends_normalised t then 1 else 0]; [if any_normalise t then 1 else 0]]
  | DPartialTucker shape rank modes => partial_tucker shape rank modes
  | DTuckerFixed shape rank fixed => tucker_fixed shape rank fixed
  | DPartialTuckerRandom0 shape rank modes => partial_tucker_random0 shape rank modes
  | DPartialTuckerSpec shape spec modes => partial_tucker_spec shape spec modes
  | DDesc d => Ok [[if desc_ok d then 1 else 0]]
  | QOrth k M tol => Ok [[if orth_ok k M tol then 1 else 0]]
  | QTucker shape ranks X core fs t1 t2 => Ok [[if tucker_ok shape ranks X core fs t1 t2 then 1 else 0]]
  | CQOrth k M tol => Ok [[if corth_ok k M tol then 1 else 0]]
  | CQTucker shape ranks X core fs t1 t2 => Ok [[if ctucker_ok shape ranks X core fs t1 t2 then 1 else 0]]
  | QCpNorm R w fs scales tol wout fout =>
      match cp_normalize_q R w fs scales tol with
      | Some (wm, fm) =>
          Ok [[if q_list_close tol tol wm wout && (length fm =? length fout) &&
                  forallb (fun p => q_list_close tol tol (fst p) (snd p)) (combine fm fout) then 1 else 0]]
      | None => Ok [[2]]                    (* the oracle tape does not solve its equation: harness problem, not a verdict *)
      end
  | DHooi ik k mask tol_set n decisions =>
      let t := hooi_trace ik k mask tol_set n decisions in
      Ok [map code t; [if ends_projected t then 1 else 0]; [if factors_from_svd k t then 1 else 0]]
  | DHooiFixed nm nf mask tol_set n decisions =>
      let t := tucker_fixed_trace nm nf mask tol_set n decisions in
      let inner := hooi_trace InitUser (nm - nf) mask tol_set n decisions in
      Ok [map code t; [if (nf <? nm) && ends_projected inner then 1 else 0]; [if (nf <? nm) && factors_from_svd (nm - nf) inner then 1 else 0]]
  | DTtCalls shape spec c => one (tensor_train_calls shape spec c) (fun l => l ++ [[1]; [1]])
  | DTrCalls shape spec mode => one (tensor_ring_calls shape spec mode) (fun l => l ++ [[1]; [1]])
  | DTtmCalls tshape spec c => one (tensor_train_matrix_calls tshape spec c) (fun l => l ++ [[1]; [1]])
  | DP2Calls ik nn nf tol_set ls n decisions =>
      let t := p2o_trace ik nn nf tol_set ls n decisions in
      Ok [[fst t]; [if snd t =? 0 then 99 else fst t - snd t]]
  | DWprog p => Ok [[if wprog_ok p then 1 else 0]]
  | DIpaths ps => Ok [[if ipaths_ok ps then 1 else 0]]
  | DHprog p => Ok [[if prog_ok p then 1 else 0]]
  | DNorm2 d nf tol_set n decisions =>
      let t := trace_run2 d nf tol_set n decisions in
      Ok [[length (updates t)]; [if ends_normalised t then 1 else 0]; [if any_normalise t then 1 else 0]]
  end.

Fixpoint shapes_eqb (a b : list (list nat)) : bool :=
  match a, b with [], [] => true | x :: a', y :: b' => nat_list_eqb x y && shapes_eqb a' b' | _, _ => false end.

(* the case identifier is a binary number: a unary literal of a few thousand per case dominated the shard time *)
Definition case := (N * op * res (list (list nat)))%type.
Definition agree (c : case) : bool :=
  let '(_, o, expected) := c in
  match run o, expected with
  | Err, Err => true                                   (* rejected before / regardless of the oracle answer *)
  | Ok a, Ok b => oracle_ok o && shapes_eqb a b
  | _, _ => false
  end.
Definition ident (c : case) : nat := let '(i, _, _) := c in N.to_nat i.
Definition failing := failing_ids agree ident.
