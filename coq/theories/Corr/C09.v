(* Correspondence for C09: the model of Model/SvdDecomp.v is run over Q (Qred after every operation)
   with the LAPACK answers recorded from the real backend (answer tape) and compared with what the
   implementation returned on the same input:
   - every factor that is a reshape / slice / sign flip of a taped U must agree EXACTLY (Qeq);
   - factors that contain products (remainder diag(S) V, Tucker core) agree within tolerance;
   - every query matrix the model sends to the oracle must agree (tolerance) with the matrix the
     implementation sent to the backend at the same call index, otherwise the oracle answers with an
     ill-shaped triple and the model run ends in Err. *)
From Coq Require Import List Arith ZArith QArith Qabs Bool.
From TLV Require Import Base.Shape Base.PyList Base.Tensor Base.Ops Model.SvdDecomp Corr.Common.
Import ListNotations.

Definition atol : Q := Qmake 1%Z 1000000000%positive.
Definition rtol : Q := Qmake 1%Z 1000000000%positive.

Definition ans := (tensor Q * list Q * tensor Q)%type.
Definition tape_entry := (tensor Q * ans)%type.          (* (query matrix, backend answer) *)
Definition bad : ans := (mk [] [], [], mk [] []).

Definition tape_svd (tape : list tape_entry) (k : nat) (M : tensor Q) : ans :=
  match nth_error tape k with
  | Some (Mq, a) => if qt_close atol rtol M Mq then a else bad
  | None => bad
  end.

Inductive kind := KTT | KTTM | KTR (mode : nat) | KTucker (n_iter : nat) | KStrict.
Inductive outcome := OErr | OFactors (fs : list (tensor Q)) | OTucker (core : tensor Q) (fs : list (tensor Q))
                 | ORanks (strict realised : list nat).

Fixpoint all2 {A} (p : A -> A -> bool) (a b : list A) : bool :=
  match a, b with [], [] => true | x :: a', y :: b' => p x y && all2 p a' b' | _, _ => false end.
Fixpoint count2 {A} (p : A -> A -> bool) (a b : list A) : nat :=
  match a, b with x :: a', y :: b' => (if p x y then 1 else 0) + count2 p a' b' | _, _ => 0 end.

(* all factors close, and all but (at most) one -- the remainder factor -- exactly equal *)
Definition factors_agree (m i : list (tensor Q)) : bool :=
  all2 (qt_close atol rtol) m i && (length i - 1 <=? count2 qt_eqb m i).

Definition case := (nat * kind * tensor Q * (nat + list nat) * list tape_entry * outcome)%type.

Definition agree (c : case) : bool :=
  let '(_, k, X, rank, tape, out) := c in
  let sv := tape_svd tape in
  match k with
  | KTT => match tensor_train Qops sv X rank, out with
           | Ok fs, OFactors fi => factors_agree fs fi | Err, OErr => true | _, _ => false end
  | KTTM => match tensor_train_matrix Qops sv X rank, out with
            | Ok fs, OFactors fi => factors_agree fs fi | Err, OErr => true | _, _ => false end
  | KTR mode => match tensor_ring Qops sv X rank mode, out with
                | Ok fs, OFactors fi => factors_agree fs fi | Err, OErr => true | _, _ => false end
  | KTucker it => match tucker Qops sv X rank it, out with
                  | Ok (core, fs), OTucker ci fi => qt_close atol rtol core ci && all2 qt_eqb fs fi
                  | Err, OErr => true | _, _ => false end
  (* validate_tt_rank(shape, rank, allow_overparametrization=False) as the code is (exact), and the ranks tensor_train
     returned on a tensor of that shape against the closed form realised_tt_rank (exact); only the shape of X is used *)
  | KStrict => match validate_tt_rank (ndim X) rank, out with
               | Ok rk, ORanks strict realised =>
                   all2 Nat.eqb (validate_tt_rank_strict_code (shape X) rk) strict &&
                   all2 Nat.eqb (realised_tt_rank (shape X) rk) realised
               | Err, OErr => true | _, _ => false end
  end.

Definition ident (c : case) : nat := let '(i, _, _, _, _, _) := c in i.
Definition failing := failing_ids agree ident.
