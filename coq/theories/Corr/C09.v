(* Correspondence for C09: the model of Model/SvdDecomp.v is run over Q (Qred after every operation)
   with the LAPACK answers recorded from the real backend (answer tape) and compared with what the
   implementation returned on the same input:
   - every factor that is a reshape / slice / sign flip of a taped U must agree EXACTLY (Qeq);
   - factors that contain products (remainder diag(S) V, Tucker core) agree within tolerance;
   - every query matrix the model sends to the oracle must agree (tolerance) with the matrix the
     implementation sent to the backend at the same call index, otherwise the oracle answers with an
     ill-shaped triple and the model run ends in Err. *)
From Coq Require Import List Arith ZArith QArith Qabs Bool.
From TLV Require Import Base.Shape Base.PyList Base.Tensor Base.Ops Model.SvdDecomp Model.SvdDecompSymeig Model.SvdDecompRand Model.SvdDecompRingReq Corr.Common.
Import ListNotations.

Definition atol : Q := Qmake 1%Z 1000000000%positive.
Definition rtol : Q := Qmake 1%Z 1000000000%positive.

Definition ans := (tensor Q * list Q * tensor Q)%type.
Definition tape_entry := (tensor Q * ans)%type.          (* (query matrix, backend answer) *)
Definition bad : ans := (mk [] [], [], mk [] []).

Definition tape_svd (tape : list tape_entry) (k : nat) (M : tensor Q) : ans :=
  match nth_error tape k with
  | Some (Mq, a) => if qt_close atol rtol M Mq then a else bad
  | None => bad
  end.

(* svd="symeig_svd": the oracle of the generic model is the TRANSCRIPTION Model/SvdDecompSymeig.v fed with eigh's taped answer.
   A tape entry of such a run is (Gram matrix the implementation sent to eigh, (W, s, lambda as a 1 x K tensor)) with
   W = eigh's eigenvectors, lambda = eigh's eigenvalues, s = the square roots handed in by the harness.  The model computes the
   Gram matrix itself (exactly) and compares it with the taped query; it clips lambda at eps itself and checks the square-root
   contract s > 0, s^2 = clip(lambda, eps) (relative 1e-12); then U / V / flips / slices are the model's own arithmetic. *)
Definition eps64 : Q := Qmake 1%Z 4503599627370496%positive.       (* 2^-52 = tl.eps(float64) *)
Definition stol : Q := Qmake 1%Z 1000000000000%positive.
Fixpoint sqrt_ok (s lam : list Q) : bool :=
  match s, lam with
  | [], [] => true
  | si :: s', li :: lam' =>
      Qle_bool 0 si && negb (Qeq_bool si 0) && qclose 0 stol (Qred (si * si)) (clip_min Qops eps64 li) && sqrt_ok s' lam'
  | _, _ => false
  end.

Definition tape_symeig (tape : list tape_entry) (k : nat) (M : tensor Q) : ans :=
  match nth_error tape k with
  | Some (Gq, (W, s, lamT)) =>
      if qt_close atol rtol (gram_query Qops M) Gq && sqrt_ok s (data lamT) then symeig_ans Qops M W s else bad
  | None => bad
  end.

(* svd="randomized_svd": the oracle of the generic model is the TRANSCRIPTION Model/SvdDecompRand.v.  Every SVD call of such a
   run owns a group of 7 tape entries: (Omega, (_, [n_eigenvecs], _)) -- the Gaussian test matrix drawn by the code and the
   number of triplets it asked for --, five (QR query, (Q, _, _)) entries (first projection + two power iterations) and the
   (reduced matrix, LAPACK answer) entry of the inner truncated_svd.  The model computes every query itself and compares it
   with the taped one (an ill-matched query makes the run end in Err). *)
Definition rand_group : nat := 7.
Definition badt : tensor Q := mk [] [].
Definition tape_rand (tape : list tape_entry) (k : nat) (M : tensor Q) : ans :=
  let b := (rand_group * k)%nat in
  match nth_error tape b with
  | Some (Omega, (_, neq, _)) =>
      let ne := Z.to_nat (Qnum (hd 0%Q neq)) in
      let qr := fun c X => match nth_error tape (b + 1 + c)%nat with
                           | Some (Xq, (Qa, _, _)) => if qt_close atol rtol X Xq then Qa else badt
                           | None => badt end in
      let inner := fun red => match nth_error tape (b + 6)%nat with
                              | Some (Rq, a) => if qt_close atol rtol red Rq then a else bad
                              | None => bad end in
      randomized_svd Qops qr inner M Omega ne 5%nat 2%nat
  | None => bad
  end.

(* symeig runs: U is a computed quotient, so every factor is compared with tolerance (runs that keep a null-space triplet,
   whose derived columns are rounding noise divided by sqrt(eps), are not sent here: they are judged by the predicates only) *)
Definition atol_s : Q := Qmake 1%Z 10000000%positive.
Definition rtol_s : Q := Qmake 1%Z 10000000%positive.

Inductive kind := KTT | KTTM | KTR (mode : nat) | KTucker (n_iter : nat) | KStrict | KSym (k : kind) | KRand (k : kind)
              | KFullReq (mode : nat).
Inductive outcome := OErr | OFactors (fs : list (tensor Q)) | OTucker (core : tensor Q) (fs : list (tensor Q))
                 | ORanks (strict realised : list nat).

Fixpoint all2 {A} (p : A -> A -> bool) (a b : list A) : bool :=
  match a, b with [], [] => true | x :: a', y :: b' => p x y && all2 p a' b' | _, _ => false end.
Fixpoint count2 {A} (p : A -> A -> bool) (a b : list A) : nat :=
  match a, b with x :: a', y :: b' => (if p x y then 1 else 0) + count2 p a' b' | _, _ => 0 end.

(* all factors close, and all but (at most) one -- the remainder factor -- exactly equal *)
Definition factors_agree (m i : list (tensor Q)) : bool :=
  all2 (qt_close atol rtol) m i && (length i - 1 <=? count2 qt_eqb m i).

Definition factors_close (m i : list (tensor Q)) : bool := all2 (qt_close atol_s rtol_s) m i.

Definition case := (nat * kind * tensor Q * (nat + list nat) * list tape_entry * outcome)%type.

(* sv: the oracle; fa: comparison of factor lists; ta: comparison of Tucker (core, factors) *)
Definition agree_kind (sv : nat -> tensor Q -> ans) (fa : list (tensor Q) -> list (tensor Q) -> bool)
           (ta : tensor Q -> list (tensor Q) -> tensor Q -> list (tensor Q) -> bool)
           (k : kind) (X : tensor Q) (rank : nat + list nat) (out : outcome) : bool :=
  match k with
  | KTT => match tensor_train Qops sv X rank, out with
           | Ok fs, OFactors fi => fa fs fi | Err, OErr => true | _, _ => false end
  | KTTM => match tensor_train_matrix Qops sv X rank, out with
            | Ok fs, OFactors fi => fa fs fi | Err, OErr => true | _, _ => false end
  | KTR mode => match tensor_ring Qops sv X rank mode, out with
                | Ok fs, OFactors fi => fa fs fi | Err, OErr => true | _, _ => false end
  | KTucker it => match tucker Qops sv X rank it, out with
                  | Ok (core, fs), OTucker ci fi => ta core fs ci fi
                  | Err, OErr => true | _, _ => false end
  (* validate_tt_rank(shape, rank, allow_overparametrization=False) as the code is (exact), and the ranks tensor_train
     returned on a tensor of that shape against the closed form realised_tt_rank (exact); only the shape of X is used *)
  | KStrict => match validate_tt_rank (ndim X) rank, out with
               | Ok rk, ORanks strict realised =>
                   all2 Nat.eqb (validate_tt_rank_strict_code (shape X) rk) strict &&
                   all2 Nat.eqb (realised_tt_rank (shape X) rk) realised
               | Err, OErr => true | _, _ => false end
  (* a tensor_ring input the harness labels "sufficient": the decidable premise of C09_tensor_ring_exact_full_request must hold
     (only the shape of X is used) *)
  | KFullReq mode => tr_full_requestb X rank mode
  | KSym _ => false
  | KRand _ => false
  end.

Definition agree (c : case) : bool :=
  let '(_, k, X, rank, tape, out) := c in
  match k with
  | KSym k' =>
      (* tucker(svd="symeig_svd"): only initialize_tucker passes the method on; the HOOI sweeps of partial_tucker call
         svd_interface without `method`, i.e. with truncated_svd -- calls 0..ndim-1 are symeig entries, the later ones svd entries *)
      let nsym := match k' with KTucker _ => ndim X | _ => length tape end in
      agree_kind (fun k M => if k <? nsym then tape_symeig tape k M else tape_svd tape k M) factors_close
                 (fun core fs ci fi => qt_close atol_s rtol_s core ci && all2 (qt_close atol_s rtol_s) fs fi) k' X rank out
  | KRand k' =>
      (* same split for tucker(svd="randomized_svd"): the HOOI sweeps use truncated_svd; their entries follow the groups *)
      let nr := match k' with KTucker _ => ndim X | _ => (length tape / rand_group)%nat end in
      agree_kind (fun k M => if k <? nr then tape_rand tape k M else tape_svd tape (rand_group * nr + (k - nr))%nat M) factors_close
                 (fun core fs ci fi => qt_close atol_s rtol_s core ci && all2 (qt_close atol_s rtol_s) fs fi) k' X rank out
  | _ => agree_kind (tape_svd tape) factors_agree
                 (fun core fs ci fi => qt_close atol rtol core ci && all2 qt_eqb fs fi) k X rank out
  end.

Definition ident (c : case) : nat := let '(i, _, _, _, _, _) := c in i.
Definition failing := failing_ids agree ident.
