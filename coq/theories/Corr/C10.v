(* Correspondence for C10: the formula layer of Model/Nonneg.v executed over Q (Qred after every operation) on the
   inputs given to the implementation, compared with the implementation's outputs with a tolerance
   (|a-b| <= atol + rtol(|a|+|b|)).  `failing` returns 2*id for a disagreement and 2*id+1 for a case the model
   flags as ill-conditioned (a numerator that is a cancelling sum next to the clipping threshold): skipped, counted. *)
From Coq Require Import List Arith ZArith QArith Qabs Qround Bool.
From TLV Require Import Base.Shape Base.PyList Base.Tensor Base.Ops Model.Nonneg Corr.Common.
Import ListNotations.

Definition qmat := list (list Q).
Fixpoint qmat_close (atol rtol : Q) (a b : qmat) : bool :=
  match a, b with [], [] => true | x :: a', y :: b' => q_list_close atol rtol x y && qmat_close atol rtol a' b' | _, _ => false end.
Fixpoint qmats_close (atol rtol : Q) (a b : list qmat) : bool :=
  match a, b with [], [] => true | x :: a', y :: b' => qmat_close atol rtol x y && qmats_close atol rtol a' b' | _, _ => false end.

(* square root in Q: integer square root of the argument scaled to ~315 significant bits, i.e. ~157 correct
   significant bits of the root (relative accuracy far below the tolerance), whatever the size of the exact rational *)
Definition qscale (s : Z) (y : Q) : Q :=
  if (0 <=? s)%Z then (y * inject_Z (2 ^ s))%Q else (y / inject_Z (2 ^ (- s)))%Q.
Definition qsqrt (x : Q) : Q :=
  if Qle_bool x 0%Q then 0%Q
  else
    let e := (Z.log2 (Qnum x) - Z.log2 (Zpos (Qden x)))%Z in
    let s := (160 - e / 2)%Z in
    Qred (qscale (- s) (inject_Z (Z.sqrt (Qfloor (qscale (2 * s) x))))).
Definition qnrm2 (v : list Q) : Q := qsqrt (fold_right (fun x acc => Qred (x * x + acc)%Q) 0%Q v).

Inductive op :=
(* non_negative_parafac(tensor, init=(w, Fs), n_iter_max=n, tol=0, normalize_factors=nm, fixed_modes) ; eps = tl.eps(dtype) *)
| OMuCp (eps : Q) (T : tensor Q) (w : list Q) (Fs : list qmat) (nm : bool) (modes : list nat) (n : nat)
(* hals_nnls(UtM, UtU, V, n_iter_max=n, tol=0, sparsity_coefficient, ridge_coefficient, epsilon) *)
| OHals (eps : Q) (sp rg : option Q) (UtM UtU V : qmat) (n : nat)
(* fista(UtM, UtU, x, n_iter_max=len betas, non_negative, sparsity_coef, ridge_coef, lr, tol=0, epsilon) on vectors *)
| OFista (eps lr sp rg : Q) (nonneg : bool) (UtU : qmat) (UtM x : list Q) (betas : list Q)
(* cp_normalize((w, Fs)) *)
| ONormCp (w : list Q) (Fs : list qmat)
(* tucker_normalize((core, Fs)) *)
| ONormTk (core : tensor Q) (Fs : list qmat)
(* one factor update of non_negative_tucker from recorded numerator / denominator *)
| OMuTk (eps : Q) (X N D : qmat)
(* non_negative_tucker(tensor, rank, init=(core, Fs), n_iter_max=n, normalize_factors=nm): complete runs, eps = 10e-12 *)
| OTkMu (eps : Q) (T core : tensor Q) (Fs : list qmat) (nm : bool) (n : nat)
(* _BroThesisLineSearch.line_step extrapolation + clipping *)
| OLine (nn : list nat) (jump : Q) (last cur : list qmat).

Inductive out := OutMats (w : list Q) (Fs : list qmat) | OutSkip.

(* conditioning of the MU numerators: |v| >= 1e-6 * (the same sum over absolute values), or all terms are zero *)
Definition absT (T : tensor Q) : tensor Q := mk (shape T) (map Qabs (data T)).
Definition well_cond_entry (eps v a : Q) : bool :=
  Qeq_bool a 0%Q || negb (Qle_bool (Qabs v) ((1 # 1000000) * a + 2 * eps)%Q).
Definition well_cond (eps : Q) (N A : qmat) : bool :=
  forallb (fun p => forallb (fun q => well_cond_entry eps (fst q) (snd q)) (combine (fst p) (snd p))) (combine N A).

(* MU run that also reports conditioning (same functions as Model.non_negative_parafac, stop = never) *)
Definition mu_cond (eps : Q) (T : tensor Q) (nm : bool) (modes : list nat) (n : nat) (st : @cp_state Q) : bool * @cp_state Q :=
  iter_n n (fun bs =>
     fold_left (fun (bs : bool * @cp_state Q) mode =>
                  let '(b, st) := bs in
                  let ok := well_cond eps (cp_mu_num Qops T st mode) (cp_mu_num Qops (absT T) (map Qabs (fst st), map (abs_mat Qops) (snd st)) mode) in
                  (b && ok, cp_mu_mode Qops qnrm2 eps (cp_mu_num Qops T) (cp_mu_den Qops) nm (last modes 0%nat) st mode))
               modes bs) (true, st).

Definition run (o : op) : out :=
  match o with
  | OMuCp eps T w Fs nm modes n =>
      let init := initialize_cp_user_norm Qops qnrm2 w Fs nm in
      let '(ok, _) := mu_cond eps T nm modes n init in
      if ok then
        let r := non_negative_parafac Qops qnrm2 eps (fun _ => cp_mu_num Qops T) (fun _ => cp_mu_den Qops) (fun _ _ => false) nm modes n init in
        OutMats (fst r) (snd r)
      else OutSkip
  | OHals eps sp rg UtM UtU V n => OutMats [] [hals_nnls Qops eps sp rg UtM UtU V n]
  | OFista eps lr sp rg nonneg UtU UtM x betas => OutMats (fista Qops eps lr sp rg nonneg (matvec Qops UtU) UtM x betas) []
  | ONormCp w Fs => let r := cp_normalize Qops qnrm2 (w, Fs) in OutMats (fst r) (snd r)
  | ONormTk core Fs => let r := tucker_normalize Qops qnrm2 (core, Fs) in OutMats (data (fst r)) (snd r)
  | OMuTk eps X N D => OutMats [] [mu_update_tk Qops eps X N D]
  | OTkMu eps T core Fs nm n =>
      let r := non_negative_tucker Qops qnrm2 eps (fun _ => tk_mu_num Qops T) (fun _ => tk_mu_den Qops)
                                   (fun _ => tk_mu_numc Qops T) (fun _ => tk_mu_denc Qops) (fun _ _ => false) nm (length Fs) n (core, Fs) in
      OutMats (data (fst r)) (snd r)
  | OLine nn jump last cur => OutMats [] (line_step Qops nn jump last cur)
  end.

Definition case := (nat * op * Q * list Q * list qmat)%type.   (* id, call, atol, implementation's weights/core/vector, matrices *)
Definition rtol : Q := (1 # 1000000000)%Q.
Definition verdict (c : case) : nat :=     (* 0 agree, 1 disagree, 2 skipped *)
  let '(_, o, atol, w, Fs) := c in
  match run o with
  | OutSkip => 2%nat
  | OutMats w' Fs' => if q_list_close atol rtol w' w && qmats_close atol rtol Fs' Fs then 0%nat else 1%nat
  end.
Definition agree (c : case) : bool := negb (Nat.eqb (verdict c) 1%nat).
Definition ident (c : case) : nat := let '(i, _, _, _, _) := c in i.
Definition failing (cs : list case) : list nat :=
  flat_map (fun c => match verdict c with O => @nil nat | S O => [(2 * ident c)%nat] | _ => [(2 * ident c + 1)%nat] end) cs.
