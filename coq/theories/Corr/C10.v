(* Correspondence for C10: the formula layer of Model/Nonneg.v executed over Q (Qred after every operation) on the
   inputs given to the implementation, compared with the implementation's outputs with a tolerance
   (|a-b| <= atol + rtol(|a|+|b|)).  `failing` returns 2*id for a disagreement and 2*id+1 for a case the model
   flags as ill-conditioned (a numerator that is a cancelling sum next to the clipping threshold): skipped, counted. *)
From Coq Require Import List Arith ZArith QArith Qabs Qround Bool.
From TLV Require Import Base.Shape Base.PyList Base.Tensor Base.Ops Model.Nonneg Model.NonnegSign Model.NonnegFlow Model.NonnegOptions Model.NonnegP2Ls Model.NonnegCcpSpec Model.NonnegMask Corr.Common.
Import ListNotations.

Definition qmat := list (list Q).
Fixpoint qmat_close (atol rtol : Q) (a b : qmat) : bool :=
  match a, b with [], [] => true | x :: a', y :: b' => q_list_close atol rtol x y && qmat_close atol rtol a' b' | _, _ => false end.
Fixpoint qmats_close (atol rtol : Q) (a b : list qmat) : bool :=
  match a, b with [], [] => true | x :: a', y :: b' => qmat_close atol rtol x y && qmats_close atol rtol a' b' | _, _ => false end.

(* square root in Q: integer square root of the argument scaled to ~215 significant bits, i.e. ~107 correct
   significant bits of the root (relative accuracy far below the tolerance), whatever the size of the exact rational *)
Definition qscale (s : Z) (y : Q) : Q :=
  if (0 <=? s)%Z then (y * inject_Z (2 ^ s))%Q else (y / inject_Z (2 ^ (- s)))%Q.
Definition qsqrt (x : Q) : Q :=
  if Qle_bool x 0%Q then 0%Q
  else
    let e := (Z.log2 (Qnum x) - Z.log2 (Zpos (Qden x)))%Z in
    let s := (110 - e / 2)%Z in
    Qred (qscale (- s) (inject_Z (Z.sqrt (Qfloor (qscale (2 * s) x))))).
Definition qnrm2 (v : list Q) : Q := qsqrt (fold_right (fun x acc => Qred (x * x + acc)%Q) 0%Q v).

(* ---------------------------------------------------------------- fixed-point carrier for long runs
   z : Z stands for z / 2^128; every product / quotient is rounded down to that grid (relative accuracy ~1e-22 or better at the
   magnitudes that occur, far below the tolerance).  The same polymorphic model functions are executed at this carrier
   where exact rationals would grow without bound (100 inner HALS sweeps per mode). *)
Definition FXS : Z := 128%Z.
Definition Fxops : fops Z :=
  mkF 0%Z (2 ^ FXS)%Z Z.add Z.sub (fun a b => Z.shiftr (a * b) FXS)
      (fun a b => if (b =? 0)%Z then 0%Z else (Z.shiftl a FXS / b)%Z) Z.opp Z.leb.
Definition q2fx (q : Q) : Z := Qfloor (q * inject_Z (2 ^ FXS))%Q.
Definition fx2q (z : Z) : Q := Qred (Qmake z (2 ^ 128)%positive).
Definition fxnrm2 (v : list Z) : Z :=
  Z.sqrt (Z.shiftl (fold_right (fun x acc => (Z.shiftr (x * x) FXS + acc)%Z) 0%Z v) FXS).
Definition zmat := list (list Z).
Definition m2fx (M : qmat) : zmat := map (map q2fx) M.
Definition m2q (M : zmat) : qmat := map (map fx2q) M.
Definition t2fx (T : tensor Q) : tensor Z := mk (shape T) (map q2fx (data T)).
Definition o2fx (o : option Q) : option Z := match o with Some x => Some (q2fx x) | None => None end.

(* complete non_negative_parafac_hals run (every updated mode is a non-negative mode: no LAPACK solve is reached) *)
Definition halscp_fx (T : tensor Q) (w : list Q) (Fs : list qmat) (nn : list nat) (sps : list (option Q)) (nm : bool)
           (modes : list nat) (n : nat) (tol : Q) : list Q * list qmat :=
  let T' := t2fx T in let sps' := map o2fx sps in
  let r := non_negative_parafac_hals Fxops fxnrm2 (fun _ => cp_hals_utm Fxops T') (fun _ => cp_hals_utu Fxops) (fun _ M => M)
             (fun _ => cp_hals_inner Fxops T' sps' (q2fx tol)) (fun _ _ => false) nn sps' nm modes n
             (initialize_cp_user_hals Fxops fxnrm2 (map q2fx w) (map m2fx Fs) modes nm) in
  (map fx2q (fst r), map m2q (snd r)).
(* complete non_negative_tucker_hals run with the FISTA core (one step size per run: n <= 1) *)
Definition tkhals_fx (T core : tensor Q) (Fs : list qmat) (sps : list (option Q)) (csp : Q) (nm : bool) (modes : list nat)
           (feps lr : Q) (betas : list Q) (n : nat) (tol : Q) : list Q * list qmat :=
  let T' := t2fx T in let sps' := map o2fx sps in
  let r := non_negative_tucker_hals Fxops fxnrm2 Fista (q2fx feps) (fun _ => tk_hals_utm Fxops T') (fun _ => tk_hals_utu Fxops)
             (fun _ => tk_hals_inner Fxops T' sps' (q2fx tol)) sps' (fun _ _ => q2fx lr) (q2fx csp) (fun _ => tk_core_lin Fxops)
             (fun _ => tk_mu_numc Fxops T') (fun _ _ => map q2fx betas) (fun _ _ _ x => x) (fun _ _ => 0%nat) (fun _ _ => false) nm modes n
             (t2fx core, map m2fx Fs) in
  (map fx2q (data (fst r)), map m2q (snd r)).
(* executed instance of tl.solve for the passive blocks: Gaussian elimination with the largest pivot of the column, over any carrier
   (exact over Q; None = singular).  The generator only emits well-conditioned systems (cond(UtU) <= 1e6, checked with numpy). *)
Section Gauss.
Context {F : Type} (Op : fops F).
Fixpoint pick_max (best : list F) (rest : list (list F)) (rows : list (list F)) : list F * list (list F) :=
  match rows with
  | [] => (best, rest)
  | r :: rows' => if fltb Op (fabs Op (hd (f0 Op) best)) (fabs Op (hd (f0 Op) r)) then pick_max r (best :: rest) rows'
                  else pick_max best (r :: rest) rows'
  end.
Fixpoint gauss (fuel : nat) (rows : list (list F)) : option (list F) :=
  match fuel, rows with
  | _, [] => Some []
  | O, _ => None
  | S f, r0 :: rows' =>
    let '(pr, rest) := pick_max r0 [] rows' in
    let p := hd (f0 Op) pr in
    if feqb Op p (f0 Op) then None else
    let prn := map (fun x => fdiv Op x p) pr in
    let rest' := map (fun r => let c := hd (f0 Op) r in tl (map2 (fun x y => fsub Op x (fmul Op c y)) r prn)) rest in
    match gauss f rest' with
    | None => None
    | Some xs => let tlp := tl prn in
                 Some (fsub Op (last tlp (f0 Op)) (fsum Op (map2 (fmul Op) (removelast tlp) xs)) :: xs)
    end
  end.
Definition gsolve (A : list (list F)) (b : list F) : option (list F) :=
  gauss (length A) (map2 (fun row bi => row ++ [bi]) A b).
(* pseudo_inverse_kr = kronecker([F_k^T F_k]) and the support vector of the first active-set iteration, as an instance of the skeleton's oracle *)
Definition tk_kron_mat (st : @tk_state F) : list (list F) :=
  let '(core, Fs) := st in
  let Gs := map (fun M => gram Op (ncols M) M) Fs in
  let n := prod (shape core) in
  map (fun q => map (fun p => tk_kron_entry Op Gs None (unravel (shape core) q) (unravel (shape core) p)) (seq 0 n)) (seq 0 n).
Definition aset_support (T : tensor F) (tol : F) (st : @tk_state F) (x : list F) : list F :=
  let Utm := tk_mu_numc Op T st in let UtU := tk_kron_mat st in
  match as_body Op gsolve Utm UtU true x (as_gradient Op Utm UtU x) (posmask Op x) (negmask (posmask Op x)) with
  | Some (s2, _, _) => s2
  | None => x
  end.
End Gauss.

(* complete non_negative_tucker_hals run with the active-set core, one outer sweep (active_set_nnls gets n_iter_max = 1) *)
Definition tkaset_fx (T core : tensor Q) (Fs : list qmat) (sps : list (option Q)) (nm : bool) (modes : list nat) (n : nat) (tol atol : Q)
  : list Q * list qmat :=
  let T' := t2fx T in let sps' := map o2fx sps in
  let r := non_negative_tucker_hals Fxops fxnrm2 ActiveSet 0%Z (fun _ => tk_hals_utm Fxops T') (fun _ => tk_hals_utu Fxops)
             (fun _ => tk_hals_inner Fxops T' sps' (q2fx tol)) sps' (fun _ _ => 0%Z) 0%Z (fun _ _ x => x)
             (fun _ _ => []) (fun _ _ => []) (fun _ st _ x => aset_support Fxops T' (q2fx atol) st x) (fun _ _ => n) (fun _ _ => false) nm modes n
             (t2fx core, map m2fx Fs) in
  (map fx2q (data (fst r)), map m2q (snd r)).

(* matrix right-hand side: one elimination per column; a singular system gives zeros (the generator keeps rho > 0: never singular) *)
Definition gsolve_mat {F} (Op : fops F) (A B : list (list F)) : list (list F) :=
  transp Op (map (fun j => match gsolve Op A (col Op j B) with Some x => x | None => map (fun _ => f0 Op) A end) (seq 0 (ncols B))).
(* complete constrained_parafac(non_negative = the modes nn) run from user factors (unit weights): n outer sweeps, `inner` ADMM iterations
   per mode (tol_inner = 0), dual variables start at zero *)
Definition ccp_fx (T : tensor Q) (Fs : list qmat) (nn modes : list nat) (n inner : nat) : list qmat :=
  let T' := t2fx T in let Fs' := map m2fx Fs in
  let R := ncols (hd [] Fs') in
  let Ds := map (fun M => map (map (fun _ => 0%Z)) M) Fs' in
  let r := constrained_parafac Fxops nn (fun _ M => M) (fun _ => ccp_split Fxops (gsolve_mat Fxops) T' R) (fun _ _ _ => inner)
             (fun _ _ => false) modes n (Fs', Ds) in
  map m2q (fst r).
(* round 7: the same runs through the entry function of Model/NonnegCcpSpec.v with the RAW non_negative argument (True / list of booleans / dictionary with
   possibly negative keys and False values), raw fixed_modes and user weights (pulled into the last factor) *)
Definition ccp_entry_fx (T : tensor Q) (w : list Q) (Fs : list qmat) (spec : nn_spec) (fixed : option (list nat)) (n inner : nat) : list qmat :=
  let T' := t2fx T in let Fs' := map m2fx Fs in
  let R := ncols (hd [] Fs') in
  let r := constrained_parafac_entry Fxops (fun _ M => M) (fun _ => ccp_split Fxops (gsolve_mat Fxops) T' R) (fun _ _ _ => inner)
             (fun _ _ => false) (length Fs) spec fixed n (map q2fx w) Fs' in
  map m2q (fst r).
(* one PARAFAC2 outer iteration on the projected tensor T' (projections = SVD oracle, recorded): weights into factor 1, inner HALS-CP with
   n_iter_parafac sweeps from the user start, no line search, normalisation of the start and of the iterate when requested; every mode declared (no LAPACK solve is reached) *)
Definition p2iter_fx (T : tensor Q) (w : list Q) (Fs : list qmat) (nip : nat) (nm : bool) (tol : Q) : list Q * list qmat :=
  let T' := t2fx T in
  let r := parafac2 Fxops fxnrm2 (fun _ _ => cp_hals_utm Fxops T') (fun _ _ => cp_hals_utu Fxops) (fun _ M => M)
             (fun _ _ => cp_hals_inner Fxops T' (repeat None 3) (q2fx tol)) (fun _ _ _ => false) [0; 1; 2]%nat nip (fun _ => None) (fun _ _ => false)
             nm (fun _ _ => false) 1 (map q2fx w, map m2fx Fs) in
  (map fx2q (fst r), map m2q (snd r)).

(* the entry points as functions of their RAW options (Model/NonnegOptions.v): fixed_modes / nn_modes / sparsity_coefficients are parsed by the model *)
Definition sp2fx (o : @sp_opt Q) : @sp_opt Z :=
  match o with SpNone => SpNone | SpScalar c => SpScalar (q2fx c) | SpList l => SpList (map o2fx l) end.
Definition halscp_entry_fx (T : tensor Q) (w : list Q) (Fs : list qmat) (fixed : option (list nat)) (nn : nn_opt) (sp : @sp_opt Q) (nm : bool)
           (n : nat) (tol : Q) : list Q * list qmat :=
  let T' := t2fx T in let sp' := sp2fx sp in let N := length Fs in
  let sps' := parse_sps N sp' (parse_fixed fixed) in
  let r := non_negative_parafac_hals_entry Fxops fxnrm2 (fun _ => cp_hals_utm Fxops T') (fun _ => cp_hals_utu Fxops) (gsolve_mat Fxops)
             (fun _ => cp_hals_inner Fxops T' sps' (q2fx tol)) (fun _ _ => false) N fixed nn sp' nm n (map q2fx w) (map m2fx Fs) in
  (map fx2q (fst r), map m2q (snd r)).
Definition tkhals_entry_fx (T core : tensor Q) (Fs : list qmat) (fixed : option (list nat)) (sp : @sp_opt Q) (csp : Q) (nm : bool)
           (feps lr : Q) (betas : list Q) (n : nat) (tol : Q) : list Q * list qmat :=
  let T' := t2fx T in let sp' := sp2fx sp in let N := length Fs in
  let sps' := parse_sps N sp' (unfix_last N (parse_fixed fixed)) in
  let r := non_negative_tucker_hals_entry Fxops fxnrm2 Fista (q2fx feps) (fun _ => tk_hals_utm Fxops T') (fun _ => tk_hals_utu Fxops)
             (fun _ => tk_hals_inner Fxops T' sps' (q2fx tol)) (fun _ _ => q2fx lr) (q2fx csp) (fun _ => tk_core_lin Fxops)
             (fun _ => tk_mu_numc Fxops T') (fun _ _ => map q2fx betas) (fun _ _ _ x => x) (fun _ _ => 0%nat) (fun _ _ => false)
             N fixed sp' nm n (t2fx core) (map m2fx Fs) in
  (map fx2q (data (fst r)), map m2q (snd r)).

(* a complete parafac2(nn_modes='all') run of several outer iterations, with the line search inside the loop: the projected tensor of every outer
   iteration (SVD oracle), the jumps of the line-search iterations and their acceptance are recorded from the implementation's run *)
Definition p2run_fx (Ts : list (tensor Q)) (w : list Q) (Fs : list qmat) (nip : nat) (nm : bool) (tol : Q)
           (lines : list (option Q)) (accepts : list bool) : list Q * list qmat :=
  let Ts' := map t2fx Ts in
  let T0 := hd (mk (@nil nat) (@nil Z)) Ts' in
  let r := parafac2 Fxops fxnrm2 (fun it _ => cp_hals_utm Fxops (nth it Ts' T0)) (fun _ _ => cp_hals_utu Fxops) (fun _ M => M)
             (fun it _ => cp_hals_inner Fxops (nth it Ts' T0) (repeat None 3) (q2fx tol)) (fun _ _ _ => false) [0; 1; 2]%nat nip
             (fun it => match nth it lines None with Some j => Some (q2fx j) | None => None end) (fun it _ => nth it accepts false)
             nm (fun _ _ => false) (length Ts) (map q2fx w, map m2fx Fs) in
  (map fx2q (fst r), map m2q (snd r)).

(* round 7: the same complete runs for ANY nn_modes list (the undeclared modes are solved by elimination inside Coq: gsolve_mat) and for a
   USER-SUPPLIED line-search object that clips on its own nn_modes ls_nn (Model/NonnegP2Ls.v) *)
Definition p2run_g_fx (Ts : list (tensor Q)) (w : list Q) (Fs : list qmat) (nn ls_nn : list nat) (nip : nat) (nm : bool) (tol : Q)
           (lines : list (option Q)) (accepts : list bool) : list Q * list qmat :=
  let Ts' := map t2fx Ts in
  let T0 := hd (mk (@nil nat) (@nil Z)) Ts' in
  let r := parafac2_ls Fxops fxnrm2 (fun it _ => cp_hals_utm Fxops (nth it Ts' T0)) (fun _ _ => cp_hals_utu Fxops) (gsolve_mat Fxops)
             (fun it _ => cp_hals_inner Fxops (nth it Ts' T0) (repeat None 3) (q2fx tol)) (fun _ _ _ => false) nn ls_nn nip
             (fun it => match nth it lines None with Some j => Some (q2fx j) | None => None end) (fun it _ => nth it accepts false)
             nm (fun _ _ => false) (length Ts) (map q2fx w, map m2fx Fs) in
  (map fx2q (fst r), map m2q (snd r)).

Definition pair_close (a b : list Q * list qmat) : bool :=
  q_list_close (1 # 100000000000000000000) (1 # 1000000000000000) (fst a) (fst b) &&
  qmats_close (1 # 100000000000000000000) (1 # 1000000000000000) (snd a) (snd b).

Inductive op :=
(* non_negative_parafac(tensor, init=(w, Fs), n_iter_max=n, tol=0, normalize_factors=nm, fixed_modes) ; eps = tl.eps(dtype) *)
| OMuCp (eps : Q) (T : tensor Q) (w : list Q) (Fs : list qmat) (nm : bool) (modes : list nat) (n : nat)
(* hals_nnls(UtM, UtU, V, n_iter_max=n, tol=0, sparsity_coefficient, ridge_coefficient, epsilon) *)
| OHals (eps : Q) (sp rg : option Q) (UtM UtU V : qmat) (n : nat)
(* fista(UtM, UtU, x, n_iter_max=len betas, non_negative, sparsity_coef, ridge_coef, lr, tol=0, epsilon) on vectors *)
| OFista (eps lr sp rg : Q) (nonneg : bool) (UtU : qmat) (UtM x : list Q) (betas : list Q)
(* cp_normalize((w, Fs)) *)
| ONormCp (w : list Q) (Fs : list qmat)
(* tucker_normalize((core, Fs)) *)
| ONormTk (core : tensor Q) (Fs : list qmat)
(* one factor update of non_negative_tucker from recorded numerator / denominator *)
| OMuTk (eps : Q) (X N D : qmat)
(* non_negative_tucker(tensor, rank, init=(core, Fs), n_iter_max=n, normalize_factors=nm): complete runs, eps = 10e-12 *)
| OTkMu (eps : Q) (T core : tensor Q) (Fs : list qmat) (nm : bool) (n : nat)
(* non_negative_parafac_hals(tensor, rank, init=(w, Fs), n_iter_max=n, tol=0, nn_modes=nn, sparsity_coefficients, normalize_factors,
   fixed_modes): complete runs incl. the inner stopping rule (inner tol) *)
| OHalsCp (T : tensor Q) (w : list Q) (Fs : list qmat) (nn : list nat) (sps : list (option Q)) (nm : bool) (modes : list nat) (n : nat) (tol : Q)
(* non_negative_tucker_hals(tensor, rank, init=(core, Fs), n_iter_max=n<=1, algorithm='fista', ...): complete runs; lr = recorded step size *)
| OTkHals (T core : tensor Q) (Fs : list qmat) (sps : list (option Q)) (csp : Q) (nm : bool) (modes : list nat) (feps lr : Q) (betas : list Q) (n : nat) (tol : Q)
(* non_negative_tucker_hals(..., algorithm='active_set', n_iter_max=n<=1): complete runs, passive-block solves by exact-style elimination *)
| OTkAset (T core : tensor Q) (Fs : list qmat) (sps : list (option Q)) (nm : bool) (modes : list nat) (n : nat) (tol : Q)
(* active_set_nnls(Utm, UtU, x=x0, n_iter_max=n) against the statement-by-statement transcription, exact rationals *)
| OAset (Utm : list Q) (UtU : qmat) (x0 : list Q) (n : nat) (tol : Q)
(* initialize_cp(init='svd'|'random', non_negative=True, normalize_factors=nm) on the recorded svd_interface / random_cp answers *)
| OInitCp (Rk : nat) (Us : list qmat) (S0 : list Q) (nm : bool)
(* initialize_tucker(non_negative=True): user (core, factors) - possibly signed - or the recorded SVD factors with the core recomputed by the model *)
| OInitTk (core : tensor Q) (raw : list qmat)
| OInitTkSvd (T : tensor Q) (ranks : list nat) (Us : list qmat)
(* initialize_constrained_parafac(non_negative = modes nn) on the recorded (signed) svd_interface answers *)
| OInitCcp (nn : list nat) (Us : list qmat) (S0 : list Q)
(* parafac2(n_iter_max=0, nn_modes=nn, normalize_factors=nm) on the recorded raw initial factors (A, B, C) *)
| OInitP2 (nn : list nat) (raw : list qmat) (nm : bool)
(* constrained_parafac(non_negative=nn, init=(ones, Fs), n_iter_max=n, n_iter_max_inner=inner, tol_outer=0, tol_inner=0, fixed_modes) *)
| OCcp (T : tensor Q) (Fs : list qmat) (nn modes : list nat) (n inner : nat)
(* constrained_parafac(non_negative=<raw spec>, init=(w, Fs), fixed_modes=<raw>, n_iter_max=n, n_iter_max_inner=inner, tol_outer=0, tol_inner=0) *)
| OCcpE (T : tensor Q) (w : list Q) (Fs : list qmat) (spec : nn_spec) (fixed : option (list nat)) (n inner : nat)
(* parafac2(slices, init=(w, Fs, projections), n_iter_max=1, nn_modes='all', linesearch=False, n_iter_parafac=nip): T = recorded projected tensor *)
| OP2Iter (T : tensor Q) (w : list Q) (Fs : list qmat) (nip : nat) (nm : bool) (tol : Q)
(* parafac2(slices, init=(w, Fs, projections), n_iter_max=length Ts, nn_modes='all', linesearch=True|False, tol=0): complete runs of several outer iterations *)
| OP2Run (Ts : list (tensor Q)) (w : list Q) (Fs : list qmat) (nip : nat) (nm : bool) (tol : Q) (lines : list (option Q)) (accepts : list bool)
(* parafac2(slices, init=(w, Fs, projections), nn_modes=nn (any list), linesearch=True | False | a _BroThesisLineSearch instance with nn_modes=ls_nn, tol=0) *)
| OP2RunG (Ts : list (tensor Q)) (w : list Q) (Fs : list qmat) (nn ls_nn : list nat) (nip : nat) (nm : bool) (tol : Q) (lines : list (option Q)) (accepts : list bool)
(* _BroThesisLineSearch.line_step extrapolation + clipping *)
| OLine (nn : list nat) (jump : Q) (last cur : list qmat)
(* the same three entry points called with RAW options (fixed_modes incl. None and the last mode, nn_modes 'all' / None / list, sparsity None / scalar / list):
   the option parsing of Model/NonnegOptions.v is part of the executed model *)
| OMuCpE (eps : Q) (T : tensor Q) (w : list Q) (Fs : list qmat) (nm : bool) (fixed : option (list nat)) (n : nat)
| OHalsCpE (T : tensor Q) (w : list Q) (Fs : list qmat) (fixed : option (list nat)) (nn : nn_opt) (sp : @sp_opt Q) (nm : bool) (n : nat) (tol : Q)
| OTkHalsE (T core : tensor Q) (Fs : list qmat) (fixed : option (list nat)) (sp : @sp_opt Q) (csp : Q) (nm : bool) (feps lr : Q) (betas : list Q) (n : nat) (tol : Q)
(* round 8: non_negative_parafac(tensor, init=(w, Fs), mask=<0/1 tensor>, tol=0, ...): the masked branch (Model/NonnegMask.v cp_mu_num_mask), raw fixed_modes *)
| OMuCpMask (eps : Q) (T mask : tensor Q) (w : list Q) (Fs : list qmat) (nm : bool) (fixed : option (list nat)) (n : nat)
(* round 8: hals_nnls(UtM, UtU, V=None, n_iter_max=n, tol=0, ...): the cold start from the recorded answer S of tl.solve(UtU, UtM) *)
| OHalsCold (eps : Q) (sp rg : option Q) (UtM UtU S0 : qmat) (n : nat)
(* round 8: hals_nnls(UtM, UtU, V, n_iter_max=n, tol=0, nonzero_rows=True, ...) on inputs on which binary floating point is exact (epsm = tl.eps(float64)) *)
| OHalsNzr (epsm eps : Q) (sp rg : option Q) (UtM UtU V : qmat) (n : nat)
(* corr:C10-static -- the body of an entry point, regenerated from the current Python source by the ast translator (harness/props/C10_sign.py):
   the sign analysis of Model/NonnegSign.v must establish that the returned decomposition is entrywise >= 0 (verdict 0) *)
| OSign (prog : list stmt) (a0 : aenv) (ret : sx)
(* corr:C10-flow -- the STRUCTURED body (loops, branches, inlined closures / callees / methods) regenerated from the current source:
   the flow-sensitive analysis of Model/NonnegFlow.v must return verdict 0 *)
| OFlow (c : cmd) (a0 : aenv).

Inductive out := OutMats (w : list Q) (Fs : list qmat) | OutSkip.

(* conditioning of the MU numerators: |v| >= 1e-6 * (the same sum over absolute values), or all terms are zero *)
Definition absT (T : tensor Q) : tensor Q := mk (shape T) (map Qabs (data T)).
Definition well_cond_entry (eps v a : Q) : bool :=
  Qeq_bool a 0%Q || negb (Qle_bool (Qabs v) ((1 # 1000000) * a + 2 * eps)%Q).
Definition well_cond (eps : Q) (N A : qmat) : bool :=
  forallb (fun p => forallb (fun q => well_cond_entry eps (fst q) (snd q)) (combine (fst p) (snd p))) (combine N A).

(* MU run that also reports conditioning (same functions as Model.non_negative_parafac, stop = never) *)
Definition mu_cond (eps : Q) (T : tensor Q) (nm : bool) (modes : list nat) (n : nat) (st : @cp_state Q) : bool * @cp_state Q :=
  iter_n n (fun bs =>
     fold_left (fun (bs : bool * @cp_state Q) mode =>
                  let '(b, st) := bs in
                  let ok := well_cond eps (cp_mu_num Qops T st mode) (cp_mu_num Qops (absT T) (map Qabs (fst st), map (abs_mat Qops) (snd st)) mode) in
                  (b && ok, cp_mu_mode Qops qnrm2 eps (cp_mu_num Qops T) (cp_mu_den Qops) nm (last modes 0%nat) st mode))
               modes bs) (true, st).

(* the same for the masked algorithm: the tensor of every mode update is the imputed one (a function of the current state) *)
Definition mu_cond_mask (eps : Q) (T mask : tensor Q) (nm : bool) (modes : list nat) (n : nat) (st : @cp_state Q) : bool * @cp_state Q :=
  iter_n n (fun bs =>
     fold_left (fun (bs : bool * @cp_state Q) mode =>
                  let '(b, st) := bs in
                  let ok := well_cond eps (cp_mu_num_mask Qops T mask st mode)
                                      (cp_mu_num Qops (absT (impute Qops T mask st)) (map Qabs (fst st), map (abs_mat Qops) (snd st)) mode) in
                  (b && ok, cp_mu_mode Qops qnrm2 eps (cp_mu_num_mask Qops T mask) (cp_mu_den Qops) nm (last modes 0%nat) st mode))
               modes bs) (true, st).
Definition run_mucp_mask (eps : Q) (T mask : tensor Q) (w : list Q) (Fs : list qmat) (nm : bool) (modes : list nat) (n : nat) : out :=
      let init := initialize_cp_user_norm Qops qnrm2 w Fs nm in
      let '(ok, _) := mu_cond_mask eps T mask nm modes n init in
      if ok then
        let r := non_negative_parafac Qops qnrm2 eps (fun _ => cp_mu_num_mask Qops T mask) (fun _ => cp_mu_den Qops) (fun _ _ => false) nm modes n init in
        OutMats (fst r) (snd r)
      else OutSkip.
Definition run_mucp (eps : Q) (T : tensor Q) (w : list Q) (Fs : list qmat) (nm : bool) (modes : list nat) (n : nat) : out :=
      let init := initialize_cp_user_norm Qops qnrm2 w Fs nm in
      let '(ok, _) := mu_cond eps T nm modes n init in
      if ok then
        let r := non_negative_parafac Qops qnrm2 eps (fun _ => cp_mu_num Qops T) (fun _ => cp_mu_den Qops) (fun _ _ => false) nm modes n init in
        OutMats (fst r) (snd r)
      else OutSkip.
Definition run (o : op) : out :=
  match o with
  | OMuCp eps T w Fs nm modes n => run_mucp eps T w Fs nm modes n
  | OHals eps sp rg UtM UtU V n => OutMats [] [hals_nnls Qops eps sp rg UtM UtU V n]
  | OFista eps lr sp rg nonneg UtU UtM x betas => OutMats (fista Qops eps lr sp rg nonneg (matvec Qops UtU) UtM x betas) []
  | ONormCp w Fs => let r := cp_normalize Qops qnrm2 (w, Fs) in OutMats (fst r) (snd r)
  | ONormTk core Fs => let r := tucker_normalize Qops qnrm2 (core, Fs) in OutMats (data (fst r)) (snd r)
  | OMuTk eps X N D => OutMats [] [mu_update_tk Qops eps X N D]
  | OTkMu eps T core Fs nm n =>
      let r := non_negative_tucker Qops qnrm2 eps (fun _ => tk_mu_num Qops T) (fun _ => tk_mu_den Qops)
                                   (fun _ => tk_mu_numc Qops T) (fun _ => tk_mu_denc Qops) (fun _ _ => false) nm (length Fs) n (core, Fs) in
      OutMats (data (fst r)) (snd r)
  | OHalsCp T w Fs nn sps nm modes n tol =>
      (* the stopping decisions must not depend on a 1e-6 relative change of the tolerance, else the case is ill-conditioned *)
      let a := halscp_fx T w Fs nn sps nm modes n (tol * (999999 # 1000000)) in
      let b := halscp_fx T w Fs nn sps nm modes n (tol * (1000001 # 1000000)) in
      if pair_close a b then OutMats (fst a) (snd a) else OutSkip
  | OTkHals T core Fs sps csp nm modes feps lr betas n tol =>
      let a := tkhals_fx T core Fs sps csp nm modes feps lr betas n (tol * (999999 # 1000000)) in
      let b := tkhals_fx T core Fs sps csp nm modes feps lr betas n (tol * (1000001 # 1000000)) in
      if pair_close a b then OutMats (fst a) (snd a) else OutSkip
  | OTkAset T core Fs sps nm modes n tol =>
      let a := tkaset_fx T core Fs sps nm modes n (tol * (999999 # 1000000)) (1 # 10000000) in
      let b := tkaset_fx T core Fs sps nm modes n (tol * (1000001 # 1000000)) (1 # 10000000) in
      if pair_close a b then OutMats (fst a) (snd a) else OutSkip
  | OAset Utm UtU x0 n tol =>
      match active_set_nnls Qops (gsolve Qops) Utm UtU tol x0 n with Some x => OutMats x [] | None => OutMats [] [[[]]] end
  | OInitCp Rk Us S0 nm => let r := initialize_cp_nn_svd Qops qnrm2 Rk Us S0 nm in OutMats (fst r) (snd r)
  | OInitTk core raw => let r := initialize_tucker_nn Qops core raw in OutMats (data (fst r)) (snd r)
  | OInitTkSvd T ranks Us =>
      let r := initialize_tucker_nn Qops (mk ranks (tk_mu_numc Qops T (mk ranks [], Us))) Us in OutMats (data (fst r)) (snd r)
  | OInitCcp nn Us S0 => OutMats [] (initialize_ccp Qops nn (fun _ M => M) (map_first (fun U => mul_cols Qops U S0) Us))
  | OInitP2 nn raw nm =>
      let r := cp_fin Qops qnrm2 nm (repeat 1%Q (ncols (hd [] raw)), initialize_parafac2_nn Qops nn raw) in OutMats (fst r) (snd r)
  | OCcp T Fs nn modes n inner => OutMats [] (ccp_fx T Fs nn modes n inner)
  | OCcpE T w Fs spec fixed n inner => OutMats [] (ccp_entry_fx T w Fs spec fixed n inner)
  | OP2Iter T w Fs nip nm tol =>
      let a := p2iter_fx T w Fs nip nm (tol * (999999 # 1000000)) in
      let b := p2iter_fx T w Fs nip nm (tol * (1000001 # 1000000)) in
      if pair_close a b then OutMats (fst a) (snd a) else OutSkip
  | OP2Run Ts w Fs nip nm tol lines accepts =>
      let a := p2run_fx Ts w Fs nip nm (tol * (999999 # 1000000)) lines accepts in
      let b := p2run_fx Ts w Fs nip nm (tol * (1000001 # 1000000)) lines accepts in
      if pair_close a b then OutMats (fst a) (snd a) else OutSkip
  | OP2RunG Ts w Fs nn ls_nn nip nm tol lines accepts =>
      let a := p2run_g_fx Ts w Fs nn ls_nn nip nm (tol * (999999 # 1000000)) lines accepts in
      let b := p2run_g_fx Ts w Fs nn ls_nn nip nm (tol * (1000001 # 1000000)) lines accepts in
      if pair_close a b then OutMats (fst a) (snd a) else OutSkip
  | OLine nn jump last cur => OutMats [] (line_step Qops nn jump last cur)
  | OMuCpE eps T w Fs nm fixed n =>
      (* non_negative_parafac_entry unfolded (the conditioning test needs the mode list): same parsing functions *)
      run_mucp eps T w Fs nm (modes_of (length Fs) (unfix_last (length Fs) (parse_fixed fixed))) n
  | OHalsCpE T w Fs fixed nn sp nm n tol =>
      let a := halscp_entry_fx T w Fs fixed nn sp nm n (tol * (999999 # 1000000)) in
      let b := halscp_entry_fx T w Fs fixed nn sp nm n (tol * (1000001 # 1000000)) in
      if pair_close a b then OutMats (fst a) (snd a) else OutSkip
  | OTkHalsE T core Fs fixed sp csp nm feps lr betas n tol =>
      let a := tkhals_entry_fx T core Fs fixed sp csp nm feps lr betas n (tol * (999999 # 1000000)) in
      let b := tkhals_entry_fx T core Fs fixed sp csp nm feps lr betas n (tol * (1000001 # 1000000)) in
      if pair_close a b then OutMats (fst a) (snd a) else OutSkip
  | OMuCpMask eps T mask w Fs nm fixed n =>
      run_mucp_mask eps T mask w Fs nm (modes_of (length Fs) (unfix_last (length Fs) (parse_fixed fixed))) n
  | OHalsCold eps sp rg UtM UtU S0 n => OutMats [] [hals_nnls Qops eps sp rg UtM UtU (hals_cold_start Qops UtM UtU S0) n]
  | OHalsNzr epsm eps sp rg UtM UtU V n => OutMats [] [hals_nnls_nzr Qops epsm eps sp rg UtM UtU V n]
  | OSign prog a0 ret => OutMats [inject_Z (Z.of_nat (sign_verdict prog a0 ret))] []
  | OFlow c a0 => OutMats [inject_Z (Z.of_nat (flow_verdict c a0))] []
  end.

Definition case := (nat * op * Q * list Q * list qmat)%type.   (* id, call, atol, implementation's weights/core/vector, matrices *)
Definition rtol : Q := (1 # 1000000000)%Q.
Definition verdict (c : case) : nat :=     (* 0 agree, 1 disagree, 2 skipped *)
  let '(_, o, atol, w, Fs) := c in
  match run o with
  | OutSkip => 2%nat
  | OutMats w' Fs' => if q_list_close atol rtol w' w && qmats_close atol rtol Fs' Fs then 0%nat else 1%nat
  end.
Definition agree (c : case) : bool := negb (Nat.eqb (verdict c) 1%nat).
Definition ident (c : case) : nat := let '(i, _, _, _, _) := c in i.
Definition failing (cs : list case) : list nat :=
  flat_map (fun c => match verdict c with O => @nil nat | S O => [(2 * ident c)%nat] | _ => [(2 * ident c + 1)%nat] end) cs.
