(* Correspondence for C11.
   (a) table cases: the (constraint, parameter) table of Model/Constraints.v against
       tensorly.tenalg.proximal.validate_constraints called for every `order`, compared EXACTLY;
   (b) trace cases: the loop skeleton of constrained_parafac executed on provenance tags against the
       provenance of the factors really returned (which recorded operator call produced them);
   (f) operator calls recorded INSIDE real runs (initialisation and ADMM iterations of constrained_parafac, admm on its own):
       the operator family of the end-to-end theorems (Model/ConstraintsOps.v op_gen, here at Qops) executed on the recorded
       input against the recorded output;
   (h) admm / proximal_operator with `order` left at None (CAdmmNone / CProxNone), and the stopping rule with its three comparisons computed at
       exact rationals on the constraint / reconstruction errors recorded in real runs against the number of sweeps executed (CStopNum). *)
From Coq Require Import List Arith ZArith QArith Qabs Qround Bool.
From TLV Require Import Base.PyList Base.Tensor Corr.Common.
From TLV Require Import Model.Constraints Base.Ops Model.Prox Model.ConstraintsOps Model.ConstraintsStop Model.ConstraintsNc.
Import ListNotations.

(* Python values used as parameters: bool / int / float (None inside lists is the `None` of option) *)
Inductive pv := PBool (b : bool) | PInt (z : Z) | PFloat (q : Q).

Definition pv_truthy (p : pv) : bool :=
  match p with
  | PBool b => b
  | PInt z => negb (Z.eqb z 0)
  | PFloat q => negb (Qeq_bool q 0)
  end.

(* the returned parameter must be the object the user passed: same type, same value *)
Definition pv_eqb (a b : pv) : bool :=
  match a, b with
  | PBool x, PBool y => Bool.eqb x y
  | PInt x, PInt y => Z.eqb x y
  | PFloat x, PFloat y => Qeq_bool x y
  | _, _ => false
  end.

Definition entry_eqb (a b : option (kind * pv)) : bool :=
  match a, b with
  | None, None => true
  | Some (k1, p1), Some (k2, p2) => kind_eqb k1 k2 && pv_eqb p1 p2
  | _, _ => false
  end.

Fixpoint list_eqb {A} (eqb : A -> A -> bool) (a b : list A) : bool :=
  match a, b with
  | [], [] => true
  | x :: a', y :: b' => eqb x y && list_eqb eqb a' b'
  | _, _ => false
  end.

(* the twelve keyword values in the order of the signature; dict keys are Python ints *)
Definition with_names (specs : list (@zspec pv)) : list (kind * @zspec pv) := combine all_kinds specs.

Definition model_table (n : nat) (specs : list (@zspec pv)) : res (list (option (kind * pv))) :=
  if Nat.eqb (length specs) 12 then zvalidate_table pv_truthy n (with_names specs) else Err.

(* provenance tags: which computation produced a factor *)
Inductive prov :=
| PvRaw                       (* least-squares iterate / raw initial factor / the operator's input, no operator applied *)
| PvUser (m : nat)            (* the user's initial factor of mode m, untouched *)
| PvUserW (m : nat)           (* the user's initial factor of mode m multiplied column-wise by the weights of the user's CP tensor *)
| PvOp (k : kind) (p : pv)    (* output of the operator of constraint k with parameter p *)
| PvOther.                    (* implementation side only: none of the above *)

Definition prov_eqb (a b : prov) : bool :=
  match a, b with
  | PvRaw, PvRaw => true
  | PvUser x, PvUser y => Nat.eqb x y
  | PvUserW x, PvUserW y => Nat.eqb x y
  | PvOp k1 p1, PvOp k2 p2 => kind_eqb k1 k2 && pv_eqb p1 p2
  | _, _ => false
  end.

Definition tag_op (k : kind) (p : pv) (_ : prov) : prov := PvOp k p.

(* err_ok: whether `mttkrp * factors[-1]` broadcasts when the last mode is not updated (decided by the harness from the shapes) *)
Definition tag_env (err_ok : bool) : env (M := prov) :=
  mkEnv (fun _ _ _ _ => PvRaw) (fun _ _ _ _ _ _ => false) (fun _ _ _ => false) (fun _ _ => err_ok).

(* n_init: the number of factors of the user's CP tensor (= n for a computed initialisation).
   weights_one: `tl.all(weights == 1)` of the user's CP tensor (weights None count as ones); otherwise the initialiser multiplies the
   weights into the LAST factor (`factors[-1] = factors[-1] * weights`) before anything else - IUser is the list after that. *)
Definition user_tags (n_init : nat) (weights_one : bool) : list prov :=
  if weights_one then map PvUser (seq 0 n_init)
  else match n_init with O => [] | S k => map PvUser (seq 0 k) ++ [PvUserW k] end.
Definition model_trace (n : nat) (specs : list (@zspec pv)) (user_init : bool) (n_init : nat) (weights_one : bool) (err_ok : bool) (fixed : list nat)
           (n_outer n_inner : nat) : res (list prov) :=
  if Nat.eqb (length specs) 12 then
    constrained_cp PvOther tag_op (zvalidate pv_truthy n (with_names specs)) (fun _ _ => PvRaw) (fun _ _ => PvRaw) (tag_env err_ok)
                   n (if user_init then IUser (user_tags n_init weights_one) else IComputed (repeat PvRaw n))
                   fixed n_outer n_inner PvRaw
  else Err.

(* the same with the outer stopping rule as written (Model/ConstraintsStop.v): tol = bool(tol_outer), the criterion as passed, and
   cerr_small = `constraint_error < tol_outer` (the harness chooses tol_outer = 1e-300 / 1e300 so that it is False / True throughout);
   the two reconstruction-error comparisons are unobservable on tags and irrelevant to the provenance (False) *)
Definition tag_stop (tol : bool) (c : crit) (cerr_small : bool) : stop_env (M := prov) :=
  mkStop tol c (fun _ _ _ => cerr_small) (fun _ _ _ => false) (fun _ _ _ => false).
Definition model_trace_c (n : nat) (specs : list (@zspec pv)) (user_init : bool) (n_init : nat) (weights_one : bool) (err_ok : bool) (fixed : list nat)
           (n_outer n_inner : nat) (tol : bool) (c : crit) (cerr_small : bool) : res (list prov) :=
  if Nat.eqb (length specs) 12 then
    constrained_cp_c PvOther tag_op (zvalidate pv_truthy n (with_names specs)) (fun _ _ => PvRaw) (fun _ _ => PvRaw) (tag_env err_ok)
                     (tag_stop tol c cerr_small)
                     n (if user_init then IUser (user_tags n_init weights_one) else IComputed (repeat PvRaw n))
                     fixed n_outer n_inner PvRaw
  else Err.

(* admm called on its own with n_const = n, order: provenance of the returned primal variable (the start value is PvUser 0) *)
Definition model_admm (n : nat) (specs : list (@zspec pv)) (order n_iter : nat) : res prov :=
  if Nat.eqb (length specs) 12 then
    rbind (admm (fun _ _ => PvRaw) (fun _ _ => PvRaw) n_iter (fun _ _ => PvRaw) (fun _ _ _ _ => false)
                (proximal_operator tag_op (zvalidate pv_truthy n (with_names specs)) order) (PvUser 0) PvRaw)
          (fun r => Ok (fst (fst r)))
  else Err.

(* proximal_operator called on its own: which operator produced the output (PvRaw = the input itself) *)
Definition model_prox (n : nat) (specs : list (@zspec pv)) (order : nat) : res prov :=
  if Nat.eqb (length specs) 12 then proximal_operator tag_op (zvalidate pv_truthy n (with_names specs)) order PvRaw else Err.

(* n_const=None (Model/ConstraintsNc.v): admm returns the unconstrained least-squares solution (tag PvRaw), proximal_operator its input *)
Definition model_admm_nc (specs : list (@zspec pv)) (order n_iter : nat) : res prov :=
  if Nat.eqb (length specs) 12 then
    rbind (admm_nc pv_truthy tag_op (fun _ _ => PvRaw) (fun _ _ => PvRaw) None (with_names specs) order n_iter (fun _ _ => PvOther)
                   (fun _ _ _ _ => false) PvRaw (PvUser 0) PvOther)
          (fun r => Ok (fst (fst r)))
  else Err.
Definition model_prox_nc (specs : list (@zspec pv)) (order : nat) : res prov :=
  if Nat.eqb (length specs) 12 then proximal_operator_nc pv_truthy tag_op None (with_names specs) order PvRaw else Err.

(* `order` left at None (Model/ConstraintsNc.v admm_py / proximal_operator_py): admm(n_const=n) without order works on mode 0 (fix a5b9e5b:
   `if order is None: order = 0`); proximal_operator(n_const=n, order=None) raises, with n_const=None it returns its input *)
Definition model_admm_none (n : nat) (specs : list (@zspec pv)) (n_iter : nat) : res prov :=
  if Nat.eqb (length specs) 12 then
    rbind (admm_py pv_truthy tag_op (fun _ _ => PvRaw) (fun _ _ => PvRaw) (Some n) (with_names specs) None n_iter (fun _ _ => PvRaw)
                   (fun _ _ _ _ => false) PvOther (PvUser 0) PvRaw)
          (fun r => Ok (fst (fst r)))
  else Err.
Definition model_prox_none (nc : option nat) (specs : list (@zspec pv)) : res prov :=
  if Nat.eqb (length specs) 12 then proximal_operator_py pv_truthy tag_op nc (with_names specs) None PvRaw else Err.

(* the stopping rule with its comparisons as numbers (Model/ConstraintsStop.v stop_env_num at Qops) on the sequences recorded in a real run:
   cerrs = constraint_error after each executed sweep, errs = rec_errors (exact rational values of the float64 numbers), tol = tol_outer.
   The model's loop constrained_cp_c is executed on COUNTERS: every factor starts at 0 (a user initialisation), the operator adds 1, the
   inner budget is 1 - so the returned counters are the number of sweeps the model executes; expected: Ok [L; ..; L] with L = len(rec_errors)
   of the real run, or Err where the run raised TypeError (unknown criterion). *)
Definition model_stop_num (n n_outer : nat) (tol : Q) (c : crit) (cerrs errs : list Q) : res (list nat) :=
  constrained_cp_c 0%nat (fun _ (_ : unit) (x : nat) => S x) (fun _ => Ok (Some (KNonNeg, tt))) (fun s _ => s) (fun a _ => a)
                   (mkEnv (fun _ _ (x : nat) _ => x) (fun _ _ _ _ _ _ => false) (fun _ _ _ => false) (fun _ _ => true))
                   (stop_env_num Qops tol c (fun it => nth it cerrs 0) (fun it => nth it errs 0))
                   n (IUser (repeat 0%nat n)) [] n_outer 1%nat 0%nat.

(* (e) feasibility of a returned / dispatched factor, decided in Coq on the exact rational value of the float64 entries
   (rows, row-major).  Transcription of the Python predicates of harness/props/C11.py with a LOOSER tolerance (1e-8 instead
   of 1e-9): every array the Python predicate accepted must be accepted here. *)
Definition qmax (a b : Q) : Q := if Qle_bool a b then b else a.
Definition tolq : Q := 1 # 100000000.
Definition qsum (l : list Q) : Q := fold_right (fun a s => Qred (a + s)) 0 l.
Definition qmaxabs (l : list Q) : Q := fold_right (fun a m => qmax (Qabs a) m) 0 l.
Definition qsumsq (l : list Q) : Q := qsum (map (fun a => Qred (a * a)) l).
Definition qcols (rows : list (list Q)) : list (list Q) :=
  match rows with [] => [] | r :: _ => map (fun j => map (fun row => nth j row 0) rows) (seq 0 (length r)) end.
Fixpoint nondecb (l : list Q) : bool :=
  match l with a :: (b :: _) as r => Qle_bool (a - tolq) b && nondecb r | _ => true end.
Fixpoint nonincb (l : list Q) : bool :=
  match l with a :: (b :: _) as r => Qle_bool b (a + tolq) && nonincb r | _ => true end.
Definition unimodalb (c : list Q) : bool :=
  existsb (fun i => nondecb (firstn (S i) c) && nonincb (skipn i c)) (seq 0 (length c)).
Definition qnnz (l : list Q) : nat := length (filter (fun a => negb (Qeq_bool a 0)) l).
Definition pv_q (p : pv) : Q := match p with PBool b => if b then 1 else 0 | PInt z => inject_Z z | PFloat q => q end.
Definition near1 (tol x : Q) : bool := Qle_bool (Qabs (x - 1)) tol.
Definition is_zero_col (c : list Q) : bool := forallb (fun a => Qeq_bool a 0) c.

Definition feasb (k : kind) (p : pv) (rows : list (list Q)) : bool :=
  let P := pv_q p in
  let nrows := inject_Z (Z.of_nat (length rows)) in
  let slack := Qred (tolq * qmax 1 (Qabs P) * nrows) in
  let cs := qcols rows in
  match k with
  | KNonNeg => forallb (fun a => Qle_bool (- tolq) a) (concat rows)
  | KSimplex => forallb (fun a => Qle_bool (- tolq) a) (concat rows) &&
                forallb (fun c => Qle_bool (Qabs (qsum c - P)) slack) cs
  | KMonotone => forallb nondecb cs
  | KUnimodal => forallb unimodalb cs
  | KHardSparsity => forallb (fun c => Qle_bool (inject_Z (Z.of_nat (qnnz c))) P) cs
  | KNormSparsity => forallb (fun c => Qle_bool (inject_Z (Z.of_nat (qnnz c))) P) cs &&
                     (near1 (3 * tolq) (qsumsq (concat rows)) ||
                      forallb (fun c => is_zero_col c || near1 (3 * tolq) (qsumsq c)) cs)
  | KNormalize => near1 tolq (qmaxabs (concat rows)) ||
                  (negb (is_zero_col (concat rows)) && forallb (fun c => is_zero_col c || near1 tolq (qmaxabs c)) cs)
  | KSoftSparsity => forallb (fun c => Qle_bool (qsum (map Qabs c)) (P + slack)) cs
  | _ => true
  end.

(* (f) the operators of the eight hard kinds on the recorded calls.  op_gen at Qops is the same term as op_c12 of the end-to-end
   theorems (Proofs/ConstraintsProofsFeasible.v: op_c12_is_op_gen).  aux: the recorded value of tl.norm (normalized_sparsity).
   Comparison as in Corr/C12.v (definitions transcribed from there): exact for clip and for hard thresholding without a tie at the
   cut (with a tie: any valid choice among the tied entries), toleranced |a-b| <= atol + rtol(|a|+|b|) for the others; for
   unimodality every candidate peak whose exact score is within eps of the minimum is accepted. *)
Definition QM := list (list Q).
Definition pv_n (p : pv) : nat := match p with PBool b => if b then 1 else 0 | PInt z => Z.to_nat z | PFloat q => Z.to_nat (Qfloor q) end.
Definition model_op (aux : Q) (k : kind) (p : pv) (rows : QM) : QM :=
  op_gen Qops (fun _ => aux) pv_q pv_n (fun _ _ x => x) k p rows.

Fixpoint rows_close (atol rtol : Q) (a b : QM) : bool :=
  match a, b with
  | [], [] => true
  | x :: a', y :: b' => q_list_close atol rtol x y && rows_close atol rtol a' b'
  | _, _ => false
  end.
Definition all2 {A B} (f : A -> B -> bool) (a : list A) (b : list B) : bool :=
  Nat.eqb (length a) (length b) && forallb (fun p => f (fst p) (snd p)) (combine a b).
Definition same_shape (a b : QM) : bool := all2 (fun x y : list Q => Nat.eqb (length x) (length y)) a b.
Definition norm_ok (s : Q) (v : list Q) : bool :=
  let ss := sumsq Qops v in
  Qle_bool 0 s && Qle_bool (Qabs (Qred (s * s - ss))) (Qred (ss * (1 # 1152921504606846976))).
Definition ht_tie (k : nat) (v : list Q) : bool :=
  let vx := combine v (hard_thresholding Qops k v) in
  existsb (fun a : Q * Q => existsb (fun b : Q * Q =>
     fnz Qops (snd a) && negb (fnz Qops (snd b)) && Qeq_bool (Qabs (fst a)) (Qabs (fst b))) vx) vx.
Definition uni_col_ok (atol rtol eps gmax : Q) (col impl : list Q) : bool :=
  let d := uni_difference gmax (uni_scores Qops col) in
  let dmin := nth (argmin Qops d) d 0 in
  existsb (fun i => Qle_bool (nth i d 0) (Qred (dmin + eps)) && q_list_close atol rtol (uni_assemble Qops i col) impl)
          (seq 0 (length col)).
Definition uni_ok (atol rtol eps : Q) (rows out : QM) : bool :=
  let cols := cols_of Qops rows in
  let scs := map (uni_scores Qops) cols in
  let gmax := match concat (map snd scs) with [] => 0 | x :: r => maxl Qops x r end in
  same_shape rows out && all2 (uni_col_ok atol rtol eps gmax) cols (cols_of Qops out).
(* unimodality_prox decides its peak candidates by `tensor - fit >= 0` on ROUNDED fits: where an entry equals one of its monotone
   fits exactly (common: every entry of a locally monotone stretch) the floating-point flag is rounding noise, and with it the fill
   value and the selected index.  The comparison therefore demands what holds for EVERY outcome of the noisy flags:
   an entry is definitely flagged if both margins exceed tol, possibly flagged if both are >= -tol; the selected index i must be
     - possibly flagged with score(i) <= score(j) + eps for every definitely flagged j of the column, or
     - possibly unflagged, and then every definitely flagged j of the column must reach the fill value, which is at least the
       largest score of a definitely flagged entry of the whole matrix: gmin <= score(j) + eps;
   and the output column must be the column assembled at that index.  Without ambiguous entries this is the exact rule
   (near-minimiser among the flagged entries; an unflagged index only when every flagged one ties with the fill value). *)
Definition uni_parts (col : list Q) : list (Q * Q * Q) :=          (* (v - inc fit, v - dec fit, score) per entry *)
  let inc := monotone_inc Qops col in let dec := monotonicity_prox Qops true col in
  let si := cumsum_excl Qops 0 (absdiff Qops col inc) in
  let sd := rev (cumsum_excl Qops 0 (rev (absdiff Qops col dec))) in
  map (fun t : Q * ((Q * Q) * (Q * Q)) =>
         (Qred (fst t - fst (fst (snd t))), Qred (fst t - snd (fst (snd t))), Qred (fst (snd (snd t)) + snd (snd (snd t)))))
      (combine col (combine (combine inc dec) (combine si sd))).
Definition qltb (a b : Q) : bool := negb (Qle_bool b a).
Definition def_flag (tol : Q) (t : Q * Q * Q) : bool := qltb tol (fst (fst t)) && qltb tol (snd (fst t)).
Definition pos_flag (tol : Q) (t : Q * Q * Q) : bool := Qle_bool (- tol) (fst (fst t)) && Qle_bool (- tol) (snd (fst t)).
Definition uni_gmin (tol : Q) (parts : list (list (Q * Q * Q))) : Q :=
  fold_right (fun t m => if def_flag tol t then qmax (snd t) m else m) 0 (concat parts).
Definition uni_accept (tol eps gmin : Q) (parts : list (Q * Q * Q)) (i : nat) : bool :=
  let t := nth i parts (0, 0, 0) in
  let defs := filter (def_flag tol) parts in
  (pos_flag tol t && forallb (fun u => Qle_bool (snd t) (Qred (snd u + eps))) defs)
  || (negb (def_flag tol t) && forallb (fun u => Qle_bool gmin (Qred (snd u + eps))) defs).
Definition uni_col_call_ok (atol rtol eps gmin : Q) (col impl : list Q) : bool :=
  let parts := uni_parts col in
  existsb (fun i => uni_accept atol eps gmin parts i && q_list_close atol rtol (uni_assemble Qops i col) impl) (seq 0 (length col)).
Definition uni_call_ok (atol rtol : Q) (rows out : QM) : bool :=
  let cols := cols_of Qops rows in
  let gmin := uni_gmin atol (map uni_parts cols) in
  same_shape rows out && all2 (uni_col_call_ok atol rtol (Qred (atol * 1000)) gmin) cols (cols_of Qops out).

Definition call_agree (k : kind) (p : pv) (aux : Q) (rows out : QM) (atol rtol : Q) : bool :=
  let n := pv_n p in
  match k with
  | KNonNeg => rows_close 0 0 (model_op aux k p rows) out
  | KHardSparsity => same_shape rows out && valid_ht Qops n (concat rows) (concat out)
                     && (ht_tie n (concat rows) || rows_close 0 0 (model_op aux k p rows) out)
  | KNormSparsity => norm_ok aux (hard_thresholding Qops n (concat rows))
                     && (if ht_tie n (concat rows) then same_shape rows out else rows_close atol rtol (model_op aux k p rows) out)
  | KUnimodal => uni_call_ok atol rtol rows out
  | KSimplex | KMonotone | KSoftSparsity | KNormalize => rows_close atol rtol (model_op aux k p rows) out
  | _ => true
  end.

Inductive case :=
| CTable (id n : nat) (specs : list (@zspec pv)) (expected : res (list (option (kind * pv))))
| CTrace (id n : nat) (specs : list (@zspec pv)) (user_init : bool) (n_init : nat) (weights_one : bool) (err_ok : bool) (fixed : list nat)
         (n_outer n_inner : nat) (expected : res (list prov))
| CTraceC (id n : nat) (specs : list (@zspec pv)) (user_init : bool) (n_init : nat) (weights_one : bool) (err_ok : bool) (fixed : list nat)
          (n_outer n_inner : nat) (tol : bool) (c : crit) (cerr_small : bool) (expected : res (list prov))
| CAdmm (id n : nat) (specs : list (@zspec pv)) (order n_iter : nat) (expected : res prov)
| CProx (id n : nat) (specs : list (@zspec pv)) (order : nat) (expected : res prov)
| CAdmmNc (id : nat) (specs : list (@zspec pv)) (order n_iter : nat) (expected : res prov)
| CProxNc (id : nat) (specs : list (@zspec pv)) (order : nat) (expected : res prov)
| CAdmmNone (id n : nat) (specs : list (@zspec pv)) (n_iter : nat) (expected : res prov)
| CProxNone (id : nat) (nc : option nat) (specs : list (@zspec pv)) (expected : res prov)
| CStopNum (id n n_outer : nat) (tol : Q) (c : crit) (cerrs errs : list Q) (expected : res (list nat))
| CFeas (id : nat) (k : kind) (p : pv) (rows : list (list Q))
| CCall (id : nat) (k : kind) (p : pv) (aux : Q) (rows out : list (list Q)) (atol rtol : Q).

Definition agree (c : case) : bool :=
  match c with
  | CTable _ n specs expected => res_eqb (list_eqb entry_eqb) (model_table n specs) expected
  | CTrace _ n specs ui nin wone eok fixed no ni expected => res_eqb (list_eqb prov_eqb) (model_trace n specs ui nin wone eok fixed no ni) expected
  | CTraceC _ n specs ui nin wone eok fixed no ni tol c ce expected =>
      res_eqb (list_eqb prov_eqb) (model_trace_c n specs ui nin wone eok fixed no ni tol c ce) expected
  | CAdmm _ n specs order ni expected => res_eqb prov_eqb (model_admm n specs order ni) expected
  | CProx _ n specs order expected => res_eqb prov_eqb (model_prox n specs order) expected
  | CAdmmNc _ specs order ni expected => res_eqb prov_eqb (model_admm_nc specs order ni) expected
  | CProxNc _ specs order expected => res_eqb prov_eqb (model_prox_nc specs order) expected
  | CAdmmNone _ n specs ni expected => res_eqb prov_eqb (model_admm_none n specs ni) expected
  | CProxNone _ nc specs expected => res_eqb prov_eqb (model_prox_none nc specs) expected
  | CStopNum _ n no tol c cerrs errs expected => res_eqb (list_eqb Nat.eqb) (model_stop_num n no tol c cerrs errs) expected
  | CFeas _ k p rows => feasb k p rows
  | CCall _ k p aux rows out atol rtol => call_agree k p aux rows out atol rtol
  end.
Definition ident (c : case) : nat :=
  match c with CTable i _ _ _ => i | CTrace i _ _ _ _ _ _ _ _ _ _ => i | CTraceC i _ _ _ _ _ _ _ _ _ _ _ _ _ => i | CAdmm i _ _ _ _ _ => i | CProx i _ _ _ _ => i | CAdmmNc i _ _ _ _ => i | CProxNc i _ _ _ => i | CAdmmNone i _ _ _ _ => i | CProxNone i _ _ _ => i | CStopNum i _ _ _ _ _ _ _ => i | CFeas i _ _ _ => i | CCall i _ _ _ _ _ _ _ => i end.
Definition failing := failing_ids agree ident.

(* ------------------------------------------------------------------ (g) static tie: pieces of the model regenerated from the CURRENT
   Python source by an ast translator (harness/props/C11.py, corr:C11-static) and decided here.
   SKinds: `constraints_list` / `constraints_names` of validate_constraints = the keyword order of the model (all_kinds).
   SDispatch: the if/elif chain of proximal_operator as a table (Model/ConstraintsOps.v); `dispatch_ok` is the hypothesis of
     Proofs/ConstraintsProofsStatic.v dispatch_table_sound / dispatch_table_feasible (the table denotes op_c12, hence feasible).
   SForward: at every call site between ConstrainedCP, constrained_parafac, initialize_constrained_parafac, admm, proximal_operator
     and validate_constraints each of the twelve keywords is passed on under its own name (the model hands ONE request `sp` to every
     call), with the `order=` / `n_const=` expressions the model assumes (the loop variable over modes_list / range(ndim); the
     function's own parameter; tl.ndim(tensor)). *)
Inductive site := SProxToValidate | SAdmmToProx | SInitToProx | SCpToValidate | SCpToInit | SCpToAdmm | SClassToCp | SClassInit.
(* OParamNone0: the function's own parameter `order`, preceded by exactly `if order is None: order = 0` (admm; Model/ConstraintsNc.v order_of);
   OParam: the own parameter, never re-bound in the function *)
Inductive oexp := OParam | OLoopRangeNdim | OLoopModesList | ONone | OOther | OParamNone0.
Inductive nexp := NParam | NNdimTensor | NNone | NOther.
Inductive scase :=
| SKinds (id : nat) (vars names : list kind)
| SDispatch (id : nat) (none_returns_tensor : bool) (tbl : list (kind * dop)) (else_raises : bool)
| SForward (id : nat) (s : site) (pairs : list (kind * kind)) (o : oexp) (nc : nexp)
| SAdmmStart (id : nat) (split_is_transpose_x start_kept returns_x_split_dual : bool).

Definition site_expect (s : site) : oexp * nexp :=
  match s with
  | SProxToValidate => (OParam, NParam)
  | SAdmmToProx => (OParamNone0, NParam)
  | SInitToProx => (OLoopRangeNdim, NNdimTensor)
  | SCpToValidate => (ONone, NNdimTensor)          (* order omitted: the default 0 *)
  | SCpToAdmm => (OLoopModesList, NNdimTensor)
  | SCpToInit | SClassToCp | SClassInit => (ONone, NNone)
  end.
Definition oexp_id (o : oexp) : nat := match o with OParam => 0 | OLoopRangeNdim => 1 | OLoopModesList => 2 | ONone => 3 | OOther => 4 | OParamNone0 => 5 end.
Definition nexp_id (o : nexp) : nat := match o with NParam => 0 | NNdimTensor => 1 | NNone => 2 | NOther => 3 end.
Definition forward_ok (pairs : list (kind * kind)) : bool :=
  Nat.eqb (length pairs) 12 &&
  forallb (fun k => Nat.eqb (length (filter (fun ab : kind * kind => kind_eqb (fst ab) k) pairs)) 1 &&
                    Nat.eqb (length (filter (fun ab : kind * kind => kind_eqb (fst ab) k && kind_eqb (snd ab) k) pairs)) 1) all_kinds.
Definition static_agree (c : scase) : bool :=
  match c with
  | SKinds _ vars names => list_eqb kind_eqb vars all_kinds && list_eqb kind_eqb names all_kinds
  | SDispatch _ none_ok tbl else_raises => none_ok && Nat.eqb (length tbl) 12 && dispatch_ok tbl && else_raises
  | SForward _ s pairs o nc =>
      forward_ok pairs && Nat.eqb (oexp_id o) (oexp_id (fst (site_expect s))) && Nat.eqb (nexp_id nc) (nexp_id (snd (site_expect s)))
  (* admm before its loop: `x_split = tl.transpose(x)`, x and dual_var untouched, `return x, x_split, dual_var` last - what Model/Constraints.v
     admm returns for an inner budget of 0: (x, x, dual) with s standing for transpose(x_split) *)
  | SAdmmStart _ a b c => a && b && c
  end.
Definition sident (c : scase) : nat := match c with SKinds i _ _ => i | SDispatch i _ _ _ => i | SForward i _ _ _ _ => i | SAdmmStart i _ _ _ => i end.
Definition failing_static := failing_ids static_agree sident.
