(* Correspondence for C12: run the model of tensorly/tenalg/proximal.py (Model/Prox.v at Qops, exact
   rationals) on the implementation's inputs and compare with the implementation's outputs
   (exactly: atol = rtol = 0, or toleranced), and decide the exact optimality / feasibility
   certificates of Proofs/ on the model's own output.
   A tensor is a list of rows (a 1-D vector of length n is n rows of length 1). *)
From Coq Require Import List Arith ZArith QArith Qabs Bool.
From Coq Require Uint63.
From TLV Require Import Base.Ops Base.Tensor Model.Prox Model.ProxDispatch Model.ProxSvtGap Corr.Common.
From TLV Require Model.Constraints.
Import ListNotations.

Definition M := list (list Q).

(* compact literal of a binary floating-point value (-1)^neg * m / 2^e with primitive integers (an order of magnitude cheaper to
   elaborate than Qmake with binary numerals; the value is the same reduced rational) *)
Definition dy (neg : bool) (m e : Uint63.int) : Q :=
  let z := Uint63.to_Z m in Qred (Qmake (if neg then (- z)%Z else z) (Z.to_pos (2 ^ Uint63.to_Z e))).

Inductive op :=
| ONonneg | OSoft (t : Q) | OSoftArr (ts : M) | OL2sq (t : Q)
| OL2 (t s : Q)                      (* s : rational approximation of tl.norm(tensor) supplied by the harness *)
| OSmooth (t : Q) | OSimplex (p : Q) | OSoftSparsity (p : Q) | OMonotone (dec : bool) | OUnimodal
| OHard (k : nat) | ONormSparsity (k : nat) (s : Q) | ONormalize
| OIdentity                          (* proximal_operator with no constraint registered for the selected mode *)
| OSvt (t : Q) (U : M) (s : list Q) (V : M)   (* U, s, V : the answer of tl.truncated_svd on the input (tape) *)
| OProcrustes (U : M) (s : list Q) (V : M)
(* proximal_operator(tensor, <keyword arguments>, n_const, order): the keyword arguments as written (kind, scalar / list / dict with
   Python int keys); operator and parameter are selected by C11's model of validate_constraints (Model/Constraints.v: zvalidate,
   through Model/ProxDispatch.validate_kwargs); aux = norm tape of the selected operator.
   ORouted: the implementation returned; ORejected: the implementation raised ValueError *)
| ORouted (n_const : option nat) (order : Z) (specs : kwargs) (aux : Q)      (* order: the Python int as written, also negative / out of range *)
| ORejected (n_const : nat) (order : Z) (specs : kwargs)
(* the call o on a tensor with ndim >= 3 dimensions (presented as first axis x the rest): raised = the implementation raised ValueError *)
| ONd (ndim : nat) (raised : bool) (o : op)
(* smoothness_prox / proximal_operator(smoothness=...) (the call o, which must resolve to OSmooth) on a tensor with three or more dimensions,
   presented as the rows of its shape[-2] x shape[-1] slices one after the other; d0 = shape[0], p = shape[-2] (Model/ProxDispatch.smooth_nd) *)
| OSmoothNd (raised : bool) (d0 p : nat) (o : op).

(* the operators proximal_operator can select (Model/ProxDispatch.pop) among the operators of the correspondence *)
Definition of_pop (o : @pop Q) : op :=
  match o with
  | PNonneg => ONonneg | PSoft t => OSoft t | PL2 t s => OL2 t s | PL2sq t => OL2sq t | PUnimodal => OUnimodal
  | PNormalize => ONormalize | PSimplex p => OSimplex p | PNormSparsity k s => ONormSparsity k s | PSoftSparsity p => OSoftSparsity p
  | PSmooth t => OSmooth t | PMonotone d => OMonotone d | PHard k => OHard k | PIdentity => OIdentity
  end.
Definition to_pop (o : op) : option (@pop Q) :=
  match o with
  | ONonneg => Some PNonneg | OSoft t => Some (PSoft t) | OL2 t s => Some (PL2 t s) | OL2sq t => Some (PL2sq t)
  | OUnimodal => Some PUnimodal | ONormalize => Some PNormalize | OSimplex p => Some (PSimplex p)
  | ONormSparsity k s => Some (PNormSparsity k s) | OSoftSparsity p => Some (PSoftSparsity p) | OSmooth t => Some (PSmooth t)
  | OMonotone d => Some (PMonotone d) | OHard k => Some (PHard k) | OIdentity => Some PIdentity
  | _ => None
  end.
(* None: the model (Model/ProxDispatch.selected_pop: early exit, validate_constraints, dispatch, parameter passing) says the call raises *)
Definition resolve_op (o : op) : option op :=
  match o with
  | ORouted n ord specs aux =>
      match selected_pop_z (fun q : Q => q) n ord specs aux with
      | Ok po => Some (of_pop po)
      | Err => None
      end
  | ORejected _ _ _ => None
  | ONd _ _ _ => None
  | OSmoothNd _ _ _ _ => None
  | _ => Some o
  end.

Definition run (o : op) (rows : M) : M :=
  match to_pop o with
  | Some po => prun Qops po rows       (* every operator reachable through proximal_operator runs through the model of its dispatch *)
  | None =>
  match o with
  | OSoftArr ts => flatwise (soft_thresholding_arr Qops (concat ts)) rows
  | OSvt t U s V => svd_thresholding_with Qops U s V t
  | OProcrustes U s V => procrustes_with Qops U V
  | _ => rows        (* ORouted / ORejected, never reached: cases are resolved first *)
  end end.

Fixpoint rows_close (atol rtol : Q) (a b : M) : bool :=
  match a, b with
  | [], [] => true
  | x :: a', y :: b' => q_list_close atol rtol x y && rows_close atol rtol a' b'
  | _, _ => false
  end.
Definition all2 {A B} (f : A -> B -> bool) (a : list A) (b : list B) : bool :=
  Nat.eqb (length a) (length b) && forallb (fun p => f (fst p) (snd p)) (combine a b).

(* |s*s - ss| <= ss * 2^-60  and  0 <= s : the contract of the norm tape *)
Definition norm_ok (s : Q) (v : list Q) : bool :=
  let ss := sumsq Qops v in
  Qle_bool 0 s && Qle_bool (Qabs (Qred (s * s - ss))) (Qred (ss * (1 # 1152921504606846976))).

(* contract of the SVD tape (toleranced): U diag(s) V = input, U^T U = I, V V^T = I, s >= 0; square factors orthogonal on both sides *)
Definition svd_tape_ok (atol rtol : Q) (U : M) (s : list Q) (V : M) (rows : M) : bool :=
  let k := length s in
  Nat.eqb (length V) k && forallb (fun r : list Q => Nat.eqb (length r) k) U
  && forallb (fun x => Qle_bool 0 x) s
  && rows_close atol rtol (mat_mul Qops U (scale_rows Qops s V)) rows
  && rows_close (1 # 1000000000) 0 (mat_mul Qops (cols_of Qops U) U) (identity_mat Qops k)
  && rows_close (1 # 1000000000) 0 (mat_mul Qops V (cols_of Qops V)) (identity_mat Qops k)
  (* the extra clause of C12_procrustes_feasible: a square V (tall / square input), resp. a square U (wide / square input), is orthogonal *)
  && (negb (Nat.eqb (length (hd [] V)) k) || rows_close (1 # 1000000000) 0 (mat_mul Qops (cols_of Qops V) V) (identity_mat Qops k))
  && (negb (Nat.eqb (length U) k) || rows_close (1 # 1000000000) 0 (mat_mul Qops U (cols_of Qops U)) (identity_mat Qops k)).

(* svd_thresholding without the exact SVD contract: the a-posteriori bound of Model/ProxSvtGap.svt_gap (Proofs/ProxProofsSvtGap.svt_gap_sound,
   C12_svt_gap_exec_sound: the objective of the returned matrix exceeds the minimum by at most this number), evaluated exactly on the recorded
   tape with e = 1e-9 (the entrywise tolerance svd_tape_ok decides for the two Gram matrices), must not exceed 1e-7 (t sum soft(s) + |M|^2 / 2) *)
Definition svt_gap_ok (t : Q) (U : M) (s : list Q) (V rows : M) : bool :=
  if Qle_bool 0 t then
    Qle_bool (svt_gap Qops (1 # 1000000000) U s V t rows)
             (Qred ((1 # 10000000) * (t * lsum Qops (soft_thresholding Qops t s) + sumsq Qops (concat rows) / 2)))
  else true.

(* the Boolean hypotheses of the per-case certificate Proofs/ProxProofsTapeCert.svt_case_certified (C12_svt_case_certified): shapes, s >= 0, t >= 0,
   both Gram matrices within 1e-9 of the identity entrywise; when it holds, the matrix the executed model returns is optimal up to svt_gap *)
Definition rectb (m n : nat) (A : M) : bool := Nat.eqb (length A) m && forallb (fun r : list Q => Nat.eqb (length r) n) A.
Definition svt_case_ok (m n k : nat) (U : M) (s : list Q) (V rows : M) (t : Q) : bool :=
  Nat.leb 1 m && Nat.leb 1 n && Nat.leb 1 k && Nat.ltb k 1000 && rectb m k U && Nat.eqb (length s) k && rectb k n V && rectb m n rows
  && forallb (fun x => Qle_bool 0 x) s && Qle_bool 0 t
  && rows_close (1 # 1000000000) 0 (gram_cols Qops U) (identity_mat Qops k)
  && rows_close (1 # 1000000000) 0 (gram_rows Qops V) (identity_mat Qops k).

(* procrustes without the exact SVD contract (Proofs/ProxProofsTapeCert.procrustes_case_certified, C12_procrustes_case_certified): when this Boolean
   holds, <Q, M> <= <U V, M> + procrustes_gap for every Q with orthonormal columns / rows *)
Definition procrustes_case_ok (m n k : nat) (U : M) (s : list Q) (V rows : M) (d : Q) : bool :=
  Nat.leb 1 m && Nat.leb 1 n && Nat.leb 1 k && rectb m k U && Nat.eqb (length s) k && rectb k n V && rectb m n rows
  && forallb (fun x => Qle_bool 0 x) s && negb (Qle_bool d 0)
  && rows_close (1 # 1000000000) 0 (gram_cols Qops U) (identity_mat Qops k)
  && rows_close (1 # 1000000000) 0 (gram_rows Qops V) (identity_mat Qops k).
(* evaluated per procrustes case with the weight d = 1e-9 (sum s) / max(m, n): the bound must not exceed 1e-7 (sum s) *)
Definition procrustes_gap_ok (U : M) (s : list Q) (V rows : M) : bool :=
  let S := lsum Qops s in
  if Qle_bool S 0 then true else
  let m := length rows in let n := length (hd [] rows) in
  let d := Qred (S * (1 # 1000000000) / inject_Z (Z.of_nat (Nat.max m n))) in
  procrustes_case_ok m n (length s) U s V rows d
  && Qle_bool (procrustes_gap Qops (1 # 1000000000) d U s V rows) (Qred ((1 # 10000000) * S)).

(* feasibility of the matrix the executed model returns for procrustes, WITHOUT the exact SVD contract (Proofs/ProxProofsProcrustesFeas:
   C12_procrustes_feasible_case_certified / C12_procrustes_nearest_case_certified): the Gram matrix of its columns (tall / square input) or of its rows
   (wide input) is within 1e-9 of the identity entrywise, decided in exact arithmetic *)
Definition procrustes_feasible_ok (m n : nat) (X : M) : bool :=
  Nat.leb 1 m && Nat.leb 1 n && rectb m n X
  && (if Nat.leb n m then rows_close (1 # 1000000000) 0 (gram_cols Qops X) (identity_mat Qops n)
      else rows_close (1 # 1000000000) 0 (gram_rows Qops X) (identity_mat Qops m)).

(* exact certificates decided on the MODEL's output (so that the theorems of Proofs/ apply to it) *)
Definition model_cert (atol rtol : Q) (o : op) (rows : M) : bool :=
  let out := run o rows in
  match o with
  | OSmooth t => all2 (fun x v => q_list_eqb (sm_apply Qops t 0 x) v) (cols_of Qops out) (cols_of Qops rows)
  | OSimplex p => if Qle_bool p 0 then true else forallb (simplex_cert Qops p) (cols_of Qops out)
  | OMonotone d => all2 (fun x v => if d then iso_cert Qops (rev v) (rev x) else iso_cert Qops v x) (cols_of Qops out) (cols_of Qops rows)
  | OHard k => valid_ht Qops k (concat rows) (concat out)
  | OL2 t s => norm_ok s (concat rows)
  | ONormSparsity k s => norm_ok s (hard_thresholding Qops k (concat rows))
  | OSvt t U s V => svd_tape_ok atol rtol U s V rows && svt_gap_ok t U s V rows
                    && (negb (Qle_bool 0 t) || svt_case_ok (length rows) (length (hd [] rows)) (length s) U s V rows t)
  | OProcrustes U s V => svd_tape_ok atol rtol U s V rows && procrustes_gap_ok U s V rows
                         && procrustes_feasible_ok (length rows) (length (hd [] rows)) out
  | _ => true
  end.

(* hard thresholding: the implementation's choice among entries of equal magnitude at the cut is free *)
Definition ht_tie (k : nat) (v : list Q) : bool :=
  let vx := combine v (hard_thresholding Qops k v) in
  existsb (fun a : Q * Q => existsb (fun b : Q * Q =>
     fnz Qops (snd a) && negb (fnz Qops (snd b)) && Qeq_bool (Qabs (fst a)) (Qabs (fst b))) vx) vx.
Definition same_shape (a b : M) : bool := all2 (fun x y : list Q => Nat.eqb (length x) (length y)) a b.

(* unimodality: the arg-min over candidate peaks is taken on sums of rounded terms; every candidate whose
   exact score is within eps of the minimum is accepted *)
Definition uni_col_ok (atol rtol eps gmax : Q) (col impl : list Q) : bool :=
  let d := uni_difference gmax (uni_scores Qops col) in
  let dmin := nth (argmin Qops d) d 0 in
  existsb (fun i => Qle_bool (nth i d 0) (Qred (dmin + eps)) && q_list_close atol rtol (uni_assemble Qops i col) impl)
          (seq 0 (length col)).
Definition uni_ok (atol rtol eps : Q) (rows out : M) : bool :=
  let cols := cols_of Qops rows in
  let scs := map (uni_scores Qops) cols in
  let gmax := match concat (map snd scs) with [] => 0 | x :: r => maxl Qops x r end in
  same_shape rows out && all2 (uni_col_ok atol rtol eps gmax) cols (cols_of Qops out).

(* case: id, operator, input rows, implementation's output rows, atol, rtol *)
(* (the id is a binary integer: a unary nat id of a few thousand costs more to elaborate than the rest of the case) *)
Definition case := (Z * op * M * M * Q * Q)%type.
Definition agree_op (o : op) (rows out : M) (atol rtol : Q) : bool :=
  model_cert atol rtol o rows &&
  match o with
  | OHard k => same_shape rows out && valid_ht Qops k (concat rows) (concat out)
               && (ht_tie k (concat rows) || rows_close 0 0 (run o rows) out)
  | ONormSparsity k s => if ht_tie k (concat rows) then same_shape rows out else rows_close atol rtol (run o rows) out
  | OUnimodal => uni_ok atol rtol (Qred (atol * 1000)) rows out
  | OProcrustes _ _ _ => rows_close (1 # 1000000000) rtol (run o rows) out
  | _ => rows_close atol rtol (run o rows) out
  end.
Definition agree (c : case) : bool :=
  let '(_, o0, rows, out, atol, rtol) := c in
  match o0 with
  | ORejected n ord specs => match selected_pop_z (fun q : Q => q) (Some n) ord specs 0 with Err => true | Ok _ => false end
  | ONd nd raised o1 =>
      (* raised-iff-the-model-refuses (Model/ProxDispatch.ndim_ok); an accepted call is compared as usual *)
      match resolve_op o1 with None => false | Some o =>
      match to_pop o with None => false | Some po =>
      if raised then negb (ndim_ok po nd) else ndim_ok po nd && agree_op o rows out atol rtol end end
  | OSmoothNd raised d0 p o1 =>
      (* raised-iff-the-model-refuses (shape[-2] <> shape[0]); an accepted call is compared slice by slice, and the tridiagonal system is
         decided exactly on the model's output for every column of every slice *)
      match resolve_op o1 with
      | Some (OSmooth t) =>
          match smooth_nd Qops t d0 p rows with
          | Err => raised
          | Ok Y => negb raised && rows_close atol rtol Y out
                    && all2 (fun Ys Xs : M => all2 (fun x v => q_list_eqb (sm_apply Qops t 0 x) v) (cols_of Qops Ys) (cols_of Qops Xs))
                            (rchunk (length Y) p Y) (rchunk (length rows) p rows)
          end
      | _ => false
      end
  | _ => match resolve_op o0 with None => false | Some o => agree_op o rows out atol rtol end
  end.
Definition ident (c : case) : Z := let '(i, _, _, _, _, _) := c in i.
Definition failing (cs : list case) : list Z := map ident (filter (fun c => negb (agree c)) cs).
