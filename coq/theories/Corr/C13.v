(* Correspondence for C13: the model of tensorly/solvers/nnls.py and admm.py (Model/Nnls.v) executed at
   Qops (every operation reduced) on the implementation's inputs, against the implementation's outputs
   (toleranced: the code divides and calls LAPACK), plus exact-rational certificates evaluated on the
   implementation's returned points (step of one model pass, KKT residuals, objective against the
   constructed optimum). *)
From Coq Require Import List Arith ZArith QArith Qabs Bool.
From TLV Require Import Base.Ops Base.PyList Base.Tensor Model.Nnls Model.NnlsEntry Model.NnlsAdmm Model.NnlsMomentum Corr.Common.
Import ListNotations.

Notation qmat := (list (list Q)).
Definition qle (a b : Q) : bool := Qle_bool a b.
Definition qabs (a : Q) : Q := fabs Qops a.
Definition qadd := fadd Qops. Definition qsub := fsub Qops. Definition qmul := fmul Qops. Definition qdiv := fdiv Qops.

Fixpoint all2 {A B} (p : A -> B -> bool) (a : list A) (b : list B) : bool :=
  match a, b with [], [] => true | x :: a', y :: b' => p x y && all2 p a' b' | _, _ => false end.
Definition vclose (atol rtol : Q) : list Q -> list Q -> bool := all2 (qclose atol rtol).
Definition mclose (atol rtol : Q) : qmat -> qmat -> bool := all2 (vclose atol rtol).
Definition vmaxabs (l : list Q) : Q := fold_left (fun m x => fmax Qops m (qabs x)) l 0%Q.
Definition mmaxabs (A : qmat) : Q := fold_left (fun m r => fmax Qops m (vmaxabs r)) A 0%Q.
Definition mall (p : Q -> bool) (A : qmat) : bool := forallb (forallb p) A.
Definition shape_ok (r n : nat) (A : qmat) : bool := Nat.eqb (length A) r && forallb (fun row => Nat.eqb (length row) n) A.

Fixpoint iterl {A} (m : nat) (f : A -> A) (x : A) : A := match m with O => x | S k => iterl k f (f x) end.
(* [x; f x; ...; f^k x] *)
Fixpoint iterates {A} (k : nat) (f : A -> A) (x : A) : list A := x :: match k with O => [] | S k' => iterates k' f (f x) end.

(* penalised objective summed over the columns: sum_j  v_j' G v_j / 2 - b_j' v_j + l1 sum v_j + l2 sum v_j^2 *)
Definition objective (UtM UtU : qmat) (n : nat) (l1 l2 : Q) (V : qmat) : Q :=
  let quad := msum Qops (mmap2 qmul V (matmul Qops n UtU V)) in
  let lin := msum Qops (mmap2 qmul UtM V) in
  qadd (qadd (qsub (qdiv quad (2#1)) lin) (qmul l1 (msum Qops V))) (qmul l2 (msum Qops (mmap2 qmul V V))).

(* KKT at the bound eps within a tolerance: V >= eps, g >= -t, |(V - eps) g| <= t *)
Definition kkt_ok (UtM UtU : qmat) (n : nat) (l1 l2 eps t : Q) (V : qmat) : bool :=
  let g := kkt_grad Qops UtM UtU n l1 l2 V in
  mall (fun v => qle eps v) V && mall (fun x => qle (Qopp t) x) g &&
  mall (fun x => qle (qabs x) t) (mmap2 (fun v gg => qmul (qsub v eps) gg) V g).

(* a stopping decision `e < t` is numerically clear-cut when |e - t| > 1e-6 (|e| + |t|): then float64 and exact
   arithmetic take the same branch on these well-conditioned 1-4 iteration runs, and the implementation must
   return the model's result; otherwise (borderline, incl. e = t = 0) any prefix iterate is accepted *)
Definition margin : Q := 1 # 1000000.
Definition clear_dec (d : Q * Q) : bool :=
  negb (qle (qabs (qsub (fst d) (snd d))) (qmul margin (qadd (qabs (fst d)) (qabs (snd d))))).
Definition all_clear (ds : list (Q * Q)) : bool := forallb clear_dec ds.

(* the recorded momentum coefficients (the harness repeats the code's float computation) are the model's own sequence
   (Model/NnlsMomentum.v, computed here with the 2^-60 square root) to 1e-14; the iterations below are evaluated with the
   recorded dyadic values to keep the rationals small (the iteration is Lipschitz in the coefficients) *)
Definition betas_ok (betas : list Q) : bool :=
  vclose (1 # 100000000000000) 0 betas (fista_betas Qops qsqrt (length betas)).

Definition optq (o : option Q) : Q := match o with Some x => x | None => 0%Q end.

Inductive case :=
(* hals_nnls from V0 with n_iter_max = iters, tol.  V0 = None: cold start; then sol = recorded tl.solve answer and
   impl0 = the implementation's own start (its result for n_iter_max = 0): the model's hals_init(sol) must agree with
   impl0, and the passes are compared from impl0 (a float matrix: keeps the rationals small; hals_nnls is the loop
   composed with the start by definition).  impl: Err = raised, Ok None = non-finite output, Ok (Some V) *)
| CHals (id : nat) (UtM UtU : qmat) (n : nat) (V0 : option qmat) (sol : qmat) (iters : nat) (tol : Q)
        (o : @hopts Q) (impl0 : qmat) (impl : res (option qmat))
(* a returned ("converged") point V of a solver for the problem with optimum Xstar (exactly KKT by construction):
   which = 0 hals (row-update fixed point is tested), 1 fista / active set (projected-gradient fixed point with step lr) *)
| CConv (id : nat) (which : nat) (UtM UtU : qmat) (n : nat) (l1 l2 eps lr : Q) (V Xstar : qmat) (tstep tkkt tobj : Q)
| CFista (id : nat) (UtM UtU : qmat) (n : nat) (nonneg : bool) (sp rd lr tol eps : Q) (x0 : qmat) (betas : list Q) (impl : qmat)
(* fista with UtU = [A, B] (list branch), unknown r1 x r2 *)
| CFista2 (id : nat) (UtM A B : qmat) (r2 : nat) (nonneg : bool) (sp rd lr tol eps : Q) (x0 : qmat) (betas : list Q) (impl : qmat)
(* the entry point fista with its argument handling (Model/NnlsEntry.v): sparsity_coef / ridge_coef / lr / x as the caller
   passes them (None = the Python value None), sigma = numpy's 2-norm of UtU, tol = 0 (no stopping decision is taken);
   impl: Err = the call raised TypeError / ValueError *)
| CFistaCall (id : nat) (UtM UtU : qmat) (n : nat) (nonneg : bool) (sp rd lr : option Q) (sigma eps : Q) (x0 : option qmat)
             (betas : list Q) (impl : res qmat)
| CAset (id : nat) (Utm : list Q) (UtU : qmat) (x0 : option (list Q)) (iters : nat) (tol : Q) (impl : option (list Q))
| CAdmm (id : nat) (UtM UtU x dual : qmat) (m r : nat) (implx implsplit : qmat)
(* the whole function admm (Model/NnlsAdmm.v): n_const / order as passed (None = the Python value None), one scalar
   constraint kind (0 none, 1 non_negative=True, 2 l1_reg=par, 3 l2_square_reg=par), n_iter_max = iters, tol;
   impl: Err = the call raised, Ok (x, x_split, dual_var) *)
| CAdmmLoop (id : nat) (UtM UtU x dual : qmat) (m r : nat) (nconst order : option nat) (kind : nat) (par : Q)
            (iters : nat) (tol : Q) (impl : res (qmat * qmat * qmat)).

Definition ident (c : case) : nat :=
  match c with CHals i _ _ _ _ _ _ _ _ _ _ => i | CConv i _ _ _ _ _ _ _ _ _ _ _ _ _ => i
             | CFista i _ _ _ _ _ _ _ _ _ _ _ _ => i | CFista2 i _ _ _ _ _ _ _ _ _ _ _ _ _ => i | CFistaCall i _ _ _ _ _ _ _ _ _ _ _ _ => i | CAset i _ _ _ _ _ _ => i | CAdmm i _ _ _ _ _ _ _ _ => i
             | CAdmmLoop i _ _ _ _ _ _ _ _ _ _ _ _ _ => i end.

Definition atol : Q := 1 # 1000000000.
Definition rtol : Q := 1 # 1000000000.

(* exact solve for matrix right-hand sides through the certified elimination (None if singular) *)
Definition msolve (n : nat) (A B : qmat) : option qmat :=
  let cols := map (fun j => gauss_solve Qops A (mcol Qops B j)) (seq 0 n) in
  if forallb (fun c => match c with Some _ => true | None => false end) cols
  then Some (mtranspose Qops (length A) (map (fun c => match c with Some v => v | None => [] end) cols)) else None.
Definition msolve' (n : nat) (A B : qmat) : qmat := match msolve n A B with Some sol => sol | None => [] end.

Definition agree (c : case) : bool :=
  match c with
  | CHals _ UtM UtU n V0 sol iters tol o impl0 impl =>
    let start_ok := match V0 with Some _ => true | None => mclose atol rtol (hals_init Qops UtM UtU n sol) impl0 end in
    let V := match V0 with Some V => V | None => impl0 end in
    (* hals_nnls = Err if hals_rejects, else Ok (snd (hals_trace ...)): Proofs.NnlsProofs.hals_nnls_trace *)
    if hals_rejects Qops UtM UtU iters o then match impl with Err => true | _ => false end
    else match impl with
    | Ok (Some W) =>
      let tr := hals_trace Qops UtM UtU n o tol iters true 0%Q V in
      (* the returned point is the model's result; only when a stopping decision was borderline, any iterate *)
      start_ok && (mclose atol rtol (snd tr) W
                   || (negb (all_clear (fst tr)) && existsb (fun X => mclose atol rtol X W) (iterates iters (hals_pass Qops UtM UtU n o) V)))
    | _ => false
    end
  | CConv _ which UtM UtU n l1 l2 eps lr V Xstar tstep tkkt tobj =>
    let r := length UtM in
    let scale := qadd 1 (qadd (mmaxabs UtM) (mmaxabs V)) in
    let o := mkH (Some l1) (Some l2) false eps 0%Q in
    let V' := match which with
              | O => hals_pass Qops UtM UtU n o V
              | _ => fista_new Qops UtM UtU n true l1 l2 lr eps V end in
    shape_ok r n V &&
    (* the constructed optimum really is an exact KKT point of the problem (validates the generator) *)
    kkt_ok UtM UtU n l1 l2 0 0 Xstar &&
    (* one model step from the returned point moves it by at most tstep * scale (exact computation) *)
    qle (mmaxabs (mmap2 qsub V' V)) (qmul tstep scale) &&
    kkt_ok UtM UtU n l1 l2 eps (qmul tkkt scale) V &&
    (* objective equal to the constructed optimum (only meaningful for eps = 0; for eps > 0 the bound moves) *)
    (let f := objective UtM UtU n l1 l2 V in let fs := objective UtM UtU n l1 l2 Xstar in
     qle (qabs (qsub f fs)) (qmul tobj (qadd 1 (qabs fs))))
  | CFista _ UtM UtU n nonneg sp rd lr tol eps x0 betas impl =>
    (* fista = snd (fista_trace ...) (Proofs.NnlsProofsFista.fista_trace_snd).  The returned point is the model's
       result; only when a stopping decision was borderline, any iterate of the model (with tol = 0 the model's rule
       never fires -- C13_fista_tol0_runs_all -- so `fista ... 0 ... (firstn k betas)` is exactly the k-th iterate) *)
    let tr := fista_trace Qops UtM UtU n nonneg sp rd lr tol eps betas true 0%Q x0 x0 in
    betas_ok betas &&
    (mclose atol rtol (snd tr) impl
     || (negb (all_clear (fst tr))
         && existsb (fun k => mclose atol rtol (fista Qops UtM UtU n nonneg sp rd lr 0 eps x0 (firstn k betas)) impl)
                    (rev (seq 0 (S (length betas))))))
  | CFista2 _ UtM A B r2 nonneg sp rd lr tol eps x0 betas impl =>
    let tr := fista2_trace Qops UtM A B r2 nonneg sp rd lr tol eps betas true 0%Q x0 x0 in
    betas_ok betas &&
    (mclose atol rtol (snd tr) impl
     || (negb (all_clear (fst tr))
         && existsb (fun k => mclose atol rtol (fista2 Qops UtM A B r2 nonneg sp rd lr 0 eps x0 (firstn k betas)) impl)
                    (rev (seq 0 (S (length betas))))))
  | CFistaCall _ UtM UtU n nonneg sp rd lr sigma eps x0 betas impl =>
    match fista_call Qops UtM UtU n nonneg sp rd lr sigma 0 eps x0 betas, impl with
    | Err, Err => true
    | Ok W, Ok Wi => betas_ok betas && mclose atol rtol W Wi
    | _, _ => false
    end
  | CAset _ Utm UtU x0 iters tol impl =>
    match active_set_nnls Qops (gauss_solve Qops) (fun x => x) Utm UtU tol x0 iters, impl with
    | None, None => true
    | Some x, Some y => vclose atol (1 # 10000000) x y
    | _, _ => false
    end
  | CAdmm _ UtM UtU x dual m r implx implsplit =>
    match admm_none Qops (msolve' m) UtM UtU x dual m r 1 with
    | (mx, Some ms, md) => mclose atol (1 # 10000000) mx implx && mclose atol (1 # 10000000) ms implsplit
    | _ => false
    end
  | CAdmmLoop _ UtM UtU x dual m r nconst order kind par iters tol impl =>
    let k := match kind with 0 => KNone | 1 => KNonneg | 2 => KL1 par | _ => KL2sq par end%nat in
    let close3 (a b : qmat * qmat * qmat) :=
        mclose atol (1 # 10000000) (fst (fst a)) (fst (fst b)) && mclose atol (1 # 10000000) (snd (fst a)) (snd (fst b))
        && mclose atol (1 # 10000000) (snd a) (snd b) in
    match admm Qops (msolve' m) nconst order k UtM UtU x dual m r iters tol, impl with
    | Err, Err => true
    | Ok t, Ok ti =>
      close3 t ti
      || match nconst with
         | None => false
         | Some _ =>
           (* the returned state is the model's; only when a stopping decision was borderline, the state after any
              number 1..iters of loop bodies (tol = -1: the model's rule never fires) *)
           let tr := admm_trace Qops (msolve' m) (apply_constr Qops k) UtM UtU m r tol iters x None dual in
           (* a decision |a|^2 < tol^2 |b|^2 is clear-cut only if it also survives an absolute perturbation of b by rounding noise
              (1e-9 x scale): in float64 a dual variable that is exactly zero in the model is noise, which a huge tol amplifies *)
           let sc := qadd 1 (qadd (mmaxabs UtM) (qadd (mmaxabs x) (mmaxabs dual))) in
           let slack := qmul (qmul tol tol) (qmul (1 # 1000000000000000000) (qmul sc sc)) in
           negb (forallb (fun d => clear_dec d && negb (qle (qabs (qsub (fst d) (snd d))) slack)) (fst tr))
           && existsb (fun j => match admm_loop Qops (msolve' m) (apply_constr Qops k) UtM UtU m r (-1 # 1) j x None dual with
                                | (a, Some b, c) => close3 (a, b, c) ti
                                | _ => false end) (seq 1 iters)
         end
    | _, _ => false
    end
  end.

Definition failing := failing_ids agree ident.
