(* Correspondence for C14: the model of the warm-start initialisers, of the dense reconstructions they
   are judged by, of the fixed-mode control skeleton and of tucker's fixed-factor list surgery, run on
   the inputs the implementation was run on (exact, Z). *)
From Coq Require Import List Arith ZArith Bool.
From TLV Require Import Base.Shape Base.PyList Base.Tensor Base.BigSum Model.WarmStart Corr.Common.
Import ListNotations.

Definition zmat := list (list Z).
Fixpoint zmat_eqb (a b : zmat) : bool :=
  match a, b with [], [] => true | x :: a', y :: b' => z_list_eqb x y && zmat_eqb a' b' | _, _ => false end.
Fixpoint zmats_eqb (a b : list zmat) : bool :=
  match a, b with [], [] => true | x :: a', y :: b' => zmat_eqb x y && zmats_eqb a' b' | _, _ => false end.
Fixpoint nat_lists_eqb (a b : list (list nat)) : bool :=
  match a, b with [], [] => true | x :: a', y :: b' => nat_list_eqb x y && nat_lists_eqb a' b' | _, _ => false end.

Definition Zcp_dense := @cp_dense Z 0%Z 1%Z Z.add Z.mul.
Definition Zinit_cp := @init_cp Z 1%Z Z.mul Z.eqb.
Definition Zinit_hals := @init_hals Z 1%Z Z.mul Z.eqb.
Definition Zabsorb_last := @absorb_last Z Z.mul.
Definition Zabsorb_at := @absorb_at Z Z.mul.
Definition Zones := @ones Z 1%Z.
Definition Zmmd := @multi_mode_dot Z 0%Z Z.add Z.mul.
Definition ZmmdT := @multi_mode_dot_T Z 0%Z Z.add Z.mul.
Definition Zp2_dense := @p2_dense Z 0%Z Z.add Z.mul.

(* history-recording instance of the skeleton: a factor is the list of sweeps in which it was touched -- assigned by the
   sweep, or replaced by the orthogonalise hook (modes in `orthable`: min(shape) >= rank; iterations <= k for
   orthogonalise = Some k; the model applies the hook to non-fixed modes only, as the code does since ef1ea18) *)
Definition trace_upd (it m : nat) (s : st (list nat) unit unit) : list nat * unit := (nth m (facs s) [] ++ [it], tt).
Definition trace_run (a : algo) (n : nat) (fixed : list nat) (budget : nat) (tol : bool) (stops : list bool)
    (ortho : option nat) (orthable : list nat) : res (list (list nat)) :=
  match run trace_upd (fun it _ => nth it stops false) (fun s => s) false
            (fun it m s => if memb m orthable then nth m (facs s) [] ++ [it] else nth m (facs s) [])
            (fun it => match ortho with Some k => Nat.leb it k | None => false end)
            (fun _ _ => tt) (fun _ => false) (fun _ _ _ => false) (fun _ _ l c => c) (fun _ _ l c => c) (fun _ _ _ => tt)
            a n fixed budget tol (mkst tt (repeat [] n) tt) with
  | Ok s => Ok (facs s)
  | Err => Err
  end.

(* tucker(init=(core, fs), fixed_factors=fixed, n_iter_max=0): the whole-function model with partial_tucker's
   zero-budget behaviour (returns its initialisation) *)
Definition tucker_zero (core : tensor Z) (fs : list zmat) (fixed : list nat) : res (tensor Z * list zmat) :=
  tucker_fixed 0%Z Z.add Z.mul core fs fixed (@pt_zero Z).

(* parafac2 initialisation with the recorded QR answer; the state as (weights, factors, projections) *)
Definition p2_state (rank : nat) (init : p2init Z) (Q Rm : zmat) : res (list Z * list zmat * list zmat) :=
  match p2_init 1%Z (fun _ => (Q, Rm)) rank init with
  | Ok s => Ok (p2w s, p2f s, p2P s)
  | Err => Err
  end.
Definition p2_state_dense (J : nat) (x : list Z * list zmat * list zmat) : tensor Z :=
  let '(w, fs, P) := x in
  Zp2_dense (length w) w (nth 0 fs []) (nth 1 fs []) (nth 2 fs []) P J.
Definition p2_state_eqb (x y : list Z * list zmat * list zmat) : bool :=
  let '(w, fs, P) := x in let '(w', fs', P') := y in z_list_eqb w w' && zmats_eqb fs fs' && zmats_eqb P P'.

(* comparing the model's history of a mode with the observed one (sweeps after which the implementation's factor
   differed from before the sweep): every observed change must be predicted; the first sweep, which starts from a
   generic non-stationary point, is compared exactly; a later predicted touch that was not observed is accepted only
   when the harness found it uninformative (`excusable`: the inputs of that update were bitwise those of the previous
   sweep, e.g. a single free mode whose least-squares update is idempotent) *)
Fixpoint trace_ok (model observed excusable : list (list nat)) : bool :=
  match model, observed, excusable with
  | [], [], [] => true
  | hm :: model', ho :: observed', ex :: excusable' =>
      Bool.eqb (memb 0 hm) (memb 0 ho) && forallb (fun it => memb it hm) ho
      && forallb (fun it => memb it ho || memb it ex) hm && trace_ok model' observed' excusable'
  | _, _, _ => false
  end.
Definition trace_res_ok (excusable : list (list nat)) (m o : res (list (list nat))) : bool :=
  match m, o with Ok a, Ok b => trace_ok a b excusable | Err, Err => true | _, _ => false end.

(* tucker(fixed_factors) with partial_tucker replaced by a recorded answer: the model's pt returns the tape iff it is
   called with the arguments the implementation's partial_tucker saw *)
Definition tape_pt (c1 : tensor Z) (modes : list nat) (free : list zmat) (tc : tensor Z) (tf : list zmat)
    (c : tensor Z) (ms : list nat) (fr : list zmat) : tensor Z * list zmat :=
  if zt_eqb c c1 && nat_list_eqb ms modes && zmats_eqb fr free then (tc, tf) else (mk [] [], []).

(* partial_tucker's REAL main loop around a stubbed svd_interface whose answers (integer matrices, in call order) are on `tape`: the update of
   position index in iteration it is answer number it * len(modes) + index; the core update is multi_mode_dot(tensor, factors, modes,
   transpose=True) on the data tensor X; never stops early (tol = 0) *)
Definition Zhoi (X : tensor Z) (tape : list zmat) (budget : nat) : tensor Z -> list nat -> list zmat -> tensor Z * list zmat :=
  partial_tucker_model (X := unit) (fun _ _ => tt) (fun it index _ s => nth (it * length (ptf s) + index) tape [])
    (fun _ modes s => ZmmdT X (ptf s) modes) (fun _ _ => tt) (fun _ _ => false) (fun _ _ _ => tt) budget.

(* a run interrupted in mid-sweep: iteration `it`, the sweep about to write mode `cur`.  Model: interrupted_state after `it` complete iterations
   and the updates of the modes in front of `cur` in the update list; observed: the modes whose factor differs from the start state *)
Fixpoint prefix_before (cur : nat) (l : list nat) : list nat :=
  match l with [] => [] | x :: r => if Nat.eqb x cur then [] else x :: prefix_before cur r end.
Definition interrupted_touched (a : algo) (n : nat) (fixed : list nat) (it cur : nat) : list nat :=
  let ml := modes_list a n fixed in
  let s := interrupted_state trace_upd (fun _ _ => false) (fun s => s) (fun _ m s => nth m (facs s) []) (fun _ => false)
             (fun _ _ => tt) (fun _ => false) (fun _ _ _ => false) (fun _ _ l c => c) (fun _ _ l c => c) (fun _ _ _ => tt)
             a (fun i => negb (memb i (eff_fixed a n fixed))) ml it it (prefix_before cur ml) (mkst tt (repeat [] n) tt) in
  filter (fun j => negb (Nat.eqb (length (nth j (facs s) [])) 0)) (seq 0 n).

Inductive case :=
(* initialiser: rank, weights (None = no weights), factors | implementation: factors returned by the initialiser,
   dense tensor of the zero-budget result of the named algorithm *)
| CInit (id : nat) (R : nat) (w : option (list Z)) (fs : list zmat) (out_fs : list zmat) (dense0 : tensor Z)
(* dense reconstruction only (validates cp_dense against cp_to_tensor, any weights) *)
| CDense (id : nat) (R : nat) (w : list Z) (fs : list zmat) (dense : tensor Z)
(* skeleton: per mode, the sweeps after which the implementation's factor differed from the previous budget's *)
| CTrace (id : nat) (a : algo) (n : nat) (fixed : list nat) (budget : nat) (tol : bool) (stops : list bool)
         (ortho : option nat) (orthable : list nat) (observed : res (list (list nat))) (excusable : list (list nat))
(* tucker(init=(core, fs), fixed_factors=fixed) around a recorded partial_tucker: arguments it received
   (absorbed core, modes, free factors), the answer it gave (core, factors), what tucker returned *)
| CTuckerTape (id : nat) (core : tensor Z) (fs : list zmat) (fixed : list nat)
              (c1 : tensor Z) (modes : list nat) (free : list zmat) (tc : tensor Z) (tf : list zmat)
              (out : res (tensor Z * list zmat))
(* tucker fixed_factors: labels of the returned factor list (i = supplied factor i, n+j = j-th new factor) *)
| CTuckerLists (id : nat) (n : nat) (fixed : list nat) (observed : res (list nat))
(* tucker zero budget: returned core / factors *)
| CTuckerZero (id : nat) (core : tensor Z) (fs : list zmat) (fixed : list nat) (out : res (tensor Z * list zmat))
(* tucker_to_tensor *)
| CTuckerDense (id : nat) (core : tensor Z) (fs : list zmat) (dense : tensor Z)
(* parafac2_to_tensor of a Parafac2Tensor (equal slice heights J) *)
| CP2Dense (id : nat) (R : nat) (w : list Z) (A B C : zmat) (P : list zmat) (J : nat) (dense : tensor Z)
(* initialize_tucker(non_negative=True) as observed through non_negative_tucker(_hals)(n_iter_max=0) *)
| CNtdInit (id : nat) (core : tensor Z) (fs : list zmat) (out_core : tensor Z) (out_fs : list zmat)
(* parafac2(init=..., n_iter_max=0): rank asked for, the init, the recorded answer (Q, R) of qr(B) (unused for a
   Parafac2Tensor init), the common slice height J, the returned (weights, factors, projections) or Err,
   parafac2_to_tensor of the result and the dense tensor of the init (cp_to_tensor / parafac2_to_tensor) *)
(* non_negative_parafac_hals(init=(w, fs), fixed_modes=fixed, n_iter_max=0): returned weights and factors = its start state *)
| CHalsInit (id : nat) (R n : nat) (fixed : list nat) (w : option (list Z)) (fs : list zmat) (out_w : list Z) (out_fs : list zmat)
| CP2Init (id : nat) (rank : nat) (init : p2init Z) (Q Rm : zmat) (J : nat)
          (observed : res (list Z * list zmat * list zmat)) (dense_out dense_init : tensor Z)
(* parafac2(init=..., nn_modes=nn, n_iter_max=0): the start state behind the nn_modes gate.  builtin = false: a user-supplied
   decomposition; builtin = true: init="random" with initialize_decomposition replaced by a recorded integer answer `init` *)
(* the same with the request list as the caller wrote it (integers: negative / out-of-range entries) *)
| CTraceZ (id : nat) (a : algo) (n : nat) (fixedz : list Z) (budget : nat) (tol : bool) (stops : list bool)
          (observed : res (list (list nat))) (excusable : list (list nat))
(* parafac2(init='random' | 'svd', nn_modes=nn, n_iter_max=0) with the REAL initialiser: `init` is the recorded answer of
   initialize_decomposition, (proj_args, proj_ans) the recorded last call of _compute_projections (LAPACK answer tape, returned iff the
   model hands over the factors the implementation handed over); numbers are the floats scaled by a common power of two (exact) *)
| CP2StartK (id : nat) (rank : nat) (kind : p2kind) (nn : option (list nat)) (init : p2init Z) (proj_args proj_ans : list zmat)
            (observed : res (list Z * list zmat * list zmat))
| CP2Start (id : nat) (rank : nat) (builtin : bool) (nn : option (list nat)) (init : p2init Z) (Q Rm : zmat)
           (observed : res (list Z * list zmat * list zmat))
(* tucker(fixed_factors=<request as a list / tuple / ndarray, or None>): was the fixed-factor branch entered (observed through the modes
   handed to a recording partial_tucker / the all-fixed return), or did the call raise in front of it *)
| CGate (id : nat) (c : container) (req : option (list Z)) (observed : res bool)
(* partial_tucker(X, rank, modes, init=(c, free), n_iter_max=budget, tol=0) with svd_interface on tape: returned (core, factors) *)
| CHoi (id : nat) (X : tensor Z) (tape : list zmat) (budget : nat) (c : tensor Z) (modes : list nat) (free : list zmat)
       (out : tensor Z * list zmat)
(* tucker(X, rank, init=(core, fs), fixed_factors=fixed, n_iter_max=budget, tol=0) with svd_interface on tape: the whole function around the
   modelled partial_tucker *)
| CTuckerHoi (id : nat) (X : tensor Z) (tape : list zmat) (budget : nat) (core : tensor Z) (fs : list zmat) (fixed : list nat)
             (out : res (tensor Z * list zmat))
(* a driver interrupted inside iteration `it`, in front of the write of mode `cur`: modes whose factor differed from the start state *)
| CInterrupt (id : nat) (a : algo) (n : nat) (fixedz : list Z) (it cur : nat) (observed : list nat).

Definition agree (c : case) : bool :=
  match c with
  | CInit _ R w fs out_fs dense0 =>
      let '(w', fs') := Zinit_cp R w fs in
      zmats_eqb fs' out_fs && zt_eqb (Zcp_dense R w' fs') dense0
      && zt_eqb (Zcp_dense R (match w with None => Zones R | Some v => v end) fs) dense0
  | CDense _ R w fs dense => zt_eqb (Zcp_dense R w fs) dense
  | CTrace _ a n fixed budget tol stops ortho orthable observed excusable =>
      trace_res_ok excusable (trace_run a n fixed budget tol stops ortho orthable) observed
  | CTuckerTape _ core fs fixed c1 modes free tc tf out =>
      res_eqb (fun x y => zt_eqb (fst x) (fst y) && zmats_eqb (snd x) (snd y))
              (tucker_fixed 0%Z Z.add Z.mul core fs fixed (tape_pt c1 modes free tc tf)) out
  | CTuckerLists _ n fixed observed =>
      res_eqb nat_list_eqb
        (tucker_fixed_lists fixed (seq 0 n) (fun modes free => seq n (length free))) observed
  | CTuckerZero _ core fs fixed out =>
      res_eqb (fun x y => zt_eqb (fst x) (fst y) && zmats_eqb (snd x) (snd y)) (tucker_zero core fs fixed) out
  | CTuckerDense _ core fs dense => zt_eqb (Zmmd core fs (seq 0 (length fs))) dense
  | CP2Dense _ R w A B C P J dense => zt_eqb (Zp2_dense R w A B C P J) dense
  | CNtdInit _ core fs out_core out_fs =>
      let '(c, f) := tucker_init true Z.abs core fs in zt_eqb c out_core && zmats_eqb f out_fs
  | CHalsInit _ R n fixed w fs out_w out_fs =>
      let '(w', fs') := Zinit_hals R n fixed w fs in z_list_eqb w' out_w && zmats_eqb fs' out_fs
  | CP2Init _ rank init Q Rm J observed dense_out dense_init =>
      res_eqb p2_state_eqb (p2_state rank init Q Rm) observed &&
      match p2_state rank init Q Rm with
      | Ok x => zt_eqb (p2_state_dense J x) dense_out && zt_eqb dense_out dense_init
      | Err => true
      end
  | CTraceZ _ a n fixedz budget tol stops observed excusable =>
      trace_res_ok excusable
        (match request a n fixedz with Ok fixed => trace_run a n fixed budget tol stops None [] | Err => Err end) observed
  | CP2StartK _ rank kind nn init proj_args proj_ans observed =>
      res_eqb p2_state_eqb
        (match p2_start_kind 1%Z (fun B => (B, B)) rank (map (map (Z.max 0))) (fun fs => if zmats_eqb fs proj_args then proj_ans else [])
                             kind nn init with
         | Ok s => Ok (p2w s, p2f s, p2P s) | Err => Err end) observed
  | CGate _ c req observed => res_eqb Bool.eqb (tucker_gate c req) observed
  | CHoi _ X tape budget c modes free out =>
      let r := Zhoi X tape budget c modes free in zt_eqb (fst r) (fst out) && zmats_eqb (snd r) (snd out)
  | CInterrupt _ a n fixedz it cur observed =>
      match request a n fixedz with
      | Ok fixed =>
          let t := interrupted_touched a n fixed it cur in
          memb cur (modes_list a n fixed) && forallb (fun j => memb j t) observed
          && (negb (Nat.eqb it 0) || nat_list_eqb t observed)
      | Err => false
      end
  | CTuckerHoi _ X tape budget core fs fixed out =>
      res_eqb (fun x y => zt_eqb (fst x) (fst y) && zmats_eqb (snd x) (snd y))
              (tucker_fixed 0%Z Z.add Z.mul core fs fixed (Zhoi X tape budget)) out
  | CP2Start _ rank builtin nn init Q Rm observed =>
      res_eqb p2_state_eqb
        (match p2_start 1%Z (fun _ => (Q, Rm)) rank (map (map (Z.max 0))) builtin nn init with
         | Ok s => Ok (p2w s, p2f s, p2P s) | Err => Err end) observed
  end.

Definition ident (c : case) : nat :=
  match c with
  | CInit i _ _ _ _ _ | CDense i _ _ _ _ | CTrace i _ _ _ _ _ _ _ _ _ _ | CTuckerTape i _ _ _ _ _ _ _ _ _ | CTuckerLists i _ _ _
  | CTuckerZero i _ _ _ _ | CTuckerDense i _ _ _ | CP2Dense i _ _ _ _ _ _ _ _ | CNtdInit i _ _ _ _
  | CP2Init i _ _ _ _ _ _ _ _ | CHalsInit i _ _ _ _ _ _ _ | CP2Start i _ _ _ _ _ _ _ | CTraceZ i _ _ _ _ _ _ _ _ | CP2StartK i _ _ _ _ _ _ _ | CGate i _ _ _
  | CHoi i _ _ _ _ _ _ _ | CTuckerHoi i _ _ _ _ _ _ _ | CInterrupt i _ _ _ _ _ _ => i
  end.
Definition failing := failing_ids agree ident.
