(* Correspondence for C15: the mutation footprint.
   A case carries the caller's heap as the harness saw it before the call (buffers with identity, views as
   offsets into their base buffer, lists / tuples / wrapper objects as cells), the argument references, the
   flags of the documented in-place parameters and the set of heap objects the IMPLEMENTATION changed
   (byte + identity snapshots before/after).  For a modelled entry point the skeleton is executed on that very
   heap and its footprint must equal the observed one exactly; the observed footprint must stay inside the region
   reachable from the documented in-place arguments (computed here, not by the harness) unless the skeleton itself
   is rejected by `safe_with flags` (it then models a known defect of the code as it is). *)
From Coq Require Import List Arith ZArith Bool.
From TLV Require Import Model.Effects Model.EffectsR7 Model.EffectsR8 Corr.Common.
Import ListNotations.

Inductive skel :=
| KInitCp | KParafac | KHalsNnls | KNnParafacHals | KInitTucker | KTucker | KFlipSign | KPermute
| KKhatriRaoMask | KActiveSet | KModeDotCopy | KModeDotVecInplace | KModeDotMatInplace | KP2Slices | KPlsrFit
| KCpNormalizeMethod | KTuckerNormalizeMethod
| KPrw (n : nat) (nr ns dg : list nat) (mx : nat)
| KParafacN (N sweeps fmlen : nat) (rm : option nat) (modes : list nat)
| KHalsN (N sweeps sclen fmlen : nat) (fixed modes : list nat)
| KTuckerN (N sweeps : nat) (modes : list nat)
| KInitCpN (N : nat) | KInitTuckerN (N : nat)
| KTuckerModeDotCopy | KTuckerModeDotVecInplace | KTuckerModeDotMatInplace | KIndexUpdate | KCpNormalizeMethodCopy | KWrapperCtor | KEstimatorFit (nattr : nat)
| KTryActiveSet | KTryEntropy | KTryModesToList | KTryTtCross
| KCpClassFit (N sweeps fmlen : nat) (rm : option nat) (modes : list nat)
| KHalsClassFit (N sweeps sclen fmlen : nat) (fixed modes : list nat)
| KTuckerClassFit (N sweeps : nat) (modes : list nat)
(* round 7: non_negative_tucker / initialize_tucker(non_negative=True) with a user init; monotonicity_prox / unimodality_prox *)
| KNnTuckerN (N sweeps : nat) (normalize : bool) (modes : list nat) | KInitTuckerNnN (N : nat)
| KMonoProx (dec vec : bool) (rows cols : nat) | KUnimodalProx (vec : bool) (rows cols : nat)
| KXNnTuckerHalsActiveSet
| KNnTuckerClassFit (N sweeps : nat) (normalize : bool) (modes : list nat)
(* round 8: non_negative_tucker_hals (fista core update) with a user init, every order; the estimator class Tucker_NN_HALS *)
| KNnTuckerHalsN (N sweeps fiters sclen fmlen : nat) (rm : option nat) (fixed modes : list nat) (normalize : bool)
| KNnTuckerHalsClassFit (N sweeps fiters sclen fmlen : nat) (rm : option nat) (fixed modes : list nat) (normalize : bool).

Definition skeleton (k : skel) : cmd :=
  match k with
  | KInitCp => sk_initialize_cp_user
  | KParafac => sk_parafac
  | KHalsNnls => sk_hals_nnls
  | KNnParafacHals => sk_nn_parafac_hals
  | KInitTucker => sk_initialize_tucker
  | KTucker => sk_tucker
  | KFlipSign => sk_cp_flip_sign
  | KPermute => sk_cp_permute_factors
  | KKhatriRaoMask => sk_khatri_rao_mask
  | KActiveSet => sk_active_set_nnls
  | KModeDotCopy => sk_cp_mode_dot_copy
  | KModeDotVecInplace => sk_cp_mode_dot_nocopy
  | KModeDotMatInplace => sk_cp_mode_dot_matrix_nocopy
  | KP2Slices => sk_parafac2_to_slices
  | KPlsrFit => sk_cp_plsr_fit
  | KCpNormalizeMethod => sk_cp_normalize_method
  | KTuckerNormalizeMethod => sk_tucker_normalize_method
  | KPrw n nr ns dg mx => sk_prw n nr ns dg mx
  | KParafacN N sweeps fmlen rm modes => sk_parafac_gen N sweeps fmlen rm modes
  | KHalsN N sweeps sclen fmlen fixed modes => sk_nn_parafac_hals_gen N sweeps sclen fmlen fixed modes
  | KTuckerN N sweeps modes => sk_tucker_gen N sweeps modes
  | KInitCpN N => sk_initialize_cp_gen N
  | KInitTuckerN N => sk_initialize_tucker_gen N
  | KTuckerModeDotCopy => sk_tucker_mode_dot_copy
  | KTuckerModeDotVecInplace => sk_tucker_mode_dot_vec_nocopy
  | KTuckerModeDotMatInplace => sk_tucker_mode_dot_matrix_nocopy
  | KIndexUpdate => sk_index_update
  | KCpNormalizeMethodCopy => sk_cp_normalize_method_copy
  | KWrapperCtor => sk_wrapper_ctor
  | KEstimatorFit nattr => sk_estimator_fit nattr (Alloc 25 1) 25     (* any estimator: whatever its (safe) body does, exactly the receiver changes *)
  | KTryActiveSet | KTryEntropy | KTryModesToList | KTryTtCross => Skip      (* try kinds: see try_of *)
  | KCpClassFit N sweeps fmlen rm modes => sk_estimator_fit 3 (sk_parafac_gen N sweeps fmlen rm modes) 25
  | KHalsClassFit N sweeps sclen fmlen fixed modes => sk_estimator_fit 3 (sk_nn_parafac_hals_gen N sweeps sclen fmlen fixed modes) 25
  | KTuckerClassFit N sweeps modes => sk_estimator_fit 2 (sk_tucker_gen N sweeps modes) 25
  | KNnTuckerN N sweeps normalize modes => sk_nn_tucker_gen N sweeps normalize modes
  | KInitTuckerNnN N => sk_initialize_tucker_nn_gen N
  | KMonoProx dec vec rows cols => sk_monotonicity_prox dec vec rows cols
  | KUnimodalProx vec rows cols => sk_unimodality_prox vec rows cols
  | KXNnTuckerHalsActiveSet => Skip      (* an xcmd kind: see xcmd_of *)
  | KNnTuckerClassFit N sweeps normalize modes => sk_estimator_fit 1 (sk_nn_tucker_gen N sweeps normalize modes) 25
  | KNnTuckerHalsN N sweeps fiters sclen fmlen rm fixed modes normalize => sk_nn_tucker_hals_gen N sweeps fiters sclen fmlen rm fixed modes normalize
  | KNnTuckerHalsClassFit N sweeps fiters sclen fmlen rm fixed modes normalize =>
      sk_estimator_fit 3 (sk_nn_tucker_hals_gen N sweeps fiters sclen fmlen rm fixed modes normalize) 25
  end.

(* entry points that CATCH exceptions: (pre, try-body, handler, rest) of Model.Effects *)
Definition try_of (k : skel) : option tryprog :=
  match k with
  | KTryActiveSet => Some tp_active_set_nnls
  | KTryEntropy => Some tp_vonneumann_entropy
  | KTryModesToList => Some tp_modes_to_list
  | KTryTtCross => Some tp_tt_cross
  | _ => None
  end.

(* ... and, where the try statement sits inside a sweep, the program with one try per sweep (any oracle: Props C15_frame_tcmd) *)
Definition tcmd_of (k : skel) : option tcmd :=
  match k with KTryActiveSet => Some tc_active_set_nnls | _ => None end.

(* entry points whose CALLEE catches exceptions (Model.EffectsR7.xcmd; any oracle: Props C15_frame_xcmd) *)
Definition xcmd_of (k : skel) : option xcmd :=
  match k with KXNnTuckerHalsActiveSet => Some xc_nn_tucker_hals_active_set | _ => None end.

(* round 8: the same entry points under STRUCTURED exceptions (Model.EffectsR8.ycmd; any oracle: Props C15_frame_ycmd): the try
   statement of initialize_cp (handler re-raises) seen from its callers, handlers that may raise themselves, try inside loops /
   callees.  Evaluated IN ADDITION to the clauses below. *)
Definition ycmd_of (k : skel) : option ycmd :=
  match k with
  | KInitCpN N => Some (yc_initialize_cp_gen N)
  | KParafacN N sweeps fmlen rm modes => Some (yc_parafac_gen N sweeps fmlen rm modes)
  | KHalsN N sweeps sclen fmlen fixed modes => Some (yc_nn_parafac_hals_gen N sweeps sclen fmlen fixed modes)
  | KTryEntropy => Some yc_vonneumann_entropy
  | KTryTtCross => Some (yc_tt_cross 2 3)
  | KXNnTuckerHalsActiveSet => Some yc_nn_tucker_hals_active_set
  | _ => None
  end.

(* region reachable from the in-place arguments: Model.Effects.inplace_region, accepted only together with its closure
   certificate region_closed (then it is exactly `reach`: Props C15_region_exact) *)
Definition region_ok (h : heap) (args : list ref) (flags : list bool) (observed : list nat) : bool :=
  region_closed h (inplace_region h args flags) && forallb (fun o => memb o (inplace_region h args flags)) observed.

(* interrupted calls ("returns (or raises)"): the harness makes the call raise at its k-th internal function call; every
   object observed to have changed must then be changed at SOME interruption point of the skeleton, `run sk n` for an
   n <= steps sk (Props C15_interrupt_enumeration_complete: larger n add nothing; C15_interrupted_footprints_safe: for an
   accepted skeleton no object at all).  The ORDER of the writes inside the in-place region is deliberately not compared. *)
Fixpoint steps (c : cmd) : nat :=
  match c with
  | Seq a b => steps a + steps b
  | Repeat k a => k * steps a
  | Call _ b _ _ => steps b
  | _ => 1
  end.
Definition footprint_run (c : cmd) (n : nat) (args : list ref) (h : heap) : list nat :=
  let h' := snd (fst (run c n (env0 args, h))) in
  filter (fun o => match nth_error h o, nth_error h' o with
                   | Some a, Some b => negb (obj_eqb a b)
                   | _, _ => true end) (List.seq 0 (length h)).
Definition interrupted_footprints (c : cmd) (args : list ref) (h : heap) : list (list nat) :=
  map (fun n => footprint_run c n args h) (List.seq 0 (S (steps c))).

(* compact literals (the cost of a shard is the elaboration of its literals, ~10 us per term node: unary nat numerals and
   explicit buffer contents dominated): identifiers, object numbers and offsets travel as binary Z numerals, buffers as
   their length only (contents are synthetic anyway: only identity and offsets matter) *)
Definition nl (l : list Z) : list nat := map Z.to_nat l.
Definition synth (n : nat) : list Z := map (fun i => (Z.of_nat (i mod 7) + 3)%Z) (List.seq 0 n).
Definition SB (n : Z) : obj := OBuf (synth (Z.to_nat n)).
Definition R (o : Z) (offs : list Z) : ref := RObj (Z.to_nat o) (nl offs).

(* (id, skeleton kind, in-place flags, argument references, heap, observed changed objects, call was interrupted / raised) *)
Definition case := (Z * option skel * list bool * list ref * heap * list Z * bool)%type.

Definition agree (c : case) : bool :=
  let '(_, k, flags, args, h, observedZ, interrupted) := c in
  let observed := nl observedZ in
  match k with
  | None => region_ok h args flags observed
  | Some s =>
      match ycmd_of s with Some t => ysafe_with flags t | None => true end &&
      match xcmd_of s with
      | Some t => xsafe_with flags t && region_ok h args flags observed
      | None =>
      match try_of s with
      | Some (pre, c, hd, rest) =>
          (* an entry point with a try statement: accepted by the proved check `safe_tryprog`, and every object observed to
             have changed is changed by the skeleton for SOME position n at which the protected statements raise *)
          safe_tryprog_with flags pre c hd rest && match tcmd_of s with Some t => tsafe_with flags t | None => true end &&
          forallb (fun o => existsb (memb o) (map (fun n => footprint_try pre c hd rest n args h) (List.seq 0 (S (steps c))))) observed &&
          region_ok h args flags observed
      | None =>
      (* a modelled entry point: the skeleton's footprint is the prediction.  When the skeleton is safe for these
         flags the prediction lies inside the in-place region by C15_frame_inplace; a skeleton that models a
         known defect of the code as it is (not safe) predicts the writes outside it. *)
      (if interrupted then forallb (fun o => existsb (memb o) (interrupted_footprints (skeleton s) args h)) observed
       else nat_list_eqb (footprint (skeleton s) args h) observed) &&
      (negb (safe_with flags (skeleton s)) || region_ok h args flags observed)
      end
      end
  end.
Definition ident (c : case) : Z := let '(i, _, _, _, _, _, _) := c in i.
Definition failing (cs : list case) : list Z := map ident (filter (fun c => negb (agree c)) cs).

(* STATIC correspondence (corr:C15-static): the harness extracts an aliasing skeleton (a pcmd) from the SOURCE of every
   anchored function (Python ast: which statements assign into / call in-place methods on names, how names are bound:
   views, copies, list copies, wrappers, fresh results; data-dependent `if`s are choices, callee bodies are inlined).
   The proved analysis is evaluated on it: the verdict must be the expected one (accepted with the documented in-place
   flags; rejected for the negative controls) and must coincide with the verdict on the hand-written skeleton. *)
Definition scase := (nat * list bool * bool * option (skel * list bool) * pcmd)%type.
Definition agree_static (c : scase) : bool :=
  let '(_, flags, expected, k, p) := c in
  Bool.eqb (psafe_with flags p) expected &&
  match k with None => true | Some (s, kflags) => Bool.eqb (safe_with kflags (skeleton s)) expected end.
Definition ident_static (c : scase) : nat := let '(i, _, _, _, _) := c in i.
Definition failing_static := failing_ids agree_static ident_static.
