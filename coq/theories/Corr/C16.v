(* Correspondence for C16: the SOURCE PROJECTION of the draw trace.  For every call the harness records
   (completed?, global generator drawn from, a generator created inside the call drawn from, the passed
   instance drawn from, np.random.get_state() changed); the model executes the entry point's skeleton
   (Model/Draws.v) on the toy counter generator and must predict these five bits (see [proj_eqb] for the one tolerated difference).  Draw counts,
   shapes and values are deliberately not compared. *)
From Coq Require Import List Arith ZArith Bool.
From TLV Require Import Model.Draws Corr.Common.
Import ListNotations.

Definition case := (nat * ep * opts * rsarg Z * projection)%type.

(* [m] = the model's prediction, [obs] = the trace.  Compared exactly: completed, global generator drawn from, the passed
   instance drawn from, global state changed.  "An object created inside the call was drawn from" is compared one way only: if
   the model predicts it, it must be observed; an ADDITIONAL generator object created and used inside the call is tolerated when
   a parent generator was drawn from in the same call (a child generator seeded from the seeded stream is a harmless
   refactoring: still a function of the seed; an object seeded from anywhere else shows in the static check and in the
   bitwise predicates). *)
Definition proj_eqb (m obs : projection) : bool :=
  let '(ok1, g1, f1, p1, s1) := m in let '(ok2, g2, f2, p2, s2) := obs in
  if negb ok1 && negb ok2 then true     (* both rejected: what was drawn before the error is not compared *)
  else Bool.eqb ok1 ok2 && Bool.eqb g1 g2 && Bool.eqb p1 p2 && Bool.eqb s1 s2 &&
       implb f1 f2 && implb f2 (f1 || p2 || g2).

(* The model's prediction is computed under the interpretation that takes the FIRST alternative of every data-dependent branch
   and never leaves a loop early -- by the convention of Model/Draws.v the alternative that draws.  The convention is checked
   per case: under the OPPOSITE interpretation (second alternatives, every loop left at once) the skeleton may only draw from
   generators the first interpretation also draws from, may only move the global state if the first does, and fails only if
   the first does -- so the first run is the maximal one and the exact comparison with it is justified. *)
Definition agree (c : case) : bool :=
  let '(_, e, o, a, obs) := c in
  proj_eqb (model_projection e o a) obs && proj_le (model_projection_alt e o a) (model_projection e o a).
Definition ident (c : case) : nat := let '(i, _, _, _, _) := c in i.
Definition failing := failing_ids agree ident.

(* STATIC correspondence (corr:C16-static): the harness translates the SOURCE of every function / class of tensorly
   that has a random_state (or seed) argument into a term of the Python-shaped language [pskel] of Model/Draws.v
   (Python ast; names are kept: `x = e`, `x = check_random_state(e)`, `x.<sampler>()`, numpy.random draws, calls of
   seed-accepting callees -- resolved by module-qualified name -- with the expression passed as random_state, callee
   bodies inlined, constant keyword arguments propagated into `if` tests).  The abstraction (which names may hold the
   global generator) is made HERE by [pgf], proved sound w.r.t. the semantics [prun] (Props C16_source_analysis):
   [must] = no draw reaches the global generator when random_state is an int or a generator object; and the
   extracted skeleton may not be draw-free when the hand-written skeletons of that entry point draw. *)
Definition scase := (nat * bool * pskel * list skel * option ep)%type.
Definition agree_static (c : scase) : bool :=
  let '(_, must, sk, models, oe) := c in
  (if must then pglobal_free sk else true) &&
  implb (pdraw_free sk) (forallb draw_free models) &&
  match oe with
  | None => true
  | Some e =>
      (* out-of-range seeds: where the hand-written skeleton certainly reaches check_random_state with its own argument for
         EVERY option value (so that C16_invalid_seed_rejected applies to the entry point), the transcribed source must do so
         too ([pmust_check], Props C16_source_invalid_seed_rejected) *)
      implb (forallb (fun o => must_check (skeleton e o)) opt_grid) (pmust_check sk) &&
      (* a source without any draw => the hand-written skeleton draws under no option value *)
      implb (pdraw_free sk) (forallb (fun o => draw_free (skeleton e o)) opt_grid)
  end.
Definition ident_static (c : scase) : nat := let '(i, _, _, _, _) := c in i.
Definition failing_static := failing_ids agree_static ident_static.

(* STATIC correspondence for the functions WITHOUT random choices (SVD- / user-initialised decompositions with their
   constant arguments propagated, SVD-based TT / TR, robust PCA, tensor algebra, the deterministic SVDs): the source
   is transcribed like above -- here EVERY callee that can be resolved inside tensorly is inlined, not only the
   seed-accepting ones -- and the transcribed skeleton must contain no draw at all ([pdraw_free]; Props
   C16_source_rng_free: then nothing is drawn from any generator and repeated calls see the same thing). *)
Definition rcase := (nat * pskel)%type.
Definition agree_rngfree (c : rcase) : bool := pdraw_free (snd c).
Definition failing_rngfree := failing_ids agree_rngfree (fun c : rcase => fst c).

(* STATIC correspondence for check_random_state ITSELF: its if / elif chain, re-read from the source on every run and written
   as a decision table, must be one that [crs_table_ok] accepts (Props C16_check_random_state_table: the table-driven
   function then IS the model's check_random_state).  An untranslatable construct yields TUnknown / AUnknown: not accepted. *)
Definition tcase := (nat * list (crs_test * crs_action) * crs_action)%type.
Definition agree_table (c : tcase) : bool := let '(_, tbl, dflt) := c in crs_table_ok tbl dflt.
Definition failing_table := failing_ids agree_table (fun c : tcase => fst (fst c)).
