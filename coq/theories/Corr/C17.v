(* Correspondence for C17: the harness drives REAL threads through a history, one operation at a
   time, and after every operation collects from EVERY thread get_backend() (Query) and the
   identity of the object that executes a dynamically dispatched call (Dispatch).  Here the model
   of Model/Backend.v (repaired rule set) runs the same history, issuing its own Query / Dispatch
   operations for every observer thread after every step, and all outcomes are compared exactly.

   Name codes     tensorly.backend: 0 numpy (stock, default)  1 bka  2 bkb (harness classes, registered)
                                    3 pytorch (listed, not importable)  4.. not listed
                  tensorly.tenalg : 0 core (stock, default)  1 einsum (stock)  2 tka  3 tkb (harness classes)
                                    4.. not listed
   Obj k      = k-th instance made by the harness, of harness class A (k even) or B (k odd)
   Foreign k  = an object that is not an instance of the manager's backend class *)
From Coq Require Import List Arith Bool.
From TLV Require Import Model.Backend Corr.Common.
Import ListNotations.

Definition cfg_backend : cfg := {| known := fun n => Nat.leb n 2; cname := fun k => if Nat.even k then 1 else 2 |}.
Definition cfg_tenalg  : cfg := {| known := fun n => Nat.leb n 3; cname := fun k => if Nat.even k then 2 else 3 |}.
Definition cfg_of (tenalg : bool) : cfg := if tenalg then cfg_tenalg else cfg_backend.
(* names whose instances are created by the library's own (unmarked) classes *)
Definition stock (tenalg : bool) (n : name) : bool := if tenalg then Nat.leb n 1 else Nat.eqb n 0.

Definition inst_eqb (a b : inst) : bool :=
  match a, b with
  | Named n, Named m => Nat.eqb n m
  | Obj k, Obj j => Nat.eqb k j
  | Foreign k, Foreign j => Nat.eqb k j
  | _, _ => false
  end.

Definition obs_eqb (a b : obs) : bool :=
  match a, b with
  | ODone, ODone | ORejected, ORejected | OExitFailed, OExitFailed | ONoCtx, ONoCtx => true
  | OName n, OName m => Nat.eqb n m
  | OInst i, OInst j => inst_eqb i j
  | _, _ => false
  end.

(* what the harness saw in one thread: the name get_backend() returned and the executing object
   (None: an object of a stock class that the harness could not mark - accepted for stock names) *)
Definition seen := (name * option inst)%type.

Definition seen_ok (tenalg : bool) (s : st) (t : tid) (x : seen) : bool :=
  let c := cfg_of tenalg in
  obs_eqb (out fixed_rules c s (Query t)) (OName (fst x)) &&
  match out fixed_rules c s (Dispatch t), snd x with
  | OInst i, Some j => inst_eqb i j
  | OInst (Named n), None => stock tenalg n
  | _, _ => false
  end.

Fixpoint all_seen (tenalg : bool) (s : st) (ths : list tid) (xs : list seen) : bool :=
  match ths, xs with
  | [], [] => true
  | t :: ths', x :: xs' => seen_ok tenalg s t x && all_seen tenalg s ths' xs'
  | _, _ => false
  end.

(* one step of a history: the operation, its outcome in the implementation, what every observer
   thread saw afterwards *)
Definition entry := (op * obs * list seen)%type.

Fixpoint check (tenalg : bool) (ths : list tid) (s : st) (es : list entry) : bool :=
  match es with
  | [] => true
  | (o, ob, xs) :: es' =>
      let (s', ob') := step fixed_rules (cfg_of tenalg) s o in
      obs_eqb ob' ob && all_seen tenalg s' ths xs && check tenalg ths s' es'
  end.

Definition own_of (l : list (tid * inst)) : tid -> option inst :=
  fun t => match find (fun p => Nat.eqb (fst p) t) l with Some p => Some (snd p) | None => None end.

(* id, manager (false = tensorly.backend, true = tensorly.tenalg), threads that already hold a
   selection at the start (the importing thread), observer threads, what they saw at the start,
   the history *)
Definition case := (nat * bool * list (tid * inst) * list tid * list seen * list entry)%type.

Definition agree (c : case) : bool :=
  let '(_, tenalg, own0, ths, xs0, es) := c in
  let s := init (own_of own0) in
  all_seen tenalg s ths xs0 && check tenalg ths s es.
Definition ident (c : case) : nat := let '(i, _, _, _, _, _) := c in i.
Definition failing := failing_ids agree ident.

