(* Correspondence for C17: the harness drives REAL threads through a history, one operation at a
   time, and after every operation collects from EVERY thread get_backend() (Query) and the
   identity of the object that executes a dynamically dispatched call (Dispatch).  Here the model
   of Model/Backend.v (repaired rule set) runs the same history, issuing its own Query / Dispatch
   operations for every observer thread after every step, and all outcomes are compared exactly.

   Name codes     tensorly.backend: 0 numpy (stock, default)  1 bka  2 bkb (harness classes, registered)
                                    3 pytorch (listed, not importable)  4.. not listed
                  tensorly.tenalg : 0 core (stock, default)  1 einsum (stock)  2 tka  3 tkb (harness classes)
                                    4.. not listed
   Obj k      = k-th instance made by the harness, of harness class A (k even) or B (k odd)
   Foreign k  = an object that is not an instance of the manager's backend class *)
From Coq Require Import List Arith Bool NArith ZArith Uint63.
From TLV Require Import Model.Backend Model.BackendDispatch Model.BackendAbort Model.BackendSym Corr.Common.
Import ListNotations.

Definition cfg_backend : cfg := {| known := fun n => Nat.leb n 2; cname := fun k => if Nat.even k then 1 else 2 |}.
Definition cfg_tenalg  : cfg := {| known := fun n => Nat.leb n 3; cname := fun k => if Nat.even k then 2 else 3 |}.
Definition cfg_of (tenalg : bool) : cfg := if tenalg then cfg_tenalg else cfg_backend.
(* names whose instances are created by the library's own (unmarked) classes *)
Definition stock (tenalg : bool) (n : name) : bool := if tenalg then Nat.leb n 1 else Nat.eqb n 0.

Definition inst_eqb (a b : inst) : bool :=
  match a, b with
  | Named n, Named m => Nat.eqb n m
  | Obj k, Obj j => Nat.eqb k j
  | Foreign k, Foreign j => Nat.eqb k j
  | _, _ => false
  end.

Definition obs_eqb (a b : obs) : bool :=
  match a, b with
  | ODone, ODone | OReraised, OReraised | ORejected, ORejected | OExitFailed, OExitFailed | ONoCtx, ONoCtx => true
  | OName n, OName m => Nat.eqb n m
  | OInst i, OInst j => inst_eqb i j
  | _, _ => false
  end.

(* what the harness saw in one thread: the name get_backend() returned and the executing object
   (None: an object of a stock class that the harness could not mark - accepted for stock names) *)
Definition seen := (name * option inst)%type.

Definition seen_ok (tenalg : bool) (s : st) (t : tid) (x : seen) : bool :=
  let c := cfg_of tenalg in
  obs_eqb (out fixed_rules c s (Query t)) (OName (fst x)) &&
  match out fixed_rules c s (Dispatch t), snd x with
  | OInst i, Some j => inst_eqb i j
  | OInst (Named n), None => stock tenalg n
  | _, _ => false
  end.

Fixpoint all_seen (tenalg : bool) (s : st) (ths : list tid) (xs : list seen) : bool :=
  match ths, xs with
  | [], [] => true
  | t :: ths', x :: xs' => seen_ok tenalg s t x && all_seen tenalg s ths' xs'
  | _, _ => false
  end.

(* what one thread saw through tensorly.backend and through tensorly.tenalg (None: that manager was
   not observed in this case) *)
Definition seen2 := (option seen * option seen)%type.

Definition seen2_ok (s : st2) (t : tid) (x : seen2) : bool :=
  match fst x with Some a => seen_ok false (s_bk s) t a | None => true end &&
  match snd x with Some a => seen_ok true (s_ta s) t a | None => true end.

Fixpoint all_seen2 (s : st2) (ths : list tid) (xs : list seen2) : bool :=
  match ths, xs with
  | [], [] => true
  | t :: ths', x :: xs' => seen2_ok s t x && all_seen2 s ths' xs'
  | _, _ => false
  end.

(* one step of a history: the operation (with its manager), its outcome in the implementation, what
   every observer thread saw afterwards *)
Definition entry := (mop * obs * list seen2)%type.

Fixpoint check (ths : list tid) (s : st2) (es : list entry) : bool :=
  match es with
  | [] => true
  | (o, ob, xs) :: es' =>
      let (s', ob') := step2 fixed_rules cfg_backend cfg_tenalg s o in
      obs_eqb ob' ob && all_seen2 s' ths xs && check ths s' es'
  end.

Definition own_of (l : list (tid * inst)) : tid -> option inst :=
  fun t => match find (fun p => Nat.eqb (fst p) t) l with Some p => Some (snd p) | None => None end.

(* threads that already hold a selection at the start (the importing thread holds the default of
   BOTH managers), observer threads, what they saw at the start, the history *)
Definition hcase := (list (tid * inst) * list tid * list seen2 * list entry)%type.

Definition agree_h (c : hcase) : bool :=
  let '(own0, ths, xs0, es) := c in
  let s := init2 (own_of own0) in
  all_seen2 s ths xs0 && check ths s es.

(* ---- compact transport format.  Elaborating tens of thousands of nested list literals (or of long
   binary numerals) costs Coq several ms per history, so the harness ships every history + observations
   as a stream of base-64 digits:
     mode (0: only tensorly.backend is driven and observed, 1: only tensorly.tenalg, 2: both),
     nthreads, main_holds_selection, seen * nthreads, nsteps,
     then per step: kind + 4 * manager (kind 0 set, 1 enter, 2 exit; manager 0 backend, 1 tenalg),
                    thread, a, b, c, outcome, seen * nthreads
       set/enter: a = selector kind (0 name, 1 instance, 2 non-instance), b = its index, c = local flag
       exit     : a = exceptional?, b = c = 0
       outcome  : 0 done, 1 rejected, 2 exit failed (the finally clause raised), 3 no context,
                  4 the body's exception propagated out of the `with` statement after the restore
     seen = two digits per observed manager (mode 2: backend first): code of the name get_backend()
            returned (63 = a name outside the tables), executing object (0 unmarked stock object,
            1 unidentified, 2+n Named n, 8+k Obj k) *)
(* the digit stream travels as a list of primitive 63-bit integers (literals of primitive integers
   are parsed natively: no unary / binary numeral has to be normalised while the file is read): the
   first integer is the number of digits, every further one carries 10 digits, least significant first *)
Definition d2n (i : int) : nat := Z.to_nat (Uint63.to_Z i).

Fixpoint dig10 (n : nat) (i : int) : list nat :=
  match n with O => [] | S n' => d2n (Uint63.land i 63) :: dig10 n' (Uint63.lsr i 6) end.

Definition digits (l : list int) : list nat :=
  match l with [] => [] | n :: r => firstn (d2n n) (flat_map (dig10 10) r) end.

(* the same packing, for hand-written cases and the self-test below *)
Fixpoint pack1 (ds : list nat) : int :=
  match ds with [] => 0%uint63 | d :: r => Uint63.add (Uint63.of_Z (Z.of_nat d)) (Uint63.mul 64%uint63 (pack1 r)) end.
Fixpoint pack_chunks (fuel : nat) (ds : list nat) : list int :=
  match fuel, ds with
  | S f, _ :: _ => pack1 (firstn 10 ds) :: pack_chunks f (skipn 10 ds)
  | _, _ => []
  end.
Definition pack (ds : list nat) : list int := Uint63.of_Z (Z.of_nat (length ds)) :: pack_chunks (length ds) ds.

Definition dec_tok (d : nat) : option inst :=
  match d with 0 => None | 1 => Some (Foreign 99) | _ => if d <? 8 then Some (Named (d - 2)) else Some (Obj (d - 8)) end.

Definition dec_one (q d : nat) : seen := (q, dec_tok d).

Fixpoint dec_seen (mode n : nat) (l : list nat) : option (list seen2 * list nat) :=
  match n with
  | O => Some ([], l)
  | S n' =>
      match mode, l with
      | 0, q :: d :: l' =>
          match dec_seen mode n' l' with Some (xs, r) => Some ((Some (dec_one q d), None) :: xs, r) | None => None end
      | 1, q :: d :: l' =>
          match dec_seen mode n' l' with Some (xs, r) => Some ((None, Some (dec_one q d)) :: xs, r) | None => None end
      | 2, q :: d :: q' :: d' :: l' =>
          match dec_seen mode n' l' with
          | Some (xs, r) => Some ((Some (dec_one q d), Some (dec_one q' d')) :: xs, r) | None => None end
      | _, _ => None
      end
  end.

Definition dec_sel (a b : nat) : sel :=
  match a with 0 => SName b | 1 => SInst (Obj b) | _ => SInst (Foreign b) end.
Definition dec_bool (c : nat) : bool := negb (Nat.eqb c 0).
Definition dec_out (d : nat) : obs :=
  match d with 0 => ODone | 1 => ORejected | 2 => OExitFailed | 4 => OReraised | _ => ONoCtx end.

(* in the single-manager modes every operation must name that manager *)
Definition mgr_ok (mode : nat) (m : bool) : bool :=
  match mode with 0 => negb m | 1 => m | _ => true end.

Fixpoint dec_steps (mode nth n : nat) (l : list nat) : option (list entry) :=
  match n with
  | O => match l with [] => Some [] | _ => None end
  | S n' =>
      match l with
      | km :: t :: a :: b :: c :: o :: l' =>
          let m := 4 <=? km in
          let k := if m then km - 4 else km in
          match dec_seen mode nth l' with
          | Some (xs, r) =>
              let op := match k with
                        | 0 => Set_ t (dec_sel a b) (dec_bool c)
                        | 1 => Enter t (dec_sel a b) (dec_bool c)
                        | _ => Exit_ t (dec_bool a)
                        end in
              if mgr_ok mode m then
                match dec_steps mode nth n' r with Some es => Some (((m, op), dec_out o, xs) :: es) | None => None end
              else None
          | None => None
          end
      | _ => None
      end
  end.

Definition decode (x : list int) : option hcase :=
  match digits x with
  | mode :: nth :: own :: l =>
      match dec_seen mode nth l with
      | Some (xs0, ns :: r) =>
          match dec_steps mode nth ns r with
          | Some es => Some (if dec_bool own then [(0, Named 0)] else [], seq 0 nth, xs0, es)
          | None => None
          end
      | _ => None
      end
  | _ => None
  end.

(* a case: (id, encoded history with observations; or - leading digit 3 - two concurrent calls under a
   line- / bytecode-granular schedule; or - leading digit 4 - the programs extracted from the source).  An undecodable case counts as failing. *)
Definition case := (N * list int)%type.
Definition agree_hist (x : list int) : bool := match decode x with Some h => agree_h h | None => false end.

(* short forms for hand-written cases *)
Definition sn (n : name) : sel := SName n.
Definition so (k : nat) : sel := SInst (Obj k).
Definition sf (k : nat) : sel := SInst (Foreign k).
Definition n_ (q k : nat) : seen := (q, Some (Named k)).     (* get_backend code q, executed by the instance loaded for name k *)
Definition o_ (q k : nat) : seen := (q, Some (Obj k)).       (* ... by harness instance k *)
Definition u_ (q : nat) : seen := (q, None).                 (* ... by an unmarked object of a stock class *)
Definition x_ (q : nat) : seen := (q, Some (Foreign 99)).    (* ... by an object the harness cannot identify *)
Definition bk (x : seen) : seen2 := (Some x, None).
Definition ta (x : seen) : seen2 := (None, Some x).

(* ---- line-granular schedules of TWO concurrent calls on the real code: the outcome must be that of
   SOME sequential order of their blocks (the conclusion of C17_micro_atomic), followed by atomic
   operations (e.g. the exits) observed step by step *)
Fixpoint merges {A} (l1 : list A) : list A -> list (list A) :=
  fix aux (l2 : list A) : list (list A) :=
  match l1, l2 with
  | [], _ => [l2]
  | _, [] => [l1]
  | x :: l1', y :: l2' => map (cons x) (merges l1' l2) ++ map (cons y) (aux l2')
  end.

Definition of_st (s : st) : bst :=
  {| b_shared := shared s;
     b_priv := fun t => {| p_tls := tls s t; p_ctx := ctx s t; p_reg := Named 0; p_out := [] |} |}.

Fixpoint check1 (tenalg : bool) (ths : list tid) (s : st) (es : list (op * obs * list seen)) : bool :=
  match es with
  | [] => true
  | (o, ob, xs) :: es' =>
      let (s', ob') := step fixed_rules (cfg_of tenalg) s o in
      obs_eqb ob' ob && all_seen tenalg s' ths xs && check1 tenalg ths s' es'
  end.

Definition outs_eqb (l : list obs) (o : obs) : bool :=
  match l with [x] => obs_eqb x o | _ => false end.

(* manager, threads holding a selection at the start, observers, atomic set-up history, the two
   concurrent operations (of different threads) with their outcomes, what everybody saw when both had
   returned, atomic follow-up *)
Fixpoint merges_all {A} (ls : list (list A)) : list (list A) :=
  match ls with [] => [[]] | l :: ls' => flat_map (merges l) (merges_all ls') end.

Fixpoint distinct (l : list nat) : bool :=
  match l with [] => true | x :: r => negb (existsb (Nat.eqb x) r) && distinct r end.

(* manager, threads holding a selection at the start, observers, atomic set-up history, the concurrent
   operations (of different threads) with their outcomes, what everybody saw when all had returned,
   atomic follow-up *)
Definition mcaseN := (bool * list (tid * inst) * list tid * list op * list (op * obs) * list seen
                      * list (op * obs * list seen))%type.

Definition agree_mN (c : mcaseN) : bool :=
  let '(tenalg, own0, ths, setup, conc, xs, post) := c in
  let cf := cfg_of tenalg in
  let b0 := of_st (run fixed_rules cf (init (own_of own0)) setup) in
  distinct (map (fun x => thr (fst x)) conc) &&
  existsb (fun h =>
             let b := arun fixed_rules cf b0 h in
             forallb (fun x => outs_eqb (p_out (b_priv b (thr (fst x)))) (snd x)) conc &&
             all_seen tenalg (to_st b) ths xs && check1 tenalg ths (to_st b) post)
          (merges_all (map (fun x => flat [fst x]) conc)).

Definition mcase := (bool * list (tid * inst) * list tid * list op * (op * obs) * (op * obs) * list seen
                     * list (op * obs * list seen))%type.

Definition agree_m (c : mcase) : bool :=
  let '(tenalg, own0, ths, setup, a, b, xs, post) := c in
  agree_mN (tenalg, own0, ths, setup, [a; b], xs, post).

(* transport: digits  3, tenalg, nthreads, main_holds, nsetup, setup ops (5 digits each), op A (5), outcome A,
   op B (5), outcome B, seen * nthreads, npost, then per follow-up step: op (5), outcome, seen * nthreads;
   op digits as in the history format with manager = tenalg *)
Definition dec_op (k t a b c : nat) : op :=
  match (if 4 <=? k then k - 4 else k) with
  | 0 => Set_ t (dec_sel a b) (dec_bool c)
  | 1 => Enter t (dec_sel a b) (dec_bool c)
  | _ => Exit_ t (dec_bool a)
  end.

Fixpoint dec_ops (n : nat) (l : list nat) : option (list op * list nat) :=
  match n with
  | O => Some ([], l)
  | S n' => match l with
            | k :: t :: a :: b :: c :: l' =>
                match dec_ops n' l' with Some (os, r) => Some (dec_op k t a b c :: os, r) | None => None end
            | _ => None
            end
  end.

Fixpoint dec_seen1 (n : nat) (l : list nat) : option (list seen * list nat) :=
  match n with
  | O => Some ([], l)
  | S n' => match l with
            | q :: d :: l' => match dec_seen1 n' l' with Some (xs, r) => Some (dec_one q d :: xs, r) | None => None end
            | _ => None
            end
  end.

Fixpoint dec_post (nth n : nat) (l : list nat) : option (list (op * obs * list seen)) :=
  match n with
  | O => match l with [] => Some [] | _ => None end
  | S n' => match l with
            | k :: t :: a :: b :: c :: o :: l' =>
                match dec_seen1 nth l' with
                | Some (xs, r) => match dec_post nth n' r with
                                  | Some es => Some ((dec_op k t a b c, dec_out o, xs) :: es) | None => None end
                | None => None
                end
            | _ => None
            end
  end.

Definition decode_m (l : list nat) : option mcase :=
  match l with
  | ta :: nth :: own :: ns :: l1 =>
      match dec_ops ns l1 with
      | Some (setup, ka :: ta' :: aa :: ba :: ca :: ra :: kb :: tb :: ab :: bb :: cb :: rb :: l2) =>
          match dec_seen1 nth l2 with
          | Some (xs, np :: l3) =>
              match dec_post nth np l3 with
              | Some post => Some (dec_bool ta, if dec_bool own then [(0, Named 0)] else [], seq 0 nth, setup,
                                   (dec_op ka ta' aa ba ca, dec_out ra), (dec_op kb tb ab bb cb, dec_out rb), xs, post)
              | None => None
              end
          | _ => None
          end
      | _ => None
      end
  | _ => None
  end.


(* the anomaly of C17_micro_enter_atomic_refuted is accepted (it IS an order of blocks), the same
   observations with a wrong final answer are not *)
Example micro_case_example :
  let c x y := (false, [(0, Named 0)], [0;1;2;3], [],
                (Enter 1 (sn 1) false, ODone), (Set_ 2 (sn 2) false, ODone),
                [n_ 0 0; n_ 1 1; n_ 2 2; n_ 1 1],
                [(Exit_ 1 false, ODone, [n_ 0 0; x; n_ 2 2; y])]) in
  agree_m (c (n_ 0 0) (n_ 0 0)) = true /\    (* read, other thread's set_backend, write: the stale value comes back *)
  agree_m (c (n_ 2 2) (n_ 2 2)) = true /\    (* set_backend first, then the whole entry *)
  agree_m (c (n_ 0 0) (n_ 1 1)) = false.
Proof. vm_compute. repeat split. Qed.

(* ---- programs of acts extracted from the SOURCE (ast) of set_backend / backend_context / current_backend by
   the harness (leading digit 4): they must obey the effect-point discipline that C17_micro_atomic's generic
   simulation needs (every act that touches the shared default is an effect point; at least one; one for
   set / exit, two for enter) and be equivalent AS BLOCKS to the model's programs.  The equivalence is decided by
   SYMBOLIC execution (Model/BackendSym.v: src_ok); Proofs/BackendSym.v proves that a positive answer means equality of
   shared default, thread-local slot, context stack and answers on EVERY initial state for EVERY backend instance
   (C17_source_blocks_set / _enter / _exit), so nothing here is a test on a family of states any more. *)
Definition agree_src (l : list nat) : bool := src_ok l.

(* the programs as the repaired tree's source gives them; the same with the shared default written BEFORE the
   thread-local slot (a harmless reordering) are accepted; a read-back of the shared default (two shared accesses
   in set_backend), an exit that drops the flag, an except clause that swallows the body's exception (the exit by
   exception answers like a normal one) are not *)
Example src_example :
  let setg := [1; 3; 20; 10] in let setl := [17; 10] in
  let good := [4] ++ setg ++ [6; 16; 1; 3; 20; 6; 10] ++ [5; 8; 2; 3; 21; 10] ++ [5; 8; 2; 3; 21; 11]
              ++ [2] ++ setl ++ [4; 16; 17; 7; 10] ++ [3; 8; 18; 10] ++ [3; 8; 18; 11] in
  let reordered := [4; 3; 20; 1; 10] ++ [6; 16; 3; 20; 1; 6; 10] ++ [5; 8; 3; 21; 2; 10] ++ [5; 8; 3; 21; 2; 11]
              ++ [2] ++ setl ++ [4; 16; 17; 7; 10] ++ [3; 8; 18; 10] ++ [3; 8; 18; 11] in
  let readback := [5; 3; 20; 25; 2; 10] ++ skipn 5 good in
  let dropflag := firstn 32 good ++ [5; 8; 2; 3; 21; 10] ++ [5; 8; 2; 3; 21; 11] in
  let swallow := firstn 18 good ++ [5; 8; 2; 3; 21; 10] ++ skipn 24 good in
  agree_src good = true /\ agree_src reordered = true /\ agree_src readback = false /\ agree_src dropflag = false /\
  agree_src swallow = false.
Proof. vm_compute. repeat split. Qed.

(* three (or more) concurrent calls: digits  5, tenalg, nthreads, main_holds, nsetup, setup ops, nconc,
   then per concurrent call: op (5), outcome; seen * nthreads, npost, follow-up steps *)
Fixpoint dec_conc (n : nat) (l : list nat) : option (list (op * obs) * list nat) :=
  match n with
  | O => Some ([], l)
  | S n' => match l with
            | k :: t :: a :: b :: c :: r :: l' =>
                match dec_conc n' l' with Some (os, rest) => Some ((dec_op k t a b c, dec_out r) :: os, rest) | None => None end
            | _ => None
            end
  end.

Definition decode_mN (l : list nat) : option mcaseN :=
  match l with
  | ta :: nth :: own :: ns :: l1 =>
      match dec_ops ns l1 with
      | Some (setup, nc :: l2) =>
          match dec_conc nc l2 with
          | Some (conc, l3) =>
              match dec_seen1 nth l3 with
              | Some (xs, np :: l4) =>
                  match dec_post nth np l4 with
                  | Some post => Some (dec_bool ta, if dec_bool own then [(0, Named 0)] else [], seq 0 nth, setup, conc, xs, post)
                  | None => None
                  end
              | _ => None
              end
          | None => None
          end
      | _ => None
      end
  | _ => None
  end.

(* ---- dispatch routes (leading digit 6): histories over the alphabet of Model/BackendDispatch.v - selections,
   use_static_dispatch / use_dynamic_dispatch, references captured by one thread and called by another, calls through
   the manager module / the import-time binding or module __getattr__ / the class - every operation with the
   outcome the implementation showed (which object executed the call / served the attribute, or AttributeError).
   Names   tensorly.backend: 0 context (function, bound in tensorly/__init__.py)  1 trace (function, via __getattr__)
                             2 complex64 (attribute, via __getattr__)  3 int64 (attribute, bound in tensorly/__init__.py)
           tensorly.tenalg : 0 outer (function, bound at import in tensorly.decomposition._cp_power)  1 inner (function)
   digits: 6, tenalg, nthreads, main_holds, int64 bound at import, nsteps (two digits, high first), then per step
           kind (0 set, 1 enter, 2 exit, 3 use_static_dispatch, 4 use_dynamic_dispatch, 5 capture, 6 call captured, 7 call),
           thread, a, b, c, outcome kind, outcome value
             set/enter: a b c as above; exit: a = exceptional; capture/call: a = route (0 manager module, 1 top, 2 class, 3 the alias a library module holds),
             b = name; call captured: a = index of the reference
             outcome kind 0: outcome code of a selection operation; 1: nothing; 2: executed by (token); 3: value of (token);
             4: AttributeError; 5: served, object not identifiable; 6 (use_static_dispatch only): the object every name was fetched from *)
(* tb: does tensorly/__init__.py bind the attribute int64 by name at import?  (the current tree does; the candidate repair
   build/fix_candidates/C17_static_attributes.diff does not - read off the import list by the harness) *)
Definition nc_backend_of (tb : bool) : ncfg :=
  {| is_fun := fun n => n <? 2; is_attr := fun n => (1 <? n) && (n <? 4); top_bound := fun n => (n =? 0) || (tb && (n =? 3)) |}.
Definition nc_backend : ncfg := nc_backend_of true.
Definition nc_tenalg : ncfg :=
  {| is_fun := fun n => n <? 2; is_attr := fun _ => false; top_bound := fun n => n =? 0 |}.
Definition nc_of (tb tenalg : bool) : ncfg := if tenalg then nc_tenalg else nc_backend_of tb.

Definition tok_ok (tenalg : bool) (b : inst) (tok : nat) : bool :=
  match dec_tok tok with
  | Some j => inst_eqb b j
  | None => match b with Named n => stock tenalg n | _ => false end
  end.

Definition dobs_ok (tenalg : bool) (model : dobs) (kind tok : nat) : bool :=
  match model, kind with
  | DSelObs o, 0 => obs_eqb o (dec_out tok)
  | DNone, 1 => true
  | DRan b, 2 => tok_ok tenalg b tok
  | DVal b, 3 => tok_ok tenalg b tok
  | DErr, 4 => true
  | DRan _, 5 | DVal _, 5 => true      (* the harness could not tell which object served (e.g. a bare library function shared by all backends) *)
  | _, _ => false
  end.

Definition dec_route (a : nat) : route := match a with 0 => RMgr | 1 => RTop | 2 => RClass | _ => RLib end.

Definition dec_dop (k t a b c : nat) : dop :=
  match k with
  | 0 => DSel (Set_ t (dec_sel a b) (dec_bool c))
  | 1 => DSel (Enter t (dec_sel a b) (dec_bool c))
  | 2 => DSel (Exit_ t (dec_bool a))
  | 3 => DStatic t
  | 4 => DDynamic t
  | 5 => DCapture t (dec_route a) b
  | 6 => DCallCap t a
  | _ => DCall t (dec_route a) b
  end.

Fixpoint dec_dsteps (n : nat) (l : list nat) : option (list (dop * nat * nat)) :=
  match n with
  | O => match l with [] => Some [] | _ => None end
  | S n' => match l with
            | k :: t :: a :: b :: c :: ok :: ov :: l' =>
                match dec_dsteps n' l' with Some es => Some ((dec_dop k t a b c, ok, ov) :: es) | None => None end
            | _ => None
            end
  end.

Fixpoint dcheck (tenalg : bool) (D : drules) (nc : ncfg) (d : dst) (es : list (dop * nat * nat)) : bool :=
  match es with
  | [] => true
  | (o, ok, ov) :: es' =>
      let (d', ob) := dstep fixed_rules (cfg_of tenalg) D nc d o in
      (* outcome kind 6 of use_static_dispatch: the object ALL names were fetched from = the caller's backend of that moment *)
      match o, ok with
      | DStatic t, 6 => tok_ok tenalg (cur (d_sel d) t) ov
      | _, _ => dobs_ok tenalg ob ok ov
      end && dcheck tenalg D nc d' es'
  end.

Definition agree_d (l : list nat) : bool :=
  match l with
  | ta :: nth :: own :: tb :: nhi :: nlo :: r =>
      match dec_dsteps (nhi * 64 + nlo) r with
      | Some es =>
          let tenalg := dec_bool ta in
          let nc := nc_of (dec_bool tb) tenalg in
          dcheck tenalg tree_drules nc
                 (dinit nc (own_of (if dec_bool own then [(0, Named 0)] else []))) es
      | None => false
      end
  | _ => false
  end.

(* thread 1 captures tensorly.context; thread 2 selects harness instance 0 thread-locally; the captured closure called
   by thread 2 runs on Obj 0, called by a thread without selection on the default; class-level attribute access
   answers with the accessing thread's backend; after use_static_dispatch by thread 2 the manager route is frozen on Obj 0 for everybody while the
   import-time binding still follows the caller; one altered outcome is noticed *)
Example dispatch_case_example :
  let good := [0;4;1;1; 0;9;
               5;1;1;0;0; 1;0;   0;2;1;0;1; 0;0;   6;2;0;0;0; 2;8;   6;3;0;0;0; 2;2;   7;2;2;2;0; 3;8;
               3;2;0;0;0; 1;0;   7;3;0;0;0; 2;8;   7;3;1;0;0; 2;2;   7;3;0;2;0; 3;8] in
  let bad := firstn (length good - 1) good ++ [2] in
  agree_d good = true /\ agree_d bad = false /\ agree_d (firstn 41 good) = false.
Proof. vm_compute. repeat split. Qed.

(* ---- the dispatch expressions extracted from the SOURCE (ast) by the harness (leading digit 7):
     look-up kind of the closure of dispatch_backend_method, of current_backend(), of get_backend(), of the descriptor
     reached through an instance (0 thread-local slot else shared default, 1 shared default only, 2 thread-local slot
     only, 3 the method captured when the closure was made);
     the descriptor's class test (0 `isinstance is None` - never true, 1 `instance is None`) and the look-up of its class
     branch; is int64 in the import list of tensorly/__init__.py?;
     the look-up use_static_dispatch evaluates ONCE for _functions / _attributes of BackendManager and of
     TenalgBackendManager (the model freezes the CALLING thread's current backend);
     what use_dynamic_dispatch installs for _functions / _attributes of BackendManager and of TenalgBackendManager
     (0 staticmethod(closure), 1 descriptor); tensorly.__getattr__ = backend.__getattribute__ ?;
     then for the modelled names (4 of tensorly.backend, 2 of tensorly.tenalg): in _functions?, in _attributes?, bound by
     name at import?
   They must be the model's: every look-up IS `cur` on a family of states, functions get the closure and attributes the
   descriptor, the name tables are nc_backend / nc_tenalg, and the class test explains the probed behaviour. *)
Definition lk_sem (k : nat) (s : st) (t : tid) : inst :=
  match k with
  | 0 => match tls s t with Some b => b | None => shared s end
  | 1 => shared s
  | 2 => match tls s t with Some b => b | None => Foreign 98 end
  | _ => Foreign 97
  end.

Definition lk_family : list st :=
  flat_map (fun sh => map (fun tl => {| shared := sh; dname := 0; tls := fun t => if Nat.eqb t 1 then tl else None;
                                         loaded := fun _ => false; ctx := fun _ => [] |})
                          [None; Some (Obj 1)])
           [Named 0; Obj 6].

Definition lk_ok (k : nat) : bool :=
  forallb (fun s => forallb (fun t => inst_eqb (lk_sem k s t) (cur s t)) [1; 2]) lk_family.

Fixpoint names_ok (nc : ncfg) (n : nat) (k : nat) (l : list nat) : option (list nat) :=
  match k with
  | O => Some l
  | S k' => match l with
            | f :: a :: tb :: l' =>
                if Bool.eqb (dec_bool f) (is_fun nc n) && Bool.eqb (dec_bool a) (is_attr nc n) && Bool.eqb (dec_bool tb) (top_bound nc n)
                then names_ok nc (S n) k' l' else None
            | _ => None
            end
  end.

Definition agree_dsrc (l : list nat) : bool :=
  match l with
  | wrap :: curk :: getk :: instk :: clstest :: clsk :: tb :: sbf :: sba :: stf :: sta :: bf :: ba :: tf :: ta :: modget :: l' =>
      lk_ok wrap && lk_ok curk && lk_ok getk && lk_ok instk &&
      lk_ok sbf && lk_ok sba && lk_ok stf && lk_ok sta &&
      Nat.eqb clstest 1 && lk_ok clsk &&
      Nat.eqb bf 0 && Nat.eqb ba 1 && Nat.eqb tf 0 && Nat.eqb ta 1 && Nat.eqb modget 1 &&
      match names_ok (nc_backend_of (dec_bool tb)) 0 4 l' with
      | Some l'' => match names_ok nc_tenalg 0 2 l'' with Some [] => true | _ => false end
      | None => false
      end
  | _ => false
  end.

(* the current tree's source (descriptor repaired by 0b04404); NOT accepted: the descriptor before 0b04404 (class test on the builtin), a class branch reading only the shared default, a closure that reads only the shared default, a
   closure bound to the method it was made with, use_static_dispatch freezing the shared default, a function name bound like an attribute, a name table that differs from the model's (int64 bound or not must match the flag; trace bound at import) *)
Example dsrc_example :
  let tail := [0;1;0;1;1; 1;0;1; 1;0;0; 0;1;0; 0;1;1; 1;0;1; 1;0;0] in
  agree_dsrc ([0;0;0;0;1;0;1; 0;0;0;0] ++ tail) = true /\
  agree_dsrc ([0;0;0;0;0;0;1; 0;0;0;0] ++ tail) = false /\
  agree_dsrc ([0;0;0;0;1;1;1; 0;0;0;0] ++ tail) = false /\
  agree_dsrc ([1;0;0;0;1;0;1; 0;0;0;0] ++ tail) = false /\
  agree_dsrc ([3;0;0;0;1;0;1; 0;0;0;0] ++ tail) = false /\
  agree_dsrc ([0;0;0;0;1;0;1; 1;0;0;0] ++ tail) = false /\
  agree_dsrc ([0;0;0;0;1;0;1; 0;0;0;0] ++ [1;1;0;1;1; 1;0;1; 1;0;0; 0;1;0; 0;1;1; 1;0;1; 1;0;0]) = false /\
  agree_dsrc ([0;0;0;0;1;0;1; 0;0;0;0] ++ [0;1;0;1;1; 1;0;1; 1;0;0; 0;1;0; 0;1;0; 1;0;1; 1;0;0]) = false /\
  agree_dsrc ([0;0;0;0;1;0;0; 0;0;0;0] ++ [0;1;0;1;1; 1;0;1; 1;0;0; 0;1;0; 0;1;0; 1;0;1; 1;0;0]) = true /\
  agree_dsrc ([0;0;0;0;1;0;1; 0;0;0;0] ++ [0;1;0;1;1; 1;0;1; 1;0;1; 0;1;0; 0;1;1; 1;0;1; 1;0;0]) = false.
Proof. vm_compute. repeat split. Qed.

(* ---- initialize_backend (leading digit 8): `import tensorly` in a FRESH process with TENSORLY_BACKEND /
   TENSORLY_TENALG_BACKEND set: digits tenalg, requested name (0 = variable unset, 1 + name code otherwise), outcome
   (0 imported, 1 imported with the UserWarning, 2 import failed, 3 failed after the warning), name code get_backend()
   returns in the importing thread, in a thread started afterwards, code of cls._default_backend.  Name codes as above;
   in a fresh process the harness classes are not registered: tensorly.backend knows numpy (0), lists pytorch (3) which
   cannot be imported here; tensorly.tenalg knows core (0), einsum (1) *)
Definition listed_plain (tenalg : bool) (n : name) : bool := if tenalg then n <=? 1 else (n =? 0) || (n =? 3).
Definition cfg_plain (tenalg : bool) : cfg :=
  {| known := fun n => if tenalg then n <=? 1 else n =? 0; cname := fun _ => 0 |}.

Definition agree_init (l : list nat) : bool :=
  match l with
  | [ta; env; outc; qm; qf; dn] =>
      let tenalg := dec_bool ta in
      let cf := cfg_plain tenalg in
      match initialize fixed_rules cf (listed_plain tenalg) (match env with 0 => None | S n => Some n end) 0 with
      | IOk w s =>
          (outc <? 2) && Bool.eqb w (outc =? 1) &&
          obs_eqb (out fixed_rules cf s (Query 0)) (OName qm) && obs_eqb (out fixed_rules cf s (Query 1)) (OName qf) &&
          (dname s =? dn)
      | IFail w => (1 <? outc) && Bool.eqb w (outc =? 3)
      end
  | _ => false
  end.

Example init_example :
  agree_init [0;0;0;0;0;0] = true /\ agree_init [0;1;0;0;0;0] = true /\ agree_init [0;5;1;0;0;0] = true /\
  agree_init [0;4;2;0;0;0] = true /\ agree_init [1;2;0;1;1;1] = true /\ agree_init [1;2;0;1;0;1] = false /\
  agree_init [0;5;0;0;0;0] = false /\ agree_init [0;4;0;3;3;3] = false /\ agree_init [1;6;1;0;0;0] = true.
Proof. vm_compute. repeat split. Qed.

(* ---- re-binding under concurrency (leading digit 9): one thread runs use_dynamic_dispatch() under settrace and is stopped
   after k source lines / k bytecodes (a sweep over k plus random positions inside the whole loop); another thread then
   looks EVERY dispatched name up through the manager module.
   digits: tenalg, does the loop of the CURRENT source delete the attribute before setting it? (ast; no since /repo commit
   34d4068), number of observations (two digits, high first), then per stop position: 0 every name found / 1 some name raised AttributeError.
   Model (rsched / rprog): without the delattr no look-up can miss (C17_micro_rebind_no_window); with it there is a
   window, which the sweep must find *)
Definition agree_rebind (l : list nat) : bool :=
  match l with
  | _ :: wd :: nhi :: nlo :: obs =>
      let n := nhi * 64 + nlo in
      (length obs =? n) && negb (n =? 0) && forallb (fun o => o <? 2) obs &&
      Bool.eqb (existsb (fun o => o =? 1) obs) (dec_bool wd)
  | _ => false
  end.

Example rebind_example :
  agree_rebind [0;1;0;4;0;0;1;0] = true /\ agree_rebind [0;0;0;4;0;0;0;0] = true /\
  agree_rebind [0;0;0;4;0;1;0;0] = false /\ agree_rebind [0;1;0;3;0;0;0] = false /\
  agree_rebind ([0;0;1;2] ++ repeat 0 66) = true.
Proof. vm_compute. repeat split. Qed.

(* ---- register_backend_method (leading digit 10): histories of selections, registrations and calls of ONE dispatched
   name (tensorly.backend: digamma, tensorly.tenalg: higher_order_moment).  Classes = backend names: the stock classes
   define the name natively (implementation 0), the harness classes (1, 2 / 2, 3) are subclasses of stock class 0 and
   inherit, Obj 4 is an instance of a harness subclass (class 6) that provides NOTHING under the name, Obj 5 an instance of a
   subclass (class 7) of the first harness class (two levels below the stock class).
   digits: tenalg, nthreads, main_holds, nsteps (two digits), then per step kind (0 set, 1 enter, 2 exit, 3 register,
   4 call), thread, a, b, c, outcome kind, o1, o2:  register: a = implementation number; call: outcome kind 2 = executed,
   o1 = name code get_backend() returned in the calling thread, o2 = implementation that ran; 4 = AttributeError *)
(* class 7 (Obj 5 is its instance) is a subclass of the FIRST harness class (1 / 2), itself a subclass of stock class 0: a
   chain of depth 2; cdepth = 3 bounds every chain of the harness *)
Definition hcfg_of (tenalg : bool) : hcfg :=
  {| cparent := fun cl => if cl =? 7 then Some (if tenalg then 2 else 1)
                          else if (if tenalg then (2 <=? cl) && (cl <=? 3) else (1 <=? cl) && (cl <=? 2)) || (cl =? 6)
                          then Some 0 else None;
     cdepth := 3 |}.
Definition mt0 (tenalg : bool) : mtab :=
  fun cl _ => if cl =? 6 then MMissing else match cparent (hcfg_of tenalg) cl with Some _ => MInherit | None => MHas 0 end.
Definition cfg_reg (tenalg : bool) : cfg :=
  {| known := known (cfg_of tenalg); cname := fun k => if k =? 4 then 6 else if k =? 5 then 7 else cname (cfg_of tenalg) k |}.

Definition dec_rop (k t a b c : nat) : rop :=
  match k with
  | 0 => RSel (Set_ t (dec_sel a b) (dec_bool c))
  | 1 => RSel (Enter t (dec_sel a b) (dec_bool c))
  | 2 => RSel (Exit_ t (dec_bool a))
  | 3 => RReg t 0 a
  | _ => RCall t 0
  end.

Fixpoint dec_rsteps (n : nat) (l : list nat) : option (list (rop * nat * nat * nat)) :=
  match n with
  | O => match l with [] => Some [] | _ => None end
  | S n' => match l with
            | k :: t :: a :: b :: c :: ok :: o1 :: o2 :: l' =>
                match dec_rsteps n' l' with Some es => Some ((dec_rop k t a b c, ok, o1, o2) :: es) | None => None end
            | _ => None
            end
  end.

Definition robs_ok (c : cfg) (model : robs) (ok o1 o2 : nat) : bool :=
  match model, ok with
  | RSelObs o, 0 => obs_eqb o (dec_out o1)
  | RNone, 1 => true
  | RRan (Some (b, v)), 2 => (name_of c b =? o1) && (v =? o2)
  | RRan None, 4 => true
  | _, _ => false
  end.

Fixpoint rcheck (tenalg : bool) (x : rst) (es : list (rop * nat * nat * nat)) : bool :=
  match es with
  | [] => true
  | (o, ok, o1, o2) :: es' =>
      let (x', ob) := rstep fixed_rules (hcfg_of tenalg) (cfg_reg tenalg) x o in
      robs_ok (cfg_reg tenalg) ob ok o1 o2 && rcheck tenalg x' es'
  end.

Definition agree_reg (l : list nat) : bool :=
  match l with
  | ta :: nth :: own :: nhi :: nlo :: r =>
      match dec_rsteps (nhi * 64 + nlo) r with
      | Some es => rcheck (dec_bool ta) {| r_sel := init (own_of (if dec_bool own then [(0, Named 0)] else []));
                                            r_mt := mt0 (dec_bool ta) |} es
      | None => false
      end
  | _ => false
  end.

(* thread 1 registers implementation 1 while on stock numpy: thread 2 on harness instance 0 (subclass) gets it too; thread
   2 registers implementation 2 on its own class: thread 1 keeps 1; on Obj 4 the call raises until something is
   registered there *)
Example reg_example :
  let good := [0;3;1; 0;9;
               3;1;1;0;0; 1;0;0;   0;2;1;0;1; 0;0;0;   4;2;0;0;0; 2;1;1;   3;2;2;0;0; 1;0;0;   4;2;0;0;0; 2;1;2;
               4;1;0;0;0; 2;0;1;   0;1;1;4;1; 0;0;0;   4;1;0;0;0; 4;0;0;   4;0;0;0;0; 2;0;1] in
  (* thread 1 (stock numpy) registers 1; thread 2 on Obj 5 (class 7 -> 1 -> 0) gets it through TWO levels; a registration on
     the middle class (thread 1 on Obj 0, class 1) takes over for Obj 5, the stock class keeps 1 *)
  let deep := [0;3;1; 0;7;
               3;1;1;0;0; 1;0;0;   0;2;1;5;1; 0;0;0;   4;2;0;0;0; 2;7;1;   0;1;1;0;1; 0;0;0;   3;1;2;0;0; 1;0;0;
               4;2;0;0;0; 2;7;2;   4;0;0;0;0; 2;0;1] in
  agree_reg good = true /\ agree_reg (firstn (length good - 1) good ++ [2]) = false /\
  agree_reg (firstn 61 good ++ [2;6;0] ++ skipn 64 good) = false /\
  agree_reg deep = true /\ agree_reg (firstn 28 deep ++ [0] ++ skipn 29 deep) = false.
Proof. vm_compute. repeat split. Qed.

(* ---- dispatch histories over ALL dispatched names (leading digit 11): the name tables of the manager (_functions,
   _attributes, the import list of tensorly/__init__.py) are read off the CURRENT source and shipped with the case; the
   model runs with the ncfg built from them, and a sweep = one call per name and route.
   digits: tenalg, nthreads, main_holds, number of names (two digits), one digit per name (1 function + 2 attribute + 4
   bound at import), nsteps (two digits), then per step kind, thread, a, name (two digits), c, outcome kind, outcome value
   (as for leading digit 6, with a two-digit name) *)
Definition nc_table (tab : list nat) : ncfg :=
  {| is_fun := fun n => Nat.odd (nth n tab 0);
     is_attr := fun n => Nat.odd (Nat.div2 (nth n tab 0)) && negb (Nat.odd (nth n tab 0));
     top_bound := fun n => Nat.odd (Nat.div2 (Nat.div2 (nth n tab 0))) |}.

Fixpoint dec_dsteps2 (n : nat) (l : list nat) : option (list (dop * nat * nat)) :=
  match n with
  | O => match l with [] => Some [] | _ => None end
  | S n' => match l with
            | k :: t :: a :: bh :: bl :: c :: ok :: ov :: l' =>
                match dec_dsteps2 n' l' with Some es => Some ((dec_dop k t a (bh * 64 + bl) c, ok, ov) :: es) | None => None end
            | _ => None
            end
  end.

Definition agree_dn (l : list nat) : bool :=
  match l with
  | ta :: nth :: own :: nnh :: nnl :: r =>
      let nn := nnh * 64 + nnl in
      let tab := firstn nn r in
      match skipn nn r with
      | nhi :: nlo :: r' =>
          match dec_dsteps2 (nhi * 64 + nlo) r' with
          | Some es =>
              let tenalg := dec_bool ta in
              let nc := nc_table tab in
              (length tab =? nn) &&
              dcheck tenalg tree_drules nc (dinit nc (own_of (if dec_bool own then [(0, Named 0)] else []))) es
          | None => false
          end
      | _ => false
      end
  | _ => false
  end.

(* three names: 0 a function bound at import, 1 a function, 2 an attribute; thread 1 selects harness instance 1
   thread-locally and sweeps: every name through every route is served by Obj 1; one wrong entry is noticed *)
Example dn_example :
  let good := [0;3;1; 0;3; 5;1;2; 0;6;
               0;1;1;0;1;1; 0;0;   7;1;1;0;0;0; 2;9;   7;1;0;0;1;0; 2;9;   7;1;1;0;1;0; 2;9;   7;1;0;0;2;0; 3;9;   7;2;0;0;2;0; 3;0] in
  (* ... then use_static_dispatch by thread 1 (every name fetched from Obj 1): thread 2 gets Obj 1 through the manager module,
     its own default through the import-time binding of name 0; an unidentifiable server is accepted, a wrong one is not *)
  let st := [0;3;1; 0;3; 5;1;2; 0;6;
             0;1;1;0;1;1; 0;0;   3;1;0;0;0;0; 6;9;   7;2;0;0;1;0; 2;9;   7;2;1;0;0;0; 2;2;   7;2;0;0;2;0; 5;0;   7;2;0;0;0;0; 2;2] in
  agree_dn good = true /\ agree_dn (firstn 33 good ++ [8] ++ skipn 34 good) = false /\ agree_dn (firstn 50 good) = false /\
  agree_dn st = false /\ agree_dn (firstn 57 st ++ [9]) = true /\ agree_dn (firstn 25 st ++ [8] ++ skipn 26 st) = false.
Proof. vm_compute. repeat split. Qed.

(* ---- the metadata of the closure (leading digit 12): histories of selections, use_dynamic_dispatch, captures of the
   closure of ONE function (context / outer) through the import-time binding or the manager module, and calls of
   f.__wrapped__ / of f itself.  digits: tenalg, nthreads, main_holds, nsteps (two digits), then per step kind (0 set, 1 enter,
   2 exit, 3 use_dynamic_dispatch, 4 capture, 5 captured.__wrapped__(), 6 <route>.__wrapped__(), 7 <route>()), thread, a, b, c,
   outcome kind, value (as for leading digit 6); a = through the import-time binding? (kinds 4, 6, 7) / index (kind 5) *)
Definition dec_wop (k t a b c : nat) : wop :=
  match k with
  | 0 => WSel (Set_ t (dec_sel a b) (dec_bool c))
  | 1 => WSel (Enter t (dec_sel a b) (dec_bool c))
  | 2 => WSel (Exit_ t (dec_bool a))
  | 3 => WDynamic t
  | 4 => WCapture t (dec_bool a)
  | 5 => WUnwrapCap t a
  | 6 => WUnwrap t (dec_bool a)
  | _ => WCall t (dec_bool a)
  end.

Fixpoint dec_wsteps (n : nat) (l : list nat) : option (list (wop * nat * nat)) :=
  match n with
  | O => match l with [] => Some [] | _ => None end
  | S n' => match l with
            | k :: t :: a :: b :: c :: ok :: ov :: l' =>
                match dec_wsteps n' l' with Some es => Some ((dec_wop k t a b c, ok, ov) :: es) | None => None end
            | _ => None
            end
  end.

Definition wobs_ok (tenalg : bool) (model : wobs) (kind tok : nat) : bool :=
  match model, kind with
  | WSelObs o, 0 => obs_eqb o (dec_out tok)
  | WNone, 1 => true
  | WRan b, 2 => tok_ok tenalg b tok
  | WErr, 4 => true
  | _, _ => false
  end.

Fixpoint wcheck (tenalg : bool) (x : wst) (es : list (wop * nat * nat)) : bool :=
  match es with
  | [] => true
  | (o, ok, ov) :: es' =>
      let (x', ob) := wstep fixed_rules (cfg_of tenalg) x o in wobs_ok tenalg ob ok ov && wcheck tenalg x' es'
  end.

Definition agree_w (l : list nat) : bool :=
  match l with
  | ta :: nth :: own :: nhi :: nlo :: r =>
      match dec_wsteps (nhi * 64 + nlo) r with
      | Some es => wcheck (dec_bool ta) (winit (own_of (if dec_bool own then [(0, Named 0)] else []))) es
      | None => false
      end
  | _ => false
  end.

(* thread 1 selects harness instance 1: the call follows, __wrapped__ stays with the import-time backend; after
   use_dynamic_dispatch by thread 1 the class closure is re-made with Obj 1, the import-time binding is not *)
Example w_example :
  let good := [0;3;1; 0;7;
               0;1;1;1;1; 0;0;   7;1;0;0;0; 2;9;   6;1;0;0;0; 2;0;   3;1;0;0;0; 1;0;   6;2;0;0;0; 2;9;   6;2;1;0;0; 2;2;   7;2;1;0;0; 2;2] in
  agree_w good = true /\ agree_w (firstn 25 good ++ [9] ++ skipn 26 good) = false.
Proof. vm_compute. repeat split. Qed.

(* ---- interrupted / raising calls (leading digit 13; Model/BackendAbort.v): atomic set-up history, ONE call of a thread
   that (kind 0) runs by itself - it may raise at `backend.backend_name` of the nameless instance Obj 20, leaving its
   partial effect behind (exec_nl) - or (kind 1) is interrupted by an exception the harness raises from a trace function
   at some source line inside set_backend / backend_context: the observed state must be that of SOME sub-sequence of the
   call's acts (every prefix = abort is one; all acts and the call's own answer = the interruption came too late; all acts
   and an exception = it came after the last write, bytecode granularity), for an entry also the state after entry + exit (the
   interruption fell inside the try block, the finally clause ran); then what EVERY thread sees (get_backend() - 62 =
   it raised AttributeError - and the identity of current_backend()), then atomic follow-up calls under exec_nl *)
Definition aseen_ok (tenalg : bool) (s : st) (t : tid) (x : seen) : bool :=
  let i := cur s t in
  (if nl20 i then Nat.eqb (fst x) 62 else Nat.eqb (fst x) (name_of (cfg_of tenalg) i)) &&
  match snd x with Some j => inst_eqb i j | None => false end.

Fixpoint all_aseen (tenalg : bool) (s : st) (ths : list tid) (xs : list seen) : bool :=
  match ths, xs with
  | [], [] => true
  | t :: ths', x :: xs' => aseen_ok tenalg s t x && all_aseen tenalg s ths' xs'
  | _, _ => false
  end.

Definition raise_obs (o : op) : obs := match o with Exit_ _ _ => OExitFailed | _ => ORejected end.
Definition answer (b : bst) (o : op) : obs := last (p_out (b_priv b (thr o))) ONoCtx.

Definition nl_step (nf tenalg : bool) (b : bst) (o : op) : bst * obs :=
  let r := exec_nl nf nl20 fixed_rules (cfg_of tenalg) b o in
  (fst r, if snd r then raise_obs o else answer (fst r) o).

Fixpoint acheck (nf tenalg : bool) (ths : list tid) (b : bst) (es : list (op * obs * list seen)) : bool :=
  match es with
  | [] => true
  | (o, ob, xs) :: es' =>
      let (b', ob') := nl_step nf tenalg b o in
      obs_eqb ob' ob && all_aseen tenalg (to_st b') ths xs && acheck nf tenalg ths b' es'
  end.

Fixpoint sublists {A} (l : list A) : list (list A) :=
  match l with [] => [[]] | x :: r => map (cons x) (sublists r) ++ sublists r end.

(* nf: does set_backend read backend.backend_name BEFORE its first write?  read off the current source (ast) by the harness:
   false for the tree as it is, true once build/fix_candidates/C17_nameless_instance.diff is applied *)
Definition acase := (bool * bool * list (tid * inst) * list tid * list op * op * nat * obs * list seen
                     * list (op * obs * list seen))%type.

Definition agree_a (c : acase) : bool :=
  let '(tenalg, nf, own0, ths, setup, o, kind, ob, xs, post) := c in
  let cf := cfg_of tenalg in
  let b1 := run_nl_hist nf nl20 fixed_rules cf (of_st (init (own_of own0))) setup in
  match kind with
  | 0 => acheck nf tenalg ths b1 ((o, ob, xs) :: post)
  | _ =>
      let acts := acts_of fixed_rules cf b1 o in
      let n := length acts in
      (* every prefix `abort ... k` is among them; sub-sequences rather than prefixes so that the ORDER in which the code
         performs its (commuting) writes - an incidental detail - is not compared *)
      let cands := map (fun l' => (bblock cf b1 (thr o, l'), Nat.eqb (length l') n)) (sublists acts) ++
                   match o with
                   | Enter t _ _ => [(astep fixed_rules cf (astep fixed_rules cf b1 (AOp o)) (AOp (Exit_ t true)), false)]
                   | _ => []
                   end in
      existsb (fun cand : bst * bool =>
                 let (b, completed) := cand in
                 (obs_eqb ob (raise_obs o) || (completed && obs_eqb ob (answer b o))) &&
                 all_aseen tenalg (to_st b) ths xs && acheck nf tenalg ths b post) cands
  end.

Definition decode_a (l : list nat) : option acase :=
  match l with
  | ta :: nth :: own :: nf :: ns :: l1 =>
      match dec_ops ns l1 with
      | Some (setup, k :: t :: a :: b :: c :: kind :: r :: l2) =>
          match dec_seen1 nth l2 with
          | Some (xs, np :: l3) =>
              match dec_post nth np l3 with
              | Some post => Some (dec_bool ta, dec_bool nf, if dec_bool own then [(0, Named 0)] else [], seq 0 nth, setup,
                                   dec_op k t a b c, kind, dec_out r, xs, post)
              | None => None
              end
          | _ => None
          end
      | _ => None
      end
  | _ => None
  end.

Definition agree_ab (l : list nat) : bool := match decode_a l with Some c => agree_a c | None => false end.

(* set_backend(<nameless instance>) by thread 1: raises, thread 1 is on the nameless object (get_backend() raises: 62),
   nobody else noticed; an interrupted non-local set_backend(Obj 1) that left only the thread's slot written; the same
   observations with the shared default already changed are no prefix *)
Example abort_case_example :
  agree_ab [0;3;1;0;0; 0;1;1;20;0; 0;1; 0;2; 62;28; 0;2; 0] = true /\
  agree_ab [0;3;1;0;0; 0;1;1;20;0; 0;1; 0;2; 0;2; 0;2; 0] = false /\
  agree_ab [0;3;1;0;0; 0;1;1;20;1; 0;0; 0;2; 62;28; 0;2; 0] = true /\
  agree_ab [0;3;1;0;0; 0;1;1;1;0; 1;1; 0;2; 2;9; 0;2; 0] = true /\
  agree_ab [0;3;1;0;0; 0;1;1;1;0; 1;1; 0;2; 0;2; 0;2; 0] = true /\
  agree_ab [0;3;1;0;0; 0;1;1;1;0; 1;0; 0;2; 2;9; 2;9; 0] = true /\
  agree_ab [0;3;1;0;0; 0;1;1;1;0; 1;1; 0;2; 0;2; 2;9; 0] = false /\
  (* an entry interrupted inside the try block: entry + exit; then a later set is compared step by step *)
  agree_ab [0;3;1;0;0; 1;1;1;1;0; 1;1; 0;2; 0;2; 0;2; 1; 0;2;1;0;1; 0; 0;2; 0;2; 1;8] = true /\
  (* the candidate repair (nf = 1): the nameless instance is rejected with nothing changed, in both flavours *)
  agree_ab [0;3;1;1;0; 0;1;1;20;0; 0;1; 0;2; 0;2; 0;2; 0] = true /\
  agree_ab [0;3;1;1;0; 0;1;1;20;1; 0;1; 0;2; 0;2; 0;2; 0] = true /\
  agree_ab [0;3;1;1;0; 0;1;1;20;0; 0;1; 0;2; 62;28; 0;2; 0] = false.
Proof. vm_compute. repeat split. Qed.

(* ---- ONE call interrupted at positions k = 0, 1, 2, ... of its execution, compared STEP BY STEP (leading digit 14): the
   same set-up and the same call are run once per position (source lines, or bytecodes in steps of 2); digit 13 compares
   each observed state by itself with SOME sub-sequence of the call's acts, here the sequence of observed states must
   be explained by ONE growing execution: masks m_0 <= m_1 <= ... over the acts (m_k = the acts executed before position
   k; inclusion, not prefix order, so that the order of the commuting writes is still not compared) with the state at
   position k that of `select m_k acts`; the stages are ordered too: 0 = (exit only) interrupted where the generator resumes,
   still inside the try block: the finally clause then runs untraced and restores everything, the exception propagates;
   1 = interrupted inside the call; 2 = (entry only) interrupted inside the try block, the finally clause ran; 3 = the
   interruption never came, the call answered.  Positions at which the tracer did not fire although a later one did are
   left out by the harness.  Decided by forward reachability over the candidate sets. *)
Fixpoint masks (n : nat) : list (list bool) :=
  match n with O => [[]] | S n' => map (cons true) (masks n') ++ map (cons false) (masks n') end.
Fixpoint select {A} (m : list bool) (l : list A) : list A :=
  match m, l with b :: m', x :: l' => if b then x :: select m' l' else select m' l' | _, _ => [] end.
Fixpoint subm (a b : list bool) : bool :=
  match a, b with x :: a', y :: b' => implb x y && subm a' b' | [], [] => true | _, _ => false end.

Definition ccand := (nat * list bool * bst)%type.
Definition cle (a b : ccand) : bool :=
  let '(s1, m1, _) := a in let '(s2, m2, _) := b in (s1 <? s2) || ((s1 =? s2) && subm m1 m2).

Definition chain_cands (cf : cfg) (b1 : bst) (o : op) : list ccand :=
  let acts := acts_of fixed_rules cf b1 o in
  let n := length acts in
  match o with Exit_ _ _ => [(0, repeat false n, astep fixed_rules cf b1 (AOp o))] | _ => [] end ++
  map (fun m => (1, m, bblock cf b1 (thr o, select m acts))) (masks n) ++
  match o with
  | Enter t _ _ => [(2, repeat true n, astep fixed_rules cf (astep fixed_rules cf b1 (AOp o)) (AOp (Exit_ t true)))]
  | _ => []
  end ++ [(3, repeat true n, astep fixed_rules cf b1 (AOp o))].

Definition cand_matches (tenalg : bool) (ths : list tid) (o : op) (c : ccand) (ob : obs) (xs : list seen) : bool :=
  let '(stage, _, b) := c in
  (if stage =? 3 then obs_eqb ob (answer b o) else obs_eqb ob (raise_obs o)) && all_aseen tenalg (to_st b) ths xs.

Fixpoint chain_ok (tenalg : bool) (ths : list tid) (o : op) (cands R : list ccand) (obsl : list (obs * list seen)) : bool :=
  match obsl with
  | [] => true
  | (ob, xs) :: rest =>
      match filter (fun c => cand_matches tenalg ths o c ob xs && existsb (fun r => cle r c) R) cands with
      | [] => false
      | R' => chain_ok tenalg ths o cands R' rest
      end
  end.

Definition ccase := (bool * bool * list (tid * inst) * list tid * list op * op * list (obs * list seen))%type.

Definition agree_c (c : ccase) : bool :=
  let '(tenalg, nf, own0, ths, setup, o, obsl) := c in
  let cf := cfg_of tenalg in
  let b1 := run_nl_hist nf nl20 fixed_rules cf (of_st (init (own_of own0))) setup in
  let cands := chain_cands cf b1 o in
  match cands with
  | bottom :: _ => chain_ok tenalg ths o cands [(0, repeat false (length (acts_of fixed_rules cf b1 o)), b1)] obsl
  | [] => false
  end.

Fixpoint dec_chain (nth n : nat) (l : list nat) : option (list (obs * list seen)) :=
  match n with
  | O => match l with [] => Some [] | _ => None end
  | S n' => match l with
            | r :: l' => match dec_seen1 nth l' with
                         | Some (xs, l2) => match dec_chain nth n' l2 with Some es => Some ((dec_out r, xs) :: es) | None => None end
                         | None => None
                         end
            | [] => None
            end
  end.

Definition decode_c (l : list nat) : option ccase :=
  match l with
  | ta :: nth :: own :: nf :: ns :: l1 =>
      match dec_ops ns l1 with
      | Some (setup, k :: t :: a :: b :: c :: np :: l2) =>
          match dec_chain nth np l2 with
          | Some obsl => Some (dec_bool ta, dec_bool nf, if dec_bool own then [(0, Named 0)] else [], seq 0 nth, setup,
                               dec_op k t a b c, obsl)
          | None => None
          end
      | _ => None
      end
  | _ => None
  end.

Definition agree_ch (l : list nat) : bool := match decode_c l with Some c => agree_c c | None => false end.

(* a non-local set_backend(Obj 1) by thread 1 (acts: slot, name, shared default, answer) interrupted at five positions:
   nothing yet; the slot; slot and shared default; (the same, exception after the last write); completed.  The same
   observations with the slot written, then NOT written, then written again are explained position by position (digit 13
   would accept each) but by no growing execution; neither is a completed call followed by a partial state *)
Example chain_case_example :
  let hd := [0;3;1;0;0; 0;1;1;1;0] in
  let s0 := [1; 0;2; 0;2; 0;2] in let s1 := [1; 0;2; 2;9; 0;2] in let s2 := [1; 0;2; 2;9; 2;9] in
  let done := [0; 0;2; 2;9; 2;9] in
  agree_ch (hd ++ [5] ++ s0 ++ s1 ++ s2 ++ s2 ++ done) = true /\
  agree_ch (hd ++ [3] ++ s0 ++ s0 ++ done) = true /\
  agree_ch (hd ++ [4] ++ s0 ++ s1 ++ s0 ++ s1) = false /\
  agree_ch (hd ++ [3] ++ s1 ++ done ++ s2) = false /\
  agree_ch (hd ++ [2] ++ s0 ++ [1; 0;2; 0;2; 2;9]) = false.
Proof. vm_compute. repeat split. Qed.

Definition agree (c : case) : bool :=
  match digits (snd c) with
  | 3 :: l => match decode_m l with Some m => agree_m m | None => false end
  | 4 :: l => agree_src l
  | 5 :: l => match decode_mN l with Some m => agree_mN m | None => false end
  | 6 :: l => agree_d l
  | 7 :: l => agree_dsrc l
  | 8 :: l => agree_init l
  | 9 :: l => agree_rebind l
  | 10 :: l => agree_reg l
  | 11 :: l => agree_dn l
  | 12 :: l => agree_w l
  | 13 :: l => agree_ab l
  | 14 :: l => agree_ch l
  | _ => agree_hist (snd c)
  end.

(* ids of the disagreeing cases, as binary numbers, at most 40 per shard (a defect that makes most
   histories disagree must not blow up the answer) *)
Definition failing (cs : list case) : list N := firstn 40 (map fst (filter (fun c => negb (agree c)) cs)).

(* the decoder and the comparator are live: a history in transport format decodes to the expected
   structure, agrees, and stops agreeing when one observation is altered *)
Example decode_example :
  (* backend only, 2 threads, main holds; seen: (0,Named 0) (0,Named 0); 1 step: Set_ 1 (so 1) true, done; seen (0,Named 0) (2,Obj 1) *)
  let ds := [0;2;1; 0;2; 0;2; 1; 0;1;1;1;1;0; 0;2; 2;9] in
  let ds' := [0;2;1; 0;2; 0;2; 1; 0;1;1;1;1;0; 0;2; 2;10] in
  (* both managers: the same step issued to tensorly.tenalg (kind 0 + 4), Obj 1 is of class tkb = name 3 there *)
  let ds2 := [2;2;1; 0;2;0;2; 0;2;0;2; 1; 4;1;1;1;1;0; 0;2;0;2; 0;2;3;9] in
  (* ... and the same with tensorly.backend's view of thread 1 disturbed by it *)
  let ds2' := [2;2;1; 0;2;0;2; 0;2;0;2; 1; 4;1;1;1;1;0; 0;2;0;2; 2;9;3;9] in
  digits (pack ds) = ds /\
  decode (pack ds) = Some ([(0, Named 0)], [0;1], [bk (n_ 0 0); bk (n_ 0 0)],
                           [((false, Set_ 1 (so 1) true), ODone, [bk (n_ 0 0); bk (o_ 2 1)])]) /\
  agree (0%N, pack ds) = true /\
  agree (0%N, pack ds') = false /\
  agree (0%N, pack (ds ++ [0])) = false /\
  agree (0%N, pack ds2) = true /\
  agree (0%N, pack ds2') = false /\
  failing [(7%N, pack ds); (8%N, pack ds'); (9%N, pack ds2')] = [8%N; 9%N] /\
  (* two concurrent calls (leading digit 3): thread 3 holds Obj 3 locally; Enter 1 (foreign object) || Enter 2 (unknown name),
     both rejected; nobody's view changed; altering the last observation is noticed *)
  agree (1%N, pack [3;0;4;1; 1; 0;3;1;3;1; 1;1;2;0;0; 1; 1;2;0;5;0; 1; 0;2; 0;2; 0;2; 2;11; 0]) = true /\
  agree (1%N, pack [3;0;4;1; 1; 0;3;1;3;1; 1;1;2;0;0; 1; 1;2;0;5;0; 1; 0;2; 0;2; 0;2; 2;10; 0]) = false.
Proof. vm_compute. repeat split. Qed.
