(* Correspondence for C18.
   CTab / CDiv / CAbs: entries of the promotion, true-division and abs tables as MEASURED from the installed NumPy on this
                       run (arrays and NumPy scalars for strong dtypes, Python scalars for weak ones) against Model/Dtype.v.
   CEp:                an entry-point configuration executed by the implementation with data dtype t and mask dtype m for
                       n sweeps; obs = the (slot, dtype) pairs of EVERY array in the returned structure (None = a dtype
                       outside the model) against the dtypes computed by the skeleton. *)
From Coq Require Import List Bool Arith String.
From TLV Require Import Model.Dtype Model.DtypeHist Corr.Common.
Import ListNotations.

Inductive case :=
| CTab (id : nat) (a b r : dt)
| CDiv (id : nat) (a b r : dt)
| CAbs (id : nat) (a r : dt)
| CEp (id : nat) (c : cfg) (t m : dt) (n : nat) (obs : list (string * option dt))
| CEpV (id : nat) (mc : bool) (c : cfg) (t m : dt) (n : nat) (obs : list (string * option dt))
| CExt (id : nat) (level : nat) (p : prog)
| CExtX (id : nat) (level : nat) (p : prog) (want : list nat)
| CTr (id : nat) (t m : dt) (p : prog) (obs : list (option dt))
| CHist (id : nat) (G : list nat) (p : prog) (expect : bool).
(* CHist: a dtype program extracted from the source of a function that refers to PERSISTENT state (module-level containers / singletons,
   names declared `global`): G = the variables standing for that state.  The program must pass the history-freedom check of
   Model/DtypeHist.v (no read of a persistent variable before this call has overwritten it; Theorem C18_history_independent);
   expect = false only for the harness's built-in canaries (a dtype-oblivious cache must be REJECTED) *)
(* CTr: self-test of the source translator: a random straight-line function was executed by Python / NumPy / TensorLy with data
   dtype t and mask dtype m; obs = the dtypes of its returned arrays, in order; p = its translation.  Exact comparison. *)
(* CExt: a dtype program extracted from the Python source of one function on this run; level 2: must pass the tolerant
   program check for every mask dtype, level 1: for a mask of the data's dtype *)
(* CExtX: the outputs at the positions `want` of an extracted program must be certified to have EXACTLY the data's dtype ('complex
   stays complex'), level 2: for every mask dtype, level 1: for a mask of the data's dtype *)
(* CEpV: the same against an explicitly chosen code variant (used to validate a candidate repair on a patched worktree) *)

Definition slot_match (model_slot obs_slot : string) : bool := String.eqb model_slot "*" || String.eqb model_slot obs_slot.

Definition agree_prog (p : prog) (t m : dt) (n : nat) (obs : list (string * option dt)) : bool :=
  let model := out_dtypes (mkenv t m) p n in
  forallb (fun o => match snd o with
                    | None => false
                    | Some d => existsb (fun mo => slot_match (fst mo) (fst o) && dt_eqb (snd mo) d) model
                    end) obs
  && forallb (fun mo => existsb (fun o => slot_match (fst mo) (fst o)) obs) model.

Definition agree (c : case) : bool :=
  match c with
  | CTab _ a b r => dt_eqb (promote a b) r
  | CDiv _ a b r => dt_eqb (to_float (promote a b)) r
  | CAbs _ a r => dt_eqb (real_of a) r
  | CEp _ c t m n obs => agree_prog (skeleton c) t m n obs
  | CEpV _ mc c t m n obs => agree_prog (skeleton_v mc c) t m n obs
  | CExt _ level p => match level with 2 => ext_ok_any p | _ => ext_ok_same p end
  | CExtX _ level p want => match level with 2 => ext_exact_any p want | _ => ext_exact_same p want end
  | CTr _ t m p obs =>
      let model := map snd (out_dtypes (mkenv t m) p 0) in
      Nat.eqb (List.length model) (List.length obs) &&
      forallb (fun xo => match snd xo with Some d => dt_eqb (fst xo) d | None => false end) (combine model obs)
  | CHist _ G p expect => Bool.eqb (hist_free G p) expect
  end.
Definition ident (c : case) : nat := match c with CTab i _ _ _ | CDiv i _ _ _ | CAbs i _ _ | CEp i _ _ _ _ _ | CEpV i _ _ _ _ _ _ | CExt i _ _ | CExtX i _ _ _ | CTr i _ _ _ _ | CHist i _ _ _ => i end.
Definition failing := failing_ids agree ident.
