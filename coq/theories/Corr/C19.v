(* Correspondence for C19: run the model of the regressors' predict / stored attributes and of
   CP_PLSR.transform / predict on the same inputs as the implementation.
   Integer-valued cases are compared bit for bit (Z); fitted (float64) attributes are read as exact
   rationals, the model is evaluated in Q (reduced after every operation) and compared with tolerance. *)
From Coq Require Import List Arith ZArith QArith Bool.
From TLV Require Import Base.Shape Base.PyList Base.Tensor Base.Ops Model.Base Model.Regress Corr.Common.
Import ListNotations.

Inductive kase :=
| KPredCPZ (W X : tensor Z) (expected : res (tensor Z))
| KPredTKZ (vecW X : tensor Z) (expected : res (tensor Z))
| KPredCPQ (W X : tensor Q) (expected : res (tensor Q))
| KPredTKQ (vecW X : tensor Q) (expected : res (tensor Q))
(* stored attributes vs the exposed factors: weights, factors, weight_tensor_, vec_W_ *)
| KFitCP (w : tensor Q) (fs : list (tensor Q)) (W vecW : tensor Q)
| KFitTK (G : tensor Q) (fs : list (tensor Q)) (W vecW : tensor Q)
(* fitted regressor end to end: factors + new X -> predict *)
| KRegCP (w : tensor Q) (fs : list (tensor Q)) (X : tensor Q) (expected : res (tensor Q))
| KRegTK (G : tensor Q) (fs : list (tensor Q)) (X : tensor Q) (expected : res (tensor Q))
(* CP_PLSR: X_mean_, per-component loading vectors, X -> transform(X) *)
| KPlsrTransform (xmean : tensor Q) (loads : list (list (tensor Q))) (X expected : tensor Q)
| KPlsrPredict (xmean ymean : tensor Q) (loads : list (list (tensor Q))) (coef yload X expected : tensor Q)
(* T.mean(X, axis=0) and the centring *)
| KMean (X expected : tensor Q).

Definition atol : Q := Qmake 1 1000000000.
Definition rtol : Q := Qmake 1 1000000000.
Definition qres_close := res_eqb (qt_close atol rtol).
Definition ok_close (r : res (tensor Q)) (e : tensor Q) : bool :=
  match r with Ok t => qt_close atol rtol t e | Err => false end.

Definition agree_k (k : kase) : bool :=
  match k with
  | KPredCPZ W X e => res_eqb zt_eqb (predict_cp Zops W X) e
  | KPredTKZ v X e => res_eqb zt_eqb (predict_tucker Zops v X) e
  | KPredCPQ W X e => qres_close (predict_cp Qops W X) e
  | KPredTKQ v X e => qres_close (predict_tucker Qops v X) e
  | KFitCP w fs W vecW =>
      let st := cp_fit_tail Qops w fs in
      qt_close atol rtol (weight_tensor_ st) W && ok_close (vec_W_ st) vecW
  | KFitTK G fs W vecW =>
      let st := tucker_fit_tail Qops G fs in
      qt_close atol rtol (weight_tensor_ st) W && ok_close (vec_W_ st) vecW
  | KRegCP w fs X e => qres_close (cp_regressor_predict Qops w fs X) e
  | KRegTK G fs X e => qres_close (tucker_regressor_predict Qops G fs X) e
  | KPlsrTransform xm loads X e => qt_close atol rtol (transform Qops xm loads X) e
  | KPlsrPredict xm ym loads coef yl X e => qt_close atol rtol (plsr_predict Qops xm ym loads coef yl X) e
  | KMean X e => qt_close atol rtol (mean0 Qops X) e
  end.

Definition case := (nat * kase)%type.
Definition agree (c : case) : bool := agree_k (snd c).
Definition ident (c : case) : nat := fst c.
Definition failing := failing_ids agree ident.
