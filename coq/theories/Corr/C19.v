(* Correspondence for C19: run the model of the regressors' predict / stored attributes and of
   CP_PLSR.transform / predict on the same inputs as the implementation.
   Integer-valued cases are compared bit for bit (Z); fitted (float64) attributes are read as exact
   rationals, the regressors' model is evaluated in Q (reduced after every operation), the CP_PLSR model in
   binary fixed point with 70 fractional bits (Zfx below), and compared with tolerance. *)
From Coq Require Import List Arith ZArith QArith Bool.
From TLV Require Import Base.Shape Base.PyList Base.Tensor Base.Ops Model.Base Model.Regress Model.RegressObj Model.RegressObj2 Corr.Common.
(* support of the ridge-block source tie (harness/props/C19_blocks.py compiles generated files against it) *)
From TLV Require Model.RegressSrc.
Import ListNotations.

Inductive qcall :=
| QFit (X Y : tensor Q) (itape : list (tensor Q * list (tensor Q))) (btape : list (list Q))
| QFitTransform (X Y : tensor Q) (itape : list (tensor Q * list (tensor Q))) (btape : list (list Q))
(* a fit during which the lstsq call of component c raises (injected LinAlgError) *)
| QFitRaise (c : nat) (X Y : tensor Q) (itape : list (tensor Q * list (tensor Q))) (btape : list (list Q))
(* a fit during which the initialize_cp call of component c raises (injected LinAlgError) *)
| QFitInitRaise (c : nat) (X Y : tensor Q) (itape : list (tensor Q * list (tensor Q))) (btape : list (list Q))
(* score(X, Y) for a matrix Y *)
| QScore (X Y : tensor Q)
| QPredict (X : tensor Q)
| QTransform (X : tensor Q) (Yo : option (tensor Q))
| QSetParams (ncomp n_iter : nat) (tol : Q).

(* the data of one regressor fit call of a sequence, for the model's own fit loop: CP (tol, reg_W, rank, output shape, X, y, replayed
   initial factors, tape of iterates) / Tucker (tol, reg_W, X, y, replayed initial core and factors, tape) / a call that raised *)
Inductive fitd :=
| FDcp (tol reg : Q) (R : nat) (so : list nat) (X y : tensor Q) (W0 : list (tensor Q)) (tape : list (list (tensor Q)))
| FDtk (tol reg : Q) (X y : tensor Q) (G0 : tensor Q) (W0 : list (tensor Q)) (tape : list (tensor Q * list (tensor Q)))
| FDraise.

Inductive kase :=
| KPredCPZ (W X : tensor Z) (expected : res (tensor Z))
| KPredTKZ (vecW X : tensor Z) (expected : res (tensor Z))
| KPredCPQ (W X : tensor Q) (expected : res (tensor Q))
| KPredTKQ (vecW X : tensor Q) (expected : res (tensor Q))
(* stored attributes vs the exposed factors: weights, factors, weight_tensor_, vec_W_ *)
| KFitCP (w : tensor Q) (fs : list (tensor Q)) (W vecW : tensor Q)
| KFitTK (G : tensor Q) (fs : list (tensor Q)) (W vecW : tensor Q)
(* fitted regressor end to end: factors + new X -> predict *)
| KRegCP (w : tensor Q) (fs : list (tensor Q)) (X : tensor Q) (expected : res (tensor Q))
| KRegTK (G : tensor Q) (fs : list (tensor Q)) (X : tensor Q) (expected : res (tensor Q))
(* CP_PLSR: X_mean_, per-component loading vectors, X -> transform(X) *)
| KPlsrTransform (xmean : tensor Q) (loads : list (list (tensor Q))) (X expected : tensor Q)
| KPlsrPredict (xmean ymean : tensor Q) (loads : list (list (tensor Q))) (coef yload X expected : tensor Q)
(* CP_PLSR.transform(X, Y)[1]: means, loadings, columns of coef_, Y loadings, X, Y -> Y score columns *)
| KPlsrTransformY (xmean ymean : tensor Q) (loads : list (list (tensor Q))) (bs : list (list Q)) (qs : list (tensor Q))
                  (X Y : tensor Q) (expected : list (list Q))
(* CP_PLSR.fit run to convergence: as KPlsrFit with a real tolerance; compared only when the model's stopping
   decisions have a margin (same result with 0.8 tol and 1.25 tol) *)
| KPlsrFitConv (n_iter ncomp : nat) (tol : Q) (itape : list (tensor Q * list (tensor Q))) (btape : list (list Q))
           (X Y : tensor Q) (e_loads : list (list (tensor Q))) (e_scores : list (list Q))
           (e_yloads : list (tensor Q)) (e_yscores : list (list Q))
(* CPRegressor.fit: the loop around the concrete ridge blocks.  tape = the factors after pass 1, 2, ... (from runs with
   n_iter_max = 1, 2, ... and no stopping); T.solve answers are read from the tape and, from pass 2 on, certified
   (A x = B) against the model's design matrices; the run (n_iter_max, tol) must store eW / efs *)
| KCpLoop (n_iter : nat) (tol reg : Q) (R : nat) (so : list nat) (X y : tensor Q) (W0 : list (tensor Q))
          (tape : list (list (tensor Q))) (eW : tensor Q) (efs : list (tensor Q)) (e_nit : nat) (e_norms : list Q)
(* TuckerRegressor.fit: the same around the concrete factor and core blocks; tape of (core, factors) *)
| KTkLoop (n_iter : nat) (tol reg : Q) (X y : tensor Q) (G0 : tensor Q) (W0 : list (tensor Q))
          (tape : list (tensor Q * list (tensor Q))) (eW : tensor Q) (e_nit : nat) (e_norms : list Q)
(* W0 / G0 = the random initial factors (replayed from the seeded generator): with them pass 1 is certified too; W0 = [] : unknown
   (pass 1 played back) *)
(* CP_PLSR.fit on consistently re-ordered samples (X[p], Y[p]): the implementation's results on the re-ordered data against the
   model's on the ORIGINAL data re-ordered by pick (tapes from the original run) *)
| KPlsrFitPerm (p : list nat) (n_iter ncomp : nat) (tol : Q) (itape : list (tensor Q * list (tensor Q))) (btape : list (list Q))
           (X Y : tensor Q) (e_loads : list (list (tensor Q))) (e_scores : list (list Q))
           (e_yloads : list (tensor Q)) (e_yscores : list (list Q))
(* the budget test of CP_PLSR.fit: does fit raise? *)
| KPlsrBudget (n_iter ncomp : nat) (X Y : tensor Q) (raised : bool)
(* one CPRegressor (cp = true) / TuckerRegressor object under a sequence of calls.  Prm = (n_iter_max, the other constructor
   parameters as numbers); a fit call names an entry of `fits`: the (weights | core, factors) a FRESH object exposes after the
   same fit (None: that fit raised); expected = what each call on the ONE re-used object returned *)
| KRegSeq (cp : bool) (p0 : nat * list Q) (fits : list (option (tensor Q * list (tensor Q))))
          (calls : list (rcall (F:=Q) (Prm:=nat * list Q) (D:=nat))) (expected : list (rout (F:=Q) (Prm:=nat * list Q)))
(* the same with every fit of the sequence computed by the MODEL's fit loop (concrete ridge blocks, certified T.solve answers from a
   tape of iterates, replayed initial factors) with the n_iter_max in force, in fixed point *)
| KRegSeqZ (p0 : nat * list Q) (fits : list fitd)
           (calls : list (rcall (F:=Q) (Prm:=nat * list Q) (D:=nat))) (expected : list (rout (F:=Q) (Prm:=nat * list Q)))
(* the arguments (A, B) of every T.solve call of one pass of CPRegressor.fit / TuckerRegressor.fit on INTEGER data (integer initial
   factors, an integer reg_W, integer answers handed back by an instrumented solve): the model's design matrices phi'phi + reg_W I and phi'y, exactly *)
| KRidgeCPZ (reg : Z) (R : nat) (so : list nat) (X y : tensor Z) (W0 : list (tensor Z)) (newW : list (tensor Z)) (eAB : list (tensor Z * tensor Z))
| KRidgeTKZ (reg : Z) (X y : tensor Z) (G0 : tensor Z) (W0 : list (tensor Z)) (newW : list (tensor Z)) (eAB : list (tensor Z * tensor Z))
(* CP_PLSR.score(X, Y) from the fitted attributes *)
| KPlsrScore (xmean ymean : tensor Q) (loads : list (list (tensor Q))) (coef yload X Y : tensor Q) (expected : Q)
(* one CP_PLSR object under a sequence of calls (validation, attributes, call-time n_components); each fit call carries the
   answers of initialize_cp / lstsq recorded from a fresh object's identical fit *)
| KPlsrSeq (ncomp n_iter : nat) (tol : Q) (calls : list qcall) (expected : list (pout (F:=Q)))
(* T.mean(X, axis=0) and the centring *)
| KMean (X expected : tensor Q)
(* the whole of CP_PLSR.fit with a fixed number of passes (tol = 0: never stops early; tol huge: stops after the
   second pass): X, Y, n_iter_max, n_components, tol, the answers of initialize_cp (keyed by its argument Z) and of
   lstsq (one per component) -> per component: loading vectors, X scores, Y loading, Y scores *)
| KPlsrFit (n_iter ncomp : nat) (tol : Q) (itape : list (tensor Q * list (tensor Q))) (btape : list (list Q))
           (X Y : tensor Q) (e_loads : list (list (tensor Q))) (e_scores : list (list Q))
           (e_yloads : list (tensor Q)) (e_yscores : list (list Q)).

Definition atol : Q := Qmake 1 1000000000.
Definition rtol : Q := Qmake 1 1000000000.
Definition qres_close := res_eqb (qt_close atol rtol).
Definition ok_close (r : res (tensor Q)) (e : tensor Q) : bool :=
  match r with Ok t => qt_close atol rtol t e | Err => false end.

(* execution instance for the iterative part: binary fixed point, 70 fractional bits, carried by Z (no gcds, the
   numbers stay small over many passes; the rounding is 12 orders of magnitude below the comparison tolerance) *)
Definition fxb : Z := 70%Z.
Definition Zfx : fops Z :=
  mkF 0%Z (Z.shiftl 1 fxb) Z.add Z.sub (fun a b => Z.shiftr (a * b) fxb)
      (fun a b => if Z.eqb b 0 then 0%Z else Z.div (Z.shiftl a fxb) b) Z.opp Z.leb.
Definition zsqrt (x : Z) : Z := Z.sqrt (Z.shiftl x fxb).
Definition to_fx (x : Q) : Z := Z.div (Z.shiftl (Qnum x) fxb) (Zpos (Qden x)).
Definition fx_den : positive := Z.to_pos (Z.shiftl 1 fxb).
Definition of_fx (z : Z) : Q := Qmake z fx_den.
Definition t_to_fx (t : tensor Q) : tensor Z := mk (shape t) (map to_fx (data t)).
Definition t_of_fx (t : tensor Z) : tensor Q := mk (shape t) (map of_fx (data t)).

Definition ftol : Q := Qmake 1 100000000.
Definition key_tol : Q := Qmake 1 1000000.
(* initialize_cp answers: the entry recorded for (a tensor close to) Z *)
Fixpoint init_of (tape : list (tensor Q * list (tensor Q))) (Z : tensor Q) : list (tensor Q) :=
  match tape with
  | [] => []
  | (k, a) :: rest => if qt_close key_tol key_tol k Z then a else init_of rest Z
  end.
(* lstsq answers: component c solves a (c+1)-column problem *)
Definition solve_of {A} (tape : list (list Q)) (G : list (list A)) (b : list A) : list Q := nth (length b - 1) tape [].

Fixpoint all2 {A B} (f : A -> B -> bool) (a : list A) (b : list B) : bool :=
  match a, b with [], [] => true | x :: a', y :: b' => f x y && all2 f a' b' | _, _ => false end.

Local Open Scope nat_scope.
Definition plsr_run (n_iter ncomp : nat) (tol : Q) itape btape (X Y : tensor Q) :=
  cp_plsr_fit Zfx zsqrt (fun Z => map t_to_fx (init_of itape (t_of_fx Z)))
         (fun G b => map to_fx (solve_of btape G b)) (to_fx tol) n_iter ncomp (t_to_fx X) (t_to_fx Y).
Definition plsr_close_sel (sel : list Z -> list Z) (rr : res (plsr (F:=Z))) e_loads e_scores e_yloads e_yscores : bool :=
  match rr with
  | Err => false
  | Ok r =>
  all2 (all2 (fun a e => qt_close ftol ftol (t_of_fx a) e)) (loadings r) e_loads &&
  all2 (fun a e => q_list_close ftol ftol (map of_fx (sel a)) e) (fitted_scores r) e_scores &&
  all2 (fun a e => qt_close ftol ftol (t_of_fx a) e) (map (c_yload (F:=Z)) (comps r)) e_yloads &&
  all2 (fun a e => q_list_close ftol ftol (map of_fx (sel a)) e) (map (c_yscore (F:=Z)) (comps r)) e_yscores
  end.
Definition plsr_close := plsr_close_sel (fun a => a).
Definition zl_eqb (a b : list Z) : bool := z_list_eqb a b.
Definition plsr_same (ra rb : res (plsr (F:=Z))) : bool :=
  match ra, rb with
  | Ok a, Ok b => all2 zl_eqb (fitted_scores a) (fitted_scores b) && all2 (all2 zt_eqb) (loadings a) (loadings b)
  | _, _ => false
  end.

(* ---- the regressors' loop ---- *)
Definition znorm (t : tensor Z) : Z := zsqrt (fold_left (fun acc x => Z.add acc (fmul Zfx x x)) (data t) 0%Z).
(* the stopping test of the source (Model/RegressObj.rel_small; re-derived from the Python source on every run) *)
Definition zsmall (tol : Z) (a b : Z) : bool := rel_small Zfx tol a b.
Definition zclose (a b : Z) : bool :=       (* |a - b| <= 1e-7 (1 + |a| + |b|) in fixed point *)
  Z.leb (Z.abs (a - b) * 10000000) (Z.shiftl 1 fxb + Z.abs a + Z.abs b).
Definition zt_close (a b : tensor Z) : bool := nat_list_eqb (shape a) (shape b) && all2 zclose (data a) (data b).
(* A x for a vector or matrix x *)
Definition zmatmul (A x : tensor Z) : tensor Z :=
  let p := nth 0 (shape A) 0 in let q := nth 1 (shape A) 0 in
  match shape x with
  | [_] => tabulate [p] (fun idx => fsumn Zfx q (fun t => fmul Zfx (tget Zfx A [nth 0 idx 0; t]) (tget Zfx x [t])))
  | _ => tabulate [p; nth 1 (shape x) 0]
           (fun idx => fsumn Zfx q (fun t => fmul Zfx (tget Zfx A [nth 0 idx 0; t]) (tget Zfx x [t; nth 1 idx 0])))
  end.
(* the recorded answer of T.solve for block i: the new factor in the layout solve returns it *)
Definition solve_answer (kin : nat) (Wnew : tensor Z) (i : nat) : tensor Z :=
  if i <? kin then reshape [prod (shape Wnew)] Wnew else mtranspose Zfx Wnew.
Definition solve_chk (check : bool) (kin : nat) (newfs : list (tensor Z)) (i : nat) (A B : tensor Z) : tensor Z :=
  let x := solve_answer kin (nth i newfs (mk [] [])) i in
  if negb check || zt_close (zmatmul A x) B then x else mk [] [].
Definition ones_fx (R : nat) : tensor Z := tabulate [R] (fun _ => f1 Zfx).
Definition cp_loop_run (n_iter : nat) (tol reg : Q) (R : nat) (so : list nat) (X y : tensor Q) (W0 : list (tensor Q))
  (tape : list (list (tensor Q))) :=
  let Xz := t_to_fx X in let yz := t_to_fx y in let kin := length (sshape X) in
  let known := negb (Nat.eqb (length W0) 0) in
  let sweep := fun st : nat * list (tensor Z) =>
    let newfs := map t_to_fx (nth (fst st) tape []) in
    (S (fst st), cp_sweep Zfx (solve_chk (known || (0 <? fst st)) kin newfs) (to_fx reg) Xz yz so R
                   (if (fst st =? 0) && negb known then newfs else snd st)) in
  reg_fit_full sweep (fun st => Regress.cp_to_tensor Zfx (ones_fx R) (snd st)) znorm (zsmall (to_fx tol)) n_iter (0, map t_to_fx W0).
Definition tk_solve_chk (check : bool) (newb : tensor Z * list (tensor Z)) (i : nat) (A B : tensor Z) : tensor Z :=
  let t := if i <? length (snd newb) then nth i (snd newb) (mk [] []) else fst newb in
  let x := reshape [prod (shape t)] t in
  if negb check || zt_close (zmatmul A x) B then x else mk [] [].
Definition tk_loop_run (n_iter : nat) (tol reg : Q) (X y : tensor Q) (G0 : tensor Q) (W0 : list (tensor Q))
  (tape : list (tensor Q * list (tensor Q))) :=
  let Xz := t_to_fx X in let yz := t_to_fx y in
  let known := negb (Nat.eqb (length W0) 0) in
  let sweep := fun st : nat * (tensor Z * list (tensor Z)) =>
    let e := nth (fst st) tape (mk [] [], []) in
    let newb := (t_to_fx (fst e), map t_to_fx (snd e)) in
    (S (fst st), tk_concrete_sweep Zfx (tk_solve_chk (known || (0 <? fst st)) newb) (to_fx reg) Xz yz
                   (if (fst st =? 0) && negb known then newb else snd st)) in
  reg_fit_full sweep (fun st => Regress.tucker_to_tensor Zfx (fst (snd st)) (snd (snd st))) znorm (zsmall (to_fx tol)) n_iter
          (0, (t_to_fx G0, map t_to_fx W0)).
Definition passes_eq {P} (a b : res (reg_full (F:=Z) (P:=P))) (f : P -> nat) : bool :=
  match a, b with Ok x, Ok y => Nat.eqb (f (r_blocks (rf_stored x))) (f (r_blocks (rf_stored y))) | _, _ => false end.
(* n_iterations_ and norm_W_ *)
Definition trace_ok {P} (r : reg_full (F:=Z) (P:=P)) (e_nit : nat) (e_norms : list Q) : bool :=
  Nat.eqb (rf_n_iterations r) e_nit && q_list_close ftol ftol (map of_fx (rf_norm_W r)) e_norms.

(* ---- the regressor objects ---- *)
Definition RPrm := (nat * list Q)%type.
Definition seq_fit (cp : bool) (fits : list (option (tensor Q * list (tensor Q)))) (p : RPrm) (d : nat)
  : res (reg_stored (F:=Q) (P:=tensor Q * list (tensor Q))) :=
  let rebuild := if cp then cp_rebuild Qops else tucker_rebuild Qops in
  reg_fit (fun _ => match nth d fits None with Some b => b | None => (mk [] [], []) end) rebuild (fun _ => 0%Q) (fun _ _ => false)
          (match nth d fits None with Some _ => Nat.min (fst p) 1 | None => 0 end) (mk [] [], []).
Definition seq_predict (cp : bool) (st : reg_stored (F:=Q) (P:=tensor Q * list (tensor Q))) (X : tensor Q) : res (tensor Q) :=
  if cp then predict_cp Qops (r_weight_tensor st) X else rbind (r_vec st) (fun v => predict_tucker Qops v X).
Definition prm_eqb (a b : RPrm) : bool := Nat.eqb (fst a) (fst b) && q_list_eqb (snd a) (snd b).
Definition rout_close (a e : rout (F:=Q) (Prm:=RPrm)) : bool :=
  match a, e with
  | OSelf, OSelf => true
  | ORaise, ORaise => true
  | OTensor t, OTensor u => qt_close atol rtol t u
  | OParams p, OParams q => prm_eqb p q
  | _, _ => false
  end.

(* the regressor objects with the model's own fit: attributes = (weight_tensor_, vec_W_; is it a CP regressor) *)
Definition ZSt := (tensor Z * res (tensor Z) * bool)%type.
Definition seqz_fit (fits : list fitd) (p : RPrm) (d : nat) : res ZSt :=
  match nth d fits FDraise with
  | FDcp tol reg R so X y W0 tape =>
      match cp_loop_run (fst p) tol reg R so X y W0 tape with
      | Ok r => Ok (r_weight_tensor (rf_stored r), r_vec (rf_stored r), true)
      | Err => Err
      end
  | FDtk tol reg X y G0 W0 tape =>
      match tk_loop_run (fst p) tol reg X y G0 W0 tape with
      | Ok r => Ok (r_weight_tensor (rf_stored r), r_vec (rf_stored r), false)
      | Err => Err
      end
  | FDraise => Err
  end.
Definition seqz_predict (st : ZSt) (X : tensor Z) : res (tensor Z) :=
  if snd st then predict_cp Zfx (fst (fst st)) X else rbind (snd (fst st)) (fun v => predict_tucker Zfx v X).
Definition call_to_fx (c : rcall (F:=Q) (Prm:=RPrm) (D:=nat)) : rcall (F:=Z) (Prm:=RPrm) (D:=nat) :=
  match c with RFit d => RFit d | RPredict X => RPredict (t_to_fx X) | RSetParams p => RSetParams p | RGetParams => RGetParams end.
Definition routz_close (a : rout (F:=Z) (Prm:=RPrm)) (e : rout (F:=Q) (Prm:=RPrm)) : bool :=
  match a, e with
  | OSelf, OSelf => true
  | ORaise, ORaise => true
  | OTensor t, OTensor u => qt_close ftol ftol (t_of_fx t) u
  | OParams p, OParams q => prm_eqb p q
  | _, _ => false
  end.

(* ---- the ridge blocks, exactly ---- *)
Definition cp_AB (reg : Z) (R : nat) (so : list nat) (X y : tensor Z) (fs : list (tensor Z)) (i : nat) : tensor Z * tensor Z :=
  if i <? length (sshape X) then
    let phi := cp_phi_in Zops X fs so R i in (ridge_lhs Zops reg phi, ridge_rhs Zops phi (reshape [prod (shape y)] y))
  else
    let phi := cp_phi_out Zops X fs so R i in (ridge_lhs Zops reg phi, ridge_rhs Zops phi (cp_y_out Zops y so (i - length (sshape X)))).
Definition ab_eqb (a b : tensor Z * tensor Z) : bool := zt_eqb (fst a) (fst b) && zt_eqb (snd a) (snd b).
Fixpoint ridge_cp_walk (reg : Z) (R : nat) (so : list nat) (X y : tensor Z) (cur newW : list (tensor Z)) (eAB : list (tensor Z * tensor Z)) (i : nat) : bool :=
  match eAB with
  | [] => true
  | e :: rest => ab_eqb (cp_AB reg R so X y cur i) e &&
                 ridge_cp_walk reg R so X y (set_nth i (nth i newW (mk [] [])) cur) newW rest (S i)
  end.
Definition tk_AB (reg : Z) (X y G : tensor Z) (fs : list (tensor Z)) (i : nat) : tensor Z * tensor Z :=
  let phi := if i <? length fs then tk_phi_mode Zops X G fs i else tk_phi_core Zops X fs (shape G) in
  (ridge_lhs Zops reg phi, ridge_rhs Zops phi y).
Fixpoint ridge_tk_walk (reg : Z) (X y G : tensor Z) (cur newW : list (tensor Z)) (eAB : list (tensor Z * tensor Z)) (i : nat) : bool :=
  match eAB with
  | [] => true
  | e :: rest => ab_eqb (tk_AB reg X y G cur i) e &&
                 ridge_tk_walk reg X y G (if i <? length cur then set_nth i (nth i newW (mk [] [])) cur else cur) newW rest (S i)
  end.

(* ---- the CP_PLSR object ---- *)
Definition fx_init itape := fun Z => map t_to_fx (init_of itape (t_of_fx Z)).
Definition fx_solve btape := fun (G : list (list Z)) (b : list Z) => map to_fx (solve_of btape G b).
Fixpoint plsr_seq (o : pobj (F:=Z)) (cs : list qcall) : list (pout (F:=Z)) :=
  match cs with
  | [] => []
  | c :: rest =>
      let s := match c with
               | QFit X Y it bt => pstep Zfx zsqrt (fx_init it) (fx_solve bt) o (PFit (t_to_fx X) (t_to_fx Y))
               | QFitTransform X Y it bt => pstep Zfx zsqrt (fx_init it) (fx_solve bt) o (PFitTransform (t_to_fx X) (t_to_fx Y))
               | QFitRaise c X Y it bt =>
                   match plsr_fit_entry_raising Zfx zsqrt (fx_init it) (fx_solve bt) c (po_prm o) (t_to_fx X) (t_to_fx Y) with
                   | FitRaiseClean => (o, PRaise)
                   | FitRaisePartial a => (mkPobj (po_prm o) (Some a), PRaise)
                   | FitOk a => (mkPobj (po_prm o) (Some a), PSelf)
                   end
               | QFitInitRaise c X Y it bt =>
                   match plsr_fit_entry_init_raising Zfx zsqrt (fx_init it) (fx_solve bt) c (po_prm o) (t_to_fx X) (t_to_fx Y) with
                   | FitRaiseClean => (o, PRaise)
                   | FitRaisePartial a => (mkPobj (po_prm o) (Some a), PRaise)
                   | FitOk a => (mkPobj (po_prm o) (Some a), PSelf)
                   end
               | QScore X Y =>
                   (o, match po_attrs o with
                       | None => PRaise
                       | Some a => match plsr_score_entry Zfx (po_prm o) a (t_to_fx X) (t_to_fx Y) with
                                   | Ok v => PTensor (mk [] [v])
                                   | Err => PRaise
                                   end
                       end)
               | QPredict X => pstep Zfx zsqrt (fx_init []) (fx_solve []) o (PPredict (t_to_fx X))
               | QTransform X Yo => pstep Zfx zsqrt (fx_init []) (fx_solve []) o
                                      (PTransform (t_to_fx X) (match Yo with Some Y => Some (t_to_fx Y) | None => None end))
               | QSetParams k n t => pstep Zfx zsqrt (fx_init []) (fx_solve []) o (PSetParams (mkPprm k n (to_fx t)))
               end in
      snd s :: plsr_seq (fst s) rest
  end.
Definition pout_close (a : pout (F:=Z)) (e : pout (F:=Q)) : bool :=
  match a, e with
  | PSelf, PSelf => true
  | PRaise, PRaise => true
  | PTensor t, PTensor u => qt_close ftol ftol (t_of_fx t) u
  | PPair t t', PPair u u' => qt_close ftol ftol (t_of_fx t) u && qt_close ftol ftol (t_of_fx t') u'
  | _, _ => false
  end.

Definition agree_k (k : kase) : bool :=
  match k with
  | KPredCPZ W X e => res_eqb zt_eqb (predict_cp Zops W X) e
  | KPredTKZ v X e => res_eqb zt_eqb (predict_tucker Zops v X) e
  | KPredCPQ W X e => qres_close (predict_cp Qops W X) e
  | KPredTKQ v X e => qres_close (predict_tucker Qops v X) e
  | KFitCP w fs W vecW =>
      let st := cp_fit_tail Qops w fs in
      qt_close atol rtol (weight_tensor_ st) W && ok_close (vec_W_ st) vecW
  | KFitTK G fs W vecW =>
      let st := tucker_fit_tail Qops G fs in
      qt_close atol rtol (weight_tensor_ st) W && ok_close (vec_W_ st) vecW
  | KRegCP w fs X e => qres_close (cp_regressor_predict Qops w fs X) e
  | KRegTK G fs X e => qres_close (tucker_regressor_predict Qops G fs X) e
  | KPlsrTransform xm loads X e =>
      qt_close atol rtol (t_of_fx (transform Zfx (t_to_fx xm) (map (map t_to_fx) loads) (t_to_fx X))) e
  | KPlsrPredict xm ym loads coef yl X e =>
      qt_close atol rtol (t_of_fx (plsr_predict Zfx (t_to_fx xm) (t_to_fx ym) (map (map t_to_fx) loads) (t_to_fx coef) (t_to_fx yl) (t_to_fx X))) e
  | KMean X e => qt_close atol rtol (t_of_fx (mean0 Zfx (t_to_fx X))) e
  | KPlsrFitConv n_iter ncomp tol itape btape X Y e_loads e_scores e_yloads e_yscores =>
      let lo := plsr_run n_iter ncomp (tol * (4 # 5))%Q itape btape X Y in
      let hi := plsr_run n_iter ncomp (tol * (5 # 4))%Q itape btape X Y in
      if plsr_same lo hi then plsr_close lo e_loads e_scores e_yloads e_yscores else true
  | KRegSeq cp p0 fits calls expected =>
      all2 rout_close (snd (rrun (seq_fit cp fits) (seq_predict cp) (mkRobj p0 None) calls)) expected
  | KPlsrScore xm ym loads coef yl X Y e =>
      (* the attributes as a fitted object: one component record per column (B = column of coef_, Y loading = column of Y_factors[1]) *)
      let k := length loads in
      let cs := map (fun c => mkComp (nth c (map (map t_to_fx) loads) []) [] (tabulate [nth 0 (shape yl) 0] (fun idx => to_fx (get 0%Q yl [nth 0 idx 0; c])))
                                    [] (map (fun r => to_fx (get 0%Q coef [r; c])) (seq 0 k))) (seq 0 k) in
      let a := mkPattrs (shape X) (shape Y) (mkPlsr (t_to_fx xm) (t_to_fx ym) cs) in
      qclose ftol ftol (of_fx (plsr_score Zfx a (t_to_fx X) (t_to_fx Y))) e
  | KRidgeCPZ reg R so X y W0 newW eAB => Nat.eqb (length eAB) (length W0) && ridge_cp_walk reg R so X y W0 newW eAB 0
  | KRidgeTKZ reg X y G0 W0 newW eAB => Nat.eqb (length eAB) (S (length W0)) && ridge_tk_walk reg X y G0 W0 newW eAB 0
  | KRegSeqZ p0 fits calls expected =>
      all2 routz_close (snd (rrun (seqz_fit fits) seqz_predict (mkRobj p0 None) (map call_to_fx calls))) expected
  | KPlsrSeq ncomp n_iter tol calls expected =>
      all2 pout_close (plsr_seq (mkPobj (mkPprm ncomp n_iter (to_fx tol)) None) calls) expected
  | KCpLoop n_iter tol reg R so X y W0 tape eW efs e_nit e_norms =>
      let lo := cp_loop_run n_iter (tol * (4 # 5))%Q reg R so X y W0 tape in
      let hi := cp_loop_run n_iter (tol * (5 # 4))%Q reg R so X y W0 tape in
      if passes_eq lo hi fst then
        match lo with
        | Ok r => let st := rf_stored r in
                   qt_close ftol ftol (t_of_fx (r_weight_tensor st)) eW &&
                   all2 (fun a e => qt_close ftol ftol (t_of_fx a) e) (snd (r_blocks st)) efs && trace_ok r e_nit e_norms
        | Err => false
        end
      else true
  | KTkLoop n_iter tol reg X y G0 W0 tape eW e_nit e_norms =>
      let lo := tk_loop_run n_iter (tol * (4 # 5))%Q reg X y G0 W0 tape in
      let hi := tk_loop_run n_iter (tol * (5 # 4))%Q reg X y G0 W0 tape in
      if passes_eq lo hi fst then
        match lo with Ok r => qt_close ftol ftol (t_of_fx (r_weight_tensor (rf_stored r))) eW && trace_ok r e_nit e_norms | Err => false end
      else true
  | KPlsrTransformY xm ym loads bs qs X Y e =>
      let Tc := transform_cols Zfx (center Zfx (t_to_fx X) (t_to_fx xm)) (map (map t_to_fx) loads) in
      all2 (fun a x => q_list_close atol rtol (map of_fx a) x)
           (ytransform_cols Zfx (center Zfx (t_to_fx Y) (t_to_fx ym)) Tc (map (map to_fx) bs) (map t_to_fx qs)) e
  | KPlsrFit n_iter ncomp tol itape btape X Y e_loads e_scores e_yloads e_yscores =>
      plsr_close (plsr_run n_iter ncomp tol itape btape X Y) e_loads e_scores e_yloads e_yscores
  | KPlsrFitPerm p n_iter ncomp tol itape btape X Y e_loads e_scores e_yloads e_yscores =>
      plsr_close_sel (pick Zfx (nsamp X) p) (plsr_run n_iter ncomp tol itape btape X Y) e_loads e_scores e_yloads e_yscores
  | KPlsrBudget n_iter ncomp X Y raised =>
      match plsr_run n_iter ncomp 0%Q [] [] X Y with Err => raised | Ok _ => negb raised end
  end.

Definition case := (nat * kase)%type.
Definition agree (c : case) : bool := agree_k (snd c).
Definition ident (c : case) : nat := fst c.
Definition failing := failing_ids agree ident.
