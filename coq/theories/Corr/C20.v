(* Correspondence for C20: run the model of tensorly/metrics (and cp_permute_factors) at Qops on the same
   inputs as the implementation and compare.  Oracle answers (column norms = sqrt tape, the assignment
   returned by linear_sum_assignment through the implementation, the thin SVD) are DATA whose contracts are
   re-checked here in exact arithmetic: norms by n^2 ~ sum of squares, the assignment against the brute force
   over all r! matchings (by VALUE: ties are allowed), the SVD by U^T U ~ I and U S V^T ~ M. *)
From Coq Require Import List Arith ZArith QArith Qabs Bool.
From TLV Require Import Base.Shape Base.PyList Base.Tensor Base.Ops Model.Metrics Model.MetricsSrc Model.MetricsPermute Model.MetricsAxis Corr.Common.
From TLV Require Model.Transforms.
Import ListNotations.

Definition tol : Q := Qmake 1 1000000000.          (* 1e-9 : values through sqrt / division *)
Definition tape_tol : Q := Qmake 1 100000000000.   (* 1e-11 : relative residual allowed on n^2 = sum sq *)

(* ---------- source tie for metrics/regression.py ----------
   The harness translates the Python source of the CURRENT working tree (ast) into a term of this little expression
   language; `reval` interprets it with the combinators of Model/Metrics.v.  Per run: (1) for every function a lemma
   `forall ax yt yp, reval ... = <hand-written model>` is attempted by conversion, (2) on every regression case the two
   are compared exactly in Q.  A construct the translator does not know is reported as unsupported, never as a verdict. *)
Inductive rexp :=
| RArg (k : nat)                       (* k-th tensor argument of the function *)
| ROne                                 (* the literal 1 *)
| RSub (a b : rexp) | RMul (a b : rexp) | RDiv (a b : rexp)
| RSq (a : rexp)                       (* a ** 2 *)
| RMean (a : rexp) | RSum (a : rexp)   (* T.mean(a, axis=axis) / T.sum(a, axis=axis) *)
| RMeanAll (a : rexp) | RSumAll (a : rexp)   (* T.mean(a) / T.sum(a): over everything whatever the axis argument *)
| RKeep (a : rexp)                     (* the reduced tensor reshaped with shape[axis] = 1 (broadcasts against the full one) *)
| RNormSq (a : rexp).                  (* T.norm(a) ** 2 *)
Inductive rform := RPlain (e : rexp) | RSqrt (e : rexp) | RRatio (num den : rexp).   (* e | sqrt e | num / sqrt den *)

Definition ridx (ax : option nat) (idx : list nat) : list nat := match ax with None => [] | Some a => remove_nth a idx end.
(* full (op) keepdims-reduced: numpy broadcasting along the reduced axis *)
Definition bcast (ax : option nat) (f : Q -> Q -> Q) (keepl keepr : bool) (A B : tensor Q) : tensor Q :=
  match keepl, keepr with
  | false, true => tabulate (shape A) (fun idx => f (tget Qops A idx) (tget Qops B (ridx ax idx)))
  | true, false => tabulate (shape B) (fun idx => f (tget Qops A (ridx ax idx)) (tget Qops B idx))
  | _, _ => tzip Qops f A B
  end.
Fixpoint reval (ax : option nat) (args : list (tensor Q)) (e : rexp) : bool * tensor Q :=
  match e with
  | RArg k => (false, nth k args (mk [] []))
  | ROne => (false, mk [] [1])
  | RSub a b => let '(ka, A) := reval ax args a in let '(kb, B) := reval ax args b in (ka && kb, bcast ax (fsub Qops) ka kb A B)
  | RMul a b => let '(ka, A) := reval ax args a in let '(kb, B) := reval ax args b in (ka && kb, bcast ax (fmul Qops) ka kb A B)
  | RDiv a b => let '(ka, A) := reval ax args a in let '(kb, B) := reval ax args b in (ka && kb, bcast ax (fdiv Qops) ka kb A B)
  | RSq a => let '(ka, A) := reval ax args a in (ka, tmap (fsq Qops) A)
  | RMean a => (false, tmean Qops ax (snd (reval ax args a)))
  | RSum a => (false, tsum Qops ax (snd (reval ax args a)))
  | RMeanAll a => (false, tmean Qops None (snd (reval ax args a)))
  | RSumAll a => (false, tsum Qops None (snd (reval ax args a)))
  | RKeep a => (true, snd (reval ax args a))
  | RNormSq a => (false, mk [] [fsum Qops (map (fsq Qops) (data (snd (reval ax args a))))])
  end.
Definition rev (ax : option nat) (args : list (tensor Q)) (e : rexp) : tensor Q := snd (reval ax args e).

(* what the translated source must equal, per function (numbering = REG in C20.py) *)
Definition src_agree_reg (which : nat) (ax : option nat) (yt yp : tensor Q) (f : rform) : bool :=
  match which, f with
  | 0%nat, RPlain e => qt_eqb (rev ax [yt; yp] e) (MSE Qops ax yt yp)
  | 1%nat, RSqrt e => qt_eqb (rev ax [yt; yp] e) (MSE Qops ax yt yp)
  | 2%nat, RPlain e => qt_eqb (rev ax [yt; yp] e) (mk [] [R2_score Qops yt yp])
  | 3%nat, RPlain e => qt_eqb (rev ax [yt; yp] e) (covariance Qops ax yt yp)
  | 4%nat, RPlain e => qt_eqb (rev ax [yt] e) (variance Qops ax yt)
  | 5%nat, RRatio n d => qt_eqb (rev ax [yt; yp] n) (fst (corr_parts Qops ax yt yp)) && qt_eqb (rev ax [yt; yp] d) (snd (corr_parts Qops ax yt yp))
  | 6%nat, RRatio n d => qt_eqb (rev ax [yt; yp] n) (fst (refl_parts Qops ax yt yp)) && qt_eqb (rev ax [yt; yp] d) (snd (refl_parts Qops ax yt yp))
  | 7%nat, RSqrt e => qt_eqb (rev ax [yt] e) (variance Qops ax yt)
  | _, _ => false
  end.

Inductive body :=
| KCong (absv : bool) (As Bs : list (mat Q)) (nas nbs : list (list Q)) (impl : res (Q * list nat))
| KCongDual (absv : bool) (As Bs : list (mat Q)) (nas nbs : list (list Q)) (vs : list Q) (brute : bool) (impl : res (Q * list nat))
| KPermute (ref fs : list (mat Q)) (w : list Q) (nas nbs : list (list Q)) (impl : res (list Q * list (mat Q) * list nat))
| KPermuteList (ref : list (mat Q)) (nas : list (list Q)) (ts : list (list Q * list (mat Q) * list (list Q)))
               (impl : res (list (list Q * list (mat Q) * list nat)))
(* cp_permute_factors with its cp_copy / cp_normalize glue (Model/MetricsPermute.v; cp_normalize = C04's model) *)
| KPermuteFull (ref : ptensor Q) (arg : parg Q) (impl : res (list (list Q * list (mat Q) * list nat)))
| KCorrIdx (meth : option cmethod) (ctol : Q) (f1 f2 : list (mat Q)) (n1 n2 : list (list Q)) (impl : res Q)
| KLev (renorm : bool) (ltol : Q) (M U Vt : mat Q) (sv : list Q) (eps : Q) (impl : res (list Q))
| KReg (which : nat) (axz : option Z) (yt yp : tensor Q) (exact : bool) (impl : res (tensor Q)) (src : option rform)
| KRegT (which : nat) (zs : list Z) (yt yp : tensor Q) (exact : bool) (impl : res (tensor Q))     (* axis = a tuple of integers *)
(* source tie for factors.py / similarity.py / leverage_scores.py (Model/MetricsSrc.v): used ONLY when the decision record
   extracted from the current source is not the canonical one (for which Proofs/MetricsSrcTie.v covers all inputs): the
   interpretation of the extracted record is then compared with the model on this case, exactly *)
| KSrc (scs : option cong_src) (sci : option ci_src) (slv : option lev_src) (spp : option cpp_src) (b : body).
Definition case := (nat * body)%type.

Fixpoint forallb2 {A B} (f : A -> B -> bool) (l : list A) (l' : list B) : bool :=
  match l, l' with [] , [] => true | x :: r, y :: r' => f x y && forallb2 f r r' | _, _ => false end.
Definition mat_eqb (A B : mat Q) : bool := forallb2 q_list_eqb A B.

Definition tapes_ok (Xs : list (mat Q)) (ns : list (list Q)) : bool := forallb2 (norms_okb Qops tape_tol) Xs ns.

(* The r! brute force runs on a copy of the congruence matrix rounded DOWN to multiples of 2^-80 (power-of-two
   denominators: Qred is then cheap; with the exact entries -- denominators are products of 53-bit norms -- every one
   of the r! * r additions costs a quadratic binary gcd on ~1500-bit numbers).  The rounding moves every score by
   less than 2^-80, far inside the comparison tolerance 1e-9. *)
Definition qdy (x : Q) : Q :=
  Qred (Qmake (Z.div (Qnum x * Zpos (2 ^ 80)%positive) (Zpos (Qden x))) (2 ^ 80)%positive).
Definition mdy (M : mat Q) : mat Q := map (map qdy) M.

(* the returned matching p is a permutation and optimal among all r! matchings of the (rounded) matrix, by value *)
Definition optimal_on (r : nat) (C : mat Q) (p : list nat) : bool :=
  let Cd := mdy C in
  is_permb r p && qclose tol tol (score Qops r Cd p) (score Qops r Cd (best_perm Qops r Cd)).

(* congruence = cong_matrix, then the oracle, then score (Model/Metrics.v): the matrix is computed ONCE here *)
Definition agree_cong absv As Bs nas nbs (impl : res (Q * list nat)) : bool :=
  match cong_matrix Qops absv As Bs nas nbs, impl with
  | Err, Err => true
  | Ok (r, C), Ok (v, p) =>
      tapes_ok As nas && tapes_ok Bs nbs && optimal_on r C p &&
      qclose tol tol v (score Qops r C p)     (* returned value = mean congruence of the returned matching *)
  | _, _ => false
  end.

(* CERTIFIED optimality at any rank (no r! enumeration): vs = column potentials computed by the harness (untrusted data).
   Proofs.MetricsProofs9.dual_certificate_optimal: dual_gap <= eps  ==>  every matching scores at most score p + eps / r.
   Here eps = tol * r, i.e. the returned value is within 1e-9 of the maximum (on the matrix rounded to 2^-80). *)
Definition certified_on (r : nat) (C : mat Q) (p : list nat) (vs : list Q) : bool :=
  let Cd := mdy C in
  is_permb r p && Nat.eqb (length vs) r &&
  Qle_bool (dual_gap Qops r Cd vs p) (Qred (tol * inject_Z (Z.of_nat r))).

Definition agree_cong_dual absv As Bs nas nbs (vs : list Q) (brute : bool) (impl : res (Q * list nat)) : bool :=
  match cong_matrix Qops absv As Bs nas nbs, impl with
  | Err, Err => true
  | Ok (r, C), Ok (v, p) =>
      tapes_ok As nas && tapes_ok Bs nbs && certified_on r C p vs && (if brute then optimal_on r C p else true) &&
      qclose tol tol v (score Qops r C p)
  | _, _ => false
  end.

Definition is_err {X} (r : res X) : bool := match r with Err => true | Ok _ => false end.
Definition out_eqb (a b : list Q * list (mat Q) * list nat) : bool :=
  let '(w1, f1, p1) := a in let '(w2, f2, p2) := b in
  q_list_eqb w1 w2 && forallb2 mat_eqb f1 f2 && nat_list_eqb p1 p2.

Definition agree_permute ref fs w nas nbs (impl : res (list Q * list (mat Q) * list nat)) : bool :=
  match cong_matrix Qops true ref fs nas nbs, impl with
  | Err, Err => true
  | Ok (r, C), Ok (w', fs', p) =>
      tapes_ok ref nas && tapes_ok fs nbs && optimal_on r C p &&
      match cp_permute_factors Qops ref fs w nas nbs (fun _ => p) with
      | Ok out => out_eqb out (w', fs', p)
      | Err => false
      end
  | _, _ => false
  end.

(* list of tensors: linear_sum_assignment is a FUNCTION of the matrix; its recorded answers are replayed by
   looking the matrix up (two tensors with the same congruence matrix must have received the same answer) *)
Definition assign_tape (tape : list (mat Q * list nat)) (C : mat Q) : list nat :=
  match find (fun e => mat_eqb (fst e) C) tape with Some e => snd e | None => [] end.
Definition cmat_of (ref : list (mat Q)) (nas : list (list Q)) (t : list Q * list (mat Q) * list (list Q)) : nat * mat Q :=
  match cong_matrix Qops true ref (snd (fst t)) nas (snd t) with Ok rc => rc | Err => (0%nat, []) end.
Definition agree_permute_list ref nas (ts : list (list Q * list (mat Q) * list (list Q)))
  (impl : res (list (list Q * list (mat Q) * list nat))) : bool :=
  match impl with
  | Err => match cp_permute_factors_list Qops ref nas ts (fun _ => []) with Err => true | Ok _ => false end
  | Ok outs =>
    let ps := map snd outs in
    let rcs := map (cmat_of ref nas) ts in
    match cp_permute_factors_list Qops ref nas ts (assign_tape (combine (map snd rcs) ps)) with
    | Err => false
    | Ok mouts =>
      forallb2 out_eqb mouts outs && tapes_ok ref nas && forallb (fun t => tapes_ok (snd (fst t)) (snd t)) ts &&
      forallb2 (fun rc p => optimal_on (fst rc) (snd rc) p) rcs ps
    end
  end.

(* cp_permute_factors, full model.  The tape of cp_normalize may contain exact zeros (a zero weight absorbed into factor 0) *)
Definition norms0_okb (M : mat Q) (ns : list Q) : bool :=
  Nat.eqb (length ns) (ncols M) &&
  forallb (fun j => let n := nth j ns 0 in let s := col_sq Qops M j in
                    (Qeq_bool n 0 && Qeq_bool s 0) ||
                    (negb (Qle_bool n 0) && Qle_bool (Qabs (Qred (Qred (n * n) - s))) (Qred (tape_tol * s)))) (seq 0 (ncols M)).
Definition norm_tapes_ok (t : ptensor Q) : bool :=
  forallb2 norms0_okb (Transforms.norm_inputs Qops (pw t) (pfs t)) (pnorm t).
Definition parg_list (a : parg Q) : bool * list (ptensor Q) := match a with PSingle t => (false, [t]) | PList ts => (true, ts) end.
Definition cmat_full (ref : ptensor Q) (nrm : bool) (t : ptensor Q) : nat * mat Q :=
  match cong_matrix Qops true (compared Qops true ref) (compared Qops nrm t) (pcong ref) (pcong t) with Ok rc => rc | Err => (0%nat, []) end.
Definition agree_permute_full (ref : ptensor Q) (arg : parg Q) (impl : res (list (list Q * list (mat Q) * list nat))) : bool :=
  let '(nrm, ts) := parg_list arg in
  norm_tapes_ok ref && (if nrm then forallb norm_tapes_ok ts else true) &&
  match impl with
  | Err => is_err (cp_permute_factors_full Qops ref arg (fun _ => []))
  | Ok outs =>
    let ps := map snd outs in
    let rcs := map (cmat_full ref nrm) ts in
    match cp_permute_factors_full Qops ref arg (assign_tape (combine (map snd rcs) ps)) with
    | Err => false
    | Ok mouts =>
      forallb2 out_eqb mouts outs && tapes_ok (compared Qops true ref) (pcong ref) &&
      forallb (fun t => tapes_ok (compared Qops nrm t) (pcong t)) ts &&
      forallb2 (fun rc p => optimal_on (fst rc) (snd rc) p) rcs ps
    end
  end.

Definition agree_corridx meth ctol f1 f2 n1 n2 (impl : res Q) : bool :=
  match correlation_index Qops meth ctol f1 f2 n1 n2, impl with
  | Err, Err => true
  | Ok vm, Ok v =>
    let X1 := match meth with Some Stacked => [concat f1] | _ => f1 end in
    let X2 := match meth with Some Stacked => [concat f2] | _ => f2 end in
    tapes_ok X1 n1 && tapes_ok X2 n2 && qclose tol tol v vm
  | _, _ => false
  end.

(* thin SVD tape: U (nr x k), sv (k), Vt (k x nc); ltol = 1e-9 for float64 input, 1e-5 for float32 input *)
Definition svd_ok (ltol : Q) (M U Vt : mat Q) (sv : list Q) : bool :=
  let nr := nrows M in let nc := ncols M in let k := length sv in
  let scale := Qred (1 + list_max Qops sv) in
  forallb (fun s => Qle_bool 0 s) sv &&
  forallb (fun a => forallb (fun b =>
     qclose ltol 0 (sumn Qops nr (fun i => Qred (mget Qops U i a * mget Qops U i b))) (if Nat.eqb a b then 1 else 0))
     (seq 0 k)) (seq 0 k) &&
  forallb (fun i => forallb (fun j =>
     qclose (Qred (ltol * scale)) 0 (sumn Qops k (fun a => Qred (Qred (mget Qops U i a * nth a sv 0) * mget Qops Vt a j))) (mget Qops M i j))
     (seq 0 nc)) (seq 0 nr).

Definition agree_lev (renorm : bool) (ltol : Q) (M U Vt : mat Q) sv eps (impl : res (list Q)) : bool :=
  match leverage_score_dist_any Qops renorm U sv (nrows M) (ncols M) eps, impl with
  | Err, Err => true
  | Ok lm, Ok l => svd_ok ltol M U Vt sv && q_list_close ltol ltol lm l &&
      (* renormalisation branch: the result is divided by its own float64 sum, so it sums to one to float64 accuracy
         (C20_leverage_renorm_simplex: exactly one in the model) *)
      (if renorm then Qle_bool (Qabs (Qred (fsum Qops l - 1))) (Qmake 1 1000000000000) else true)
  | _, _ => false
  end.

Definition close_t (exact : bool) (a b : tensor Q) : bool := if exact then qt_eqb a b else qt_close tol tol a b.
Definition sq_t (t : tensor Q) : tensor Q := tmap (fsq Qops) t.
Fixpoint forallb3 {A} (f : A -> A -> A -> bool) (a b c : list A) : bool :=
  match a, b, c with
  | [], [], [] => true
  | x :: a', y :: b', z :: c' => f x y z && forallb3 f a' b' c'
  | _, _, _ => false
  end.
(* c = num / sqrt den  checked without a square root:  den > 0, c^2 den ~ num^2, sign c = sign num *)
Definition ratio_ok (c num den : Q) : bool :=
  Qle_bool 0 den && negb (Qle_bool den 0) &&
  Qle_bool (Qabs (Qred (Qred (c * c) * den) - Qred (num * num))) (Qred (tol * den)) &&
  Qle_bool 0 (Qred (c * num)).
Definition ratio_t (impl : tensor Q) (parts : tensor Q * tensor Q) : bool :=
  nat_list_eqb (shape impl) (shape (fst parts)) && forallb3 ratio_ok (data impl) (data (fst parts)) (data (snd parts)).
Definition nonneg_t (t : tensor Q) : bool := forallb (fun x => Qle_bool 0 x) (data t).

(* the square root of the executed instance: floor(sqrt(x * 2^200)) / 2^100 (x > 0), else 0.  |qsqrt x - sqrt x| <= 2^-100 *)
Definition qsqrt (x : Q) : Q :=
  if Qle_bool x 0 then 0
  else Qred (Qmake (Z.sqrt (Z.div (Qnum x * Zpos (2 ^ 200)%positive) (Zpos (Qden x)))) (2 ^ 100)%positive).

Definition agree_reg (which : nat) (ax : option nat) (yt yp : tensor Q) (exact : bool) (impl : res (tensor Q)) : bool :=
  if negb (axis_ok ax yt) then match impl with Err => true | Ok _ => false end else
  match impl with
  | Err => false
  | Ok v =>
    match which with
    | 0%nat => close_t exact v (MSE Qops ax yt yp)
    | 1%nat => nonneg_t v && close_t false (sq_t v) (MSE Qops ax yt yp) &&                    (* RMSE *)
               close_t false v (RMSE Qops qsqrt ax yt yp)
    | 2%nat => close_t false v (mk [] [R2_score Qops yt yp])
    | 3%nat => close_t exact v (covariance Qops ax yt yp)
    | 4%nat => close_t exact v (variance Qops ax yt)
    | 5%nat => ratio_t v (corr_parts Qops ax yt yp) && close_t false v (correlation Qops qsqrt ax yt yp)
    | 6%nat => ratio_t v (refl_parts Qops ax yt yp) && close_t false v (reflective_correlation Qops qsqrt ax yt yp)
    | _ => nonneg_t v && close_t false (sq_t v) (variance Qops ax yt) &&                  (* standard_deviation *)
           close_t false v (standard_deviation Qops qsqrt ax yt)
    end
  end.

(* axis given as a tuple: MSE / RMSE / reflective correlation reduce over all listed axes; the covariance family indexes a
   Python list with the tuple and raises whatever the tuple is *)
Definition agree_regT (which : nat) (zs : list Z) (yt yp : tensor Q) (exact : bool) (impl : res (tensor Q)) : bool :=
  match which with
  | 0%nat | 1%nat | 6%nat =>
    match norm_axes zs (ndim yt), impl with
    | Err, Err => true
    | Ok axs, Ok v =>
      match which with
      | 0%nat => close_t exact v (MSE_axes Qops axs yt yp)
      | 1%nat => nonneg_t v && close_t false v (RMSE_axes Qops qsqrt axs yt yp)
      | _ => ratio_t v (refl_parts_axes Qops axs yt yp) && close_t false v (reflective_correlation_axes Qops qsqrt axs yt yp)
      end
    | _, _ => false
    end
  | _ => is_err impl
  end.

Definition cmat_res_eqb (a b : res (nat * mat Q)) : bool :=
  match a, b with
  | Err, Err => true
  | Ok (r1, C1), Ok (r2, C2) => Nat.eqb r1 r2 && mat_eqb C1 C2
  | _, _ => false
  end.
Definition src_cong_ok (s : option cong_src) absv As Bs nas nbs : bool :=
  match s with
  | None => true
  | Some cs => cmat_res_eqb (cong_matrix_src Qops cs absv As Bs nas nbs) (cong_matrix Qops absv As Bs nas nbs)
  end.
Definition resq_eqb (a b : res Q) : bool := match a, b with Err, Err => true | Ok x, Ok y => Qeq_bool x y | _, _ => false end.
Definition resl_eqb (a b : res (list Q)) : bool := match a, b with Err, Err => true | Ok x, Ok y => q_list_eqb x y | _, _ => false end.

Fixpoint src_agree (scs : option cong_src) (sci : option ci_src) (slv : option lev_src) (spp : option cpp_src) (b : body) : bool :=
  match b with
  | KCong absv As Bs nas nbs _ => src_cong_ok scs absv As Bs nas nbs
  | KCongDual absv As Bs nas nbs _ _ _ => src_cong_ok scs absv As Bs nas nbs
  | KPermute ref fs w nas nbs impl => src_cong_ok scs true ref fs nas nbs &&
      match spp, impl with
      | Some pp, Ok (_, _, p) =>
          match cp_permute_factors_src Qops pp ref fs w nas nbs (fun _ => p), cp_permute_factors Qops ref fs w nas nbs (fun _ => p) with
          | Ok a, Ok b => out_eqb a b | Err, Err => true | _, _ => false
          end
      | _, _ => true
      end
  | KPermuteList ref nas ts impl => forallb (fun t => src_cong_ok scs true ref (snd (fst t)) nas (snd t)) ts &&
      match spp, impl with
      | Some pp, Ok outs =>
          let tape := assign_tape (combine (map snd (map (cmat_of ref nas) ts)) (map snd outs)) in
          match cp_permute_factors_list_src Qops pp ref nas ts tape, cp_permute_factors_list Qops ref nas ts tape with
          | Ok a, Ok b => forallb2 out_eqb a b | Err, Err => true | _, _ => false
          end
      | _, _ => true
      end
  | KPermuteFull ref arg impl =>
      (* tensor by tensor, with the implementation's permutation as the oracle's answer on BOTH sides: a record that drops a
         cp_normalize call differs from the model exactly where the normalisation matters (a zero absorbed weight) *)
      match spp with
      | None => true
      | Some pp =>
        let '(nrm, ts) := parg_list arg in
        let nrm_src := nrm && pp_norm_list pp in
        match impl with
        | Ok outs =>
            forallb2 (fun t out =>
              match cpf_one_src Qops pp ref nrm_src t (fun _ => snd out), cpf_one Qops ref nrm t (fun _ => snd out) with
              | Ok a, Ok b => out_eqb a b | Err, Err => true | _, _ => false
              end) ts outs
        | Err => existsb (fun t => is_err (cpf_one_src Qops pp ref nrm_src t (fun _ => []))) ts
        end
      end
  | KCorrIdx meth ctol f1 f2 n1 n2 _ =>
      match sci with
      | None => true
      | Some ci => resq_eqb (correlation_index_src Qops ci meth ctol f1 f2 n1 n2) (correlation_index Qops meth ctol f1 f2 n1 n2)
      end
  | KLev renorm _ M U _ sv eps _ =>
      match slv with
      | None => true
      | Some lv => resl_eqb (leverage_src Qops lv renorm U sv (nrows M) (ncols M) eps)
                            (leverage_score_dist_any Qops renorm U sv (nrows M) (ncols M) eps)
      end
  | KReg _ _ _ _ _ _ _ => true
  | KRegT _ _ _ _ _ _ => true
  | KSrc _ _ _ _ b' => src_agree scs sci slv spp b'
  end.

Fixpoint agree_body (b : body) : bool :=
  match b with
  | KCong absv As Bs nas nbs impl => agree_cong absv As Bs nas nbs impl
  | KCongDual absv As Bs nas nbs vs brute impl => agree_cong_dual absv As Bs nas nbs vs brute impl
  | KPermute ref fs w nas nbs impl => agree_permute ref fs w nas nbs impl
  | KPermuteList ref nas ts impl => agree_permute_list ref nas ts impl
  | KPermuteFull ref arg impl => agree_permute_full ref arg impl
  | KCorrIdx meth ctol f1 f2 n1 n2 impl => agree_corridx meth ctol f1 f2 n1 n2 impl
  | KLev renorm ltol M U Vt sv eps impl => agree_lev renorm ltol M U Vt sv eps impl
  (* the axis argument AS PASSED (None, a possibly negative integer, a tuple) goes through Model/MetricsAxis.v: resolve_axis
     decides for every metric which reduction the request stands for, or that it is rejected (then both sides must reject) *)
  | KReg which axz yt yp exact impl src =>
      match resolve_axis (metric_of which) (match axz with None => AxNone | Some z => AxInt z end) (ndim yt) with
      | Err => is_err impl
      | Ok red =>
        let ax := match red with RedOne a => Some a | _ => None end in
        agree_reg which ax yt yp exact impl &&
        match src with Some f => negb (axis_ok ax yt) || src_agree_reg which ax yt yp f | None => true end
      end
  | KRegT which zs yt yp exact impl =>
      match resolve_axis (metric_of which) (AxTuple zs) (ndim yt) with
      | Err => is_err impl
      | Ok _ => agree_regT which zs yt yp exact impl
      end
  | KSrc scs sci slv spp b' => agree_body b' && src_agree scs sci slv spp b'
  end.
Definition agree (c : case) : bool := agree_body (snd c).
Definition ident (c : case) : nat := fst c.
Definition failing := failing_ids agree ident.
