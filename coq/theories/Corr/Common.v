(* Shared helpers for the generated correspondence case files. *)
From Coq Require Import List Arith ZArith QArith Qabs Bool.
From TLV Require Import Base.Shape Base.PyList Base.Tensor.
Import ListNotations.

Fixpoint nat_list_eqb (a b : list nat) : bool :=
  match a, b with [], [] => true | x :: a', y :: b' => Nat.eqb x y && nat_list_eqb a' b' | _, _ => false end.
Fixpoint z_list_eqb (a b : list Z) : bool :=
  match a, b with [], [] => true | x :: a', y :: b' => Z.eqb x y && z_list_eqb a' b' | _, _ => false end.
Definition zt_eqb (a b : tensor Z) : bool := nat_list_eqb (shape a) (shape b) && z_list_eqb (data a) (data b).
Definition res_eqb {A} (eqb : A -> A -> bool) (a b : res A) : bool :=
  match a, b with Ok x, Ok y => eqb x y | Err, Err => true | _, _ => false end.

(* toleranced comparison in Q: |a - b| <= atol + rtol * max(|a|,|b|) *)
Definition qclose (atol rtol a b : Q) : bool :=
  Qle_bool (Qabs (a - b)) (atol + rtol * (Qabs a + Qabs b)).
Fixpoint q_list_close (atol rtol : Q) (a b : list Q) : bool :=
  match a, b with [], [] => true | x :: a', y :: b' => qclose atol rtol x y && q_list_close atol rtol a' b' | _, _ => false end.
Definition qt_close (atol rtol : Q) (a b : tensor Q) : bool :=
  nat_list_eqb (shape a) (shape b) && q_list_close atol rtol (data a) (data b).
Fixpoint q_list_eqb (a b : list Q) : bool :=
  match a, b with [], [] => true | x :: a', y :: b' => Qeq_bool x y && q_list_eqb a' b' | _, _ => false end.
Definition qt_eqb (a b : tensor Q) : bool := nat_list_eqb (shape a) (shape b) && q_list_eqb (data a) (data b).

Definition failing_ids {C} (agree : C -> bool) (ident : C -> nat) (cs : list C) : list nat :=
  map ident (filter (fun c => negb (agree c)) cs).
