(* Model of the backend-selection machinery of tensorly/backend/__init__.py (BackendManager) and
   tensorly/tenalg/__init__.py (TenalgBackendManager, a subclass that only replaces the name table,
   the registry and `_backend_class`): ONE state machine, parametrised by
     cfg   - the name table of the manager (which names load_backend can resolve) and the class
             name of every extra instance,
     rules - the two places where the pinned tree differed from the repaired one:
             keep_flag (does the `finally` of backend_context pass local_threadsafe on to set_backend?)
             isinst    (which objects pass `isinstance(backend, cls._backend_class)`).
   Operations carry the id of the issuing thread, so a list of operations IS an interleaving.
   Definitions only. *)
From Coq Require Import List Arith Bool.
Import ListNotations.

Definition tid := nat.
Definition name := nat.

(* backend objects: the instance load_backend creates (and caches) for a name; an instance made by
   the caller of one of the manager's own backend classes; any other object (an instance of the
   OTHER manager's backend class, a number, None ...) *)
Inductive inst := Named (n : name) | Obj (k : nat) | Foreign (k : nat).

(* what is passed to set_backend / backend_context *)
Inductive sel := SName (n : name) | SInst (i : inst).

Record cfg := { known : name -> bool;      (* in available_backend_names AND importable *)
                cname : nat -> name }.     (* backend_name of the class of extra instance k *)

Record rules := { keep_flag : bool; isinst : inst -> bool }.

(* the repaired tree: exit restores with the flag it was entered with; isinstance against the
   manager's own backend class *)
Definition fixed_rules : rules :=
  {| keep_flag := true; isinst := fun i => match i with Foreign _ => false | _ => true end |}.
(* pinned BackendManager: `finally: cls.set_backend(_old_backend)` *)
Definition old_exit_rules : rules :=
  {| keep_flag := false; isinst := fun i => match i with Foreign _ => false | _ => true end |}.
(* pinned TenalgBackendManager: `isinstance(backend, Backend)` - false for every TenalgBackend
   instance, true for (foreign) Backend instances *)
Definition old_tenalg_rules : rules :=
  {| keep_flag := false; isinst := fun i => match i with Foreign _ => true | _ => false end |}.

Record st := { shared : inst;                       (* cls._backend *)
               dname  : name;                       (* cls._default_backend *)
               tls    : tid -> option inst;         (* cls._THREAD_LOCAL_DATA.backend, per thread *)
               loaded : name -> bool;               (* keys of cls._loaded_backends *)
               ctx    : tid -> list (inst * bool)   (* live backend_context frames of a thread:
                                                       (_old_backend, local_threadsafe), innermost first *)
             }.

Definition upd {A} (f : nat -> A) (t : nat) (v : A) : nat -> A :=
  fun t' => if Nat.eqb t' t then v else f t'.

Definition name_of (c : cfg) (i : inst) : name :=
  match i with Named n => n | Obj k => cname c k | Foreign k => cname c k end.

(* cls._THREAD_LOCAL_DATA.__dict__.get("backend", cls._backend) *)
Definition current_backend (s : st) (t : tid) : inst :=
  match tls s t with Some b => b | None => shared s end.

(* the first half of set_backend: isinstance test, cache look-up, load_backend.  None = raises
   (ValueError for a name that is not available, ImportError for one that cannot be imported,
   and the same ValueError for a non-string that is not an instance of the backend class).
   The cache (filled by load_backend only, hence with available names only) and load_backend
   yield the same object `Named n`, so the outcome does not depend on the cache; the model still
   records the cache write in `loaded`. *)
Definition resolve (R : rules) (c : cfg) (x : sel) : option inst :=
  match x with
  | SInst i => if isinst R i then Some i else None
  | SName n => if known c n then Some (Named n) else None
  end.

(* set_backend(backend, local_threadsafe): nothing is written unless the selection resolves *)
Definition set_backend (R : rules) (c : cfg) (s : st) (t : tid) (x : sel) (local : bool) : option st :=
  match resolve R c x with
  | None => None
  | Some b =>
      Some {| shared := if local then shared s else b;
              dname  := if local then dname s else name_of c b;
              tls    := upd (tls s) t (Some b);
              loaded := match x with SName n => upd (loaded s) n true | SInst _ => loaded s end;
              ctx    := ctx s |}
  end.

Definition with_ctx (s : st) (t : tid) (k : list (inst * bool)) : st :=
  {| shared := shared s; dname := dname s; tls := tls s; loaded := loaded s; ctx := upd (ctx s) t k |}.

Inductive op :=
| Set_ (t : tid) (x : sel) (local : bool)      (* set_backend(x, local_threadsafe=local) in thread t *)
| Enter (t : tid) (x : sel) (local : bool)     (* with backend_context(x, local_threadsafe=local): *)
| Exit_ (t : tid) (exn : bool)                 (* leave the innermost context of t, normally / by exception *)
| Query (t : tid)                              (* get_backend() *)
| Dispatch (t : tid).                          (* a dynamically dispatched function is called in t *)

Definition thr (o : op) : tid :=
  match o with Set_ t _ _ | Enter t _ _ | Exit_ t _ | Query t | Dispatch t => t end.

Inductive obs :=
| ODone                  (* completed (an exceptional exit re-raises the body's exception) *)
| ORejected              (* set_backend / backend_context raised before doing anything *)
| OExitFailed            (* the finally-clause of backend_context raised (pinned tenalg manager only) *)
| ONoCtx                 (* Exit without an open context: not an operation of the implementation *)
| OName (n : name)       (* get_backend() *)
| OInst (i : inst).      (* the object that executed the dispatched call *)

Definition step (R : rules) (c : cfg) (s : st) (o : op) : st * obs :=
  match o with
  | Set_ t x l =>
      match set_backend R c s t x l with Some s' => (s', ODone) | None => (s, ORejected) end
  | Enter t x l =>
      (* _old_backend = cls.current_backend(); cls.set_backend(backend, local); try: yield *)
      let old := current_backend s t in
      match set_backend R c s t x l with
      | Some s' => (with_ctx s' t ((old, l) :: ctx s' t), ODone)
      | None => (s, ORejected)
      end
  | Exit_ t _ =>
      (* finally: cls.set_backend(_old_backend, local_threadsafe=local_threadsafe) *)
      match ctx s t with
      | [] => (s, ONoCtx)
      | (old, l) :: k =>
          let s1 := with_ctx s t k in
          match set_backend R c s1 t (SInst old) (if keep_flag R then l else false) with
          | Some s' => (s', ODone)
          | None => (s1, OExitFailed)
          end
      end
  | Query t => (s, OName (name_of c (current_backend s t)))
  | Dispatch t => (s, OInst (current_backend s t))
  end.

Definition nxt R c s o : st := fst (step R c s o).
Definition out R c s o : obs := snd (step R c s o).
Definition run R c (s : st) (h : list op) : st := fold_left (nxt R c) h s.
Fixpoint trace R c (s : st) (h : list op) : list obs :=
  match h with [] => [] | o :: h' => out R c s o :: trace R c (nxt R c s o) h' end.

(* ------------------------------------------------------------------ specification vocabulary *)

(* what a thread observes *)
Definition cur := current_backend.

(* the effective selection an operation performs in state s: issuing thread, selected instance,
   thread-local? (explicit set, context enter, context restore) *)
Definition event (R : rules) (c : cfg) (s : st) (o : op) : option (tid * inst * bool) :=
  match o with
  | Set_ t x l | Enter t x l =>
      match resolve R c x with Some b => Some (t, b, l) | None => None end
  | Exit_ t _ =>
      match ctx s t with
      | [] => None
      | (old, l) :: _ => if isinst R old then Some (t, old, if keep_flag R then l else false) else None
      end
  | _ => None
  end.

Fixpoint events R c (s : st) (h : list op) : list (tid * inst * bool) :=
  match h with
  | [] => []
  | o :: h' => match event R c s o with Some e => [e] | None => [] end ++ events R c (nxt R c s o) h'
  end.

(* value of the last event satisfying p, starting from acc *)
Definition last_from (p : tid * inst * bool -> bool) (acc : option inst) (l : list (tid * inst * bool)) : option inst :=
  fold_left (fun a e => if p e then Some (snd (fst e)) else a) l acc.

Definition by_thread (t : tid) (e : tid * inst * bool) : bool := Nat.eqb t (fst (fst e)).
Definition is_global (e : tid * inst * bool) : bool := negb (snd e).

(* "the backend thread t selected most recently, or the shared default if it never selected one";
   the shared default is the most recent non-local selection of ANY thread *)
Definition view (own0 : option inst) (shared0 : inst) (evs : list (tid * inst * bool)) (t : tid) : inst :=
  match last_from (by_thread t) own0 evs with
  | Some b => b
  | None => match last_from is_global None evs with Some b => b | None => shared0 end
  end.

(* is this operation thread-local in state s?  set / enter carry the flag; an exit has the flag of
   the context it closes; rejected operations and observations write nothing *)
Definition is_local (s : st) (o : op) : bool :=
  match o with
  | Set_ _ _ l | Enter _ _ l => l
  | Exit_ t _ => match ctx s t with (_, l) :: _ => l | [] => true end
  | Query _ | Dispatch _ => true
  end.

(* static version for histories: every set / enter of the history carries local_threadsafe=True *)
Definition flag_local (o : op) : bool :=
  match o with Set_ _ _ l | Enter _ _ l => l | _ => true end.

(* every live context of the threads other than t was entered with local_threadsafe=True *)
Definition ctx_local_except (t : tid) (s : st) : Prop :=
  forall u old l, u <> t -> In (old, l) (ctx s u) -> l = true.

(* seg t d h: along h the operations of OTHER threads are arbitrary, the operations of t are
   properly nested: starting d contexts above a reference depth, h ends exactly at the reference
   depth and never goes below it *)
Inductive seg (R : rules) (c : cfg) (t : tid) : nat -> list op -> Prop :=
| seg_nil : seg R c t 0 []
| seg_other d o h : thr o <> t -> seg R c t d h -> seg R c t d (o :: h)
| seg_set d x l h : seg R c t d h -> seg R c t d (Set_ t x l :: h)
| seg_query d h : seg R c t d h -> seg R c t d (Query t :: h)
| seg_dispatch d h : seg R c t d h -> seg R c t d (Dispatch t :: h)
| seg_enter_rej d x l h : resolve R c x = None -> seg R c t d h -> seg R c t d (Enter t x l :: h)
| seg_enter d x l b h : resolve R c x = Some b -> seg R c t (S d) h -> seg R c t d (Enter t x l :: h)
| seg_exit d e h : seg R c t d h -> seg R c t (S d) (Exit_ t e :: h).

(* every object stored anywhere in the state passes the manager's isinstance test *)
Definition wf (R : rules) (s : st) : Prop :=
  isinst R (shared s) = true /\
  (forall t b, tls s t = Some b -> isinst R b = true) /\
  (forall t old l, In (old, l) (ctx s t) -> isinst R old = true).

(* process start: initialize_backend() has selected default name 0 in the importing thread(s) own0 *)
Definition init (own0 : tid -> option inst) : st :=
  {| shared := Named 0; dname := 0; tls := own0; loaded := fun n => Nat.eqb n 0; ctx := fun _ => [] |}.

(* the observations returned to thread t along a history (what t itself gets back from its own
   operations, in order) *)
Fixpoint own_trace R c (t : tid) (s : st) (h : list op) : list obs :=
  match h with
  | [] => []
  | o :: h' => (if Nat.eqb (thr o) t then [out R c s o] else []) ++ own_trace R c t (nxt R c s o) h'
  end.
