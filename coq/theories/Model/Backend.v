(* Model of the backend-selection machinery of tensorly/backend/__init__.py (BackendManager) and
   tensorly/tenalg/__init__.py (TenalgBackendManager, a subclass that only replaces the name table,
   the registry and `_backend_class`): ONE state machine, parametrised by
     cfg   - the name table of the manager (which names load_backend can resolve) and the class
             name of every extra instance,
     rules - the two places where the pinned tree differed from the repaired one:
             keep_flag (does the `finally` of backend_context pass local_threadsafe on to set_backend?)
             isinst    (which objects pass `isinstance(backend, cls._backend_class)`).
   Operations carry the id of the issuing thread, so a list of operations IS an interleaving.
   Definitions only. *)
From Coq Require Import List Arith Bool.
Import ListNotations.

Definition tid := nat.
Definition name := nat.

(* backend objects: the instance load_backend creates (and caches) for a name; an instance made by
   the caller of one of the manager's own backend classes; any other object (an instance of the
   OTHER manager's backend class, a number, None ...) *)
Inductive inst := Named (n : name) | Obj (k : nat) | Foreign (k : nat).

(* what is passed to set_backend / backend_context *)
Inductive sel := SName (n : name) | SInst (i : inst).

Record cfg := { known : name -> bool;      (* in available_backend_names AND importable *)
                cname : nat -> name }.     (* backend_name of the class of extra instance k *)

Record rules := { keep_flag : bool; isinst : inst -> bool }.

(* the repaired tree: exit restores with the flag it was entered with; isinstance against the
   manager's own backend class *)
Definition fixed_rules : rules :=
  {| keep_flag := true; isinst := fun i => match i with Foreign _ => false | _ => true end |}.
(* pinned BackendManager: `finally: cls.set_backend(_old_backend)` *)
Definition old_exit_rules : rules :=
  {| keep_flag := false; isinst := fun i => match i with Foreign _ => false | _ => true end |}.
(* pinned TenalgBackendManager: `isinstance(backend, Backend)` - false for every TenalgBackend
   instance, true for (foreign) Backend instances *)
Definition old_tenalg_rules : rules :=
  {| keep_flag := false; isinst := fun i => match i with Foreign _ => true | _ => false end |}.

Record st := { shared : inst;                       (* cls._backend *)
               dname  : name;                       (* cls._default_backend *)
               tls    : tid -> option inst;         (* cls._THREAD_LOCAL_DATA.backend, per thread *)
               loaded : name -> bool;               (* keys of cls._loaded_backends *)
               ctx    : tid -> list (inst * bool)   (* live backend_context frames of a thread:
                                                       (_old_backend, local_threadsafe), innermost first *)
             }.

Definition upd {A} (f : nat -> A) (t : nat) (v : A) : nat -> A :=
  fun t' => if Nat.eqb t' t then v else f t'.

Definition name_of (c : cfg) (i : inst) : name :=
  match i with Named n => n | Obj k => cname c k | Foreign k => cname c k end.

(* cls._THREAD_LOCAL_DATA.__dict__.get("backend", cls._backend) *)
Definition current_backend (s : st) (t : tid) : inst :=
  match tls s t with Some b => b | None => shared s end.

(* the first half of set_backend: isinstance test, cache look-up, load_backend.  None = raises
   (ValueError for a name that is not available, ImportError for one that cannot be imported,
   and the same ValueError for a non-string that is not an instance of the backend class).
   The cache (filled by load_backend only, hence with available names only) and load_backend
   yield the same object `Named n`, so the outcome does not depend on the cache; the model still
   records the cache write in `loaded`. *)
Definition resolve (R : rules) (c : cfg) (x : sel) : option inst :=
  match x with
  | SInst i => if isinst R i then Some i else None
  | SName n => if known c n then Some (Named n) else None
  end.

(* set_backend(backend, local_threadsafe): nothing is written unless the selection resolves *)
Definition set_backend (R : rules) (c : cfg) (s : st) (t : tid) (x : sel) (local : bool) : option st :=
  match resolve R c x with
  | None => None
  | Some b =>
      Some {| shared := if local then shared s else b;
              dname  := if local then dname s else name_of c b;
              tls    := upd (tls s) t (Some b);
              loaded := match x with SName n => upd (loaded s) n true | SInst _ => loaded s end;
              ctx    := ctx s |}
  end.

Definition with_ctx (s : st) (t : tid) (k : list (inst * bool)) : st :=
  {| shared := shared s; dname := dname s; tls := tls s; loaded := loaded s; ctx := upd (ctx s) t k |}.

Inductive op :=
| Set_ (t : tid) (x : sel) (local : bool)      (* set_backend(x, local_threadsafe=local) in thread t *)
| Enter (t : tid) (x : sel) (local : bool)     (* with backend_context(x, local_threadsafe=local): *)
| Exit_ (t : tid) (exn : bool)                 (* leave the innermost context of t, normally / by exception *)
| Query (t : tid)                              (* get_backend() *)
| Dispatch (t : tid).                          (* a dynamically dispatched function is called in t *)

Definition thr (o : op) : tid :=
  match o with Set_ t _ _ | Enter t _ _ | Exit_ t _ | Query t | Dispatch t => t end.

Inductive obs :=
| ODone                  (* completed *)
| OReraised              (* a context was left by an exception of its body: the finally clause has run and the
                            exception propagates out of the `with` statement *)
| ORejected              (* set_backend / backend_context raised before doing anything *)
| OExitFailed            (* the finally-clause of backend_context raised (pinned tenalg manager only) *)
| ONoCtx                 (* Exit without an open context: not an operation of the implementation *)
| OName (n : name)       (* get_backend() *)
| OInst (i : inst).      (* the object that executed the dispatched call *)

Definition step (R : rules) (c : cfg) (s : st) (o : op) : st * obs :=
  match o with
  | Set_ t x l =>
      match set_backend R c s t x l with Some s' => (s', ODone) | None => (s, ORejected) end
  | Enter t x l =>
      (* _old_backend = cls.current_backend(); cls.set_backend(backend, local); try: yield *)
      let old := current_backend s t in
      match set_backend R c s t x l with
      | Some s' => (with_ctx s' t ((old, l) :: ctx s' t), ODone)
      | None => (s, ORejected)
      end
  | Exit_ t e =>
      (* try: yield / finally: cls.set_backend(_old_backend, local_threadsafe=local_threadsafe).  There is no except
         clause: a normal exit (e = false) and an exit by an exception of the body (e = true) run the SAME restore;
         they differ in what the `with` statement does afterwards (continues / lets the exception propagate).  If
         the restore itself raises, that exception replaces the body's *)
      match ctx s t with
      | [] => (s, ONoCtx)
      | (old, l) :: k =>
          let s1 := with_ctx s t k in
          match set_backend R c s1 t (SInst old) (if keep_flag R then l else false) with
          | Some s' => (s', if e then OReraised else ODone)
          | None => (s1, OExitFailed)
          end
      end
  | Query t => (s, OName (name_of c (current_backend s t)))
  | Dispatch t => (s, OInst (current_backend s t))
  end.

Definition nxt R c s o : st := fst (step R c s o).
Definition out R c s o : obs := snd (step R c s o).
Definition run R c (s : st) (h : list op) : st := fold_left (nxt R c) h s.
Fixpoint trace R c (s : st) (h : list op) : list obs :=
  match h with [] => [] | o :: h' => out R c s o :: trace R c (nxt R c s o) h' end.

(* ------------------------------------------------------------------ specification vocabulary *)

(* what a thread observes *)
Definition cur := current_backend.

(* the effective selection an operation performs in state s: issuing thread, selected instance,
   thread-local? (explicit set, context enter, context restore) *)
Definition event (R : rules) (c : cfg) (s : st) (o : op) : option (tid * inst * bool) :=
  match o with
  | Set_ t x l | Enter t x l =>
      match resolve R c x with Some b => Some (t, b, l) | None => None end
  | Exit_ t _ =>
      match ctx s t with
      | [] => None
      | (old, l) :: _ => if isinst R old then Some (t, old, if keep_flag R then l else false) else None
      end
  | _ => None
  end.

Fixpoint events R c (s : st) (h : list op) : list (tid * inst * bool) :=
  match h with
  | [] => []
  | o :: h' => match event R c s o with Some e => [e] | None => [] end ++ events R c (nxt R c s o) h'
  end.

(* value of the last event satisfying p, starting from acc *)
Definition last_from (p : tid * inst * bool -> bool) (acc : option inst) (l : list (tid * inst * bool)) : option inst :=
  fold_left (fun a e => if p e then Some (snd (fst e)) else a) l acc.

Definition by_thread (t : tid) (e : tid * inst * bool) : bool := Nat.eqb t (fst (fst e)).
Definition is_global (e : tid * inst * bool) : bool := negb (snd e).

(* "the backend thread t selected most recently, or the shared default if it never selected one";
   the shared default is the most recent non-local selection of ANY thread *)
Definition view (own0 : option inst) (shared0 : inst) (evs : list (tid * inst * bool)) (t : tid) : inst :=
  match last_from (by_thread t) own0 evs with
  | Some b => b
  | None => match last_from is_global None evs with Some b => b | None => shared0 end
  end.

(* is this operation thread-local in state s?  set / enter carry the flag; an exit has the flag of
   the context it closes; rejected operations and observations write nothing *)
Definition is_local (s : st) (o : op) : bool :=
  match o with
  | Set_ _ _ l | Enter _ _ l => l
  | Exit_ t _ => match ctx s t with (_, l) :: _ => l | [] => true end
  | Query _ | Dispatch _ => true
  end.

(* static version for histories: every set / enter of the history carries local_threadsafe=True *)
Definition flag_local (o : op) : bool :=
  match o with Set_ _ _ l | Enter _ _ l => l | _ => true end.

(* every live context of the threads other than t was entered with local_threadsafe=True *)
Definition ctx_local_except (t : tid) (s : st) : Prop :=
  forall u old l, u <> t -> In (old, l) (ctx s u) -> l = true.

(* seg t d h: along h the operations of OTHER threads are arbitrary, the operations of t are
   properly nested: starting d contexts above a reference depth, h ends exactly at the reference
   depth and never goes below it *)
Inductive seg (R : rules) (c : cfg) (t : tid) : nat -> list op -> Prop :=
| seg_nil : seg R c t 0 []
| seg_other d o h : thr o <> t -> seg R c t d h -> seg R c t d (o :: h)
| seg_set d x l h : seg R c t d h -> seg R c t d (Set_ t x l :: h)
| seg_query d h : seg R c t d h -> seg R c t d (Query t :: h)
| seg_dispatch d h : seg R c t d h -> seg R c t d (Dispatch t :: h)
| seg_enter_rej d x l h : resolve R c x = None -> seg R c t d h -> seg R c t d (Enter t x l :: h)
| seg_enter d x l b h : resolve R c x = Some b -> seg R c t (S d) h -> seg R c t d (Enter t x l :: h)
| seg_exit d e h : seg R c t d h -> seg R c t (S d) (Exit_ t e :: h).

(* every object stored anywhere in the state passes the manager's isinstance test *)
Definition wf (R : rules) (s : st) : Prop :=
  isinst R (shared s) = true /\
  (forall t b, tls s t = Some b -> isinst R b = true) /\
  (forall t old l, In (old, l) (ctx s t) -> isinst R old = true).

(* process start: initialize_backend() has selected default name 0 in the importing thread(s) own0 *)
Definition init (own0 : tid -> option inst) : st :=
  {| shared := Named 0; dname := 0; tls := own0; loaded := fun n => Nat.eqb n 0; ctx := fun _ => [] |}.

(* the observations returned to thread t along a history (what t itself gets back from its own
   operations, in order) *)
Fixpoint own_trace R c (t : tid) (s : st) (h : list op) : list obs :=
  match h with
  | [] => []
  | o :: h' => (if Nat.eqb (thr o) t then [out R c s o] else []) ++ own_trace R c t (nxt R c s o) h'
  end.

(* ------------------------------------------------------------------ both managers side by side *)

(* tensorly.backend's manager and tensorly.tenalg's manager are two instances of the same machine
   (TenalgBackendManager is a subclass that re-declares every piece of state: _backend,
   _THREAD_LOCAL_DATA, _loaded_backends, _default_backend).  A mixed operation names its manager:
   false = tensorly.backend, true = tensorly.tenalg. *)
Record st2 := { s_bk : st; s_ta : st }.
Definition mop := (bool * op)%type.

Definition on (m : bool) (s : st2) : st := if m then s_ta s else s_bk s.
Definition put (m : bool) (s : st2) (x : st) : st2 :=
  if m then {| s_bk := s_bk s; s_ta := x |} else {| s_bk := x; s_ta := s_ta s |}.
Definition cfg2 (cb ct : cfg) (m : bool) : cfg := if m then ct else cb.

Definition step2 (R : rules) (cb ct : cfg) (s : st2) (a : mop) : st2 * obs :=
  let (m, o) := a in
  let r := step R (cfg2 cb ct m) (on m s) o in (put m s (fst r), snd r).
Definition nxt2 R cb ct s a : st2 := fst (step2 R cb ct s a).
Definition out2 R cb ct s a : obs := snd (step2 R cb ct s a).
Definition run2 R cb ct (s : st2) (h : list mop) : st2 := fold_left (nxt2 R cb ct) h s.
Fixpoint trace2 R cb ct (s : st2) (h : list mop) : list (bool * obs) :=
  match h with [] => [] | a :: h' => (fst a, out2 R cb ct s a) :: trace2 R cb ct (nxt2 R cb ct s a) h' end.
(* the part of a mixed history / trace that belongs to manager m *)
Definition proj {A} (m : bool) (h : list (bool * A)) : list A :=
  map snd (filter (fun a => Bool.eqb (fst a) m) h).
Definition init2 (own0 : tid -> option inst) : st2 := {| s_bk := init own0; s_ta := init own0 |}.

(* ------------------------------------------------------------------ micro-steps (what a thread switch can separate)

   Every operation is a short program of acts; an act touches the thread's private state (its
   thread-local slot, its stack of live contexts, the local variable `_old_backend`, the answers it
   received) and AT MOST ONE of them reads or writes the shared default `cls._backend`.
   `cls._default_backend` is written between the thread-local slot and `cls._backend`; nothing reads it
   after import, so ADname is a no-op here and `dname` / `loaded` are not part of the comparison. *)
Inductive src := Const (b : inst) | FromReg.

Inductive act :=
| ASave                 (* _old_backend = cls.current_backend(): ONE read of the shared default *)
| ATls (v : src)        (* cls._THREAD_LOCAL_DATA.backend = backend *)
| ADname (v : src)      (* cls._default_backend = backend.backend_name   (never read again after import) *)
| AShared (v : src)     (* cls._backend = backend: ONE write of the shared default *)
| APush (l : bool)      (* the generator reaches `yield`: the context is live *)
| APop                  (* the finally clause starts: the frame's _old_backend is picked up *)
| AEmit (o : obs)       (* the call returns / raises *)
| AQuery | ADispatch.   (* get_backend() / a dispatched call: ONE read of the shared default *)

Record priv := { p_tls : option inst; p_ctx : list (inst * bool); p_reg : inst; p_out : list obs }.

Definition pcur (sh : inst) (p : priv) : inst := match p_tls p with Some b => b | None => sh end.
Definition val (p : priv) (v : src) : inst := match v with Const b => b | FromReg => p_reg p end.

Definition act_priv (c : cfg) (sh : inst) (p : priv) (a : act) : priv :=
  match a with
  | ASave => {| p_tls := p_tls p; p_ctx := p_ctx p; p_reg := pcur sh p; p_out := p_out p |}
  | ATls v => {| p_tls := Some (val p v); p_ctx := p_ctx p; p_reg := p_reg p; p_out := p_out p |}
  | APush l => {| p_tls := p_tls p; p_ctx := (p_reg p, l) :: p_ctx p; p_reg := p_reg p; p_out := p_out p |}
  | APop => match p_ctx p with
            | [] => p
            | (old, _) :: k => {| p_tls := p_tls p; p_ctx := k; p_reg := old; p_out := p_out p |}
            end
  | AEmit o => {| p_tls := p_tls p; p_ctx := p_ctx p; p_reg := p_reg p; p_out := p_out p ++ [o] |}
  | AQuery => {| p_tls := p_tls p; p_ctx := p_ctx p; p_reg := p_reg p; p_out := p_out p ++ [OName (name_of c (pcur sh p))] |}
  | ADispatch => {| p_tls := p_tls p; p_ctx := p_ctx p; p_reg := p_reg p; p_out := p_out p ++ [OInst (pcur sh p)] |}
  | ADname _ | AShared _ => p
  end.

Definition act_shared (sh : inst) (p : priv) (a : act) : inst :=
  match a with AShared v => val p v | _ => sh end.

(* acts that neither read nor write the shared default *)
Definition is_private (a : act) : bool :=
  match a with ASave | AQuery | ADispatch | AShared _ => false | _ => true end.

Record bst := { b_shared : inst; b_priv : tid -> priv }.

Definition bexec (c : cfg) (b : bst) (t : tid) (a : act) : bst :=
  {| b_shared := act_shared (b_shared b) (b_priv b t) a;
     b_priv := upd (b_priv b) t (act_priv c (b_shared b) (b_priv b t) a) |}.

(* a block: acts of ONE thread executed without any other thread in between *)
Definition bblock (c : cfg) (b : bst) (tl : tid * list act) : bst :=
  fold_left (fun b a => bexec c b (fst tl) a) (snd tl) b.
Definition bblocks (c : cfg) (b : bst) (l : list (tid * list act)) : bst := fold_left (bblock c) l b.

(* programs: acts tagged with "this is where the block takes effect" *)
Definition prog := list (act * bool).
Definition has_lp (l : prog) : bool := existsb snd l.

Record mst := { m_b : bst; m_pend : tid -> prog;
                m_snap : tid -> priv; m_done : tid -> list act  (* ghost: bookkeeping for the proof *) }.

Inductive ev := Begin (t : tid) (p : prog) | Tick (t : tid).

Definition mstep (c : cfg) (m : mst) (e : ev) : mst * list (tid * list act) :=
  match e with
  | Begin t p =>
      match m_pend m t with
      | [] => ({| m_b := m_b m; m_pend := upd (m_pend m) t p;
                  m_snap := upd (m_snap m) t (b_priv (m_b m) t); m_done := upd (m_done m) t [] |}, [])
      | _ => (m, [])
      end
  | Tick t =>
      match m_pend m t with
      | [] => (m, [])
      | (a, lp) :: rest =>
          let b' := bexec c (m_b m) t a in
          if lp then
            ({| m_b := b'; m_pend := upd (m_pend m) t rest;
                m_snap := upd (m_snap m) t (b_priv b' t); m_done := upd (m_done m) t [] |},
             [(t, m_done m t ++ a :: (if has_lp rest then [] else map fst rest))])
          else
            ({| m_b := b'; m_pend := upd (m_pend m) t rest;
                m_snap := m_snap m; m_done := upd (m_done m) t (m_done m t ++ [a]) |}, [])
      end
  end.

Fixpoint mrun (c : cfg) (m : mst) (s : list ev) : mst * list (tid * list act) :=
  match s with
  | [] => (m, [])
  | e :: s' => let (m1, l1) := mstep c m e in let (m2, l2) := mrun c m1 s' in (m2, l1 ++ l2)
  end.


(* the programs of the five operations; the flag marks the act at which a block of the program takes
   effect for everybody else (thread-local flavour: the write of the thread-local slot; otherwise the
   write of the shared default; for the entry of a context ALSO the read of the current backend) *)
Definition writes (v : src) (l : bool) : prog :=
  if l then [(ATls v, true)] else [(ATls v, false); (ADname v, false); (AShared v, true)].

Definition compile (R : rules) (c : cfg) (p : priv) (o : op) : prog :=
  match o with
  | Set_ _ x l => match resolve R c x with
                  | None => [(AEmit ORejected, true)]
                  | Some b => writes (Const b) l ++ [(AEmit ODone, false)]
                  end
  | Enter _ x l => (ASave, true) ::
                  match resolve R c x with
                  | None => [(AEmit ORejected, true)]
                  | Some b => writes (Const b) l ++ [(APush l, false); (AEmit ODone, false)]
                  end
  | Exit_ _ e => match p_ctx p with
                 | [] => [(AEmit ONoCtx, true)]
                 | (old, l) :: _ =>
                     if isinst R old
                     then (APop, false) :: writes FromReg (if keep_flag R then l else false) ++ [(AEmit (if e then OReraised else ODone), false)]
                     else [(APop, true); (AEmit OExitFailed, false)]
                 end
  | Query _ => [(AQuery, true)]
  | Dispatch _ => [(ADispatch, true)]
  end.

Definition to_st (b : bst) : st :=
  {| shared := b_shared b; dname := 0; tls := fun t => p_tls (b_priv b t);
     loaded := fun _ => false; ctx := fun t => p_ctx (b_priv b t) |}.

Definition count_lp (l : prog) : nat := length (filter snd l).


(* blocks in the vocabulary of operations, and the micro-step machine driven by operations *)
Inductive aop :=
| AOp (o : op)                               (* a whole operation *)
| ASaveOp (t : tid)                          (* backend_context, first half: _old_backend = current_backend() *)
| AEnterRest (t : tid) (x : sel) (l : bool). (* backend_context, second half: set_backend(...); yield *)

Definition block_of (R : rules) (c : cfg) (b : bst) (a : aop) : tid * list act :=
  match a with
  | AOp o => (thr o, map fst (compile R c (b_priv b (thr o)) o))
  | ASaveOp t => (t, [ASave])
  | AEnterRest t x l => (t, tl (map fst (compile R c (b_priv b t) (Enter t x l))))
  end.
Definition astep R c (b : bst) (a : aop) : bst := bblock c b (block_of R c b a).
Definition arun R c (b : bst) (h : list aop) : bst := fold_left (astep R c) h b.

Inductive oev := OBegin (o : op) | OTick (t : tid).

Record ost := { o_m : mst; o_cur : tid -> op * bool }.

Definition ostep R c (s : ost) (e : oev) : ost * list aop :=
  match e with
  | OBegin o =>
      let t := thr o in
      match m_pend (o_m s) t with
      | [] => ({| o_m := fst (mstep c (o_m s) (Begin t (compile R c (b_priv (m_b (o_m s)) t) o)));
                  o_cur := upd (o_cur s) t (o, false) |}, [])
      | _ => (s, [])
      end
  | OTick t =>
      match m_pend (o_m s) t with
      | (a, true) :: rest =>
          let (o, ph) := o_cur s t in
          ({| o_m := fst (mstep c (o_m s) (Tick t)); o_cur := upd (o_cur s) t (o, true) |},
           [match o with Enter _ x l => if ph then AEnterRest t x l else ASaveOp t | _ => AOp o end])
      | _ => ({| o_m := fst (mstep c (o_m s) (Tick t)); o_cur := o_cur s |}, [])
      end
  end.

Fixpoint orun R c (s : ost) (l : list oev) : ost * list aop :=
  match l with
  | [] => (s, [])
  | e :: l' => let (s1, h1) := ostep R c s e in let (s2, h2) := orun R c s1 l' in (s2, h1 ++ h2)
  end.

Definition quiet (b : bst) : ost :=
  {| o_m := {| m_b := b; m_pend := fun _ => []; m_snap := b_priv b; m_done := fun _ => [] |};
     o_cur := fun t => (Query t, false) |}.

(* observable part of a state of Model/Backend.v (dname / loaded are never read by an operation) *)
Definition seqv (s1 s2 : st) : Prop :=
  shared s1 = shared s2 /\ (forall t, tls s1 t = tls s2 t) /\ (forall t, ctx s1 t = ctx s2 t).
Definition beqv (b1 b2 : bst) : Prop :=
  b_shared b1 = b_shared b2 /\ forall t, b_priv b1 t = b_priv b2 t.

Definition flat (h : list op) : list aop :=
  flat_map (fun o => match o with Enter t x l => [ASaveOp t; AEnterRest t x l] | _ => [AOp o] end) h.


(* the thread a block belongs to *)
Definition athr (a : aop) : tid :=
  match a with AOp o => thr o | ASaveOp t => t | AEnterRest t _ _ => t end.

(* reading a sequence of blocks as a history of whole operations: the first half of a context entry
   is held back (P: threads between the two halves of an entry) until its second half arrives *)
Fixpoint normH (P : tid -> bool) (H : list aop) : option (list op * (tid -> bool)) :=
  match H with
  | [] => Some ([], P)
  | AOp o :: H' => if P (thr o) then None else
                   match normH P H' with Some (h, P') => Some (o :: h, P') | None => None end
  | ASaveOp t :: H' => if P t then None else normH (upd P t true) H'
  | AEnterRest t x l :: H' => if P t then
                   match normH (upd P t false) H' with Some (h, P') => Some (Enter t x l :: h, P') | None => None end
                   else None
  end.

(* every first half of an entry is executed by a thread that holds a selection of its own *)
Fixpoint saves_own (R : rules) (c : cfg) (b : bst) (H : list aop) : Prop :=
  match H with
  | [] => True
  | a :: H' => match a with ASaveOp t => p_tls (b_priv b t) <> None | _ => True end /\ saves_own R c (astep R c b a) H'
  end.

(* threads between the two effect points of a context entry *)
Definition pending (s : ost) (t : tid) : bool := has_lp (m_pend (o_m s) t) && snd (o_cur s t).

