(* Model/BackendAbort.v - operations of the backend-selection machine (Model/Backend.v, micro-step part) that do NOT run
   to completion: an exception raised between two attribute-level steps of set_backend / backend_context entry / exit.
     abort   - the operation is interrupted after k of its acts (an asynchronous exception such as KeyboardInterrupt, or
               any exception raised by a step): the acts executed so far stay executed, nothing is rolled back, the
               call returns no answer;
     exec_nl - the one place where the CODE itself raises after a write: `cls._default_backend = backend.backend_name`
               evaluates `backend.backend_name` AFTER `cls._THREAD_LOCAL_DATA.backend = backend`; an instance of the
               bare backend class (Backend() / TenalgBackend(): it passes the isinstance test but has no backend_name)
               makes that step raise AttributeError.  `nl` says which instances are nameless.
   Also the boolean form of the side condition of the generic reduction theorem (Proofs/BackendMicro.v run_sim), which
   Corr/C17.v evaluates on the programs regenerated from the source on every run.
   Definitions only. *)
From Coq Require Import List Arith Bool.
From TLV Require Import Model.Backend.
Import ListNotations.

Definition acts_of (R : rules) (c : cfg) (b : bst) (o : op) : list act :=
  map fst (compile R c (b_priv b (thr o)) o).

Definition abort (R : rules) (c : cfg) (b : bst) (o : op) (k : nat) : bst :=
  bblock c b (thr o, firstn k (acts_of R c b o)).

(* does this act raise?  the read of backend.backend_name of a nameless instance: where the tree has it (nf = false:
   inside `cls._default_backend = backend.backend_name`, AFTER the write of the thread-local slot, non-local flavour
   only), or - nf = true, the candidate repair build/fix_candidates/C17_nameless_instance.diff - in front of the first
   write, both flavours *)
Definition raises (nf : bool) (nl : inst -> bool) (p : priv) (a : act) : bool :=
  match a with ADname v => nl (val p v) | ATls v => nf && nl (val p v) | _ => false end.

Fixpoint run_nl (nf : bool) (nl : inst -> bool) (c : cfg) (b : bst) (t : tid) (l : list act) : bst * bool :=
  match l with
  | [] => (b, false)
  | a :: l' => if raises nf nl (b_priv b t) a then (b, true) else run_nl nf nl c (bexec c b t a) t l'
  end.

(* (state afterwards, did the call raise after it had resolved its argument?) *)
Definition exec_nl (nf : bool) (nl : inst -> bool) (R : rules) (c : cfg) (b : bst) (o : op) : bst * bool :=
  run_nl nf nl c b (thr o) (acts_of R c b o).

(* number of acts executed before the raising one *)
Fixpoint fail_at (nf : bool) (nl : inst -> bool) (c : cfg) (b : bst) (t : tid) (l : list act) : nat :=
  match l with
  | [] => 0
  | a :: l' => if raises nf nl (b_priv b t) a then 0 else S (fail_at nf nl c (bexec c b t a) t l')
  end.

(* histories: whole operations, each run by exec_nl (a raising one leaves its partial effect behind) *)
Definition run_nl_hist (nf : bool) (nl : inst -> bool) (R : rules) (c : cfg) (b : bst) (h : list op) : bst :=
  fold_left (fun b o => fst (exec_nl nf nl R c b o)) h b.

(* the nameless instance of the correspondence and of the witnesses *)
Definition nl20 (i : inst) : bool := match i with Obj 20 => true | _ => false end.

(* ---- the side condition of the generic reduction theorem, as a boolean *)
Definition wfpb (l : prog) : bool := forallb (fun ab => snd ab || is_private (fst ab)) l.
Definition prog_ok (l : prog) : bool := wfpb l && has_lp l.
Definition ev_ok (e : ev) : bool := match e with Begin _ p => prog_ok p | Tick _ => true end.
Definition mquiet (b : bst) : mst :=
  {| m_b := b; m_pend := fun _ => []; m_snap := b_priv b; m_done := fun _ => [] |}.

(* thread t executes its next act, k times *)
Definition ticks_of (t : tid) (k : nat) : list ev := repeat (Tick t) k.

