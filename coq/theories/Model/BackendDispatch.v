(* Model of the DISPATCH layer of tensorly/backend/__init__.py on top of the selection machine of
   Model/Backend.v: how a dispatched name is reached and on which backend object the call then runs.

     use_dynamic_dispatch()   every name of `_functions` becomes a class attribute staticmethod(closure) where the
                              closure (dispatch_backend_method.wrapped_backend_method) evaluates
                              `getattr(cls._THREAD_LOCAL_DATA.__dict__.get("backend", cls._backend), name)` at CALL time;
                              every name of `_attributes` becomes a dynamically_dispatched_class_attribute descriptor that
                              evaluates `getattr(instance.current_backend(), name)` at ACCESS time
     use_static_dispatch()    every name is rebound to what the CALLING thread's current backend has under it, once
     tensorly/__init__.py     `from .backend import context, tensor, ..., float64, e, pi, ...` binds the listed names in the
                              top-level namespace when the package is imported; any other name goes through the module
                              `__getattr__ = backend.__getattribute__`
     library modules          `from ..tenalg import outer` etc. capture the closure when the module is imported
     user code                `from tensorly import fn`, `f = tl.fn` capture whatever the expression evaluates to and may
                              hand it to other threads

   Definitions only. *)
From Coq Require Import List Arith Bool.
From TLV Require Import Model.Backend.
Import ListNotations.

Definition fname := nat.

(* what evaluating `tl.n`, `tl.backend.n`, `BackendManager.n` yields *)
Inductive value :=
| VWrapper (n : fname)             (* the closure of dispatch_backend_method: looks the backend up on every call *)
| VMethod (b : inst) (n : fname)   (* bound method of backend object b *)
| VAttr (b : inst) (n : fname)     (* the value backend object b has under attribute n *)
| VError.                          (* AttributeError *)

(* what the manager class holds under a name *)
Inductive slot :=
| SWrap                            (* staticmethod(closure) *)
| SDescr                           (* dynamically_dispatched_class_attribute(name) *)
| SStatic (b : inst)               (* staticmethod(bound method of b) / the attribute value of b *)
| SAbsent.

(* the name tables of a manager *)
Record ncfg := { is_fun : fname -> bool;      (* in cls._functions *)
                 is_attr : fname -> bool;     (* in cls._attributes *)
                 top_bound : fname -> bool }. (* bound by name at import time in the namespace the route RTop looks at *)

(* descr_class : does the descriptor serve an access through the CLASS (instance None)?  Since /repo commit 0b04404 it
   does (`if instance is None: return getattr(cls.current_backend(), self.name)`); before, the test read
   `if isinstance is None` (the builtin, never None) and the access ended in None.current_backend(): AttributeError *)
Record drules := { descr_class : bool }.
Definition tree_drules : drules := {| descr_class := true |}.
Definition drules_before_0b04404 : drules := {| descr_class := false |}.

Record dst := { d_sel : st;                      (* the selection state of Model/Backend.v *)
                d_cls : fname -> slot;           (* class attributes of the manager *)
                d_top : fname -> option value;   (* import-time bindings in the top-level namespace *)
                d_caps : list value }.           (* references captured so far, visible to every thread *)

Inductive route :=
| RMgr        (* tensorly.backend.n / tensorly.tenalg.n : attribute of the manager MODULE (an instance of the class) *)
| RTop        (* tensorly.n (backend) / <library module>.n (tenalg): import-time binding, else module __getattr__ *)
| RClass      (* BackendManager.n / TenalgBackendManager.n : attribute of the class itself *)
| RLib.       (* LIBRARY code: `from . import backend as T` ... `T.n` (tensorly/base.py, cp_tensor.py, the tenalg
                 implementations ...), `tl.tenalg.n`: the alias is the manager module object, looked up on every use *)

Definition eval_slot (nc : ncfg) (s : st) (t : tid) (via_instance : bool) (D : drules) (sl : slot) (n : fname) : value :=
  match sl with
  | SWrap => VWrapper n
  | SDescr => if via_instance || descr_class D then VAttr (cur s t) n else VError
  | SStatic b => if is_fun nc n then VMethod b n else VAttr b n
  | SAbsent => VError
  end.

Definition eval (D : drules) (nc : ncfg) (d : dst) (t : tid) (r : route) (n : fname) : value :=
  match r with
  | RMgr | RLib => eval_slot nc (d_sel d) t true D (d_cls d n) n
  | RClass => eval_slot nc (d_sel d) t false D (d_cls d n) n
  | RTop => match d_top d n with
            | Some v => v
            | None => eval_slot nc (d_sel d) t true D (d_cls d n) n
            end
  end.

Inductive dobs :=
| DRan (b : inst)       (* the call was executed by backend object b *)
| DVal (b : inst)       (* the value is the attribute of backend object b *)
| DErr                  (* AttributeError *)
| DSelObs (o : obs)     (* outcome of a selection operation *)
| DNone.

(* calling / looking at a value in thread t *)
Definition use (s : st) (t : tid) (v : value) : dobs :=
  match v with
  | VWrapper _ => DRan (cur s t)
  | VMethod b _ => DRan b
  | VAttr b _ => DVal b
  | VError => DErr
  end.

Inductive dop :=
| DSel (o : op)                                  (* set_backend / backend_context enter / exit / ... of Model/Backend.v *)
| DStatic (t : tid)                              (* use_static_dispatch() called in thread t *)
| DDynamic (t : tid)                             (* use_dynamic_dispatch() *)
| DCapture (t : tid) (r : route) (n : fname)     (* f = <route>.n ; the reference becomes visible to every thread *)
| DCallCap (t : tid) (k : nat)                   (* thread t calls / looks at captured reference number k *)
| DCall (t : tid) (r : route) (n : fname).       (* thread t evaluates <route>.n and calls it / looks at it *)

Definition dthr (o : dop) : tid :=
  match o with DSel o => thr o | DStatic t | DDynamic t | DCapture t _ _ | DCallCap t _ | DCall t _ _ => t end.

Definition with_sel (d : dst) (s : st) : dst :=
  {| d_sel := s; d_cls := d_cls d; d_top := d_top d; d_caps := d_caps d |}.
Definition with_cls (d : dst) (f : fname -> slot) : dst :=
  {| d_sel := d_sel d; d_cls := f; d_top := d_top d; d_caps := d_caps d |}.

Definition dstep (R : rules) (c : cfg) (D : drules) (nc : ncfg) (d : dst) (o : dop) : dst * dobs :=
  match o with
  | DSel o => let r := step R c (d_sel d) o in (with_sel d (fst r), DSelObs (snd r))
  | DStatic t =>
      let b := cur (d_sel d) t in
      (with_cls d (fun n => if is_fun nc n || is_attr nc n then SStatic b else d_cls d n), DNone)
  | DDynamic t =>
      (with_cls d (fun n => if is_fun nc n then SWrap else if is_attr nc n then SDescr else d_cls d n), DNone)
  | DCapture t r n =>
      ({| d_sel := d_sel d; d_cls := d_cls d; d_top := d_top d; d_caps := d_caps d ++ [eval D nc d t r n] |}, DNone)
  | DCallCap t k => (d, use (d_sel d) t (nth k (d_caps d) VError))
  | DCall t r n => (d, use (d_sel d) t (eval D nc d t r n))
  end.

Definition dnxt R c D nc d o : dst := fst (dstep R c D nc d o).
Definition dout R c D nc d o : dobs := snd (dstep R c D nc d o).
Definition drun R c D nc (d : dst) (h : list dop) : dst := fold_left (dnxt R c D nc) h d.
Fixpoint dtrace R c D nc (d : dst) (h : list dop) : list dobs :=
  match h with [] => [] | o :: h' => dout R c D nc d o :: dtrace R c D nc (dnxt R c D nc d o) h' end.

(* the selection operations of a history *)
Definition sel_ops (h : list dop) : list op :=
  flat_map (fun o => match o with DSel o => [o] | _ => [] end) h.

Definition no_static (h : list dop) : Prop := forall t, ~ In (DStatic t) h.

(* the state after `import tensorly`: initialize_backend() + use_dynamic_dispatch() have run in the importing
   thread, the listed names are bound in the top-level namespace *)
Definition dinit (nc : ncfg) (own0 : tid -> option inst) : dst :=
  {| d_sel := init own0;
     d_cls := fun n => if is_fun nc n then SWrap else if is_attr nc n then SDescr else SAbsent;
     d_top := fun n => if top_bound nc n
                       then (if is_fun nc n then Some (VWrapper n)
                             else if is_attr nc n then Some (VAttr (Named 0) n) else None)
                       else None;
     d_caps := [] |}.

(* dynamic mode: every function name is served by the closure, wherever it is bound; every function reference
   in circulation is the closure *)
Definition fun_value_ok (nc : ncfg) (v : value) : Prop :=
  match v with VMethod _ _ => False | _ => True end.

Definition dyn_ok (nc : ncfg) (d : dst) : Prop :=
  (forall n, is_fun nc n = true -> d_cls d n = SWrap) /\
  (forall n, is_fun nc n = false -> is_attr nc n = true -> d_cls d n = SDescr) /\
  (forall n v, d_top d n = Some v -> fun_value_ok nc v /\ (is_fun nc n = true -> v = VWrapper n)) /\
  Forall (fun_value_ok nc) (d_caps d).

(* the names captured by a history, in order, with the index each capture gets *)
Definition cap_names (h : list dop) : list fname :=
  flat_map (fun o => match o with DCapture _ _ n => [n] | _ => [] end) h.

(* ------------------------------------------------------------------ initialize_backend(): where the shared default comes from

   backend_name = os.environ.get(cls._ENV_DEFAULT_VAR, cls._default_backend)
   if backend_name not in cls.available_backend_names: warn; backend_name = cls._default_backend
   cls._default_backend = backend_name ; cls.set_backend(backend_name)
   executed once, by the importing thread t0, with _backend = None and an empty thread-local store; name 0 is the
   class's built-in default ("numpy" / "core").  `listed` = available_backend_names (known c = listed AND importable). *)
Inductive iout :=
| IOk (warned : bool) (s : st)       (* the package is imported; a UserWarning was / was not issued *)
| IFail (warned : bool).             (* set_backend raised: `import tensorly` fails *)

Definition pre_init (nm : name) : st :=
  {| shared := Foreign 0 (* None *); dname := nm; tls := fun _ => None; loaded := fun _ => false; ctx := fun _ => [] |}.

Definition initialize (R : rules) (c : cfg) (listed : name -> bool) (env : option name) (t0 : tid) : iout :=
  let req := match env with Some n => n | None => 0 end in
  let nm := if listed req then req else 0 in
  match set_backend R c (pre_init nm) t0 (SName nm) false with
  | Some s => IOk (negb (listed req)) s
  | None => IFail (negb (listed req))
  end.

(* ------------------------------------------------------------------ re-binding under concurrency (micro-steps)

   use_dynamic_dispatch() walks over the dispatched names and re-binds every one on the manager class:
       if hasattr(cls, name): delattr(cls, name)        (RDel)
       setattr(cls, name, staticmethod(closure))         (RSet)
   Between two acts of the re-binding thread any other thread may look a name up on the class.  with_del = false
   is the loop without the delattr (setattr replaces the attribute in one step). *)
Inductive ract := RDel (n : fname) | RSet (n : fname) (s : slot).

Definition rexec (cl : fname -> slot) (a : ract) : fname -> slot :=
  match a with
  | RDel n => fun k => if Nat.eqb k n then SAbsent else cl k
  | RSet n s => fun k => if Nat.eqb k n then s else cl k
  end.

Definition rprog (with_del : bool) (fresh : fname -> slot) (names : list fname) : list ract :=
  flat_map (fun n => if with_del then [RDel n; RSet n (fresh n)] else [RSet n (fresh n)]) names.

(* a schedule: the re-binding thread executes its next act (true) / another thread looks name n up (false);
   the answer of every look-up, in order *)
Fixpoint rsched (cl : fname -> slot) (prog : list ract) (l : list (bool * fname)) : list slot :=
  match l with
  | [] => []
  | (true, _) :: l' => match prog with a :: prog' => rsched (rexec cl a) prog' l' | [] => rsched cl [] l' end
  | (false, n) :: l' => cl n :: rsched cl prog l'
  end.

(* ------------------------------------------------------------------ register_backend_method

   register_backend_method(name, f) = cls.current_backend().register_method(name, f)
                                    = setattr(type(current_backend()), name, staticmethod(f))
   The method lands on the CLASS of the calling thread's current backend object: every instance of that class, and of
   every subclass that does not define the name itself, has it from then on - in every thread.  The dispatch closure
   of a name resolves `getattr(current backend of the caller, name)` at call time, so what runs is whatever the class
   of THAT object provides at THAT moment; AttributeError if it provides nothing.
   Classes are identified with backend names (name_of); v = which implementation (0 native, k > 0 the k-th registered). *)
Inductive mslot := MInherit | MMissing | MHas (v : nat).
(* cparent: the direct base class among the backend classes; cdepth: a bound on the length of the parent chains (the MRO of
   a class is finite); a look-up walks up the chain while the class inherits the name *)
Record hcfg := { cparent : name -> option name; cdepth : nat }.
Definition mtab := name -> fname -> mslot.

Fixpoint lookup_d (fuel : nat) (H : hcfg) (mt : mtab) (cl : name) (n : fname) : option nat :=
  match mt cl n with
  | MHas v => Some v
  | MMissing => None
  | MInherit => match fuel with
                | O => None
                | S f => match cparent H cl with Some p => lookup_d f H mt p n | None => None end
                end
  end.

Definition lookup (H : hcfg) (mt : mtab) (cl : name) (n : fname) : option nat := lookup_d (cdepth H) H mt cl n.

(* target lies on the chain of classes a look-up of n starting at cl walks (cl itself, then its ancestors for as long as
   the name is inherited) *)
Fixpoint on_chain (fuel : nat) (H : hcfg) (mt : mtab) (cl : name) (n : fname) (target : name) : Prop :=
  cl = target \/
  match fuel with
  | O => False
  | S f => mt cl n = MInherit /\ match cparent H cl with Some p => on_chain f H mt p n target | None => False end
  end.

Definition register (c : cfg) (s : st) (mt : mtab) (t : tid) (n : fname) (v : nat) : mtab :=
  let cl := name_of c (cur s t) in
  fun k m => if Nat.eqb k cl && Nat.eqb m n then MHas v else mt k m.

(* the closure of name n called in thread t: (executing object, implementation) | AttributeError *)
Definition which (H : hcfg) (c : cfg) (s : st) (mt : mtab) (t : tid) (n : fname) : option (inst * nat) :=
  let b := cur s t in option_map (pair b) (lookup H mt (name_of c b) n).

Inductive rop := RSel (o : op) | RReg (t : tid) (n : fname) (v : nat) | RCall (t : tid) (n : fname).
Inductive robs := RSelObs (o : obs) | RNone | RRan (r : option (inst * nat)).
Record rst := { r_sel : st; r_mt : mtab }.

Definition rstep (R : rules) (H : hcfg) (c : cfg) (x : rst) (o : rop) : rst * robs :=
  match o with
  | RSel o => let r := step R c (r_sel x) o in ({| r_sel := fst r; r_mt := r_mt x |}, RSelObs (snd r))
  | RReg t n v => ({| r_sel := r_sel x; r_mt := register c (r_sel x) (r_mt x) t n v |}, RNone)
  | RCall t n => (x, RRan (which H c (r_sel x) (r_mt x) t n))
  end.
Definition rnxt R H c x o : rst := fst (rstep R H c x o).
Definition rout R H c x o : robs := snd (rstep R H c x o).
Definition rrun R H c (x : rst) (h : list rop) : rst := fold_left (rnxt R H c) h x.
Fixpoint rtrace R H c (x : rst) (h : list rop) : list robs :=
  match h with [] => [] | o :: h' => rout R H c x o :: rtrace R H c (rnxt R H c x o) h' end.
Definition rsel_ops (h : list rop) : list op := flat_map (fun o => match o with RSel o => [o] | _ => [] end) h.

(* ------------------------------------------------------------------ the metadata of the dispatch closure

   dispatch_backend_method(name, method) copies __name__, __doc__, __module__, the signature and sets __wrapped__ = method,
   where method = getattr(cls.current_backend(), name) evaluated ONCE, by the thread that runs use_dynamic_dispatch (at
   import: the importing thread, backend = the default).  Following __wrapped__ (inspect.unwrap, functools conventions)
   therefore calls the backend the closure was MADE with, not the caller's.  w_cls / w_top = made-with of the closures
   installed on the manager class / bound at import in the top-level namespace; captured closures keep their own. *)
Record wst := { w_sel : st; w_cls : inst; w_top : inst; w_caps : list inst }.
Inductive wop :=
| WSel (o : op)
| WDynamic (t : tid)                  (* use_dynamic_dispatch(): new closures on the class *)
| WCapture (t : tid) (top : bool)     (* f = tensorly.fn (top) / tensorly.backend.fn *)
| WUnwrapCap (t : tid) (k : nat)      (* f.__wrapped__(...) for captured f number k *)
| WUnwrap (t : tid) (top : bool)      (* tensorly.fn.__wrapped__(...) / tensorly.backend.fn.__wrapped__(...) *)
| WCall (t : tid) (top : bool).       (* the dispatched call itself, for contrast *)
Inductive wobs := WSelObs (o : obs) | WNone | WRan (b : inst) | WErr.

Definition wstep (R : rules) (c : cfg) (x : wst) (o : wop) : wst * wobs :=
  match o with
  | WSel o => let r := step R c (w_sel x) o in
              ({| w_sel := fst r; w_cls := w_cls x; w_top := w_top x; w_caps := w_caps x |}, WSelObs (snd r))
  | WDynamic t => ({| w_sel := w_sel x; w_cls := cur (w_sel x) t; w_top := w_top x; w_caps := w_caps x |}, WNone)
  | WCapture t top => ({| w_sel := w_sel x; w_cls := w_cls x; w_top := w_top x;
                          w_caps := w_caps x ++ [if top then w_top x else w_cls x] |}, WNone)
  | WUnwrapCap t k => (x, match nth_error (w_caps x) k with Some b => WRan b | None => WErr end)
  | WUnwrap t top => (x, WRan (if top then w_top x else w_cls x))
  | WCall t top => (x, WRan (cur (w_sel x) t))
  end.
Definition wnxt R c x o : wst := fst (wstep R c x o).
Definition wout R c x o : wobs := snd (wstep R c x o).
Definition wrun R c (x : wst) (h : list wop) : wst := fold_left (wnxt R c) h x.
Fixpoint wtrace R c (x : wst) (h : list wop) : list wobs :=
  match h with [] => [] | o :: h' => wout R c x o :: wtrace R c (wnxt R c x o) h' end.
Definition no_wdynamic (h : list wop) : Prop := forall t, ~ In (WDynamic t) h.
Definition winit (own0 : tid -> option inst) : wst :=
  {| w_sel := init own0; w_cls := Named 0; w_top := Named 0; w_caps := [] |}.
