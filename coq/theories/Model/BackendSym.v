(* Model/BackendSym.v - SYMBOLIC execution of blocks of acts (Model/Backend.v, micro-step part) and the check that
   Corr/C17.v runs on the eight programs the harness regenerates from the current source of set_backend /
   backend_context / current_backend (ast).
     sact    - an act whose operand is `the argument of the call` or `the register`, instantiated by inst_act b
     sval    - a value as a function of the INITIAL state (shared default, thread-local slot, register, context stack)
     ystep   - one act on a symbolic state; yrun - a block
     blk_eqb - two blocks end in the same symbolic state (register ignored: it is a dead local afterwards)
     src_ok  - the whole check: effect-point discipline (prog_ok, count_lp) + blk_eqb against the model's programs
   Proofs/BackendSym.v shows that blk_eqb = true means the two blocks do the same on EVERY state, for EVERY argument.
   Definitions only. *)
From Coq Require Import List Arith Bool.
From TLV Require Import Model.Backend Model.BackendAbort.
Import ListNotations.

Inductive ssrc := SArg | SReg.

Inductive sact :=
| YSave | YTls (v : ssrc) | YDname (v : ssrc) | YShared (v : ssrc) | YPush (l : bool) | YPop | YEmit (o : obs)
| YQuery | YDispatch.

Definition inst_src (b : inst) (v : ssrc) : src := match v with SArg => Const b | SReg => FromReg end.

Definition inst_act (b : inst) (a : sact) : act :=
  match a with
  | YSave => ASave | YTls v => ATls (inst_src b v) | YDname v => ADname (inst_src b v)
  | YShared v => AShared (inst_src b v) | YPush l => APush l | YPop => APop | YEmit o => AEmit o
  | YQuery => AQuery | YDispatch => ADispatch
  end.

Definition sprog := list (sact * bool).
Definition inst_prog (b : inst) (l : sprog) : prog := map (fun at_ => (inst_act b (fst at_), snd at_)) l.

(* a block executed on (shared default, private state of the executing thread) *)
Definition trun (c : cfg) (x : inst * priv) (l : list act) : inst * priv :=
  fold_left (fun x a => (act_shared (fst x) (snd x) a, act_priv c (fst x) (snd x) a)) l x.

Inductive sval :=
| VArg                          (* the argument of the call *)
| VSh                           (* the shared default at the start of the block *)
| VReg                          (* the register at the start of the block *)
| VTlsOr (v : sval)             (* the thread-local slot at the start if it was set, else v *)
| VFrameOr (k : nat) (v : sval). (* the backend saved in the k-th frame of the initial stack if there is one, else v *)

Inductive sob := SO (o : obs) | SQ (v : sval) | SD (v : sval).

Record sst := { y_sh : sval; y_tls : option sval; y_push : list (sval * bool); y_npop : nat; y_reg : sval;
                y_out : list sob }.

Definition y0 : sst := {| y_sh := VSh; y_tls := None; y_push := []; y_npop := 0; y_reg := VReg; y_out := [] |}.

Definition sval_of (s : sst) (v : ssrc) : sval := match v with SArg => VArg | SReg => y_reg s end.
Definition ycur (s : sst) : sval := match y_tls s with Some v => v | None => VTlsOr (y_sh s) end.

Definition ystep (s : sst) (a : sact) : sst :=
  match a with
  | YSave => {| y_sh := y_sh s; y_tls := y_tls s; y_push := y_push s; y_npop := y_npop s; y_reg := ycur s; y_out := y_out s |}
  | YTls v => {| y_sh := y_sh s; y_tls := Some (sval_of s v); y_push := y_push s; y_npop := y_npop s; y_reg := y_reg s; y_out := y_out s |}
  | YDname _ => s
  | YShared v => {| y_sh := sval_of s v; y_tls := y_tls s; y_push := y_push s; y_npop := y_npop s; y_reg := y_reg s; y_out := y_out s |}
  | YPush l => {| y_sh := y_sh s; y_tls := y_tls s; y_push := (y_reg s, l) :: y_push s; y_npop := y_npop s; y_reg := y_reg s; y_out := y_out s |}
  | YPop => match y_push s with
            | (old, _) :: k => {| y_sh := y_sh s; y_tls := y_tls s; y_push := k; y_npop := y_npop s; y_reg := old; y_out := y_out s |}
            | [] => {| y_sh := y_sh s; y_tls := y_tls s; y_push := []; y_npop := S (y_npop s);
                       y_reg := VFrameOr (y_npop s) (y_reg s); y_out := y_out s |}
            end
  | YEmit o => {| y_sh := y_sh s; y_tls := y_tls s; y_push := y_push s; y_npop := y_npop s; y_reg := y_reg s; y_out := y_out s ++ [SO o] |}
  | YQuery => {| y_sh := y_sh s; y_tls := y_tls s; y_push := y_push s; y_npop := y_npop s; y_reg := y_reg s; y_out := y_out s ++ [SQ (ycur s)] |}
  | YDispatch => {| y_sh := y_sh s; y_tls := y_tls s; y_push := y_push s; y_npop := y_npop s; y_reg := y_reg s; y_out := y_out s ++ [SD (ycur s)] |}
  end.

Definition yrun (l : list sact) : sst := fold_left ystep l y0.

(* ---- what a symbolic state denotes for a given argument and initial state *)
Fixpoint den (b sh0 : inst) (p0 : priv) (v : sval) : inst :=
  match v with
  | VArg => b | VSh => sh0 | VReg => p_reg p0
  | VTlsOr w => match p_tls p0 with Some x => x | None => den b sh0 p0 w end
  | VFrameOr k w => match nth_error (p_ctx p0) k with Some (old, _) => old | None => den b sh0 p0 w end
  end.

Definition den_ob (c : cfg) (b sh0 : inst) (p0 : priv) (o : sob) : obs :=
  match o with SO o => o | SQ v => OName (name_of c (den b sh0 p0 v)) | SD v => OInst (den b sh0 p0 v) end.

Definition den_st (c : cfg) (b sh0 : inst) (p0 : priv) (s : sst) : inst * priv :=
  (den b sh0 p0 (y_sh s),
   {| p_tls := match y_tls s with Some v => Some (den b sh0 p0 v) | None => p_tls p0 end;
      p_ctx := map (fun vl => (den b sh0 p0 (fst vl), snd vl)) (y_push s) ++ skipn (y_npop s) (p_ctx p0);
      p_reg := den b sh0 p0 (y_reg s);
      p_out := p_out p0 ++ map (den_ob c b sh0 p0) (y_out s) |}).

(* ---- syntactic equality of symbolic states, register ignored *)
Definition ieqb (a b : inst) : bool :=
  match a, b with
  | Named n, Named m => Nat.eqb n m | Obj k, Obj j => Nat.eqb k j | Foreign k, Foreign j => Nat.eqb k j
  | _, _ => false
  end.

Definition oeqb (a b : obs) : bool :=
  match a, b with
  | ODone, ODone | OReraised, OReraised | ORejected, ORejected | OExitFailed, OExitFailed | ONoCtx, ONoCtx => true
  | OName n, OName m => Nat.eqb n m
  | OInst i, OInst j => ieqb i j
  | _, _ => false
  end.

Fixpoint veqb (a b : sval) : bool :=
  match a, b with
  | VArg, VArg | VSh, VSh | VReg, VReg => true
  | VTlsOr x, VTlsOr y => veqb x y
  | VFrameOr k x, VFrameOr j y => Nat.eqb k j && veqb x y
  | _, _ => false
  end.

Definition sobeqb (a b : sob) : bool :=
  match a, b with
  | SO x, SO y => oeqb x y | SQ x, SQ y => veqb x y | SD x, SD y => veqb x y | _, _ => false
  end.

Fixpoint leqb {A} (e : A -> A -> bool) (a b : list A) : bool :=
  match a, b with [], [] => true | x :: a', y :: b' => e x y && leqb e a' b' | _, _ => false end.

Definition optveqb (a b : option sval) : bool :=
  match a, b with Some x, Some y => veqb x y | None, None => true | _, _ => false end.

Definition sst_eqb (s1 s2 : sst) : bool :=
  veqb (y_sh s1) (y_sh s2) && optveqb (y_tls s1) (y_tls s2) &&
  leqb (fun x y => veqb (fst x) (fst y) && Bool.eqb (snd x) (snd y)) (y_push s1) (y_push s2) &&
  Nat.eqb (y_npop s1) (y_npop s2) && leqb sobeqb (y_out s1) (y_out s2).

Definition blk_eqb (l1 l2 : list sact) : bool := sst_eqb (yrun l1) (yrun l2).

(* the same conclusion as a proposition about concrete runs: shared default, slot, stack and answers agree *)
Definition blk_same (c : cfg) (sh : inst) (p : priv) (l1 l2 : list act) : Prop :=
  let r1 := trun c (sh, p) l1 in
  let r2 := trun c (sh, p) l2 in
  fst r1 = fst r2 /\ p_tls (snd r1) = p_tls (snd r2) /\ p_ctx (snd r1) = p_ctx (snd r2) /\ p_out (snd r1) = p_out (snd r2).

(* ---- the model's programs in symbolic form (Model/Backend.v `compile`, selection resolved / frame present) *)
Definition swrites (v : ssrc) (l : bool) : sprog :=
  if l then [(YTls v, true)] else [(YTls v, false); (YDname v, false); (YShared v, true)].

Inductive shape := HSet (l : bool) | HEnter (l : bool) | HExit (l : bool) (e : bool).

Definition scompile (h : shape) : sprog :=
  match h with
  | HSet l => swrites SArg l ++ [(YEmit ODone, false)]
  | HEnter l => (YSave, true) :: swrites SArg l ++ [(YPush l, false); (YEmit ODone, false)]
  | HExit l e => (YPop, false) :: swrites SReg l ++ [(YEmit (if e then OReraised else ODone), false)]
  end.

(* ---- the check on regenerated programs: digits as produced by harness/props/C17.py source_programs *)
Definition dec_sact (d : nat) : sact * bool :=
  let tagged := 16 <=? d in
  let k := if tagged then d - 16 else d in
  (match k with
   | 0 => YSave | 1 => YTls SArg | 2 => YTls SReg | 3 => YDname SReg
   | 4 => YShared SArg | 5 => YShared SReg | 6 => YPush false | 7 => YPush true
   | 8 => YPop | 10 => YEmit ODone | 11 => YEmit OReraised | _ => YDispatch end, tagged).

Fixpoint dec_sprogs (n : nat) (l : list nat) : option (list sprog) :=
  match n with
  | O => match l with [] => Some [] | _ => None end
  | S n' => match l with
            | len :: r => match dec_sprogs n' (skipn len r) with
                          | Some ps => if length (firstn len r) =? len then Some (map dec_sact (firstn len r) :: ps) else None
                          | None => None end
            | [] => None
            end
  end.

(* the discipline is a property of the program's shape, not of the argument: evaluated on an arbitrary instance *)
Definition sprog_ok (l : sprog) : bool := prog_ok (inst_prog (Named 0) l).

Definition check_sprog (h : shape) (nlp : nat) (pr : sprog) : bool :=
  sprog_ok pr && Nat.eqb (count_lp (inst_prog (Named 0) pr)) nlp && blk_eqb (map fst pr) (map fst (scompile h)).

Definition shapes8 : list (shape * nat) :=
  [(HSet false, 1); (HEnter false, 2); (HExit false false, 1); (HExit false true, 1);
   (HSet true, 1); (HEnter true, 2); (HExit true false, 1); (HExit true true, 1)].

Fixpoint check_all (hs : list (shape * nat)) (ps : list sprog) : bool :=
  match hs, ps with
  | [], [] => true
  | (h, n) :: hs', p :: ps' => check_sprog h n p && check_all hs' ps'
  | _, _ => false
  end.

Definition src_ok (l : list nat) : bool :=
  match dec_sprogs 8 l with Some ps => check_all shapes8 ps | None => false end.
