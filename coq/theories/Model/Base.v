(* Model of tensorly/base.py: every function is the same composition of reshape (with -1),
   moveaxis / transpose and the same Python list surgery as the source.
   Polymorphic in the element type A. Definitions only. *)
From Coq Require Import List Arith Lia Bool.
From TLV Require Import Base.Shape Base.PyList Base.Tensor.
Import ListNotations.

Section M.
Context {A : Type} (d : A).

(* tl.reshape(tensor, (-1,)) *)
Definition tensor_to_vec (t : tensor A) : res (tensor A) := reshape_spec [None] t.

(* tl.reshape(vec, shape) *)
Definition vec_to_tensor (v : tensor A) (s : list nat) : res (tensor A) := reshape_spec (map Some s) v.

(* tl.reshape(tl.moveaxis(tensor, mode, 0), (tensor.shape[mode], -1)) *)
Definition unfold (t : tensor A) (m : nat) : res (tensor A) :=
  if m <? ndim t then reshape_spec [Some (nth m (shape t) 0); None] (moveaxis d t m 0) else Err.

(* full_shape = list(shape); mode_dim = full_shape.pop(mode); full_shape.insert(0, mode_dim)
   tl.moveaxis(tl.reshape(unfolded, full_shape), 0, mode) *)
Definition fold (u : tensor A) (m : nat) (s : list nat) : res (tensor A) :=
  if m <? length s then
    rbind (reshape_spec (map Some (nth m s 0 :: remove_nth m s)) u) (fun r => Ok (moveaxis d r 0 m))
  else Err.

Definition lastn {B} (k : nat) (l : list B) : list B := skipn (length l - k) l.

(* partial_unfold(tensor, mode, skip_begin, skip_end, ravel_tensors) *)
Definition partial_unfold (t : tensor A) (m sb se : nat) (rav : bool) : res (tensor A) :=
  let s := shape t in let n := length s in
  if (m + sb <? n) && (se <=? n) then
    let mid := if rav then [None] else [Some (nth (m + sb) s 0); None] in
    let spec := map Some (firstn sb s) ++ mid ++ map Some (lastn se s) in
    reshape_spec spec (moveaxis d t (m + sb) sb)
  else Err.

(* partial_fold(unfolded, mode, shape, skip_begin, skip_end) -- skip_end is unused by the source *)
Definition partial_fold (u : tensor A) (m : nat) (s : list nat) (sb se : nat) : res (tensor A) :=
  if sb + m <? length s then
    let ts := insert_at sb (nth (sb + m) s 0) (remove_nth (sb + m) s) in
    rbind (reshape_spec (map Some ts) u) (fun r => Ok (moveaxis d r sb (sb + m)))
  else Err.

Definition partial_tensor_to_vec (t : tensor A) (sb se : nat) := partial_unfold t 0 sb se true.
Definition partial_vec_to_tensor (u : tensor A) (s : list nat) (sb se : nat) := partial_fold u 0 s sb se.

Definition complement (n : nat) (rows : list nat) : list nat := filter (fun i => negb (memb i rows)) (seq 0 n).

(* matricize(tensor, row_modes, column_modes=None) *)
Definition matricize (t : tensor A) (rows : list nat) (cols : option (list nat)) : res (tensor A) :=
  let n := ndim t in
  let cs := match cols with Some c => c | None => complement n rows end in
  if is_permb n (rows ++ cs) then
    Ok (reshape [prod (permute 0 rows (shape t)); prod (permute 0 cs (shape t))] (transpose d (rows ++ cs) t))
  else Err.

End M.
