(* Model of tensorly/base.py, extension: signed (Python int) mode arguments, the backend's axis checks and
   the generic Backend.moveaxis of tensorly/backend/core.py.  Definitions only.  Imported by C01 only. *)
From Coq Require Import List Arith Lia Bool ZArith.
From TLV Require Import Base.Shape Base.PyList Base.Tensor Model.Base.
Import ListNotations.

Section MX.
Context {A : Type} (d : A).

(* ---------- Python integer arguments (negative modes) and the backend's axis checks ----------
   A Python `mode` is a signed integer.  NumPy (normalize_axis_index) and Python's own list / tuple
   indexing (tensor.shape[mode], list.pop(mode)) accept  -n <= mode < n  and read it modulo n; anything
   else raises.  The functions below take the mode as Z and reduce to the nat-indexed functions above. *)
Definition norm_axis (n : nat) (m : Z) : option nat :=
  if ((- Z.of_nat n <=? m) && (m <? Z.of_nat n))%Z then Some (Z.to_nat (m mod Z.of_nat n)) else None.

(* tl.moveaxis(tensor, source, destination) = np.moveaxis for the NumPy backend *)
Definition moveaxis_z (t : tensor A) (a b : Z) : res (tensor A) :=
  match norm_axis (ndim t) a, norm_axis (ndim t) b with
  | Some a', Some b' => Ok (moveaxis d t a' b')
  | _, _ => Err
  end.

(* Backend.moveaxis of tensorly/backend/core.py (the generic fallback that other backends inherit):
   axes = list(range(ndim)); axes.pop(source); axes.insert(destination, source); transpose(tensor, axes) *)
Definition moveaxis_generic (t : tensor A) (a b : nat) : tensor A :=
  transpose d (insert_at b a (remove_nth a (seq 0 (ndim t)))) t.

(* signed arguments of the generic fallback: a negative index is read through axes[index] (raises below -n);
   list.pop(source) raises for source >= n; list.insert(destination, .) never raises: a destination >= n
   is clamped to the end (insert_at clamps in the same way) *)
Definition moveaxis_generic_z (t : tensor A) (a b : Z) : res (tensor A) :=
  match norm_axis (ndim t) a, (if (b <? 0)%Z then norm_axis (ndim t) b else Some (Z.to_nat b)) with
  | Some a', Some b' => Ok (moveaxis_generic t a' b')
  | _, _ => Err
  end.

Definition unfold_z (t : tensor A) (m : Z) : res (tensor A) :=
  match norm_axis (ndim t) m with Some k => unfold d t k | None => Err end.

Definition fold_z (u : tensor A) (m : Z) (s : list nat) : res (tensor A) :=
  match norm_axis (length s) m with Some k => fold d u k s | None => Err end.

(* partial_unfold with the moved axis given absolutely (k = mode + skip_begin after normalisation).
   tensor.shape[i] for i in range(skip_begin) needs skip_begin <= n, moveaxis(., ., skip_begin) needs
   skip_begin < n; tensor.shape[-i] for i in range(skip_end, 0, -1) needs skip_end <= n. *)
Definition partial_unfold_at (t : tensor A) (k sb se : nat) (rav : bool) : res (tensor A) :=
  let s := shape t in let n := length s in
  if (k <? n) && (sb <? n) && (se <=? n) then
    let mid := if rav then [None] else [Some (nth k s 0); None] in
    reshape_spec (map Some (firstn sb s) ++ mid ++ map Some (lastn se s)) (moveaxis d t k sb)
  else Err.

Definition partial_unfold_z (t : tensor A) (m : Z) (sb se : nat) (rav : bool) : res (tensor A) :=
  match norm_axis (ndim t) (m + Z.of_nat sb)%Z with Some k => partial_unfold_at t k sb se rav | None => Err end.

Definition partial_fold_at (u : tensor A) (k : nat) (s : list nat) (sb : nat) : res (tensor A) :=
  if (k <? length s) && (sb <? length s) then
    rbind (reshape_spec (map Some (insert_at sb (nth k s 0) (remove_nth k s))) u) (fun r => Ok (moveaxis d r sb k))
  else Err.

Definition partial_fold_z (u : tensor A) (m : Z) (s : list nat) (sb se : nat) : res (tensor A) :=
  match norm_axis (length s) (Z.of_nat sb + m)%Z with Some k => partial_fold_at u k s sb | None => Err end.

(* matricize with signed mode lists: a negative entry can never be part of a valid request
   (with column_modes given the sorted() test fails; without, the default columns already contain
   every mode, so the transposition has too many / repeated axes). *)
Definition all_nonneg (l : list Z) : bool := forallb (fun z => (0 <=? z)%Z) l.
Definition matricize_z (t : tensor A) (rows : list Z) (cols : option (list Z)) : res (tensor A) :=
  if all_nonneg rows && match cols with Some c => all_nonneg c | None => true end then
    matricize d t (map Z.to_nat rows) (match cols with Some c => Some (map Z.to_nat c) | None => None end)
  else Err.

End MX.
