(* Model of tensorly/base.py, statement by statement, against an ABSTRACT backend (the three calls tl.reshape,
   tl.moveaxis, tl.transpose and tensor.shape) and the semantics of the Python list / int operations the source uses
   (signed indexing, list.pop, list.insert, range, list comprehensions, sorted, prod).  Arguments are Python values:
   modes, skip_begin, skip_end are signed integers (Z), shapes are lists of Z (-1 allowed in a reshape request).
   Exceptions are the `Err` of the monad `res`; evaluation order is Python's (arguments left to right).

   The g_ functions below are what harness/props/C01_ast.py regenerates from the CURRENT source of base.py on every run
   (`ast_f`); each run re-proves  forall B args, ast_f B args = g_f B args.

   Two instances of the backend: `plain d` (Base/Tensor.v's index-level NumPy primitives, with NumPy's argument
   normalisation: negative axes, negative = inferred dimension in reshape) and `typed d` (the same on arrays that
   carry a dtype tag).  Definitions only.  Imported by C01 only. *)
From Coq Require Import List Arith Lia Bool ZArith.
From TLV Require Import Base.Shape Base.PyList Base.Tensor Model.Base Model.BaseExt.
Import ListNotations.

Record backend (T : Type) := mkB {
  b_shape : T -> list nat;
  b_reshape : T -> list Z -> res T;
  b_moveaxis : T -> Z -> Z -> res T;
  b_transpose : T -> list Z -> res T }.
Arguments mkB {T}. Arguments b_shape {T}. Arguments b_reshape {T}. Arguments b_moveaxis {T}. Arguments b_transpose {T}.

(* ---------- Python values ---------- *)
Definition py_shape {T} (B : backend T) (t : T) : list Z := map Z.of_nat (b_shape B t).
Definition py_ndim {T} (B : backend T) (t : T) : Z := Z.of_nat (length (b_shape B t)).

(* seq[i] : IndexError outside -len..len-1 *)
Definition py_getitem {X} (l : list X) (i : Z) : res X :=
  match norm_axis (length l) i with
  | Some k => match nth_error l k with Some x => Ok x | None => Err end
  | None => Err
  end.
(* l.pop(i) -> (popped value, the list afterwards) *)
Definition py_pop {X} (l : list X) (i : Z) : res (X * list X) :=
  match norm_axis (length l) i with
  | Some k => match nth_error l k with Some x => Ok (x, remove_nth k l) | None => Err end
  | None => Err
  end.
(* l.insert(i, x) never raises: a negative index counts from the end, everything is clipped to 0..len *)
Definition py_insert {X} (l : list X) (i : Z) (x : X) : list X :=
  let n := Z.of_nat (length l) in
  insert_at (Z.to_nat (if (i <? 0)%Z then Z.max 0 (i + n) else Z.min i n)) x l.
Definition py_range1 (n : Z) : list Z := map Z.of_nat (seq 0 (Z.to_nat n)).
Definition py_range3 (a b s : Z) : list Z :=
  let n := if (0 <? s)%Z then Z.max 0 ((b - a + s - 1) / s)
           else if (s <? 0)%Z then Z.max 0 ((a - b - s - 1) / (- s)) else 0%Z in
  map (fun k => (a + Z.of_nat k * s)%Z) (seq 0 (Z.to_nat n)).
(* [f(i) for i in l] where f may raise: elements are evaluated in order *)
Fixpoint rmapM {X Y} (f : X -> res Y) (l : list X) : res (list Y) :=
  match l with
  | [] => Ok []
  | x :: r => rbind (f x) (fun y => rbind (rmapM f r) (fun ys => Ok (y :: ys)))
  end.
Fixpoint zlist_eqb (a b : list Z) : bool :=
  match a, b with
  | [], [] => true
  | x :: a', y :: b' => Z.eqb x y && zlist_eqb a' b'
  | _, _ => false
  end.
Definition zmemb (z : Z) (l : list Z) : bool := existsb (Z.eqb z) l.
Fixpoint zinsert (z : Z) (l : list Z) : list Z :=
  match l with [] => [z] | x :: r => if (z <=? x)%Z then z :: l else x :: zinsert z r end.
Definition py_sorted (l : list Z) : list Z := fold_right zinsert [] l.
Definition zprod (l : list Z) : Z := fold_right Z.mul 1%Z l.
(* an argument documented as "tuple of ints" for which the source also accepts a bare int *)
Inductive pyseq := PInt (z : Z) | PSeq (l : list Z).
(* list(x): TypeError when x is an int *)
Definition py_list (x : pyseq) : res (list Z) := match x with PSeq l => Ok l | PInt _ => Err end.
(* try: r  except <the exception r can raise>: h *)
Definition rcatch {X} (r h : res X) : res X := match r with Ok v => Ok v | Err => h end.

(* ---------- tensorly/base.py ---------- *)
Section G.
Context {T : Type} (B : backend T).

(* return tl.reshape(tensor, (-1,)) *)
Definition g_tensor_to_vec (tensor : T) : res T :=
  b_reshape B tensor [(-1)%Z].

(* return tl.reshape(vec, shape) *)
Definition g_vec_to_tensor (vec : T) (shape : list Z) : res T :=
  b_reshape B vec shape.

(* return tl.reshape(tl.moveaxis(tensor, mode, 0), (tensor.shape[mode], -1)) *)
Definition g_unfold (tensor : T) (mode : Z) : res T :=
  rbind (b_moveaxis B tensor mode 0%Z) (fun x1 =>
  rbind (py_getitem (py_shape B tensor) mode) (fun x2 =>
  b_reshape B x1 [x2; (-1)%Z])).

(* full_shape = list(shape); mode_dim = full_shape.pop(mode); full_shape.insert(0, mode_dim)
   return tl.moveaxis(tl.reshape(unfolded_tensor, full_shape), 0, mode) *)
Definition g_fold (unfolded_tensor : T) (mode : Z) (shape : list Z) : res T :=
  let full_shape := shape in
  rbind (py_pop full_shape mode) (fun x1 =>
  let mode_dim := fst x1 in let full_shape := snd x1 in
  let full_shape := py_insert full_shape 0%Z mode_dim in
  rbind (b_reshape B unfolded_tensor full_shape) (fun x2 =>
  b_moveaxis B x2 0%Z mode)).

(* if ravel_tensors: new_shape = [-1]
   else: new_shape = [tensor.shape[mode + skip_begin], -1]
   if skip_begin: new_shape = [tensor.shape[i] for i in range(skip_begin)] + new_shape
   if skip_end: new_shape += [tensor.shape[-i] for i in range(skip_end, 0, -1)]
   return tl.reshape(tl.moveaxis(tensor, mode + skip_begin, skip_begin), new_shape) *)
Definition g_partial_unfold (tensor : T) (mode skip_begin skip_end : Z) (ravel_tensors : bool) : res T :=
  rbind (if ravel_tensors then (let new_shape := [(-1)%Z] in Ok new_shape)
         else (rbind (py_getitem (py_shape B tensor) (mode + skip_begin)%Z) (fun x1 =>
               let new_shape := [x1; (-1)%Z] in Ok new_shape))) (fun new_shape =>
  rbind (if negb (Z.eqb skip_begin 0)
         then (rbind (rmapM (fun i => py_getitem (py_shape B tensor) i) (py_range1 skip_begin)) (fun x3 =>
               let new_shape := x3 ++ new_shape in Ok new_shape))
         else Ok new_shape) (fun new_shape =>
  rbind (if negb (Z.eqb skip_end 0)
         then (rbind (rmapM (fun i => py_getitem (py_shape B tensor) (- i)%Z) (py_range3 skip_end 0%Z (-1)%Z)) (fun x5 =>
               let new_shape := new_shape ++ x5 in Ok new_shape))
         else Ok new_shape) (fun new_shape =>
  rbind (b_moveaxis B tensor (mode + skip_begin)%Z skip_begin) (fun x6 =>
  b_reshape B x6 new_shape)))).

(* transposed_shape = list(shape); mode_dim = transposed_shape.pop(skip_begin + mode)
   transposed_shape.insert(skip_begin, mode_dim)
   return tl.moveaxis(tl.reshape(unfolded, transposed_shape), skip_begin, skip_begin + mode) *)
Definition g_partial_fold (unfolded : T) (mode : Z) (shape : list Z) (skip_begin skip_end : Z) : res T :=
  let transposed_shape := shape in
  rbind (py_pop transposed_shape (skip_begin + mode)%Z) (fun x1 =>
  let mode_dim := fst x1 in let transposed_shape := snd x1 in
  let transposed_shape := py_insert transposed_shape skip_begin mode_dim in
  rbind (b_reshape B unfolded transposed_shape) (fun x2 =>
  b_moveaxis B x2 skip_begin (skip_begin + mode)%Z)).

Definition g_partial_tensor_to_vec (tensor : T) (skip_begin skip_end : Z) : res T :=
  g_partial_unfold tensor 0%Z skip_begin skip_end true.

Definition g_partial_vec_to_tensor (matrix : T) (shape : list Z) (skip_begin skip_end : Z) : res T :=
  g_partial_fold matrix 0%Z shape skip_begin skip_end.

(* try: row_indices = list(row_modes)
   except TypeError: row_indices = [row_modes]                      (a bare int stands for the one-element list)
   if column_modes is None: column_indices = [i for i in range(tl.ndim(tensor)) if i not in row_indices]
   else: try: column_indices = list(column_modes)
         except TypeError: column_indices = [column_modes]
         if sorted(column_indices + row_indices) != list(range(tl.ndim(tensor))): raise ValueError
   row_size = prod(tl.shape(tensor)[i] for i in row_indices); column_size = prod(... for i in column_indices)
   return tl.reshape(tl.transpose(tensor, row_indices + column_indices), (row_size, column_size)) *)
Definition g_matricize (tensor : T) (row_modes : pyseq) (column_modes : option pyseq) : res T :=
  rbind (rcatch (rbind (py_list row_modes) (fun x1 => let row_indices := x1 in Ok row_indices))
                (rbind (match row_modes with PInt z => Ok [z] | PSeq _ => Err end) (fun x2 => let row_indices := x2 in Ok row_indices)))
        (fun row_indices =>
  rbind (match column_modes with
         | None => (let column_indices := filter (fun i => negb (zmemb i row_indices)) (py_range1 (py_ndim B tensor)) in
                    Ok column_indices)
         | Some column_modes =>
             (rbind (rcatch (rbind (py_list column_modes) (fun x3 => let column_indices := x3 in Ok column_indices))
                            (rbind (match column_modes with PInt z => Ok [z] | PSeq _ => Err end)
                                   (fun x4 => let column_indices := x4 in Ok column_indices)))
                    (fun column_indices =>
              rbind (if negb (zlist_eqb (py_sorted (column_indices ++ row_indices)) (py_range1 (py_ndim B tensor)))
                     then Err else Ok tt) (fun _ =>
              Ok column_indices)))
         end) (fun column_indices =>
  rbind (rmapM (fun i => py_getitem (py_shape B tensor) i) row_indices) (fun x6 =>
  let row_size := zprod x6 in
  rbind (rmapM (fun i => py_getitem (py_shape B tensor) i) column_indices) (fun x8 =>
  let column_size := zprod x8 in
  rbind (b_transpose B tensor (row_indices ++ column_indices)) (fun x9 =>
  b_reshape B x9 [row_size; column_size]))))).

End G.

(* ---------- the NumPy backend on Base/Tensor.v, with NumPy's argument normalisation ---------- *)
(* np.reshape: every negative entry of the request stands for the one inferred dimension (NumPy 2 reads -2 as -1) *)
Definition spec_of_z (l : list Z) : list (option nat) :=
  map (fun z => if (z <? 0)%Z then None else Some (Z.to_nat z)) l.
(* np.transpose: each axis is normalised (-n..n-1), then the axes must be a permutation of 0..n-1 *)
Fixpoint norm_axes (n : nat) (l : list Z) : option (list nat) :=
  match l with
  | [] => Some []
  | z :: r => match norm_axis n z, norm_axes n r with Some k, Some ks => Some (k :: ks) | _, _ => None end
  end.

Section NP.
Context {A : Type} (d : A).

Definition np_transpose (t : tensor A) (p : list Z) : res (tensor A) :=
  match norm_axes (ndim t) p with
  | Some q => if is_permb (ndim t) q then Ok (transpose d q t) else Err
  | None => Err
  end.

Definition plain : backend (tensor A) :=
  mkB (@shape A) (fun t l => reshape_spec (spec_of_z l) t) (moveaxis_z d) np_transpose.

(* arrays with a dtype tag D: the primitives act on the entries and carry the tag along *)
Record ndarray (D : Type) := mkarr { dt : D; arr : tensor A }.
Arguments mkarr {D}. Arguments dt {D}. Arguments arr {D}.

Definition retag {D} (a : ndarray D) (r : res (tensor A)) : res (ndarray D) :=
  match r with Ok t => Ok (mkarr (dt a) t) | Err => Err end.

Definition typed (D : Type) : backend (ndarray D) :=
  mkB (fun a => shape (arr a))
      (fun a l => retag a (b_reshape plain (arr a) l))
      (fun a x y => retag a (b_moveaxis plain (arr a) x y))
      (fun a p => retag a (b_transpose plain (arr a) p)).

End NP.
Arguments ndarray : clear implicits.
Arguments mkarr {A D}. Arguments dt {A D}. Arguments arr {A D}.
