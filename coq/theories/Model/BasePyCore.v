(* Model of the generic Backend.moveaxis of tensorly/backend/core.py (the fallback that backends without a native moveaxis
   inherit), statement by statement over the abstract backend of Model/BasePy.v; regenerated from the CURRENT source by
   harness/props/C01_ast.py on every run and re-proved equal.  Definitions only.  Imported by C01 only. *)
From Coq Require Import List Arith Bool ZArith.
From TLV Require Import Base.Shape Base.PyList Base.Tensor Model.Base Model.BaseExt Model.BasePy.
Import ListNotations.

Section GC.
Context {T : Type} (B : backend T).

(* axes = list(range(self.ndim(tensor)))
   if source < 0: source = axes[source]
   if destination < 0: destination = axes[destination]
   try: axes.pop(source)                      except IndexError: raise ValueError
   try: axes.insert(destination, source)      except IndexError: raise ValueError
   return self.transpose(tensor, axes) *)
Definition g_moveaxis_generic (tensor : T) (source destination : Z) : res T :=
  let axes := py_range1 (py_ndim B tensor) in
  rbind (if Z.ltb source 0 then (rbind (py_getitem axes source) (fun x1 => let source := x1 in Ok source)) else Ok source) (fun source =>
  rbind (if Z.ltb destination 0 then (rbind (py_getitem axes destination) (fun x2 => let destination := x2 in Ok destination))
         else Ok destination) (fun destination =>
  rbind (py_pop axes source) (fun x3 =>
  let axes := snd x3 in
  let axes := py_insert axes destination source in
  b_transpose B tensor axes))).

End GC.
