(* Model of the remaining backend calls tensorly/base.py makes, as the NumPy backend resolves them
   (tensorly/backend/numpy_backend.py registers numpy's own reshape / moveaxis / transpose / shape with
   Backend.register_method - no wrapper - and defines ndim as `return tensor.ndim`):
     tl.reshape(tensor, newshape)   newshape "int or tuple of ints" (tuple and list alike), a negative entry = the inferred one
     tl.transpose(tensor, axes)     axes None = the reversed axes
     tl.shape(tensor), tl.ndim(tensor)
   over Base/Tensor.v's index-level primitives and Model/BasePy.v's NumPy instance.  Definitions only.  Imported by C01 only. *)
From Coq Require Import List Arith Bool ZArith.
From TLV Require Import Base.Shape Base.PyList Base.Tensor Model.Base Model.BaseExt Model.BasePy.
Import ListNotations.

(* seq[a:b] with optional signed bounds (step 1): a negative bound counts from the end, both are clipped to 0..len, an empty
   range gives []; never raises.  Used by harness/props/C01_ast.py when the source slices a shape. *)
Definition py_clip (n : nat) (i : Z) : nat :=
  Z.to_nat (if (i <? 0)%Z then Z.max 0 (i + Z.of_nat n) else Z.min i (Z.of_nat n)).
Definition py_slice {X} (l : list X) (a b : option Z) : list X :=
  let n := length l in
  let lo := match a with Some i => py_clip n i | None => 0 end in
  let hi := match b with Some i => py_clip n i | None => n end in
  firstn (hi - lo) (skipn lo l).

(* newshape : int or sequence of ints *)
Inductive shape_arg := SInt (z : Z) | SSeq (l : list Z).
Definition shape_arg_list (a : shape_arg) : list Z := match a with SInt z => [z] | SSeq l => l end.

Section NPX.
Context {A : Type} (d : A).

(* np.reshape(a, newshape): an int n stands for the 1-D shape (n,) *)
Definition np_reshape (t : tensor A) (a : shape_arg) : res (tensor A) :=
  b_reshape (plain d) t (shape_arg_list a).

(* np.transpose(a, axes=None): None reverses the order of the axes *)
Definition np_transpose_opt (t : tensor A) (axes : option (list Z)) : res (tensor A) :=
  b_transpose (plain d) t (match axes with Some p => p | None => rev (py_range1 (Z.of_nat (ndim t))) end).

(* np.shape(a) (a tuple of Python ints) and tensor.ndim *)
Definition np_shape (t : tensor A) : list Z := py_shape (plain d) t.
Definition np_ndim (t : tensor A) : Z := py_ndim (plain d) t.

(* the same on arrays carrying a dtype tag *)
Definition np_reshape_typed {D} (a : ndarray A D) (s : shape_arg) : res (ndarray A D) := retag a (np_reshape (arr a) s).
Definition np_transpose_opt_typed {D} (a : ndarray A D) (axes : option (list Z)) : res (ndarray A D) :=
  retag a (np_transpose_opt (arr a) axes).

End NPX.
