(* Model of the constraint machinery of constrained CP (C11):
     tensorly/tenalg/proximal.py : validate_constraints, proximal_operator (dispatch)
     tensorly/solvers/admm.py    : admm (loop skeleton: which value is returned)
     tensorly/decomposition/_constrained_cp.py : initialize_constrained_parafac, constrained_parafac
                                    (loop skeleton: which factor is written by whom)
   Definitions only.  Numerical content (least-squares solve, MTTKRP, the operators themselves, the
   stopping tests) is abstract: the property is about WHICH operator produced the returned factor. *)
From Coq Require Import List Arith Bool Lia ZArith.
From TLV Require Import Base.PyList Base.Tensor.
Import ListNotations.

(* the twelve keyword arguments, in the order of `constraints_list` / `constraints_names` *)
Inductive kind :=
| KNonNeg | KL1 | KL2 | KL2sq | KUnimodal | KNormalize | KSimplex | KNormSparsity | KSoftSparsity
| KSmooth | KMonotone | KHardSparsity.

Definition all_kinds : list kind :=
  [KNonNeg; KL1; KL2; KL2sq; KUnimodal; KNormalize; KSimplex; KNormSparsity; KSoftSparsity; KSmooth; KMonotone; KHardSparsity].

Definition kind_id (k : kind) : nat :=
  match k with
  | KNonNeg => 0 | KL1 => 1 | KL2 => 2 | KL2sq => 3 | KUnimodal => 4 | KNormalize => 5 | KSimplex => 6
  | KNormSparsity => 7 | KSoftSparsity => 8 | KSmooth => 9 | KMonotone => 10 | KHardSparsity => 11
  end.
Definition kind_eqb (a b : kind) : bool := Nat.eqb (kind_id a) (kind_id b).

(* the eight kinds whose operator is a projection onto / map into a constraint set ("hard" constraints) *)
Definition hard_kind (k : kind) : bool :=
  match k with
  | KNonNeg | KUnimodal | KNormalize | KSimplex | KNormSparsity | KSoftSparsity | KMonotone | KHardSparsity => true
  | _ => false
  end.

Section Spec.
  (* P: the Python values that can be given as parameters; truthy: Python's bool(p) *)
  Context {P : Type} (truthy : P -> bool).

  (* what the user may pass for one keyword: None | a scalar | a list (entries None or a value) | a dict mode -> value *)
  Inductive spec :=
  | SNone
  | SScalar (p : P)
  | SList (l : list (option P))
  | SDict (d : list (nat * P)).

  Definition is_nil {A} (l : list A) : bool := match l with [] => true | _ => false end.

  (* `if each_constraint:` *)
  Definition spec_truthy (s : spec) : bool :=
    match s with
    | SNone => false
    | SScalar p => truthy p
    | SList l => negb (is_nil l)
    | SDict d => negb (is_nil d)
    end.

  (* `for i in range(len(l)): if l[i]: ... (i, l[i])` *)
  Fixpoint list_assigns (i : nat) (l : list (option P)) : list (nat * P) :=
    match l with
    | [] => []
    | Some p :: r => if truthy p then (i, p) :: list_assigns (S i) r else list_assigns (S i) r
    | None :: r => list_assigns (S i) r
    end.

  (* the (mode, parameter) pairs one keyword addresses, in the order the code visits them *)
  Definition assigns (n : nat) (s : spec) : list (nat * P) :=
    if spec_truthy s then
      match s with
      | SNone => []
      | SScalar p => map (fun i => (i, p)) (seq 0 n)
      | SList l => list_assigns 0 l
      | SDict d => d
      end
    else [].

  (* --- "Checking that no mode is constrained twice" *)
  Fixpoint add_all (seen : list nat) (ms : list nat) : res (list nat) :=
    match ms with
    | [] => Ok seen
    | m :: r => if memb m seen then Err else add_all (m :: seen) r
    end.

  Definition scan_one (n : nat) (seen : list nat) (s : spec) : res (list nat) :=
    if spec_truthy s then
      match s with
      | SScalar _ => match seen with [] => add_all [] (seq 0 n) | _ :: _ => Err end   (* len(modes_constrained) > 0 -> raise *)
      | _ => add_all seen (map fst (assigns n s))
      end
    else Ok seen.

  Fixpoint scan (n : nat) (seen : list nat) (sp : list (kind * spec)) : res (list nat) :=
    match sp with
    | [] => Ok seen
    | (_, s) :: r => rbind (scan_one n seen s) (fun seen' => scan n seen' r)
    end.

  (* --- registrer_constraint: constraints[mode] = name; parameters[mode] = value  (IndexError beyond n_const) *)
  Definition table := list (option (kind * P)).

  Fixpoint write (tab : table) (k : kind) (asg : list (nat * P)) : res table :=
    match asg with
    | [] => Ok tab
    | (m, p) :: r => if m <? length tab then write (set_nth m (Some (k, p)) tab) k r else Err
    end.

  Fixpoint register (n : nat) (tab : table) (sp : list (kind * spec)) : res table :=
    match sp with
    | [] => Ok tab
    | (k, s) :: r => rbind (write tab k (assigns n s)) (fun t => register n t r)
    end.

  (* the whole (constraints, parameters) table; validate_constraints returns its entry `order` *)
  Definition validate_table (n : nat) (sp : list (kind * spec)) : res table :=
    rbind (scan n [] sp) (fun _ => register n (repeat None n) sp).

  Definition validate (n : nat) (sp : list (kind * spec)) (order : nat) : res (option (kind * P)) :=
    rbind (validate_table n sp) (fun t => if order <? n then Ok (nth order t None) else Err).

  (* the call site: the twelve keywords zipped with their names *)
  Definition keywords (f : kind -> spec) : list (kind * spec) := map (fun k => (k, f k)) all_kinds.

  (* ------------------------------------------------------------------ dict keys as Python ints
     The definitions above take dict keys as natural numbers.  The code accepts any int: the double-constraint
     scan normalises a key with `mode_index` (negative keys count from the last mode; ValueError outside [-n, n)),
     the registration indexes a Python list (`constraints[modes[i]] = name`), which wraps negative keys around in
     the same way.  The z* definitions model exactly that; they are the definitions the correspondence executes.
     For keys in [-n, n) they coincide with the definitions above applied to the normalised keys
     (Proofs/ConstraintsProofsKeys.v).  (Before fix c019b1a the scan compared the raw keys: 2 and -1 on order 3
     were taken for different modes.) *)
  Inductive zspec :=
  | ZNone
  | ZScalar (p : P)
  | ZList (l : list (option P))
  | ZDict (d : list (Z * P)).

  (* Python list indexing `lst[key]` for a list of length n: the position, or IndexError *)
  Definition resolve (n : nat) (key : Z) : option nat :=
    if (0 <=? key)%Z then (if (key <? Z.of_nat n)%Z then Some (Z.to_nat key) else None)
    else if (- Z.of_nat n <=? key)%Z then Some (Z.to_nat (key + Z.of_nat n)) else None.

  Definition zspec_truthy (s : zspec) : bool :=
    match s with
    | ZNone => false
    | ZScalar p => truthy p
    | ZList l => negb (is_nil l)
    | ZDict d => negb (is_nil d)
    end.

  Definition zkey (mp : nat * P) : Z * P := (Z.of_nat (fst mp), snd mp).

  (* the (raw key, parameter) pairs one keyword addresses, in the order the code visits them *)
  Definition zassigns (n : nat) (s : zspec) : list (Z * P) :=
    if zspec_truthy s then
      match s with
      | ZNone => []
      | ZScalar p => map (fun i => (Z.of_nat i, p)) (seq 0 n)
      | ZList l => map zkey (list_assigns 0 l)
      | ZDict d => d
      end
    else [].

  (* the scan: `mode = mode_index(mode)` (ValueError outside [-n, n)), `if mode in modes_constrained: raise`, add;
     the set holds mode numbers *)
  Fixpoint zadd_keys (n : nat) (seen : list nat) (ks : list Z) : res (list nat) :=
    match ks with
    | [] => Ok seen
    | key :: r =>
        match resolve n key with
        | None => Err
        | Some m => if memb m seen then Err else zadd_keys n (m :: seen) r
        end
    end.

  Definition zscan_one (n : nat) (seen : list nat) (s : zspec) : res (list nat) :=
    if zspec_truthy s then
      match s with
      | ZNone => Ok seen
      | ZScalar _ => match seen with [] => add_all [] (seq 0 n) | _ :: _ => Err end   (* len(modes_constrained) > 0 -> raise *)
      | ZList l => add_all seen (map fst (list_assigns 0 l))                           (* list positions, as they are *)
      | ZDict d => zadd_keys n seen (map fst d)
      end
    else Ok seen.

  Fixpoint zscan (n : nat) (seen : list nat) (sp : list (kind * zspec)) : res (list nat) :=
    match sp with
    | [] => Ok seen
    | (_, s) :: r => rbind (zscan_one n seen s) (fun seen' => zscan n seen' r)
    end.

  Fixpoint zwrite (tab : table) (k : kind) (asg : list (Z * P)) : res table :=
    match asg with
    | [] => Ok tab
    | (key, p) :: r =>
        match resolve (length tab) key with
        | Some m => zwrite (set_nth m (Some (k, p)) tab) k r
        | None => Err
        end
    end.

  Fixpoint zregister (n : nat) (tab : table) (sp : list (kind * zspec)) : res table :=
    match sp with
    | [] => Ok tab
    | (k, s) :: r => rbind (zwrite tab k (zassigns n s)) (fun t => zregister n t r)
    end.

  Definition zvalidate_table (n : nat) (sp : list (kind * zspec)) : res table :=
    rbind (zscan n [] sp) (fun _ => zregister n (repeat None n) sp).

  (* validate_constraints(..., n_const = n, order = order) *)
  Definition zvalidate (n : nat) (sp : list (kind * zspec)) (order : nat) : res (option (kind * P)) :=
    rbind (zvalidate_table n sp) (fun t => if order <? n then Ok (nth order t None) else Err).

  Definition zkeywords (f : kind -> zspec) : list (kind * zspec) := map (fun k => (k, f k)) all_kinds.

  (* ------------------------------------------------------------------ dispatch and loops *)
  Section Loops.
    (* M: factor matrices.  op k p: the operator selected by proximal_operator for constraint k, parameter p.
       val order: what validate_constraints returns for the keyword values of this call and this `order`
       (the same keyword values are handed to every call; instantiated with `zvalidate truthy n sp`). *)
    Context {M : Type} (dM : M) (op : kind -> P -> M -> M) (val : nat -> res (option (kind * P))).

    Definition prox_of (c : option (kind * P)) (x : M) : M :=
      match c with None => x | Some (k, p) => op k p x end.

    (* proximal_operator(tensor, **specs, n_const=n, order=order) *)
    Definition proximal_operator (order : nat) (x : M) : res M :=
      rbind (val order) (fun c => Ok (prox_of c x)).

    (* admm: split x dual = transpose(x_split) (the regularised least-squares solve),
       conv = the residual test (any boolean function of the iteration and the iterates). *)
    Context (msub madd : M -> M -> M).

    Fixpoint admm_loop (fuel it : nat) (split : M -> M -> M) (conv : nat -> M -> M -> M -> bool)
             (prox : M -> res M) (x dual : M) (xs : option M) : res (M * option M * M) :=
      match fuel with
      | 0 => Ok (x, xs, dual)
      | S f =>
          let s := split x dual in
          rbind (prox (msub s dual)) (fun x' =>
          let dual' := msub (madd dual x') s in
          if conv it x' s dual' then Ok (x', Some s, dual')
          else admm_loop f (S it) split conv prox x' dual' (Some s))
      end.

    (* `x_split = tl.transpose(x)` before the loop (fix fe4edf7; before it x_split was unbound when the loop body never ran and
       admm raised UnboundLocalError for n_iter_max = 0): with an inner budget of 0 admm returns its start - x, the split variable
       consistent with it (s stands for transpose(x_split): x itself), the dual variable - WITHOUT calling proximal_operator: the
       request is not even validated and nothing is projected *)
    Definition admm (n_iter : nat) split conv prox (x dual : M) : res (M * M * M) :=
      rbind (admm_loop n_iter 0 split conv prox x dual None) (fun r =>
        match r with
        | (x', Some s, d') => Ok (x', s, d')
        | (x', None, d') => Ok (x', x', d')
        end).

    (* initialisation: 'svd' / 'random' produce raw factors that are passed through the operator of their mode;
       a user CP tensor is taken as it is (weights absorbed in the last factor - abstract here) *)
    Inductive init :=
    | IComputed (raw : list M)
    | IUser (fs : list M).

    Fixpoint prox_all (i : nat) (fs : list M) : res (list M) :=
      match fs with
      | [] => Ok []
      | f :: r => rbind (proximal_operator i f) (fun f' => rbind (prox_all (S i) r) (fun r' => Ok (f' :: r')))
      end.

    Definition initialize (i0 : init) : res (list M) :=
      match i0 with
      | IComputed raw => prox_all 0 raw
      | IUser fs => Ok fs
      end.

    (* fixed_modes: the last mode is removed (list.remove: first occurrence) *)
    Fixpoint remove_first (a : nat) (l : list nat) : list nat :=
      match l with [] => [] | x :: r => if Nat.eqb x a then r else x :: remove_first a r end.
    Definition modes_list (n : nat) (fixed : list nat) : list nat :=
      let fixed' := if memb (n - 1) fixed then remove_first (n - 1) fixed else fixed in
      filter (fun m => negb (memb m fixed')) (seq 0 n).

    Record env := mkEnv {
      e_split : list M -> nat -> M -> M -> M;       (* factors, mode: the ADMM least-squares step of that mode *)
      e_conv : nat -> nat -> nat -> M -> M -> M -> bool;   (* outer iteration, mode, inner iteration: residual test *)
      e_stop : nat -> list M -> list M -> bool;     (* outer iteration, factors, duals: outer stopping rule *)
      e_errdef : nat -> list M -> bool              (* mode, factors: `mttkrp(mode) * factors[-1]` is defined (the shapes broadcast);
                                                       consulted only when the last mode was not updated *)
    }.

    Definition update_mode (E : env) (inner it : nat)
               (st : list M * list M) (mode : nat) : res (list M * list M) :=
      let '(fs, duals) := st in
      rbind (admm inner (e_split E fs mode) (e_conv E it mode) (proximal_operator mode)
                  (nth mode fs dM) (nth mode duals dM))
            (fun r => let '(x, _, d) := r in Ok (set_nth mode x fs, set_nth mode d duals)).

    Fixpoint sweep (E : env) inner it (st : list M * list M) (modes : list nat) : res (list M * list M) :=
      match modes with
      | [] => Ok st
      | m :: r => rbind (update_mode E inner it st m) (fun st' => sweep E inner it st' r)
      end.

    (* after a sweep: `iprod = sum(mttkrp * factors[-1] ...)` with the MTTKRP left over from the LAST updated mode.
       - no mode updated (only reachable through a duplicated last mode in fixed_modes, e.g. [0,1,2,2]): `mttkrp` is unbound,
         UnboundLocalError;
       - the last mode n-1 updated (modes is increasing, so it is then the last element): always defined;
       - otherwise (e.g. fixed_modes = [2,2] on order 3): defined iff the shapes happen to broadcast - numerical content, e_errdef. *)
    Definition err_defined (E : env) (n : nat) (modes : list nat) (fs : list M) : bool :=
      match modes with
      | [] => false
      | _ :: _ => if memb (n - 1) modes then true else e_errdef E (last modes 0) fs
      end.

    Fixpoint outer_loop (E : env) (n : nat) inner (fuel it : nat) (modes : list nat) (st : list M * list M)
      : res (list M * list M) :=
      match fuel with
      | 0 => Ok st
      | S f =>
          rbind (sweep E inner it st modes) (fun st' =>
          if err_defined E n modes (fst st') then
            (if e_stop E it (fst st') (snd st') then Ok st' else outer_loop E n inner f (S it) modes st')
          else Err)
      end.

    (* constrained_parafac on an order-n tensor: validate first (order = 0; raises on a double constraint),
       initialise, iterate, return the factors.  A (user) CP tensor whose number of factors is not n cannot be multiplied
       with the unfoldings: as soon as a sweep is executed the code raises (shapes not aligned / IndexError; coincidences
       through modes of size 1 are outside the model); with outer budget 0 it is returned as it is. *)
    Definition constrained_cp (E : env) (n : nat) (i0 : init) (fixed : list nat)
               (n_outer n_inner : nat) (zero : M) : res (list M) :=
      rbind (val 0) (fun _ =>
      rbind (initialize i0) (fun fs =>
      if (0 <? n_outer) && negb (Nat.eqb (length fs) n) then Err else
      rbind (outer_loop E n n_inner n_outer 0 (modes_list n fixed) (fs, map (fun _ => zero) fs))
            (fun st => Ok (fst st)))).
  End Loops.
End Spec.

Arguments SNone {P}. Arguments SScalar {P}. Arguments SList {P}. Arguments SDict {P}.
Arguments ZNone {P}. Arguments ZScalar {P}. Arguments ZList {P}. Arguments ZDict {P}.
Arguments IComputed {M}. Arguments IUser {M}.
Arguments mkEnv {M}.
