(* Model of the constraint machinery of constrained CP (C11):
     tensorly/tenalg/proximal.py : validate_constraints, proximal_operator (dispatch)
     tensorly/solvers/admm.py    : admm (loop skeleton: which value is returned)
     tensorly/decomposition/_constrained_cp.py : initialize_constrained_parafac, constrained_parafac
                                    (loop skeleton: which factor is written by whom)
   Definitions only.  Numerical content (least-squares solve, MTTKRP, the operators themselves, the
   stopping tests) is abstract: the property is about WHICH operator produced the returned factor. *)
From Coq Require Import List Arith Bool Lia.
From TLV Require Import Base.PyList Base.Tensor.
Import ListNotations.

(* the twelve keyword arguments, in the order of `constraints_list` / `constraints_names` *)
Inductive kind :=
| KNonNeg | KL1 | KL2 | KL2sq | KUnimodal | KNormalize | KSimplex | KNormSparsity | KSoftSparsity
| KSmooth | KMonotone | KHardSparsity.

Definition all_kinds : list kind :=
  [KNonNeg; KL1; KL2; KL2sq; KUnimodal; KNormalize; KSimplex; KNormSparsity; KSoftSparsity; KSmooth; KMonotone; KHardSparsity].

Definition kind_id (k : kind) : nat :=
  match k with
  | KNonNeg => 0 | KL1 => 1 | KL2 => 2 | KL2sq => 3 | KUnimodal => 4 | KNormalize => 5 | KSimplex => 6
  | KNormSparsity => 7 | KSoftSparsity => 8 | KSmooth => 9 | KMonotone => 10 | KHardSparsity => 11
  end.
Definition kind_eqb (a b : kind) : bool := Nat.eqb (kind_id a) (kind_id b).

(* the eight kinds whose operator is a projection onto / map into a constraint set ("hard" constraints) *)
Definition hard_kind (k : kind) : bool :=
  match k with
  | KNonNeg | KUnimodal | KNormalize | KSimplex | KNormSparsity | KSoftSparsity | KMonotone | KHardSparsity => true
  | _ => false
  end.

Section Spec.
  (* P: the Python values that can be given as parameters; truthy: Python's bool(p) *)
  Context {P : Type} (truthy : P -> bool).

  (* what the user may pass for one keyword: None | a scalar | a list (entries None or a value) | a dict mode -> value *)
  Inductive spec :=
  | SNone
  | SScalar (p : P)
  | SList (l : list (option P))
  | SDict (d : list (nat * P)).

  Definition is_nil {A} (l : list A) : bool := match l with [] => true | _ => false end.

  (* `if each_constraint:` *)
  Definition spec_truthy (s : spec) : bool :=
    match s with
    | SNone => false
    | SScalar p => truthy p
    | SList l => negb (is_nil l)
    | SDict d => negb (is_nil d)
    end.

  (* `for i in range(len(l)): if l[i]: ... (i, l[i])` *)
  Fixpoint list_assigns (i : nat) (l : list (option P)) : list (nat * P) :=
    match l with
    | [] => []
    | Some p :: r => if truthy p then (i, p) :: list_assigns (S i) r else list_assigns (S i) r
    | None :: r => list_assigns (S i) r
    end.

  (* the (mode, parameter) pairs one keyword addresses, in the order the code visits them *)
  Definition assigns (n : nat) (s : spec) : list (nat * P) :=
    if spec_truthy s then
      match s with
      | SNone => []
      | SScalar p => map (fun i => (i, p)) (seq 0 n)
      | SList l => list_assigns 0 l
      | SDict d => d
      end
    else [].

  (* --- "Checking that no mode is constrained twice" *)
  Fixpoint add_all (seen : list nat) (ms : list nat) : res (list nat) :=
    match ms with
    | [] => Ok seen
    | m :: r => if memb m seen then Err else add_all (m :: seen) r
    end.

  Definition scan_one (n : nat) (seen : list nat) (s : spec) : res (list nat) :=
    if spec_truthy s then
      match s with
      | SScalar _ => match seen with [] => add_all [] (seq 0 n) | _ :: _ => Err end   (* len(modes_constrained) > 0 -> raise *)
      | _ => add_all seen (map fst (assigns n s))
      end
    else Ok seen.

  Fixpoint scan (n : nat) (seen : list nat) (sp : list (kind * spec)) : res (list nat) :=
    match sp with
    | [] => Ok seen
    | (_, s) :: r => rbind (scan_one n seen s) (fun seen' => scan n seen' r)
    end.

  (* --- registrer_constraint: constraints[mode] = name; parameters[mode] = value  (IndexError beyond n_const) *)
  Definition table := list (option (kind * P)).

  Fixpoint write (tab : table) (k : kind) (asg : list (nat * P)) : res table :=
    match asg with
    | [] => Ok tab
    | (m, p) :: r => if m <? length tab then write (set_nth m (Some (k, p)) tab) k r else Err
    end.

  Fixpoint register (n : nat) (tab : table) (sp : list (kind * spec)) : res table :=
    match sp with
    | [] => Ok tab
    | (k, s) :: r => rbind (write tab k (assigns n s)) (fun t => register n t r)
    end.

  (* the whole (constraints, parameters) table; validate_constraints returns its entry `order` *)
  Definition validate_table (n : nat) (sp : list (kind * spec)) : res table :=
    rbind (scan n [] sp) (fun _ => register n (repeat None n) sp).

  Definition validate (n : nat) (sp : list (kind * spec)) (order : nat) : res (option (kind * P)) :=
    rbind (validate_table n sp) (fun t => if order <? n then Ok (nth order t None) else Err).

  (* the call site: the twelve keywords zipped with their names *)
  Definition keywords (f : kind -> spec) : list (kind * spec) := map (fun k => (k, f k)) all_kinds.

  (* ------------------------------------------------------------------ dispatch and loops *)
  Section Loops.
    (* M: factor matrices.  op k p: the operator selected by proximal_operator for constraint k, parameter p. *)
    Context {M : Type} (dM : M) (op : kind -> P -> M -> M).

    Definition prox_of (c : option (kind * P)) (x : M) : M :=
      match c with None => x | Some (k, p) => op k p x end.

    (* proximal_operator(tensor, **specs, n_const=n, order=order) *)
    Definition proximal_operator (n : nat) (sp : list (kind * spec)) (order : nat) (x : M) : res M :=
      rbind (validate n sp order) (fun c => Ok (prox_of c x)).

    (* admm: split x dual = transpose(x_split) (the regularised least-squares solve),
       conv = the residual test (any boolean function of the iteration and the iterates). *)
    Context (msub madd : M -> M -> M).

    Fixpoint admm_loop (fuel it : nat) (split : M -> M -> M) (conv : nat -> M -> M -> M -> bool)
             (prox : M -> res M) (x dual : M) (xs : option M) : res (M * option M * M) :=
      match fuel with
      | 0 => Ok (x, xs, dual)
      | S f =>
          let s := split x dual in
          rbind (prox (msub s dual)) (fun x' =>
          let dual' := msub (madd dual x') s in
          if conv it x' s dual' then Ok (x', Some s, dual')
          else admm_loop f (S it) split conv prox x' dual' (Some s))
      end.

    (* `return x, x_split, dual_var`: x_split is unbound when the loop body never ran *)
    Definition admm (n_iter : nat) split conv prox (x dual : M) : res (M * M * M) :=
      rbind (admm_loop n_iter 0 split conv prox x dual None) (fun r =>
        match r with
        | (x', Some s, d') => Ok (x', s, d')
        | (_, None, _) => Err
        end).

    (* initialisation: 'svd' / 'random' produce raw factors that are passed through the operator of their mode;
       a user CP tensor is taken as it is (weights absorbed in the last factor - abstract here) *)
    Inductive init :=
    | IComputed (raw : list M)
    | IUser (fs : list M).

    Fixpoint prox_all (n : nat) (sp : list (kind * spec)) (i : nat) (fs : list M) : res (list M) :=
      match fs with
      | [] => Ok []
      | f :: r => rbind (proximal_operator n sp i f) (fun f' => rbind (prox_all n sp (S i) r) (fun r' => Ok (f' :: r')))
      end.

    Definition initialize (n : nat) (sp : list (kind * spec)) (i0 : init) : res (list M) :=
      match i0 with
      | IComputed raw => prox_all n sp 0 raw
      | IUser fs => Ok fs
      end.

    (* fixed_modes: the last mode is removed (list.remove: first occurrence) *)
    Fixpoint remove_first (a : nat) (l : list nat) : list nat :=
      match l with [] => [] | x :: r => if Nat.eqb x a then r else x :: remove_first a r end.
    Definition modes_list (n : nat) (fixed : list nat) : list nat :=
      let fixed' := if memb (n - 1) fixed then remove_first (n - 1) fixed else fixed in
      filter (fun m => negb (memb m fixed')) (seq 0 n).

    Record env := mkEnv {
      e_split : list M -> nat -> M -> M -> M;       (* factors, mode: the ADMM least-squares step of that mode *)
      e_conv : nat -> nat -> nat -> M -> M -> M -> bool;   (* outer iteration, mode, inner iteration: residual test *)
      e_stop : nat -> list M -> list M -> bool      (* outer iteration, factors, duals: outer stopping rule *)
    }.

    Definition update_mode (E : env) (n : nat) (sp : list (kind * spec)) (inner it : nat)
               (st : list M * list M) (mode : nat) : res (list M * list M) :=
      let '(fs, duals) := st in
      rbind (admm inner (e_split E fs mode) (e_conv E it mode) (proximal_operator n sp mode)
                  (nth mode fs dM) (nth mode duals dM))
            (fun r => let '(x, _, d) := r in Ok (set_nth mode x fs, set_nth mode d duals)).

    Fixpoint sweep (E : env) n sp inner it (st : list M * list M) (modes : list nat) : res (list M * list M) :=
      match modes with
      | [] => Ok st
      | m :: r => rbind (update_mode E n sp inner it st m) (fun st' => sweep E n sp inner it st' r)
      end.

    Fixpoint outer_loop (E : env) n sp inner (fuel it : nat) (modes : list nat) (st : list M * list M)
      : res (list M * list M) :=
      match fuel with
      | 0 => Ok st
      | S f =>
          rbind (sweep E n sp inner it st modes) (fun st' =>
          if e_stop E it (fst st') (snd st') then Ok st' else outer_loop E n sp inner f (S it) modes st')
      end.

    (* constrained_parafac: validate first (raises on a double constraint), initialise, iterate, return the factors *)
    Definition constrained_cp (E : env) (n : nat) (sp : list (kind * spec)) (i0 : init) (fixed : list nat)
               (n_outer n_inner : nat) (zero : M) : res (list M) :=
      rbind (validate n sp 0) (fun _ =>
      rbind (initialize n sp i0) (fun fs =>
      rbind (outer_loop E n sp n_inner n_outer 0 (modes_list n fixed) (fs, map (fun _ => zero) fs))
            (fun st => Ok (fst st)))).
  End Loops.
End Spec.

Arguments SNone {P}. Arguments SScalar {P}. Arguments SList {P}. Arguments SDict {P}.
Arguments IComputed {M}. Arguments IUser {M}.
Arguments mkEnv {M}.
