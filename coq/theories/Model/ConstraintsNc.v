(* The `n_const is None` branches of proximal_operator and admm (tensorly/tenalg/proximal.py, tensorly/solvers/admm.py); n_const=None is
   the default of admm and is what "no constraint at all" callers pass.  constrained_parafac never takes them (it passes
   n_const=tl.ndim(tensor): corr:C11-static, sites SCpToAdmm / SInitToProx / SCpToValidate).
     proximal_operator: `if n_const is None: return tensor`  - BEFORE validate_constraints is called: the keywords are not looked at.
     admm: after the first proximal step `if n_const is None: x = solve(UtU^T, UtM^T)^T; return x, x_split, dual_var`  - the
           unconstrained least-squares solution (ls: numerical content), the dual variable untouched; with n_iter_max = 0 the loop
           body never runs and x_split is unbound as in the constrained case.
   Definitions only. *)
From Coq Require Import List Arith Bool.
From TLV Require Import Base.PyList Base.Tensor Model.Constraints.
Import ListNotations.

Section NConst.
  Context {P M : Type} (truthy : P -> bool) (op : kind -> P -> M -> M) (msub madd : M -> M -> M).

  Definition proximal_operator_nc (n_const : option nat) (sp : list (kind * @zspec P)) (order : nat) (x : M) : res M :=
    match n_const with
    | None => Ok x
    | Some n => proximal_operator op (zvalidate truthy n sp) order x
    end.

  Definition admm_nc (n_const : option nat) (sp : list (kind * @zspec P)) (order n_iter : nat) (split : M -> M -> M)
             (conv : nat -> M -> M -> M -> bool) (ls : M) (x dual : M) : res (M * M * M) :=
    match n_const with
    | None => match n_iter with 0 => Err | S _ => Ok (ls, split x dual, dual) end
    | Some n => admm msub madd n_iter split conv (proximal_operator op (zvalidate truthy n sp) order) x dual
    end.
End NConst.
