(* The `n_const is None` branches of proximal_operator and admm (tensorly/tenalg/proximal.py, tensorly/solvers/admm.py); n_const=None is
   the default of admm and is what "no constraint at all" callers pass.  constrained_parafac never takes them (it passes
   n_const=tl.ndim(tensor): corr:C11-static, sites SCpToAdmm / SInitToProx / SCpToValidate).
     proximal_operator: `if n_const is None: return tensor`  - BEFORE validate_constraints is called: the keywords are not looked at.
     admm: after the first proximal step `if n_const is None: x = solve(UtU^T, UtM^T)^T; return x, x_split, dual_var`  - the
           unconstrained least-squares solution (ls: numerical content), the dual variable untouched; with n_iter_max = 0 the loop
           body never runs and admm returns its start (x, transpose(x) as split variable, the dual variable) as in the constrained case
           (fix fe4edf7; before it x_split was unbound there and admm raised).
   admm's own `order` parameter (Default None).  Since fix a5b9e5b admm starts with `if order is None: order = 0` - the mode
   proximal_operator / validate_constraints pick by their own default - so admm(..., n_const=n) without `order` applies the constraint of
   mode 0 (before the fix: `constraints[None]`, TypeError).  proximal_operator itself has no such line: an explicit order=None with a
   number of constraints reaches `constraints[None]` and raises (after the double-constraint scan, which may raise first).
   order_of / admm_py / proximal_operator_py model exactly that; constrained_parafac always passes the loop variable (corr:C11-static).
   Definitions only. *)
From Coq Require Import List Arith Bool.
From TLV Require Import Base.PyList Base.Tensor Model.Constraints.
Import ListNotations.

Section NConst.
  Context {P M : Type} (truthy : P -> bool) (op : kind -> P -> M -> M) (msub madd : M -> M -> M).

  Definition proximal_operator_nc (n_const : option nat) (sp : list (kind * @zspec P)) (order : nat) (x : M) : res M :=
    match n_const with
    | None => Ok x
    | Some n => proximal_operator op (zvalidate truthy n sp) order x
    end.

  Definition admm_nc (n_const : option nat) (sp : list (kind * @zspec P)) (order n_iter : nat) (split : M -> M -> M)
             (conv : nat -> M -> M -> M -> bool) (ls : M) (x dual : M) : res (M * M * M) :=
    match n_const with
    | None => match n_iter with 0 => Ok (x, x, dual) | S _ => Ok (ls, split x dual, dual) end
    | Some n => admm msub madd n_iter split conv (proximal_operator op (zvalidate truthy n sp) order) x dual
    end.

  (* `if order is None: order = 0` *)
  Definition order_of (order : option nat) : nat := match order with None => 0 | Some k => k end.

  (* admm(UtM, UtU, x, dual_var, n_iter_max, n_const, order, **keywords) with order as Python passes it: None or an int *)
  Definition admm_py (n_const : option nat) (sp : list (kind * @zspec P)) (order : option nat) (n_iter : nat) (split : M -> M -> M)
             (conv : nat -> M -> M -> M -> bool) (ls : M) (x dual : M) : res (M * M * M) :=
    admm_nc n_const sp (order_of order) n_iter split conv ls x dual.

  (* proximal_operator(tensor, **keywords, n_const, order) with order None or an int: `n_const is None` is tested first *)
  Definition proximal_operator_py (n_const : option nat) (sp : list (kind * @zspec P)) (order : option nat) (x : M) : res M :=
    match n_const, order with
    | None, _ => Ok x
    | Some _, None => Err                                  (* constraints[None]: TypeError (or the scan's ValueError before it) *)
    | Some n, Some o => proximal_operator op (zvalidate truthy n sp) o x
    end.
End NConst.
