(* The operators proximal_operator dispatches to for the eight hard constraint kinds, as ONE term over a record of field
   operations (Base/Ops.v): C12's model of tensorly/tenalg/proximal.py (Model/Prox.v) lifted to factor matrices (lists of
   rows) exactly as the code applies them - element-wise / whole-matrix operators on the flattened matrix (Prox.flatwise),
   column-wise operators on the columns (Prox.colwise), unimodality_prox on the list of columns (its fill value couples them).
   Instantiated at Rops it is the operator family `op_c12` of the end-to-end theorems (Proofs/ConstraintsProofsFeasible.v:
   op_c12_is_op_gen, by reflexivity); instantiated at Qops it is executed by the correspondence (Corr/C11.v, CCall) on the
   operator calls recorded inside real runs of constrained_parafac.  Definitions only.
   nrm: tl.norm (never re-implemented: sqrt at R, the recorded value at Q); toF / toN: a parameter read as a number / a count. *)
From Coq Require Import List Arith Bool.
From TLV Require Import Base.Ops Model.Prox Model.Constraints.
Import ListNotations.

Section OpGen.
  Context {F : Type} (Op : fops F) {P : Type} (nrm : list F -> F) (toF : P -> F) (toN : P -> nat)
          (other : kind -> P -> list (list F) -> list (list F)).

  Definition op_gen (k : kind) (p : P) (x : list (list F)) : list (list F) :=
    match k with
    | KNonNeg => flatwise (non_negative Op) x                                  (* tl.clip(tensor, a_min=0) *)
    | KSimplex => colwise Op (simplex_prox Op (toF p)) x                       (* simplex_prox(tensor, parameter) *)
    | KMonotone => colwise Op (monotonicity_prox Op false) x                   (* monotonicity_prox(tensor): decreasing=False *)
    | KHardSparsity => flatwise (hard_thresholding Op (toN p)) x               (* hard_thresholding(tensor, parameter) *)
    | KNormSparsity => flatwise (fun v => normalized_sparsity_with Op (nrm (hard_thresholding Op (toN p) v)) (toN p) v) x
    | KSoftSparsity => colwise Op (soft_sparsity_prox Op (toF p)) x            (* soft_sparsity_prox(tensor, parameter) *)
    | KNormalize => flatwise (normalize Op) x                                  (* tensor / tl.max(tl.abs(tensor)) *)
    | KUnimodal => cols_of Op (unimodality_cols Op (cols_of Op x))             (* unimodality_prox(tensor) *)
    | _ => other k p x
    end.
End OpGen.
