(* The operators proximal_operator dispatches to for the eight hard constraint kinds, as ONE term over a record of field
   operations (Base/Ops.v): C12's model of tensorly/tenalg/proximal.py (Model/Prox.v) lifted to factor matrices (lists of
   rows) exactly as the code applies them - element-wise / whole-matrix operators on the flattened matrix (Prox.flatwise),
   column-wise operators on the columns (Prox.colwise), unimodality_prox on the list of columns (its fill value couples them).
   Instantiated at Rops it is the operator family `op_c12` of the end-to-end theorems (Proofs/ConstraintsProofsFeasible.v:
   op_c12_is_op_gen, by reflexivity); instantiated at Qops it is executed by the correspondence (Corr/C11.v, CCall) on the
   operator calls recorded inside real runs of constrained_parafac.  Definitions only.
   nrm: tl.norm (never re-implemented: sqrt at R, the recorded value at Q); toF / toN: a parameter read as a number / a count. *)
From Coq Require Import List Arith Bool.
From TLV Require Import Base.Ops Model.Prox Model.Constraints.
Import ListNotations.

Section OpGen.
  Context {F : Type} (Op : fops F) {P : Type} (nrm : list F -> F) (toF : P -> F) (toN : P -> nat)
          (other : kind -> P -> list (list F) -> list (list F)).

  Definition op_gen (k : kind) (p : P) (x : list (list F)) : list (list F) :=
    match k with
    | KNonNeg => flatwise (non_negative Op) x                                  (* tl.clip(tensor, a_min=0) *)
    | KSimplex => colwise Op (simplex_prox Op (toF p)) x                       (* simplex_prox(tensor, parameter) *)
    | KMonotone => colwise Op (monotonicity_prox Op false) x                   (* monotonicity_prox(tensor): decreasing=False *)
    | KHardSparsity => flatwise (hard_thresholding Op (toN p)) x               (* hard_thresholding(tensor, parameter) *)
    | KNormSparsity => flatwise (fun v => normalized_sparsity_with Op (nrm (hard_thresholding Op (toN p) v)) (toN p) v) x
    | KSoftSparsity => colwise Op (soft_sparsity_prox Op (toF p)) x            (* soft_sparsity_prox(tensor, parameter) *)
    | KNormalize => flatwise (normalize Op) x                                  (* tensor / tl.max(tl.abs(tensor)) *)
    | KUnimodal => cols_of Op (unimodality_cols Op (cols_of Op x))             (* unimodality_prox(tensor) *)
    | _ => other k p x
    end.
End OpGen.

(* ------------------------------------------------------------------ the dispatch of proximal_operator as DATA
   The harness regenerates, on every run, the if/elif chain of tensorly.tenalg.proximal.proximal_operator from the current
   Python source (ast) as a list of (kind, dop): for `constraint == "<name>"` the expression that is returned.  `denote` gives
   such a table its meaning as an operator family in the vocabulary of Model/Prox.v; `dispatch_ok` is the decidable comparison
   with the table the end-to-end theorems are stated for (Proofs/ConstraintsProofsFeasible.v: dispatch_table_sound). *)
Inductive pyfun :=
| FSoftThresholding | FL2Prox | FL2SquareProx | FUnimodalityProx | FSimplexProx | FNormalizedSparsityProx | FSoftSparsityProx
| FSmoothnessProx | FMonotonicityProx | FHardThresholding | FUnknown.
Inductive darg := ATensor | AParam | AKwDecreasing (b : bool) | AUnknown.
Inductive dop :=
| DClip0                     (* tl.clip(tensor, a_min=0) *)
| DDivMaxAbs                 (* tensor / tl.max(tl.abs(tensor)) *)
| DCall (f : pyfun) (args : list darg)
| DUnknown.

Definition pyfun_id (f : pyfun) : nat :=
  match f with FSoftThresholding => 0 | FL2Prox => 1 | FL2SquareProx => 2 | FUnimodalityProx => 3 | FSimplexProx => 4
  | FNormalizedSparsityProx => 5 | FSoftSparsityProx => 6 | FSmoothnessProx => 7 | FMonotonicityProx => 8 | FHardThresholding => 9
  | FUnknown => 10 end.
Definition darg_eqb (a b : darg) : bool :=
  match a, b with
  | ATensor, ATensor | AParam, AParam => true
  | AKwDecreasing x, AKwDecreasing y => Bool.eqb x y
  | _, _ => false
  end.
Fixpoint dargs_eqb (a b : list darg) : bool :=
  match a, b with [], [] => true | x :: a', y :: b' => darg_eqb x y && dargs_eqb a' b' | _, _ => false end.

Section Denote.
  Context {F : Type} (Op : fops F) {P : Type} (nrm : list F -> F) (toF : P -> F) (toN : P -> nat)
          (other : kind -> P -> list (list F) -> list (list F)).
  Local Notation mat := (list (list F)).

  (* the operator a returned expression stands for; None: not an expression this model understands (fail closed).
     The four penalty operators are not modelled here: the call `f(tensor, parameter)` of the expected function is `other k`. *)
  Definition denote (k : kind) (d : dop) : option (P -> mat -> mat) :=
    match d with
    | DClip0 => Some (fun _ x => flatwise (non_negative Op) x)
    | DDivMaxAbs => Some (fun _ x => flatwise (normalize Op) x)
    | DCall f args =>
        match f with
        | FSimplexProx => if dargs_eqb args [ATensor; AParam] then Some (fun p x => colwise Op (simplex_prox Op (toF p)) x) else None
        | FSoftSparsityProx => if dargs_eqb args [ATensor; AParam] then Some (fun p x => colwise Op (soft_sparsity_prox Op (toF p)) x) else None
        | FHardThresholding => if dargs_eqb args [ATensor; AParam] then Some (fun p x => flatwise (hard_thresholding Op (toN p)) x) else None
        | FNormalizedSparsityProx =>
            if dargs_eqb args [ATensor; AParam]
            then Some (fun p x => flatwise (fun v => normalized_sparsity_with Op (nrm (hard_thresholding Op (toN p) v)) (toN p) v) x) else None
        | FUnimodalityProx => if dargs_eqb args [ATensor] then Some (fun _ x => cols_of Op (unimodality_cols Op (cols_of Op x))) else None
        | FMonotonicityProx =>
            match args with
            | [ATensor] => Some (fun _ x => colwise Op (monotonicity_prox Op false) x)              (* default: decreasing=False *)
            | [ATensor; AKwDecreasing b] => Some (fun _ x => colwise Op (monotonicity_prox Op b) x)
            | _ => None
            end
        | FSoftThresholding => if dargs_eqb args [ATensor; AParam] && kind_eqb k KL1 then Some (other KL1) else None
        | FL2Prox => if dargs_eqb args [ATensor; AParam] && kind_eqb k KL2 then Some (other KL2) else None
        | FL2SquareProx => if dargs_eqb args [ATensor; AParam] && kind_eqb k KL2sq then Some (other KL2sq) else None
        | FSmoothnessProx => if dargs_eqb args [ATensor; AParam] && kind_eqb k KSmooth then Some (other KSmooth) else None
        | FUnknown => None
        end
    | DUnknown => None
    end.

  Fixpoint lookup_kind (k : kind) (tbl : list (kind * dop)) : option dop :=
    match tbl with [] => None | (k', d) :: r => if kind_eqb k k' then Some d else lookup_kind k r end.

  (* the operator family a dispatch table stands for (first matching branch, as an if/elif chain); a constraint name without a
     branch reaches `raise RuntimeError`, an expression outside the vocabulary has no meaning: None *)
  Definition op_of_table (tbl : list (kind * dop)) (k : kind) : option (P -> mat -> mat) :=
    match lookup_kind k tbl with Some d => denote k d | None => None end.
End Denote.

(* the dispatch the end-to-end theorems are stated for, entry by entry; monotonicity_prox(tensor) with the keyword spelled out
   (decreasing=False) is the same call *)
Definition dop_expected (k : kind) (d : dop) : bool :=
  match k, d with
  | KNonNeg, DClip0 => true
  | KNormalize, DDivMaxAbs => true
  | KL1, DCall FSoftThresholding a | KL2, DCall FL2Prox a | KL2sq, DCall FL2SquareProx a | KSmooth, DCall FSmoothnessProx a
  | KSimplex, DCall FSimplexProx a | KNormSparsity, DCall FNormalizedSparsityProx a | KSoftSparsity, DCall FSoftSparsityProx a
  | KHardSparsity, DCall FHardThresholding a => dargs_eqb a [ATensor; AParam]
  | KUnimodal, DCall FUnimodalityProx a => dargs_eqb a [ATensor]
  | KMonotone, DCall FMonotonicityProx a => dargs_eqb a [ATensor] || dargs_eqb a [ATensor; AKwDecreasing false]
  | _, _ => false
  end.
Definition dispatch_ok (tbl : list (kind * dop)) : bool :=
  forallb (fun k => match lookup_kind k tbl with Some d => dop_expected k d | None => false end) all_kinds.
