(* The outer stopping rule of constrained_parafac AS WRITTEN (Model/Constraints.v keeps it as an arbitrary boolean e_stop):
       if tol_outer:
           if iteration >= 1:
               if constraint_error < tol_outer: break
               if cvg_criterion == "abs_rec_error": stop_flag = abs(decrease) < tol_outer
               elif cvg_criterion == "rec_error":   stop_flag = decrease < tol_outer
               else: raise TypeError("Unknown convergence criterion")
               if stop_flag: break
   evaluated after every sweep, after the reconstruction error (err_defined).  The three comparisons are numerical content
   (arbitrary booleans of the iteration and the iterates); the structure - nothing is decided at iteration 0 or with a falsy
   tol_outer, the constraint error is looked at first, an unknown criterion raises only when it is reached - is the code's.
   Definitions only; Proofs/ConstraintsProofsStop.v relates constrained_cp_c to constrained_cp. *)
From Coq Require Import List Arith Bool.
From TLV Require Import Base.PyList Base.Tensor Base.Ops Model.Constraints.
Import ListNotations.

Inductive crit := CrAbsRecError | CrRecError | CrUnknown.

Definition stop_rule (tol_truthy : bool) (c : crit) (it : nat) (cerr_small dabs_small drel_small : bool) : res bool :=
  if tol_truthy && (1 <=? it) then
    if cerr_small then Ok true
    else match c with CrAbsRecError => Ok dabs_small | CrRecError => Ok drel_small | CrUnknown => Err end
  else Ok false.

Section StopRule.
  Context {P M : Type} (dM : M) (op : kind -> P -> M -> M) (val : nat -> res (option (kind * P))) (msub madd : M -> M -> M).

  Record stop_env := mkStop {
    s_tol : bool;                                        (* bool(tol_outer) *)
    s_crit : crit;                                       (* cvg_criterion *)
    s_cerr : nat -> list M -> list M -> bool;            (* constraint_error < tol_outer *)
    s_dabs : nat -> list M -> list M -> bool;            (* abs(rec_error_decrease) < tol_outer *)
    s_drel : nat -> list M -> list M -> bool             (* rec_error_decrease < tol_outer *)
  }.
  Definition stop_at (S : stop_env) (it : nat) (fs du : list M) : res bool :=
    stop_rule (s_tol S) (s_crit S) it (s_cerr S it fs du) (s_dabs S it fs du) (s_drel S it fs du).

  Fixpoint outer_loop_c (E : env (M := M)) (S : stop_env) (n inner fuel it : nat) (modes : list nat) (st : list M * list M)
    : res (list M * list M) :=
    match fuel with
    | 0 => Ok st
    | Datatypes.S f =>
        rbind (sweep dM op val msub madd E inner it st modes) (fun st' =>
        if err_defined E n modes (fst st') then
          rbind (stop_at S it (fst st') (snd st')) (fun b => if b then Ok st' else outer_loop_c E S n inner f (Datatypes.S it) modes st')
        else Err)
    end.

  Definition constrained_cp_c (E : env (M := M)) (S : stop_env) (n : nat) (i0 : init (M := M)) (fixed : list nat)
             (n_outer n_inner : nat) (zero : M) : res (list M) :=
    rbind (val 0) (fun _ =>
    rbind (initialize op val i0) (fun fs =>
    if (0 <? n_outer) && negb (Nat.eqb (length fs) n) then Err else
    rbind (outer_loop_c E S n n_inner n_outer 0 (modes_list n fixed) (fs, map (fun _ => zero) fs))
          (fun st => Ok (fst st)))).

  (* the environment of Model/Constraints.v whose arbitrary stopping boolean is the rule above (where the rule raises, the
     boolean is irrelevant: constrained_cp_c has already returned Err) *)
  Definition with_stop (E : env (M := M)) (S : stop_env) : env (M := M) :=
    mkEnv (e_split E) (e_conv E) (fun it fs du => match stop_at S it fs du with Ok b => b | Err => true end) (e_errdef E).
End StopRule.
Arguments mkStop {M}.

(* ------------------------------------------------------------------ the three comparisons AS NUMBERS (round 8)
   stop_env keeps `constraint_error < tol_outer`, `abs(rec_error_decrease) < tol_outer`, `rec_error_decrease < tol_outer` as arbitrary
   booleans.  stop_env_num computes them over a record of field operations from
     tol      - tol_outer (a number; `if tol_outer:` is its Python truthiness: non-zero, so a NEGATIVE tolerance is truthy),
     cerr it  - constraint_error after sweep `it`,        err it - rec_errors[it], the reconstruction error after sweep `it`
   (numerical content: arbitrary sequences), with rec_error_decrease = rec_errors[-2] - rec_errors[-1] = err (it-1) - err it and strict
   comparisons, as written.  It is an instance of stop_env: every theorem about constrained_cp_c holds of it.  The correspondence
   executes it at exact rationals on the sequences recorded in real runs and compares the NUMBER OF SWEEPS (Corr/C11.v CStopNum). *)
Section StopNum.
  Context {F : Type} (Op : fops F) {M : Type}.
  Definition f_truthy (x : F) : bool := negb (fleb Op x (f0 Op) && fleb Op (f0 Op) x).
  Definition decrease (err : nat -> F) (it : nat) : F := fsub Op (err (it - 1)) (err it).
  Definition stop_env_num (tol : F) (c : crit) (cerr err : nat -> F) : stop_env (M := M) :=
    mkStop (f_truthy tol) c
           (fun it _ _ => fltb Op (cerr it) tol)
           (fun it _ _ => fltb Op (fabs Op (decrease err it)) tol)
           (fun it _ _ => fltb Op (decrease err it) tol).
End StopNum.

(* ------------------------------------------------------------------ the class API
   ConstrainedCP.__init__ stores its arguments as attributes; fit_transform(tensor) calls constrained_parafac with the stored
   values (each under its own name: corr:C11-static, sites SClassInit / SClassToCp), keeps the result as `decomposition_` and
   returns it.  `n` (the order) and the environment come with the tensor. *)
Section ClassAPI.
  Context {P M : Type} (truthy : P -> bool) (dM : M) (op : kind -> P -> M -> M) (msub madd : M -> M -> M).
  Record cp_object := mkObject {
    o_specs : kind -> @zspec P;                    (* the twelve constraint keywords *)
    o_init : init (M := M);                        (* init ('svd' / 'random': computed raw factors; or a CP tensor) *)
    o_fixed : list nat;                            (* fixed_modes *)
    o_outer : nat; o_inner : nat;                  (* n_iter_max, n_iter_max_inner *)
    o_stop : stop_env (M := M)                     (* tol_outer, cvg_criterion (with the numerical comparisons of the run) *)
  }.
  Definition fit_transform (self : cp_object) (E : env (M := M)) (n : nat) (zero : M) : res (list M) :=
    constrained_cp_c dM op (zvalidate truthy n (zkeywords (o_specs self))) msub madd E (o_stop self) n (o_init self) (o_fixed self)
                     (o_outer self) (o_inner self) zero.
End ClassAPI.
