(* C07 -- model of the exact block updates of tensorly's alternating algorithms.
   Definitions only, generic in the carrier (record of operations, Base/Ops.v):
   executed at Qops by the correspondence, proved about at Rops.

   * CP-ALS block (decomposition/_cp.py:parafac main loop): the linear system
         pseudo_inverse = w (.) (Hadamard_{j<>k} A_j^T A_j + l2_reg I) (.) w ,   mttkrp = X_(k) KR(w; A_j, j<>k)
     the solve certificate  x * pseudo_inverse = mttkrp  (tl.solve is LAPACK: an oracle, its answer is data),
     and the objective ||X - [[w; A_0..A_{n-1}]]||^2 (+ l2_reg ||A_k diag w||^2), all written on the FULL
     index space (row-major offsets o < prod s, idx = unravel s o), so the same objective serves every mode.
   * HALS NNLS (solvers/nnls.py:hals_nnls): row update num/den clipped at epsilon, pass over the rows
     (rows with UtU[k,k] = 0 skipped), iterations; objective sum_c (v_c' G v_c / 2 - b_c' v_c + l1 sum v_c + l2 |v_c|^2). *)
From Coq Require Import List Arith Bool.
From TLV Require Import Base.Shape Base.PyList Base.Tensor Base.Ops.
Import ListNotations.

Section Model.
  Context {F : Type} (Op : fops F).
  Notation "a +f b" := (fadd Op a b) (at level 50, left associativity).
  Notation "a -f b" := (fsub Op a b) (at level 50, left associativity).
  Notation "a *f b" := (fmul Op a b) (at level 40, left associativity).
  Notation "a /f b" := (fdiv Op a b) (at level 40, left associativity).

  Fixpoint gsum (n : nat) (f : nat -> F) : F :=
    match n with O => f0 Op | S k => gsum k f +f f k end.

  Definition mat := list (list F).
  Definition vget (v : list F) (i : nat) : F := nth i v (f0 Op).
  Definition mget (M : mat) (i j : nat) : F := nth j (nth i M []) (f0 Op).
  Definition fsq (a : F) : F := a *f a.

  (* product over the modes j0, j0+1, ... of a per-mode scalar g j idx_j *)
  Fixpoint pprod (g : nat -> nat -> F) (j0 : nat) (idx : list nat) : F :=
    match idx with [] => f1 Op | i :: rest => g j0 i *f pprod g (S j0) rest end.
  (* product over the modes of a per-mode aggregate *)
  Fixpoint lprod (g : nat -> nat -> F) (j0 : nat) (s : list nat) : F :=
    match s with [] => f1 Op | d :: s' => g j0 d *f lprod g (S j0) s' end.

  (* ---------------- CP ---------------- *)
  Definition fac_at (facs : list mat) (j i r : nat) : F := mget (nth j facs []) i r.
  (* entry of component r of the Kruskal tensor at idx (without the weight) *)
  Definition cp_term (facs : list mat) (r : nat) (idx : list nat) : F := pprod (fun j i => fac_at facs j i r) 0 idx.
  (* the same with mode k left out: one row of the Khatri-Rao product of the other factors *)
  Definition cp_term_skip (facs : list mat) (k r : nat) (idx : list nat) : F :=
    pprod (fun j i => if j =? k then f1 Op else fac_at facs j i r) 0 idx.
  Definition cp_rec (w : list F) (facs : list mat) (rank : nat) (idx : list nat) : F :=
    gsum rank (fun r => vget w r *f cp_term facs r idx).
  Definition cp_sqerr (X : tensor F) (w : list F) (facs : list mat) (rank : nat) : F :=
    gsum (prod (shape X)) (fun o => fsq (nth o (data X) (f0 Op) -f cp_rec w facs rank (unravel (shape X) o))).
  Definition cp_ridge (w : list F) (A : mat) (rows rank : nat) : F :=
    gsum rows (fun i => gsum rank (fun r => fsq (vget w r *f mget A i r))).
  (* objective of the block problem of mode k *)
  Definition cp_obj (X : tensor F) (w : list F) (facs : list mat) (k : nat) (lam : F) (rank : nat) : F :=
    cp_sqerr X w facs rank +f lam *f cp_ridge w (nth k facs []) (nth k (shape X) 0) rank.
  (* objective with the ridge term of every mode (what a whole regularised sweep descends on) *)
  Definition cp_obj_all (X : tensor F) (w : list F) (facs : list mat) (lam : F) (rank : nat) : F :=
    cp_sqerr X w facs rank +f lam *f gsum (length (shape X)) (fun j => cp_ridge w (nth j facs []) (nth j (shape X) 0) rank).

  Definition gram (A : mat) (rows r t : nat) : F := gsum rows (fun i => mget A i r *f mget A i t).
  Definition hadamard_grams (s : list nat) (facs : list mat) (k r t : nat) : F :=
    lprod (fun j d => if j =? k then f1 Op else gram (nth j facs []) d r t) 0 s.
  (* pseudo_inverse[r,t] of _cp.py (Id is added BEFORE the scaling by the weights) *)
  Definition cp_G (s : list nat) (w : list F) (facs : list mat) (k : nat) (lam : F) (r t : nat) : F :=
    vget w r *f (hadamard_grams s facs k r t +f (if r =? t then lam else f0 Op)) *f vget w t.
  (* mttkrp[i,r] = sum over the entries with idx_k = i of X[idx] * w_r * prod_{j<>k} A_j[idx_j, r] *)
  Definition cp_mttkrp (X : tensor F) (w : list F) (facs : list mat) (k i r : nat) : F :=
    gsum (prod (shape X)) (fun o => let idx := unravel (shape X) o in
      if nth k idx 0 =? i then nth o (data X) (f0 Op) *f (vget w r *f cp_term_skip facs k r idx) else f0 Op).
  (* residual of the solve certificate  x * G = mttkrp  at (i, r) *)
  Definition cp_cert_lhs (s : list nat) (w : list F) (facs : list mat) (k : nat) (lam : F) (rank : nat) (x : mat) (i r : nat) : F :=
    gsum rank (fun t => mget x i t *f cp_G s w facs k lam t r).

  Definition tab2 (n m : nat) (f : nat -> nat -> F) : mat := map (fun i => map (fun j => f i j) (seq 0 m)) (seq 0 n).
  Definition cp_G_mat s w facs k lam rank : mat := tab2 rank rank (cp_G s w facs k lam).
  Definition cp_mttkrp_mat X w facs k rank : mat := tab2 (nth k (shape X) 0) rank (cp_mttkrp X w facs k).

  (* one ALS block / sweep with the linear solver as an oracle:  solve G B  is meant to return x with x*G = B *)
  Definition cp_block (solve : mat -> mat -> mat) (X : tensor F) (w : list F) (lam : F) (rank : nat) (facs : list mat) (k : nat) : list mat :=
    set_nth k (solve (cp_G_mat (shape X) w facs k lam rank) (cp_mttkrp_mat X w facs k rank)) facs.
  Definition cp_sweep solve X w lam rank (modes : list nat) (facs : list mat) : list mat :=
    fold_left (cp_block solve X w lam rank) modes facs.

  (* ---------------- HALS NNLS ---------------- *)
  Definition two : F := f1 Op +f f1 Op.
  Definition fiszero (a : F) : bool := fleb Op a (f0 Op) && fleb Op (f0 Op) a.
  (* one entry of the row update: row k, column c of V (Gauss-Seidel: V is the current iterate) *)
  Definition hals_entry (G B V : mat) (l1 l2 eps : F) (rank k c : nat) : F :=
    let num := mget B k c -f gsum rank (fun j => mget G k j *f mget V j c) +f mget G k k *f mget V k c -f l1 in
    let den := mget G k k +f two *f l2 in
    let q := num /f den in if fleb Op eps q then q else eps.
  Definition hals_row (G B : mat) (l1 l2 eps : F) (rank ncols : nat) (V : mat) (k : nat) : mat :=
    if fiszero (mget G k k) then V
    else set_nth k (map (fun c => hals_entry G B V l1 l2 eps rank k c) (seq 0 ncols)) V.
  Definition hals_pass (G B : mat) (l1 l2 eps : F) (rank ncols : nat) (V : mat) : mat :=
    fold_left (hals_row G B l1 l2 eps rank ncols) (seq 0 rank) V.
  Definition hals_iter (G B : mat) (l1 l2 eps : F) (rank ncols : nat) (n : nat) (V : mat) : mat :=
    Nat.iter n (hals_pass G B l1 l2 eps rank ncols) V.
  (* objective of column c, and of the whole matrix *)
  Definition hals_col_obj (G B V : mat) (l1 l2 : F) (rank c : nat) : F :=
    gsum rank (fun i => gsum rank (fun j => mget V i c *f mget G i j *f mget V j c)) /f two
    -f gsum rank (fun i => mget B i c *f mget V i c)
    +f l1 *f gsum rank (fun i => mget V i c)
    +f l2 *f gsum rank (fun i => fsq (mget V i c)).
  Definition hals_obj (G B V : mat) (l1 l2 : F) (rank ncols : nat) : F :=
    gsum ncols (fun c => hals_col_obj G B V l1 l2 rank c).

  (* ---------------- HALS block of non_negative_parafac_hals (decomposition/_nn_cp.py) ----------------
     hals_nnls is called with UtU = pseudo_inverse (the weighted Hadamard product of the Grams, no ridge),
     UtM = transpose(mttkrp) and V = transpose(factors[mode]); the new factor is the transpose of its result *)
  Definition mat_T (rows cols : nat) (A : mat) : mat := tab2 cols rows (fun c r => mget A r c).   (* transpose of a rows x cols matrix *)
  Definition cp_hals_B (X : tensor F) (w : list F) (facs : list mat) (k rank : nat) : mat :=
    tab2 rank (nth k (shape X) 0) (fun r i => cp_mttkrp X w facs k i r).
  Definition cp_hals_block (X : tensor F) (w : list F) (rank : nat) (l1 l2 eps : F) (n : nat) (facs : list mat) (k : nat) : list mat :=
    let dk := nth k (shape X) 0 in
    let G := cp_G_mat (shape X) w facs k (f0 Op) rank in
    let B := cp_hals_B X w facs k rank in
    set_nth k (mat_T rank dk (hals_iter G B l1 l2 eps rank dk n (mat_T dk rank (nth k facs [])))) facs.
  (* what such a block descends on: half the squared error + l1 * sum(A_k) + l2 * ||A_k||^2 *)
  Definition cp_pen_obj (X : tensor F) (w : list F) (facs : list mat) (k : nat) (l1 l2 : F) (rank : nat) : F :=
    let dk := nth k (shape X) 0 in let A := nth k facs [] in
    cp_sqerr X w facs rank /f two
    +f l1 *f gsum dk (fun i => gsum rank (fun r => mget A i r))
    +f l2 *f gsum dk (fun i => gsum rank (fun r => fsq (mget A i r))).

  (* ---------------- a whole sweep of non_negative_parafac_hals ----------------
     every updated mode is either solved exactly (mode not in nn_modes: tl.solve of the same system, no ridge) or
     improved by n passes of hals_nnls with that mode's sparsity coefficient (mode in nn_modes) *)
  Inductive blockkind := BSolve | BHals (n : nat).
  Definition nn_block (solve : mat -> mat -> mat) (X : tensor F) (w : list F) (rank : nat) (l1s : list F) (eps : F)
             (facs : list mat) (kb : nat * blockkind) : list mat :=
    match snd kb with
    | BSolve => cp_block solve X w (f0 Op) rank facs (fst kb)
    | BHals n => cp_hals_block X w rank (vget l1s (fst kb)) (f0 Op) eps n facs (fst kb)
    end.
  Definition nn_sweep solve X w rank l1s eps (blocks : list (nat * blockkind)) (facs : list mat) : list mat :=
    fold_left (nn_block solve X w rank l1s eps) blocks facs.
  Definition fac_sum (A : mat) (rows rank : nat) : F := gsum rows (fun i => gsum rank (fun r => mget A i r)).
  (* what the sweep descends on: half the squared error + sum over the modes of sparsity_j * sum(A_j) *)
  Definition nn_obj (X : tensor F) (w : list F) (facs : list mat) (l1s : list F) (rank : nat) : F :=
    cp_sqerr X w facs rank /f two
    +f gsum (length (shape X)) (fun j => vget l1s j *f fac_sum (nth j facs []) (nth j (shape X) 0) rank).

  (* ---------------- parafac with normalize_factors: the state carries the weights ----------------
     cp_tensor.py:cp_normalize: the weights are absorbed into factor 0, then mode after mode the columns are divided by
     their norms (by 1 where the norm is 0) and the weights multiplied by the norms.  The norms (sqrt) are an oracle:
     norms k st = (scales, scales_non_zero) *)
  Definition cpstate : Type := (list F * list mat)%type.
  Definition cp_absorb0 (s : list nat) (rank : nat) (st : cpstate) : cpstate :=
    (map (fun _ => f1 Op) (seq 0 rank),
     set_nth 0 (tab2 (nth 0 s 0) rank (fun i r => mget (nth 0 (snd st) []) i r *f vget (fst st) r)) (snd st)).
  Definition cp_scale_mode (s : list nat) (rank : nat) (sc scnz : list F) (k : nat) (st : cpstate) : cpstate :=
    (map (fun r => vget (fst st) r *f vget sc r) (seq 0 rank),
     set_nth k (tab2 (nth k s 0) rank (fun i r => mget (nth k (snd st) []) i r /f vget scnz r)) (snd st)).
  Definition cp_normalize_modes (s : list nat) (rank : nat) (norms : nat -> cpstate -> list F * list F) (modes : list nat) (st : cpstate) : cpstate :=
    fold_left (fun st k => cp_scale_mode s rank (fst (norms k st)) (snd (norms k st)) k st) modes st.
  Definition cp_normalize_m (s : list nat) (rank : nat) (norms : nat -> cpstate -> list F * list F) (st : cpstate) : cpstate :=
    cp_normalize_modes s rank norms (seq 0 (length s)) (cp_absorb0 s rank st).
  (* one iteration of parafac(normalize_factors=True): the blocks with the current weights, then the renormalisation *)
  Definition cp_sweep_norm (solve : mat -> mat -> mat) (X : tensor F) (lam : F) (rank : nat)
             (norms : nat -> cpstate -> list F * list F) (modes : list nat) (st : cpstate) : cpstate :=
    cp_normalize_m (shape X) rank norms (fst st, cp_sweep solve X (fst st) lam rank modes (snd st)).

  (* ---------------- CP regressor (regression/cp_regression.py:fit), scalar responses ----------------
     prediction of one sample = <X_s, [[w; W_1..W_p]]>; the row of the block's design matrix `phi` that belongs to sample s
     is the flattened MTTKRP of X_s (entries (i, r) in row-major order) *)
  Definition cp_inner (X : tensor F) (w : list F) (facs : list mat) (rank : nat) : F :=
    gsum (prod (shape X)) (fun o => nth o (data X) (f0 Op) *f cp_rec w facs rank (unravel (shape X) o)).
  Definition cpreg_phi_row (X : tensor F) (w : list F) (facs : list mat) (k rank : nat) : list F :=
    flat_map (fun i => map (fun r => cp_mttkrp X w facs k i r) (seq 0 rank)) (seq 0 (nth k (shape X) 0)).
  Definition cpreg_phi (Xs : list (tensor F)) (w : list F) (facs : list mat) (k rank : nat) : mat :=
    map (fun X => cpreg_phi_row X w facs k rank) Xs.
  (* the part of the regressor's objective that depends on factor k (dk rows):  ||y - predictions||^2 + reg ||W_k||_F^2 *)
  Definition cpreg_obj (Xs : list (tensor F)) (ys : list F) (w : list F) (facs : list mat) (k dk rank : nat) (reg : F) : F :=
    gsum (length Xs) (fun s => fsq (vget ys s -f cp_inner (nth s Xs (mk [] [])) w facs rank))
    +f reg *f gsum dk (fun i => gsum rank (fun r => fsq (mget (nth k facs []) i r))).
  (* left-hand side of the normal equations of the block at (i, r) *)
  Definition cpreg_normal_lhs (Xs : list (tensor F)) (ys : list F) (w : list F) (facs : list mat) (k rank : nat) (A : mat) (i r : nat) : F :=
    gsum (length Xs) (fun s => cp_mttkrp (nth s Xs (mk [] [])) w facs k i r
                               *f (vget ys s -f cp_inner (nth s Xs (mk [] [])) w (set_nth k A facs) rank)).

  (* ---------------- Tucker / HOOI (decomposition/_tucker.py:partial_tucker) ----------------
     entry ((i_1..i_n), (a_1..a_n)) of the Kronecker product of the factors; core = X x_k U_k' (multi_mode_dot with
     transpose=True), reconstruction = core x_k U_k; a mode that is not decomposed carries the identity matrix *)
  Fixpoint tkw (Us : list mat) (a idx : list nat) : F :=
    match Us, a, idx with
    | U :: Us', x :: a', i :: idx' => mget U i x *f tkw Us' a' idx'
    | _, _, _ => f1 Op
    end.
  Definition tk_core_at (X : tensor F) (Us : list mat) (a : list nat) : F :=
    gsum (prod (shape X)) (fun o => nth o (data X) (f0 Op) *f tkw Us a (unravel (shape X) o)).
  Definition tk_core (X : tensor F) (Us : list mat) (rs : list nat) : tensor F :=
    mk rs (map (fun q => tk_core_at X Us (unravel rs q)) (seq 0 (prod rs))).
  Definition tk_rec_at (rs : list nat) (core : list F) (Us : list mat) (idx : list nat) : F :=
    gsum (prod rs) (fun q => nth q core (f0 Op) *f tkw Us (unravel rs q) idx).
  Definition tk_sqerr (X : tensor F) (rs : list nat) (core : list F) (Us : list mat) : F :=
    gsum (prod (shape X)) (fun o => fsq (nth o (data X) (f0 Op) -f tk_rec_at rs core Us (unravel (shape X) o))).
  (* the objective HOOI descends on: squared error with the core recomputed from the factors *)
  Definition tk_hooi_obj (X : tensor F) (rs : list nat) (Us : list mat) : F :=
    tk_sqerr X rs (data (tk_core X Us rs)) Us.
  Definition tk_core_norm2 (X : tensor F) (rs : list nat) (Us : list mat) : F :=
    gsum (prod rs) (fun q => fsq (tk_core_at X Us (unravel rs q))).

  (* ---------------- Tucker regressor (regression/tucker_regression.py:fit) ----------------
     prediction of a sample = <X_s, G x_k W_k>; it is linear in the core (coefficients: the projected sample X_s x_k W_k')
     and linear in every factor (coefficient of W_k[i,b]: the prediction with W_k replaced by the unit matrix E_ib) *)
  Definition tk_inner (X : tensor F) (rs : list nat) (core : list F) (Us : list mat) : F :=
    gsum (prod (shape X)) (fun o => nth o (data X) (f0 Op) *f tk_rec_at rs core Us (unravel (shape X) o)).
  Definition unit_mat (d r i b : nat) : mat :=
    tab2 d r (fun i' b' => if Nat.eqb i' i && Nat.eqb b' b then f1 Op else f0 Op).
  Definition tkreg_coef (X : tensor F) (rs : list nat) (core : list F) (Us : list mat) (k i b : nat) : F :=
    tk_inner X rs core (set_nth k (unit_mat (nth k (shape X) 0) (nth k rs 0) i b) Us).
  Definition tkreg_fit (Xs : list (tensor F)) (ys : list F) (rs : list nat) (core : list F) (Us : list mat) : F :=
    gsum (length Xs) (fun s => fsq (vget ys s -f tk_inner (nth s Xs (mk [] [])) rs core Us)).
  (* objective parts: core block  ||y - pred||^2 + reg ||G||^2 ; factor block  ||y - pred||^2 + reg ||W_k||_F^2 *)
  Definition tkreg_obj_core (Xs : list (tensor F)) (ys : list F) (rs : list nat) (core : list F) (Us : list mat) (reg : F) : F :=
    tkreg_fit Xs ys rs core Us +f reg *f gsum (prod rs) (fun q => fsq (nth q core (f0 Op))).
  Definition tkreg_obj_fac (Xs : list (tensor F)) (ys : list F) (rs : list nat) (core : list F) (Us : list mat) (k dk : nat) (reg : F) : F :=
    tkreg_fit Xs ys rs core Us +f reg *f gsum dk (fun i => gsum (nth k rs 0) (fun b => fsq (mget (nth k Us []) i b))).
  Definition tkreg_core_normal_lhs (Xs : list (tensor F)) (ys : list F) (rs : list nat) (core : list F) (Us : list mat) (q : nat) : F :=
    gsum (length Xs) (fun s => tk_core_at (nth s Xs (mk [] [])) Us (unravel rs q)
                                  *f (vget ys s -f tk_inner (nth s Xs (mk [] [])) rs core Us)).
  Definition tkreg_fac_normal_lhs (Xs : list (tensor F)) (ys : list F) (rs : list nat) (core : list F) (Us : list mat) (k : nat) (A : mat) (i b : nat) : F :=
    gsum (length Xs) (fun s => tkreg_coef (nth s Xs (mk [] [])) rs core Us k i b
                                  *f (vget ys s -f tk_inner (nth s Xs (mk [] [])) rs core (set_nth k A Us))).

  (* ---------------- coupled matrix-tensor factorisation (decomposition/_cmtf_als.py) ----------------
     X ~ [[w; A, B, C, ..]] and Y ~ A V' share the factor of mode 0.  Objective ||X - [[..]]||^2 + ||Y - A V'||^2.
     The coupled block solves  lstsq([KR; V], [X_(0)'; Y'])  for A: normal equations  A (G + V'V) = MTTKRP + Y V *)
  Definition cmtf_fit_Y (Y A V : mat) (d0 q rank : nat) : F :=
    gsum d0 (fun i => gsum q (fun j => fsq (mget Y i j -f gsum rank (fun r => mget A i r *f mget V j r)))).
  Definition cmtf_obj (X : tensor F) (Y : mat) (w : list F) (facs : list mat) (V : mat) (q rank : nat) : F :=
    cp_sqerr X w facs rank +f cmtf_fit_Y Y (nth 0 facs []) V (nth 0 (shape X) 0) q rank.
  Definition cmtf_G (s : list nat) (w : list F) (facs : list mat) (V : mat) (q r t : nat) : F :=
    cp_G s w facs 0 (f0 Op) r t +f gsum q (fun j => mget V j r *f mget V j t).
  Definition cmtf_M (X : tensor F) (Y : mat) (w : list F) (facs : list mat) (V : mat) (q i r : nat) : F :=
    cp_mttkrp X w facs 0 i r +f gsum q (fun j => mget Y i j *f mget V j r).
  Definition cmtf_cert_lhs (s : list nat) (w : list F) (facs : list mat) (V : mat) (q rank : nat) (x : mat) (i r : nat) : F :=
    gsum rank (fun t => mget x i t *f cmtf_G s w facs V q t r).

  (* ---------------- tensor ring (decomposition/_tr_als.py:tensor_ring_als) ----------------
     core k is an r_k x d_k x r_{k+1} tensor; X[i_1..i_n] = trace(G_1[:,i_1,:] ... G_n[:,i_n,:]).
     Block `dim`: by cyclicity of the trace X[idx] = sum_{a,b} G_dim[a, i_dim, b] * Sub[b, a] with Sub the product of the cores
     dim+1, .., n, 1, .., dim-1 (the sub-chain); the design matrix of the block has the entries Sub[b, a] in column a*r_{dim+1}+b *)
  Definition core_at (G : tensor F) (a i b : nat) : F :=
    nth ((a * nth 1 (shape G) 0 + i) * nth 2 (shape G) 0 + b) (data G) (f0 Op).
  Fixpoint tr_prod (cs : list (tensor F)) (idx : list nat) (a b : nat) : F :=
    match cs, idx with
    | G :: cs', i :: idx' => gsum (nth 2 (shape G) 0) (fun c => core_at G a i c *f tr_prod cs' idx' c b)
    | _, _ => if Nat.eqb a b then f1 Op else f0 Op
    end.
  Definition tr_entry (cs : list (tensor F)) (idx : list nat) : F :=
    gsum (nth 0 (shape (nth 0 cs (mk [] []))) 0) (fun a => tr_prod cs idx a a).
  Definition tr_sub (cs : list (tensor F)) (idx : list nat) (dim b a : nat) : F :=
    tr_prod (skipn (S dim) cs ++ firstn dim cs) (skipn (S dim) idx ++ firstn dim idx) b a.
  (* prediction of entry idx as a function of core `dim` (ra x d x rb), the other cores fixed *)
  Definition tr_pred_block (cs : list (tensor F)) (G : tensor F) (dim : nat) (idx : list nat) : F :=
    let ra := nth 0 (shape G) 0 in let rb := nth 2 (shape G) 0 in
    gsum (ra * rb) (fun j => core_at G (j / rb) (nth dim idx 0) (j mod rb) *f tr_sub cs idx dim (j mod rb) (j / rb)).
  Definition tr_block_obj (X : tensor F) (cs : list (tensor F)) (dim : nat) (G : tensor F) : F :=
    gsum (prod (shape X)) (fun o => fsq (nth o (data X) (f0 Op) -f tr_pred_block cs G dim (unravel (shape X) o))).
  Definition tr_sqerr (X : tensor F) (cs : list (tensor F)) : F :=
    gsum (prod (shape X)) (fun o => fsq (nth o (data X) (f0 Op) -f tr_entry cs (unravel (shape X) o))).
  (* left-hand side of the normal equations of the block at (slice i, column j) *)
  Definition tr_normal_lhs (X : tensor F) (cs : list (tensor F)) (dim : nat) (G : tensor F) (i j : nat) : F :=
    let rb := nth 2 (shape G) 0 in
    gsum (prod (shape X)) (fun o => let idx := unravel (shape X) o in
      if Nat.eqb (nth dim idx 0) i
      then tr_sub cs idx dim (j mod rb) (j / rb) *f (nth o (data X) (f0 Op) -f tr_pred_block cs G dim idx)
      else f0 Op).

  (* ---------------- generic (ridge) least-squares block with several right-hand sides ----------------
     used for the blocks of tensor_ring_als (design matrix = reshaped sub-chain), the ridge ALS of the
     CP / Tucker regressors and the coupled matrix-tensor ALS: the design matrix is captured from the
     implementation, the linear solver (lstsq / solve / pinv) is an oracle *)
  Definition ls_pred (A X : mat) (n i c : nat) : F := gsum n (fun t => mget A i t *f mget X t c).
  Definition ls_obj_m (A Y X : mat) (lam : F) (m n p : nat) : F :=
    gsum p (fun c => gsum m (fun i => fsq (mget Y i c -f ls_pred A X n i c)) +f lam *f gsum n (fun j => fsq (mget X j c))).
  Definition ls_normal_lhs (A Y X : mat) (m n j c : nat) : F :=
    gsum m (fun i => mget A i j *f (mget Y i c -f ls_pred A X n i c)).
End Model.
