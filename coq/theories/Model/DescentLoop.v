(* C07 -- the outer loop shared by the algorithms of the property and their stopping rules ("from the first sweep to termination").
   Definitions only, generic in the carrier; executed by the correspondence at Qops on the values the implementation recorded.

       for iteration in range(n_iter_max):
           state = sweep(state)                      # all block updates of one iteration
           history.append(report(state))             # reconstruction error / norm of the weight tensor / coupled objective
           if stop(iteration, history): break

   Stopping rules as the code writes them (a = history[-1], b = history[-2], it = 0-based iteration):
     parafac, non_negative_parafac(_hals)  `if tol:`  it >= 1 and  |b - a| < tol  (cvg_criterion='abs_rec_error')   or   b - a < tol  ('rec_error')
     partial_tucker / tucker               it > 1  and tol and |b - a| < tol
     parafac2                              `if tol:`  it >= 1 and |b - a| < tol
     tensor_ring_als                       tol > 0 and it >= 1 and  b - a < tol
     coupled_matrix_tensor_3d_factorization  it > 0 and ( |a - b| / b <= tol  or  a < tol )
     CPRegressor.fit / TuckerRegressor.fit  it > 1 and |a - b| / a <= tol        (history = norms of the weight tensor)
     hals_nnls                             a < tol * f   with f = history[0]    (history = squared norms of the update of a pass; may fire at the first pass) *)
From Coq Require Import List Arith Bool.
From TLV Require Import Base.Ops.
Import ListNotations.

Section Loop.
  Variables (St V : Type) (step : St -> St) (report : St -> V) (stop : nat -> list V -> bool).
  (* the history is kept newest first; `it` is the 0-based index of the iteration about to run *)
  Fixpoint loop (fuel it : nat) (s : St) (hist : list V) : St * list V :=
    match fuel with
    | O => (s, hist)
    | S fuel' => let s' := step s in let hist' := report s' :: hist in
                 if stop it hist' then (s', hist') else loop fuel' (S it) s' hist'
    end.
  Definition run_loop (n_iter_max : nat) (s : St) : St * list V := loop n_iter_max 0 s [].
End Loop.

Section Rules.
  Context {F : Type} (Op : fops F).
  Inductive stop_kind : Type := AbsDiffLt | DiffLt | RelNewLe | RelOldLeOrSmall | RelFirstLt.
  Record stop_rule : Type := mkStop { sr_kind : stop_kind; sr_min_it : nat; sr_tol : F; sr_active : bool }.
  (* a = newest value, b = the one before, f = the first value of the history *)
  Definition stop_test (k : stop_kind) (tol a b f : F) : bool :=
    match k with
    | AbsDiffLt => fltb Op (fabs Op (fsub Op b a)) tol
    | DiffLt => fltb Op (fsub Op b a) tol
    | RelNewLe => fleb Op (fdiv Op (fabs Op (fsub Op a b)) a) tol
    | RelOldLeOrSmall => fleb Op (fdiv Op (fabs Op (fsub Op a b)) b) tol || fltb Op a tol
    | RelFirstLt => fltb Op a (fmul Op tol f)
    end.
  Definition stop_fires (r : stop_rule) (it : nat) (hist : list F) : bool :=
    match hist with
    | a :: b :: _ => sr_active r && (sr_min_it r <=? it) && stop_test (sr_kind r) (sr_tol r) a b (last hist a)
    | [a] => match sr_kind r with RelFirstLt => sr_active r && (sr_min_it r <=? it) && stop_test RelFirstLt (sr_tol r) a a a | _ => false end
    | [] => false
    end.
  (* Python truthiness of `tol` (`if tol:`): 0 / 0.0 switch the test off *)
  Definition truthy (tol : F) : bool := negb (feqb Op tol (f0 Op)).
  Definition parafac_stop (abs_crit : bool) (tol : F) : stop_rule := mkStop (if abs_crit then AbsDiffLt else DiffLt) 1 tol (truthy tol).
  Definition tucker_stop (tol : F) : stop_rule := mkStop AbsDiffLt 2 tol (truthy tol).
  Definition parafac2_stop (tol : F) : stop_rule := mkStop AbsDiffLt 1 tol (truthy tol).
  Definition tr_stop (tol : F) : stop_rule := mkStop DiffLt 1 tol (fltb Op (f0 Op) tol).
  Definition cmtf_stop (tol : F) : stop_rule := mkStop RelOldLeOrSmall 1 tol true.
  Definition regressor_stop (tol : F) : stop_rule := mkStop RelNewLe 2 tol true.
  Definition hals_stop (tol : F) : stop_rule := mkStop RelFirstLt 0 tol true.
  (* algorithm ids of the correspondence: 0 parafac / nn-HALS, 1 tucker, 2 parafac2, 3 tensor_ring_als, 4 CMTF, 5 regressors, 6 hals_nnls *)
  Definition rule_of (alg : nat) (abs_crit : bool) (tol : F) : stop_rule :=
    match alg with 0 => parafac_stop abs_crit tol | 1 => tucker_stop tol | 2 => parafac2_stop tol | 3 => tr_stop tol | 4 => cmtf_stop tol | 5 => regressor_stop tol | _ => hals_stop tol end.

  (* the loop replayed on the recorded values: the state is the number of iterations done, the report of the state after i iterations is
     the i-th recorded value (Proofs/DescentProofsLoop.v: the loop over the real states stops after the same number of iterations) *)
  Definition tape_iters (r : stop_rule) (n_iter_max : nat) (tape : list F) : nat :=
    fst (run_loop nat F S (fun i => nth (i - 1) tape (f0 Op)) (stop_fires r) n_iter_max 0).
End Rules.
