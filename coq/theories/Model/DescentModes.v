(* C07 -- which modes a sweep of parafac / non_negative_parafac_hals updates (option parsing of `fixed_modes`, early exit).
   Definitions only; executed by the correspondence on the modes observed in the implementation's first sweep. *)
From Coq Require Import List Arith Bool.
Import ListNotations.

(* parafac (decomposition/_cp.py): which modes a sweep updates.  All modes fixed (as sets) -> the initialisation is returned, no sweep;
   the last mode cannot be fixed (it is taken out of fixed_modes with a warning); modes_list = the modes not in fixed_modes, increasing.
   non_negative_parafac_hals: the same list without the special treatment of the last mode. *)
Definition memb (m : nat) (l : list nat) : bool := existsb (Nat.eqb m) l.
Definition cp_all_fixed (n : nat) (fixed : list nat) : bool :=
  forallb (fun m => memb m fixed) (seq 0 n) && forallb (fun f => f <? n) fixed.
Definition cp_fixed_eff (n : nat) (fixed : list nat) : list nat := filter (fun f => negb (Nat.eqb f (n - 1))) fixed.
Definition cp_modes_list (n : nat) (fixed : list nat) : list nat := filter (fun m => negb (memb m (cp_fixed_eff n fixed))) (seq 0 n).
Definition nn_modes_list (n : nat) (fixed : list nat) : list nat := filter (fun m => negb (memb m fixed)) (seq 0 n).

