(* C07 -- what the algorithms REPORT as their error, as computed by the code (generic in the carrier; executed at Qops by the
   correspondence, proved about at Rops).
   * parafac (decomposition/_cp.py:error_calc, fast branch): unnormalised error^2 = | ||X||^2 + cp_norm^2 - 2 iprod | with
       cp_norm^2 = sum_{r,t} w_r w_t prod_j (A_j' A_j)[r,t]                      (cp_tensor.py:cp_norm)
       iprod     = sum_{i,r} mttkrp[i,r] * A_last[i,r]                           (the MTTKRP of the last updated mode)
   * partial_tucker: error^2 = | ||X||^2 - ||core||^2 |  (Model/Descent.v:tk_core_norm2). *)
From Coq Require Import List Arith Bool.
From TLV Require Import Base.Shape Base.PyList Base.Tensor Base.Ops Model.Descent.
Import ListNotations.

Section Report.
  Context {F : Type} (Op : fops F).
  Notation "a +f b" := (fadd Op a b) (at level 50, left associativity).
  Notation "a -f b" := (fsub Op a b) (at level 50, left associativity).
  Notation "a *f b" := (fmul Op a b) (at level 40, left associativity).

  Definition tnormsq (X : tensor F) : F := gsum Op (prod (shape X)) (fun o => fsq Op (nth o (data X) (f0 Op))).
  Definition cp_norm2_gram (s : list nat) (w : list F) (facs : list (mat (F:=F))) (rank : nat) : F :=
    gsum Op rank (fun r => gsum Op rank (fun t =>
      vget Op w r *f vget Op w t *f lprod Op (fun j d => gram Op (nth j facs []) d r t) 0 s)).
  Definition cp_iprod (X : tensor F) (w : list F) (facs : list (mat (F:=F))) (k rank : nat) : F :=
    gsum Op (nth k (shape X) 0) (fun i => gsum Op rank (fun r => cp_mttkrp Op X w facs k i r *f mget Op (nth k facs []) i r)).
  (* the squared unnormalised error as parafac computes it (before abs / sqrt), MTTKRP of mode k *)
  Definition cp_err2_reported (X : tensor F) (w : list F) (facs : list (mat (F:=F))) (k rank : nat) : F :=
    tnormsq X +f cp_norm2_gram (shape X) w facs rank -f two Op *f cp_iprod X w facs k rank.
End Report.
