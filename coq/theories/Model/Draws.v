(* C16 -- model of the random_state plumbing of TensorLy (definitions only).

   * an ABSTRACT generator: [draw : req -> gstate -> value * gstate], [seed : Z -> gstate]
     (MT19937 and NumPy's sampling routines are a black box behind [draw]);
   * [check_random_state] (tensorly/backend/core.py): None -> NumPy's global generator,
     int -> a FRESH generator object seeded with it (ValueError unless 0 <= int < 2**32), RandomState instance -> itself, else error;
   * a draw-skeleton language [skel] in which every draw names where its generator comes from
     (the scope's [rng] variable, obtained by [Check]; or NumPy's module-level functions, [DrawNp]),
     calls pass on [random_state] (raw), [rng] (the generator object), nothing (None) or a constant;
     data-dependent control flow ([Branch], [For] with break) and data-dependent requests are resolved
     by an arbitrary deterministic interpretation [interp] (functions of the values drawn so far);
   * two semantics: [run] on the whole process (global generator + an arbitrary interleaved
     environment [env] acting on the global generator before every step) and [run_local], which has NO
     global generator in its signature and is undefined on a global draw;
   * an exception (junk / out-of-range random_state, a draw on an unset rng) is a sticky FLAG ([failed]), not an abort:
     the semantics keeps executing the rest of the skeleton.  This is conservative for every theorem (more draws are
     considered than the implementation performs) and the correspondence ignores the draw bits of failed calls;
   * the static analysis [gf] / [global_free];
   * the draw skeletons of the seed-accepting entry points of /repo/tensorly (section Skeletons). *)
From Coq Require Import List Arith ZArith Bool.
Import ListNotations.

(* ------------------------------------------------------------------ syntax *)
Inductive gen := GGlobal | GObj (h : nat).                 (* generator objects: NumPy's global one, heap objects *)
Inductive rsval := VNone | VInt (s : Z) | VGen (g : gen) | VBad.   (* what a random_state argument can be *)
Inductive argexp := ARaw | ARng | ANone | AConst (s : Z).   (* random_state=random_state | =rng | omitted | =<literal> *)

Inductive skel :=
| Skip
| Seq (a b : skel)
| Branch (t : nat) (a b : skel)          (* data-dependent if *)
| For (t n : nat) (body : skel)          (* for i in range(n): if <data-dependent>: break; body *)
| Check                                  (* rng = check_random_state(random_state) *)
| Draw (t : nat)                         (* rng.<sampling method>(...) *)
| DrawNp (t : nat)                       (* np.random.<function>(...): the global generator *)
| Call (a : argexp) (body : skel)        (* callee(..., random_state=a): body runs in a new scope *)
| Reseed (t : nat).                      (* rng = RandomState(<expr>): a CHILD generator seeded with an int computed from the values drawn so far *)

Fixpoint seqs (l : list skel) : skel := match l with [] => Skip | x :: r => Seq x (seqs r) end.

Definition gen_eqb (a b : gen) : bool :=
  match a, b with GGlobal, GGlobal => true | GObj x, GObj y => Nat.eqb x y | _, _ => false end.

(* numpy.random.RandomState(seed) accepts an int seed only in [0, 2**32 - 1] (ValueError otherwise) *)
Definition seed_ok (s : Z) : bool := (0 <=? s)%Z && (s <? 4294967296)%Z.

Definition eval_arg (a : argexp) (p : rsval) (c : option gen) : rsval :=
  match a with
  | ARaw => p
  | ARng => match c with Some g => VGen g | None => VBad end
  | ANone => VNone
  | AConst s => VInt s
  end.

Fixpoint upd {A} (n : nat) (x : A) (l : list A) : list A :=
  match l, n with
  | [], _ => []
  | _ :: r, 0 => x :: r
  | y :: r, S n' => y :: upd n' x r
  end.

(* ------------------------------------------------------------------ static analysis *)
Inductive acur := AUnset | AGlob | ALoc.                    (* abstract value of the scope's rng variable *)
Inductive aparam := PNone | PInt | PLoc | PGlob | PBad.     (* abstract value of the random_state argument *)

Definition absc (c : option gen) : acur :=
  match c with None => AUnset | Some GGlobal => AGlob | Some (GObj _) => ALoc end.
Definition absp (p : rsval) : aparam :=
  match p with
  | VNone => PNone | VInt s => if seed_ok s then PInt else PBad     (* an out-of-range int is rejected like junk *)
  | VGen GGlobal => PGlob | VGen (GObj _) => PLoc | VBad => PBad
  end.
Definition acheck (p : aparam) : option acur :=
  match p with PNone => Some AGlob | PInt => Some ALoc | PLoc => Some ALoc | PGlob => Some AGlob | PBad => None end.
Definition aarg (a : argexp) (p : aparam) (c : acur) : aparam :=
  match a with
  | ARaw => p
  | ARng => match c with AUnset => PBad | AGlob => PGlob | ALoc => PLoc end
  | ANone => PNone
  | AConst s => if seed_ok s then PInt else PBad
  end.
Definition acur_eqb (a b : acur) : bool :=
  match a, b with AUnset, AUnset | AGlob, AGlob | ALoc, ALoc => true | _, _ => false end.

(* [gf sk p c = Some c'] : started with random_state of kind p and rng of kind c, the skeleton never
   draws from the global generator (nor fails) and leaves rng of kind c'.  Conservative at joins. *)
Fixpoint gf (sk : skel) (p : aparam) (c : acur) : option acur :=
  match sk with
  | Skip => Some c
  | Seq a b => match gf a p c with Some c1 => gf b p c1 | None => None end
  | Branch _ a b =>
      match gf a p c, gf b p c with
      | Some c1, Some c2 => if acur_eqb c1 c2 then Some c1 else None
      | _, _ => None
      end
  | For _ _ body => match gf body p c with Some c1 => if acur_eqb c1 c then Some c else None | None => None end
  | Check => acheck p
  | Draw _ => match c with ALoc => Some c | _ => None end
  | DrawNp _ => None
  | Call a body => match gf body (aarg a p c) AUnset with Some _ => Some c | None => None end
  | Reseed _ => None            (* may raise (seed out of range): left to the second analysis *)
  end.

Definition global_free (sk : skel) (p : aparam) : bool :=
  match gf sk p AUnset with Some _ => true | None => false end.

(* A second, coarser analysis that is precise at joins: the rng variable is either SAFE (unset, or some generator
   object) or possibly the global generator.  It does not promise that the call completes (a draw on an unset rng
   raises: no global draw either), only that no draw reaches the global generator.  Used for the skeletons that
   the harness extracts from the source, where a generator may be bound in one branch only. *)
Inductive wcur := WSafe | WUnsafe.
Definition wle (a b : wcur) : bool := match a, b with WUnsafe, WSafe => false | _, _ => true end.
Definition wjoin (a b : wcur) : wcur := match a, b with WSafe, WSafe => WSafe | _, _ => WUnsafe end.
Definition wabsc (c : option gen) : wcur := match c with Some GGlobal => WUnsafe | _ => WSafe end.
Definition wabsp (p : rsval) : wcur := match p with VNone | VGen GGlobal => WUnsafe | _ => WSafe end.
Definition warg (a : argexp) (p c : wcur) : wcur :=
  match a with ARaw => p | ARng => c | ANone => WUnsafe | AConst _ => WSafe end.

Fixpoint gfw (sk : skel) (p c : wcur) : option wcur :=
  match sk with
  | Skip => Some c
  | Seq a b => match gfw a p c with Some c1 => gfw b p c1 | None => None end
  | Branch _ a b => match gfw a p c, gfw b p c with Some c1, Some c2 => Some (wjoin c1 c2) | _, _ => None end
  | For _ _ body =>
      match gfw body p c with
      | Some c1 => if wle c1 c then Some c
                   else match gfw body p WUnsafe with Some _ => Some WUnsafe | None => None end
      | None => None
      end
  | Check => Some p
  | Draw _ => match c with WSafe => Some WSafe | WUnsafe => None end
  | DrawNp _ => None
  | Call a body => match gfw body (warg a p c) WSafe with Some _ => Some c | None => None end
  | Reseed _ => Some WSafe      (* a fresh object, or unset after a ValueError: never the global generator *)
  end.

(* random_state is an int, a generator object other than the global one, or junk *)
Definition global_free_w (sk : skel) : bool := match gfw sk WSafe WSafe with Some _ => true | None => false end.

(* no draw at all, from any generator (RNG-free functions) *)
Fixpoint draw_free (sk : skel) : bool :=
  match sk with
  | Skip | Check | Reseed _ => true
  | Seq a b | Branch _ a b => draw_free a && draw_free b
  | For _ _ body | Call _ body => draw_free body
  | Draw _ | DrawNp _ => false
  end.

(* the skeleton certainly passes its own random_state argument to check_random_state (on every path) *)
Fixpoint must_check (sk : skel) : bool :=
  match sk with
  | Check => true
  | Seq a b => must_check a || must_check b
  | Branch _ a b => must_check a && must_check b
  | Call ARaw body => must_check body
  | _ => false
  end.

(* ------------------------------------------------------------------ the decision table of check_random_state *)
(* Backend.check_random_state is an if / elif chain of type tests on its argument, each returning a generator, ended by a
   raise.  The harness re-reads that chain from the source on every run (ast) and writes it as a table; [table_action]
   evaluates it on the four kinds of argument the model distinguishes, first match wins. *)
Inductive crs_test := TIsNone | TIsInt | TIsRandomState | TUnknown.
   (* seed is None | isinstance(seed, int) | isinstance(seed, np.random.RandomState) | anything the translator does not understand *)
Inductive crs_action := AGlobalGen | AFreshSeeded | ASelf | ARaise | AUnknown.
   (* return np.random.mtrand._rand | return np.random.RandomState(seed) | return seed | raise | anything else *)
Inductive crs_kind := KNone | KInt | KGen | KBad.
Definition kind_of (p : rsval) : crs_kind := match p with VNone => KNone | VInt _ => KInt | VGen _ => KGen | VBad => KBad end.
Definition test_holds (t : crs_test) (k : crs_kind) : bool :=
  match t, k with TIsNone, KNone | TIsInt, KInt | TIsRandomState, KGen => true | _, _ => false end.
Fixpoint table_action (tbl : list (crs_test * crs_action)) (dflt : crs_action) (k : crs_kind) : crs_action :=
  match tbl with [] => dflt | (t, a) :: r => if test_holds t k then a else table_action r dflt k end.
Definition action_eqb (a b : crs_action) : bool :=
  match a, b with AGlobalGen, AGlobalGen | AFreshSeeded, AFreshSeeded | ASelf, ASelf | ARaise, ARaise => true | _, _ => false end.
(* fail closed: a test the translator did not understand anywhere in the chain makes the table unacceptable *)
Definition crs_table_ok (tbl : list (crs_test * crs_action)) (dflt : crs_action) : bool :=
  forallb (fun ta => match fst ta with TUnknown => false | _ => true end) tbl &&
  action_eqb (table_action tbl dflt KNone) AGlobalGen && action_eqb (table_action tbl dflt KInt) AFreshSeeded &&
  action_eqb (table_action tbl dflt KGen) ASelf && action_eqb (table_action tbl dflt KBad) ARaise.
(* the chain as it is written in /repo/tensorly/backend/core.py *)
Definition crs_table_repo : list (crs_test * crs_action) := [(TIsNone, AGlobalGen); (TIsInt, AFreshSeeded); (TIsRandomState, ASelf)].

(* ------------------------------------------------------------------ semantics *)
Section Sem.
Variables gstate value req : Type.
Variable draw : req -> gstate -> value * gstate.
Variable seed : Z -> gstate.

(* the deterministic rest of the computation: every decision / request is a function of the
   values drawn so far (and of the call's other arguments, which are fixed inside the record) *)
Record interp := {
  decide : nat -> list value -> bool;          (* Branch site -> history -> take the first branch *)
  stop : nat -> nat -> list value -> bool;     (* For site -> iteration index -> history -> break *)
  request : nat -> list value -> req;          (* draw site -> history -> (distribution, shape, parameters) *)
  as_seed : nat -> list value -> Z }.          (* RandomState(<expr>) site -> history -> the int the expression evaluates to *)

(* everything except the global generator: objects created or passed in ([heap]), the values drawn
   (most recent first), a step counter, the log of generators drawn from, an error flag *)
Record lworld := { heap : list gstate; hist : list value; ticks : nat; srcs : list gen; failed : bool }.

Definition tickL (w : lworld) : lworld :=
  {| heap := heap w; hist := hist w; ticks := S (ticks w); srcs := srcs w; failed := failed w |}.
Definition failL (w : lworld) : lworld :=
  {| heap := heap w; hist := hist w; ticks := ticks w; srcs := srcs w; failed := true |}.

(* tensorly/backend/core.py: Backend.check_random_state *)
Definition check_random_state (p : rsval) (w : lworld) : option gen * lworld :=
  match p with
  | VNone => (Some GGlobal, w)
  | VInt s => if seed_ok s
              then (Some (GObj (length (heap w))),
                    {| heap := heap w ++ [seed s]; hist := hist w; ticks := ticks w; srcs := srcs w; failed := failed w |})
              else (None, failL w)          (* np.random.RandomState(seed) raises ValueError *)
  | VGen g => (Some g, w)
  | VBad => (None, failL w)
  end.

(* check_random_state driven by a decision table (Proofs/DrawsProofsHist.v: equal to the definition above for every table
   that [crs_table_ok] accepts) *)
Definition crs_by_table (tbl : list (crs_test * crs_action)) (dflt : crs_action) (p : rsval) (w : lworld) : option gen * lworld :=
  match table_action tbl dflt (kind_of p), p with
  | AGlobalGen, _ => (Some GGlobal, w)
  | AFreshSeeded, VInt s =>
      if seed_ok s
      then (Some (GObj (length (heap w))),
            {| heap := heap w ++ [seed s]; hist := hist w; ticks := ticks w; srcs := srcs w; failed := failed w |})
      else (None, failL w)
  | ASelf, VGen g => (Some g, w)
  | _, _ => (None, failL w)
  end.

(* RandomState(<expr>): a fresh object seeded with the int the expression evaluates to (ValueError when out of range) *)
Definition seed_from (I : interp) (t : nat) (w : lworld) : option gen * lworld :=
  check_random_state (VInt (as_seed I t (hist w))) (tickL w).

Definition draw_obj (I : interp) (t h : nat) (w : lworld) : lworld :=
  match nth_error (heap w) h with
  | Some gs => let (v, gs') := draw (request I t (hist w)) gs in
               {| heap := upd h gs' (heap w); hist := v :: hist w; ticks := ticks w;
                  srcs := GObj h :: srcs w; failed := failed w |}
  | None => failL w
  end.

Fixpoint loopL (f : option gen -> lworld -> option (option gen * lworld)) (stp : nat -> list value -> bool)
         (k i : nat) (c : option gen) (w : lworld) : option (option gen * lworld) :=
  match k with
  | 0 => Some (c, w)
  | S k' => if stp i (hist w) then Some (c, w)
            else match f c w with Some (c1, w1) => loopL f stp k' (S i) c1 w1 | None => None end
  end.

(* the semantics WITHOUT a global generator: None as soon as a draw would need it *)
Fixpoint run_local (I : interp) (sk : skel) (p : rsval) (c : option gen) (w : lworld) : option (option gen * lworld) :=
  match sk with
  | Skip => Some (c, w)
  | Seq a b => match run_local I a p c w with Some (c1, w1) => run_local I b p c1 w1 | None => None end
  | Branch t a b => if decide I t (hist w) then run_local I a p c w else run_local I b p c w
  | For t n body => loopL (run_local I body p) (stop I t) n 0 c w
  | Check => Some (check_random_state p (tickL w))
  | Draw t => match c with
              | Some (GObj h) => Some (c, draw_obj I t h (tickL w))
              | Some GGlobal => None
              | None => Some (c, failL (tickL w))
              end
  | DrawNp _ => None
  | Call a body => match run_local I body (eval_arg a p c) None w with Some (_, w1) => Some (c, w1) | None => None end
  | Reseed t => Some (seed_from I t w)
  end.

(* the whole process: global generator g; before every step the environment (other code, callbacks,
   other threads) does [env k] to the global generator, k = number of steps so far *)
Variable env : nat -> gstate -> gstate.

Definition draw_glob (I : interp) (t : nat) (w : lworld) (g : gstate) : lworld * gstate :=
  let (v, g') := draw (request I t (hist w)) g in
  ({| heap := heap w; hist := v :: hist w; ticks := ticks w; srcs := GGlobal :: srcs w; failed := failed w |}, g').

Fixpoint loopG (f : option gen -> lworld -> gstate -> option gen * lworld * gstate) (stp : nat -> list value -> bool)
         (k i : nat) (c : option gen) (w : lworld) (g : gstate) : option gen * lworld * gstate :=
  match k with
  | 0 => (c, w, g)
  | S k' => if stp i (hist w) then (c, w, g)
            else let '(c1, w1, g1) := f c w g in loopG f stp k' (S i) c1 w1 g1
  end.

Fixpoint run (I : interp) (sk : skel) (p : rsval) (c : option gen) (w : lworld) (g : gstate) : option gen * lworld * gstate :=
  match sk with
  | Skip => (c, w, g)
  | Seq a b => let '(c1, w1, g1) := run I a p c w g in run I b p c1 w1 g1
  | Branch t a b => if decide I t (hist w) then run I a p c w g else run I b p c w g
  | For t n body => loopG (run I body p) (stop I t) n 0 c w g
  | Check => let (c1, w1) := check_random_state p (tickL w) in (c1, w1, env (ticks w) g)
  | Draw t => match c with
              | Some (GObj h) => (c, draw_obj I t h (tickL w), env (ticks w) g)
              | Some GGlobal => let (w1, g1) := draw_glob I t (tickL w) (env (ticks w) g) in (c, w1, g1)
              | None => (c, failL (tickL w), env (ticks w) g)
              end
  | DrawNp t => let (w1, g1) := draw_glob I t (tickL w) (env (ticks w) g) in (c, w1, g1)
  | Call a body => let '(_, w1, g1) := run I body (eval_arg a p c) None w g in (c, w1, g1)
  | Reseed t => let (c1, w1) := seed_from I t w in (c1, w1, env (ticks w) g)
  end.

(* what the environment alone does to the global generator during steps t .. t+k-1 *)
Fixpoint advance (t k : nat) (g : gstate) : gstate :=
  match k with 0 => g | S k' => advance (S t) k' (env t g) end.

(* ---------------------------------------------------------------- one library call *)
Inductive rsarg := HNone | HInt (s : Z) | HInst (gs : gstate) | HGlobObj | HBad.
   (* random_state = None | int | a caller-owned RandomState in state gs | np.random.mtrand._rand | junk *)

Record outcome := { o_hist : list value; o_failed : bool; o_inst : option gstate; o_srcs : list gen }.
   (* the values drawn (the returned value is a deterministic function of them), error flag,
      final state of the caller's instance, generators drawn from *)

Definition heap0 (a : rsarg) : list gstate := match a with HInst gs => [gs] | _ => [] end.
Definition param0 (a : rsarg) : rsval :=
  match a with HNone => VNone | HInt s => VInt s | HInst _ => VGen (GObj 0) | HGlobObj => VGen GGlobal | HBad => VBad end.
Definition w0 (a : rsarg) : lworld := {| heap := heap0 a; hist := []; ticks := 0; srcs := []; failed := false |}.
Definition outcome_of (a : rsarg) (w : lworld) : outcome :=
  {| o_hist := hist w; o_failed := failed w;
     o_inst := match a with HInst _ => nth_error (heap w) 0 | _ => None end; o_srcs := srcs w |}.

(* objects created during a call are unreachable afterwards; the caller's instance keeps its final state *)
Definition call (I : interp) (sk : skel) (a : rsarg) (g : gstate) : outcome * gstate :=
  let '(_, w, g') := run I sk (param0 a) None (w0 a) g in (outcome_of a w, g').
Definition call_local (I : interp) (sk : skel) (a : rsarg) : option outcome :=
  match run_local I sk (param0 a) None (w0 a) with Some (_, w) => Some (outcome_of a w) | None => None end.

End Sem.

Arguments seed_from : simpl never.
Arguments heap {gstate value}. Arguments hist {gstate value}. Arguments ticks {gstate value}.
Arguments srcs {gstate value}. Arguments failed {gstate value}.
Arguments decide {value req}. Arguments stop {value req}. Arguments request {value req}. Arguments as_seed {value req}.
Arguments HNone {gstate}. Arguments HInt {gstate}. Arguments HInst {gstate}. Arguments HGlobObj {gstate}. Arguments HBad {gstate}.
Arguments o_hist {gstate value}. Arguments o_failed {gstate value}. Arguments o_inst {gstate value}. Arguments o_srcs {gstate value}.

(* ------------------------------------------------------------------ a Python-shaped skeleton language *)
(* What the harness extracts from the SOURCE (corr:C16-static) is written in this second language, which keeps the
   NAMES of the code: every scope has numbered variables holding random_state-like values (variable 0 = the scope's
   random_state / seed argument), `x = e`, `x = check_random_state(e)`, `x.<sampler>()`, numpy.random module-level
   draws and calls `callee(random_state=e)`.  No abstraction is made by the harness: several generator names per
   scope, aliases of the argument, re-assignment of the argument, np.random used as an object are all expressible;
   the collapse onto "safe / possibly the global generator" is done by [pgf] below and proved sound. *)
Inductive pexp := PVar (x : nat) | PNoneE | PConstE (s : Z) | PGlobE.     (* a name | None | int literal | np.random, np.random.mtrand._rand *)
Inductive pskel :=
| PSkip
| PSeq (a b : pskel)
| PBranch (t : nat) (a b : pskel)
| PFor (t n : nat) (body : pskel)
| PAssign (x : nat) (e : pexp)            (* x = e *)
| PCheck (x : nat) (e : pexp)             (* x = check_random_state(e) *)
| PDraw (x t : nat)                       (* x.<sampling method>(...) *)
| PDrawNp (t : nat)                       (* np.random.<function>(...) *)
| PCall (e : pexp) (body : pskel)         (* callee(..., random_state=e): body runs in a new scope whose variable 0 is e *)
| PFail                                   (* raise: the call fails (a flag, like every exception in this model; the transcription puts the code
                                             that follows a raise / return on the other branch, so nothing is executed after it) *)
| PSeedFrom (x t : nat).                  (* x = RandomState(<expr>): a CHILD generator seeded with an int computed from the values drawn so
                                             far and the call's arguments ([as_seed] of the interpretation), e.g. RandomState(rng.randint(2**31)) *)

Fixpoint pseqs (l : list pskel) : pskel := match l with [] => PSkip | x :: r => PSeq x (pseqs r) end.

Fixpoint setv {A} (d : A) (x : nat) (v : A) (l : list A) : list A :=
  match x, l with
  | 0, [] => [v]
  | 0, _ :: r => v :: r
  | S x', [] => d :: setv d x' v []
  | S x', y :: r => y :: setv d x' v r
  end.

Definition peval (e : pexp) (env : list rsval) : rsval :=
  match e with PVar x => nth x env VBad | PNoneE => VNone | PConstE s => VInt s | PGlobE => VGen GGlobal end.
Definition of_gen (c : option gen) : rsval := match c with Some g => VGen g | None => VBad end.

(* abstract environments: finitely many variables + a default for all the others *)
Definition aenv := (list wcur * wcur)%type.
Definition alook (x : nat) (A : aenv) : wcur := nth x (fst A) (snd A).
Definition aset (x : nat) (v : wcur) (A : aenv) : aenv := (setv (snd A) x v (fst A), snd A).
Definition ajoin (A B : aenv) : aenv :=
  (map (fun i => wjoin (alook i A) (alook i B)) (seq 0 (Nat.max (length (fst A)) (length (fst B)))), wjoin (snd A) (snd B)).
Definition ale (A B : aenv) : bool :=
  forallb (fun i => wle (alook i A) (alook i B)) (seq 0 (Nat.max (length (fst A)) (length (fst B)))) && wle (snd A) (snd B).
Definition atop : aenv := ([], WUnsafe).
Definition aeval (e : pexp) (A : aenv) : wcur :=
  match e with PVar x => alook x A | PNoneE => WUnsafe | PConstE _ => WSafe | PGlobE => WUnsafe end.

(* [pgf sk A = Some A']: started with variables abstracted by A, no draw of sk reaches the global generator, and A'
   abstracts the variables afterwards.  Joins are pointwise; a loop is analysed at its entry state if that is
   stable, otherwise at the entry state joined with one iteration if that is stable, otherwise at the top state. *)
Fixpoint pgf (sk : pskel) (A : aenv) : option aenv :=
  match sk with
  | PSkip => Some A
  | PSeq a b => match pgf a A with Some A1 => pgf b A1 | None => None end
  | PBranch _ a b => match pgf a A, pgf b A with Some A1, Some A2 => Some (ajoin A1 A2) | _, _ => None end
  | PFor _ _ body =>
      match pgf body A with
      | Some A1 => if ale A1 A then Some A
                   else let B := ajoin A A1 in          (* second attempt: the entry state joined with one iteration *)
                        match pgf body B with
                        | Some B1 => if ale B1 B then Some B
                                     else match pgf body atop with Some _ => Some atop | None => None end
                        | None => None
                        end
      | None => None
      end
  | PFail => Some A
  | PSeedFrom x _ => Some (aset x WSafe A)
  | PAssign x e => Some (aset x (aeval e A) A)
  | PCheck x e => Some (aset x (aeval e A) A)
  | PDraw x _ => match alook x A with WSafe => Some A | WUnsafe => None end
  | PDrawNp _ => None
  | PCall e body => match pgf body ([aeval e A], WSafe) with Some _ => Some A | None => None end
  end.

(* a whole call: variable 0 (the argument) is an int, a generator object other than the global one, or junk *)
Definition pglobal_free (sk : pskel) : bool := match pgf sk ([WSafe], WSafe) with Some _ => true | None => false end.

Fixpoint pdraw_free (sk : pskel) : bool :=
  match sk with
  | PSkip | PAssign _ _ | PCheck _ _ | PFail | PSeedFrom _ _ => true
  | PSeq a b | PBranch _ a b => pdraw_free a && pdraw_free b
  | PFor _ _ body | PCall _ body => pdraw_free body
  | PDraw _ _ | PDrawNp _ => false
  end.

(* the one-variable language [skel] embedded into the Python-shaped one: variable 0 = random_state, variable 1 = rng
   (Proofs/DrawsProofsPy2.v: the two semantics agree on the embedding, so both languages describe the same calls) *)
Definition embed_arg (a : argexp) : pexp :=
  match a with ARaw => PVar 0 | ARng => PVar 1 | ANone => PNoneE | AConst s => PConstE s end.
Fixpoint embed (sk : skel) : pskel :=
  match sk with
  | Skip => PSkip
  | Seq a b => PSeq (embed a) (embed b)
  | Branch t a b => PBranch t (embed a) (embed b)
  | For t n body => PFor t n (embed body)
  | Check => PCheck 1 (PVar 0)
  | Draw t => PDraw 1 t
  | DrawNp t => PDrawNp t
  | Call a body => PCall (embed_arg a) (embed body)
  | Reseed t => PSeedFrom 1 t
  end.

(* source level: the scope certainly passes its own random_state argument (variable 0, not re-bound before) to
   check_random_state, on every path, possibly through callees that receive it unchanged *)
Fixpoint passigns0 (sk : pskel) : bool :=
  match sk with
  | PAssign 0 _ | PCheck 0 _ | PSeedFrom 0 _ => true
  | PSeq a b | PBranch _ a b => passigns0 a || passigns0 b
  | PFor _ _ body => passigns0 body
  | _ => false
  end.
Fixpoint pmust_check (sk : pskel) : bool :=
  match sk with
  | PSeq a b => pmust_check a || (negb (passigns0 a) && pmust_check b)
  | PBranch _ a b => pmust_check a && pmust_check b
  | PCheck _ (PVar 0) => true
  | PCall (PVar 0) body => pmust_check body
  | PFail => true                 (* the call fails on this path whatever the seed is *)
  | _ => false
  end.

Section PSem.
Variables gstate value req : Type.
Variable draw : req -> gstate -> value * gstate.
Variable seed : Z -> gstate.
Notation lw := (lworld gstate value).
Notation I_ := (interp value req).

Fixpoint ploopL (f : list rsval -> lw -> option (list rsval * lw)) (stp : nat -> list value -> bool)
         (k i : nat) (env : list rsval) (w : lw) : option (list rsval * lw) :=
  match k with
  | 0 => Some (env, w)
  | S k' => if stp i (hist w) then Some (env, w)
            else match f env w with Some (e1, w1) => ploopL f stp k' (S i) e1 w1 | None => None end
  end.

(* the semantics without a global generator *)
Fixpoint prun_local (I : I_) (sk : pskel) (env : list rsval) (w : lw) : option (list rsval * lw) :=
  match sk with
  | PSkip => Some (env, w)
  | PSeq a b => match prun_local I a env w with Some (e1, w1) => prun_local I b e1 w1 | None => None end
  | PBranch t a b => if decide I t (hist w) then prun_local I a env w else prun_local I b env w
  | PFor t n body => ploopL (prun_local I body) (stop I t) n 0 env w
  | PAssign x e => Some (setv VBad x (peval e env) env, w)
  | PCheck x e => let (c1, w1) := check_random_state gstate value seed (peval e env) (tickL gstate value w) in
                  Some (setv VBad x (of_gen c1) env, w1)
  | PDraw x t => match nth x env VBad with
                 | VGen (GObj h) => Some (env, draw_obj gstate value req draw I t h (tickL gstate value w))
                 | VGen GGlobal => None
                 | _ => Some (env, failL gstate value (tickL gstate value w))      (* AttributeError / NameError *)
                 end
  | PDrawNp _ => None
  | PCall e body => match prun_local I body [peval e env] w with Some (_, w1) => Some (env, w1) | None => None end
  | PFail => Some (env, failL gstate value w)
  | PSeedFrom x t => let (c1, w1) := seed_from gstate value req seed I t w in Some (setv VBad x (of_gen c1) env, w1)
  end.

Variable genv : nat -> gstate -> gstate.

Fixpoint ploopG (f : list rsval -> lw -> gstate -> list rsval * lw * gstate) (stp : nat -> list value -> bool)
         (k i : nat) (env : list rsval) (w : lw) (g : gstate) : list rsval * lw * gstate :=
  match k with
  | 0 => (env, w, g)
  | S k' => if stp i (hist w) then (env, w, g)
            else let '(e1, w1, g1) := f env w g in ploopG f stp k' (S i) e1 w1 g1
  end.

(* the whole process *)
Fixpoint prun (I : I_) (sk : pskel) (env : list rsval) (w : lw) (g : gstate) : list rsval * lw * gstate :=
  match sk with
  | PSkip => (env, w, g)
  | PSeq a b => let '(e1, w1, g1) := prun I a env w g in prun I b e1 w1 g1
  | PBranch t a b => if decide I t (hist w) then prun I a env w g else prun I b env w g
  | PFor t n body => ploopG (prun I body) (stop I t) n 0 env w g
  | PAssign x e => (setv VBad x (peval e env) env, w, g)
  | PCheck x e => let (c1, w1) := check_random_state gstate value seed (peval e env) (tickL gstate value w) in
                  (setv VBad x (of_gen c1) env, w1, genv (ticks w) g)
  | PDraw x t => match nth x env VBad with
                 | VGen (GObj h) => (env, draw_obj gstate value req draw I t h (tickL gstate value w), genv (ticks w) g)
                 | VGen GGlobal => let (w1, g1) := draw_glob gstate value req draw I t (tickL gstate value w) (genv (ticks w) g) in (env, w1, g1)
                 | _ => (env, failL gstate value (tickL gstate value w), genv (ticks w) g)
                 end
  | PDrawNp t => let (w1, g1) := draw_glob gstate value req draw I t (tickL gstate value w) (genv (ticks w) g) in (env, w1, g1)
  | PCall e body => let '(_, w1, g1) := prun I body [peval e env] w g in (env, w1, g1)
  | PFail => (env, failL gstate value w, g)
  | PSeedFrom x t => let (c1, w1) := seed_from gstate value req seed I t w in (setv VBad x (of_gen c1) env, w1, genv (ticks w) g)
  end.

Definition pcall (I : I_) (sk : pskel) (a : rsarg gstate) (g : gstate) : outcome gstate value * gstate :=
  let '(_, w, g') := prun I sk [param0 gstate a] (w0 gstate value a) g in (outcome_of gstate value a w, g').
End PSem.

(* ------------------------------------------------------------------ histories of one process *)
Section Hist.
Variables gstate value req : Type.
Variable draw : req -> gstate -> value * gstate.
Variable seed : Z -> gstate.

Inductive hrs := RNone | RInt (s : Z) | RInst (k : nat) | RGlobObj | RBad.   (* RInst k: the caller's k-th RandomState *)
Inductive event :=
| ECall (I : interp value req) (sk : skel) (a : hrs)     (* a library call *)
| EEnv (f : gstate -> gstate)                            (* any other use of the global generator: draws, seed(), set_state() *)
| ENew (s : Z).                                          (* caller code creates RandomState(s) *)

Definition idenv : nat -> gstate -> gstate := fun _ g => g.

Definition resolve (a : hrs) (insts : list gstate) : rsarg gstate :=
  match a with
  | RNone => HNone | RInt s => HInt s | RGlobObj => HGlobObj | RBad => HBad
  | RInst k => match nth_error insts k with Some gs => HInst gs | None => HBad end
  end.
Definition writeback (a : hrs) (o : outcome gstate value) (insts : list gstate) : list gstate :=
  match a, o_inst o with RInst k, Some gs => upd k gs insts | _, _ => insts end.

Fixpoint run_hist (h : list event) (g : gstate) (insts : list gstate)
  : list (option (outcome gstate value)) * gstate * list gstate :=
  match h with
  | [] => ([], g, insts)
  | ECall ip sk a :: r =>
      let (o, g1) := call gstate value req draw seed idenv ip sk (resolve a insts) g in
      let '(os, g2, i2) := run_hist r g1 (writeback a o insts) in (Some o :: os, g2, i2)
  | EEnv f :: r => let '(os, g2, i2) := run_hist r (f g) insts in (None :: os, g2, i2)
  | ENew s :: r => let '(os, g2, i2) := run_hist r g (insts ++ [seed s]) in (None :: os, g2, i2)
  end.

(* int-seeded calls of global-free skeletons, erased *)
Definition erasable (e : event) : bool :=
  match e with ECall _ sk (RInt _) => global_free sk PInt | _ => false end.
Definition erase (h : list event) : list event := filter (fun e => negb (erasable e)) h.
End Hist.

Arguments ECall {gstate value req}. Arguments EEnv {gstate value req}. Arguments ENew {gstate value req}.

(* ------------------------------------------------------------------ Skeletons of /repo/tensorly *)
Inductive initk := IRandom | ISvd | IUser.
Inductive svdk := STruncated | SSymeig | SRandomized.

(* options that influence the draw structure *)
Record opts := { o_shape : list nat;   (* tensor shape (number of modes = number of per-mode draws) *)
                 o_rank : nat;         (* CP rank (SVD-init pads mode k at random iff shape[k] < rank) *)
                 o_init : initk; o_svd : svdk; o_mask : bool;
                 o_nrep : nat;         (* svd_mask_repeats / n_iter_mask_imputation *)
                 o_iters : nat;        (* n_iter_max *)
                 o_aux : nat }.        (* number of slices (PARAFAC2), output modes (regression), TT rank, ... *)

Definition order (o : opts) := length (o_shape o).
Definition rep (n : nat) (b : skel) : skel := For 0 n b.

(* Two call sites did not pass random_state on to svd_interface (found by this check; repaired by
   /repo commits 5ba9482 and 20fd4fd).  [true] = the repaired code (modelled), [false] = the old code,
   kept only for the documented *_old_rule_refuted examples of Props/C16.v. *)

(* tensorly/random/base.py *)
Definition sk_random_tensor : skel := Seq Check (Draw 1).
Definition sk_random_cp (n : nat) : skel := Seq Check (rep n (Draw 1)).
Definition sk_random_tucker (n : nat) : skel := Seq Check (Seq (rep n (Draw 1)) (Draw 1)).
Definition sk_random_tt (n : nat) : skel := Seq Check (rep n (Draw 1)).
Definition sk_random_tr (n : nat) : skel := Seq Check (rep n (Draw 1)).
Definition sk_random_tt_matrix (n : nat) : skel := rep (Nat.div2 n) (Call ARaw sk_random_tensor).  (* re-checks the RAW argument per core *)
Definition sk_random_parafac2 (nslices : nat) : skel := Seq Check (Seq (rep nslices (Draw 1)) (Call ARng (sk_random_cp 3))).

(* tensorly/tenalg/svd.py *)
Definition sk_range_finder : skel := Seq Check (Draw 2).
Definition sk_randomized_svd : skel := Call ARaw sk_range_finder.
Definition sk_svd_fun (m : svdk) : skel := match m with SRandomized => Call ARaw sk_randomized_svd | _ => Skip end.  (* **kwargs passed on *)
Definition sk_svd_interface (m : svdk) (mask : bool) (nrep : nat) : skel :=
  Seq (sk_svd_fun m) (if mask then rep nrep (sk_svd_fun m) else Skip).

(* tensorly/decomposition/_cp.py *)
Definition sk_initialize_cp_gen (cp_svd_init_threads_seed : bool) (o : opts) : skel :=
  Seq Check
    (match o_init o with
     | IRandom => Call ARng (sk_random_cp (order o))
     | ISvd => seqs (map (fun d => Seq (Call (if cp_svd_init_threads_seed then ARng else ANone)
                                              (sk_svd_interface (o_svd o) (o_mask o) (o_nrep o)))
                                       (if Nat.ltb d (o_rank o) then Draw 1 else Skip)) (o_shape o))
     | IUser => Skip
     end).
Definition sk_initialize_cp := sk_initialize_cp_gen true.
Definition sk_parafac (o : opts) : skel := Seq (Call ARaw (sk_initialize_cp o)) (rep (o_iters o) Skip).
Definition sk_parafac_old (o : opts) : skel := Seq (Call ARaw (sk_initialize_cp_gen false o)) (rep (o_iters o) Skip).
(* sample_khatri_rao: the generator is looked at only when indices_list is not supplied ([given] = false); a supplied
   indices_list means no check_random_state and no draw at all (so an out-of-range seed is NOT rejected then).  For a
   RandomState argument the code aliases it instead of calling check_random_state: the same thing in this language *)
Definition sk_sample_khatri_rao (given : bool) (n : nat) : skel := if given then Skip else Seq Check (rep n (Draw 3)).
Definition sk_randomised_parafac (o : opts) : skel :=
  Seq Check (Seq (Call ARaw (sk_initialize_cp o))
                 (For 1 (o_iters o) (rep (order o) (Call ARng (sk_sample_khatri_rao false (order o - 1)))))).

(* tensorly/decomposition/_constrained_cp.py (random branch repaired by commit ec93052) *)
Definition sk_initialize_constrained_gen (cp_svd_init_threads_seed : bool) (o : opts) : skel :=
  Seq Check
    (match o_init o with
     | IRandom => Call ARng (sk_random_cp (order o))
     | ISvd => seqs (map (fun d => Seq (Call (if cp_svd_init_threads_seed then ARng else ANone)
                                              (sk_svd_interface (o_svd o) false 0))
                                       (if Nat.ltb d (o_rank o) then Draw 1 else Skip)) (o_shape o))
     | IUser => Skip
     end).
Definition sk_initialize_constrained := sk_initialize_constrained_gen true.
Definition sk_constrained_parafac (o : opts) : skel := Seq (Call ARaw (sk_initialize_constrained o)) (For 1 (o_iters o) Skip).
(* the random branch before ec93052: three module-level draws *)
Definition sk_constrained_parafac_old (o : opts) : skel := Seq Check (rep (order o) (DrawNp 1)).

(* tensorly/decomposition/_tucker.py *)
Definition sk_initialize_tucker (o : opts) : skel :=
  match o_init o with
  | ISvd => rep (order o) (Call ARaw (sk_svd_interface (o_svd o) (o_mask o) (o_nrep o)))
  | IRandom => Seq Check (Seq (Draw 1) (rep (order o) (Draw 1)))
  | IUser => Skip
  end.
Definition sk_partial_tucker (o : opts) : skel :=
  Seq (Call ARaw (sk_initialize_tucker o))
      (For 1 (o_iters o) (rep (order o) (Call ARaw (sk_svd_interface STruncated false 0)))).
Definition sk_tucker (o : opts) : skel := Call ARaw (sk_partial_tucker o).
Definition sk_nn_tucker (o : opts) : skel := Seq (Call ARaw (sk_initialize_tucker o)) (For 1 (o_iters o) Skip).

(* tensorly/decomposition/_parafac2.py (after 20fd4fd: rng = check_random_state(random_state) once, threaded everywhere) *)
Definition sk_compute_projections (o : opts) : skel := rep (o_aux o) (Call ARaw (sk_svd_interface (o_svd o) false 0)).
(* initialize_decomposition: random -> random_parafac2(random_state=random_state); svd -> svd_interface + _compute_projections, both with
   the raw argument; a user-supplied decomposition -> nothing *)
Definition sk_parafac2_init (o : opts) : skel :=
  match o_init o with
  | IRandom => Call ARaw (sk_random_parafac2 (o_aux o))
  | ISvd => Seq (Call ARaw (sk_svd_interface (o_svd o) false 0)) (Call ARaw (sk_compute_projections o))
  | IUser => Skip
  end.
Definition sk_parafac2 (o : opts) : skel :=
  Seq Check
 (Seq (Call ARng (sk_parafac2_init o))
 (Seq (match o_init o with                      (* nn_modes with the SVD initialisation: projections recomputed, random_state=rng *)
       | ISvd => Branch 3 (Call ARng (sk_compute_projections o)) Skip
       | _ => Skip
       end)
      (For 1 (o_iters o) (Seq (Call ARng (sk_compute_projections o))
                         (Seq (Call ARaw (Seq (Call ARaw (Seq Check Skip)) Skip))    (* parafac(init=(w,f), random_state=random_state) *)
                              (* line search (every other iteration after the 6th): _BroThesisLineSearch(random_state=rng).line_step
                                 recomputes the projections with self.random_state *)
                              (Branch 4 (Call ARng (sk_compute_projections o)) Skip)))))).
(* before 20fd4fd: the SVDs of the initialisation and of every projection step got no random_state *)
Definition sk_parafac2_old (o : opts) : skel :=
  Seq (match o_init o with
       | IRandom => Call ARaw (sk_random_parafac2 (o_aux o))
       | ISvd => Seq (Call ANone (sk_svd_interface (o_svd o) false 0)) (rep (o_aux o) (Call ANone (sk_svd_interface (o_svd o) false 0)))
       | IUser => Skip
       end)
      (For 1 (o_iters o) (rep (o_aux o) (Call ANone (sk_svd_interface (o_svd o) false 0)))).

(* tensorly/decomposition/_tr_als.py, contrib/decomposition/_tt_cross.py *)
Definition sk_tr_als (o : opts) : skel := Seq Check (Seq (Call ARng (sk_random_tr (order o))) (For 1 (o_iters o) Skip)).
Definition sk_tr_als_sampled (o : opts) : skel :=
  Seq Check (Seq (Call ARng (sk_random_tr (order o)))
                 (For 1 (o_iters o) (rep (order o) (rep (order o - 1) (Draw 4))))).
Definition sk_tt_cross (o : opts) : skel :=
  Seq Check
   (Seq (rep (order o - 1) (rep (o_aux o) (Seq (rep (order o) (Draw 3)) (For 2 (o_nrep o) (rep (order o) (Draw 3))))))
        (Seq (rep (order o) (Draw 1)) (For 1 (o_iters o) Skip))).

(* tensorly/decomposition/_tt.py, _tr_svd.py: tensor_train, tensor_train_matrix, tensor_ring have an `svd` option but NO random_state
   parameter: one svd_interface call per mode without random_state.  With the default (truncated) SVD nothing is drawn; with
   svd='randomized_svd' every SVD draws from the GLOBAL generator and the caller cannot seed it (outside the first clause of
   the property -- no random_state is accepted -- and, with that option, not a "function without random choices" either) *)
Definition sk_tt_svd (o : opts) : skel := rep (order o) (Call ANone (sk_svd_interface (o_svd o) false 0)).

(* tensorly/regression *)
Definition sk_cp_regressor (o : opts) : skel := Seq Check (Seq (rep (order o - 1 + o_aux o) (Draw 5)) (For 1 (o_iters o) Skip)).
Definition sk_tucker_regressor (o : opts) : skel := Seq Check (Seq (Draw 5) (Seq (rep (order o - 1) (Draw 5)) (For 1 (o_iters o) Skip))).
(* CP_PLSR accepts random_state and never uses it: fit calls initialize_cp(Z, 1, normalize_factors=True) WITHOUT
   random_state (Z = X contracted over the sample mode; default init="svd", svd="truncated_svd", no mask).  That
   call could draw (from the GLOBAL generator) only through the padding branch `shape[mode] < rank` with rank 1,
   i.e. for an empty mode. *)
Definition plsr_opts (o : opts) : opts :=
  {| o_shape := tl (o_shape o); o_rank := 1; o_init := ISvd; o_svd := STruncated; o_mask := false; o_nrep := 0;
     o_iters := 0; o_aux := 0 |}.
Definition sk_cp_plsr (o : opts) : skel := For 1 (o_iters o) (Call ANone (sk_initialize_cp (plsr_opts o))).

(* no random_state argument: module-level draws (outside the property's statement; modelled for the trace) *)
Definition sk_power_iteration (o : opts) : skel := rep (o_aux o) (Seq (rep (order o) (DrawNp 1)) (rep (o_iters o) Skip)).

Inductive ep :=
| E_random_tensor | E_random_cp | E_random_tucker | E_random_tt | E_random_tr | E_random_tt_matrix | E_random_parafac2
| E_check_random_state | E_range_finder | E_randomized_svd | E_svd_interface
| E_initialize_cp | E_parafac | E_nn_parafac | E_nn_parafac_hals | E_constrained_parafac | E_initialize_constrained | E_randomised_parafac
| E_sample_khatri_rao
| E_initialize_tucker | E_partial_tucker | E_tucker | E_nn_tucker | E_nn_tucker_hals
| E_parafac2 | E_parafac2_init | E_compute_projections | E_tr_als | E_tr_als_sampled | E_tt_cross | E_tt_svd
| E_cp_regressor | E_tucker_regressor | E_cp_plsr
| E_estimator (e : ep)            (* class wrapper: fit_transform / fit passes self.random_state *)
| E_rng_free                      (* no random_state argument and no draw: tensor algebra, SVD-based TT/TR, ... *)
| E_power_iteration.

Fixpoint skeleton (e : ep) (o : opts) : skel :=
  match e with
  | E_random_tensor => sk_random_tensor
  | E_random_cp => sk_random_cp (order o)
  | E_random_tucker => sk_random_tucker (order o)
  | E_random_tt => sk_random_tt (order o)
  | E_random_tr => sk_random_tr (order o)
  | E_random_tt_matrix => sk_random_tt_matrix (order o)
  | E_random_parafac2 => sk_random_parafac2 (o_aux o)
  | E_check_random_state => Check
  | E_range_finder => sk_range_finder
  | E_randomized_svd => sk_randomized_svd
  | E_svd_interface => sk_svd_interface (o_svd o) (o_mask o) (o_nrep o)
  | E_initialize_cp => sk_initialize_cp o
  | E_parafac | E_nn_parafac | E_nn_parafac_hals => sk_parafac o
  | E_constrained_parafac => sk_constrained_parafac o
  | E_initialize_constrained => sk_initialize_constrained o
  | E_randomised_parafac => sk_randomised_parafac o
  | E_sample_khatri_rao => sk_sample_khatri_rao (o_mask o) (order o)     (* o_mask stands for "indices_list supplied" *)
  | E_initialize_tucker => sk_initialize_tucker o
  | E_partial_tucker => sk_partial_tucker o
  | E_tucker => sk_tucker o
  | E_nn_tucker | E_nn_tucker_hals => sk_nn_tucker o
  | E_parafac2 => sk_parafac2 o
  | E_parafac2_init => sk_parafac2_init o
  | E_compute_projections => sk_compute_projections o
  | E_tr_als => sk_tr_als o
  | E_tr_als_sampled => sk_tr_als_sampled o
  | E_tt_cross => sk_tt_cross o
  | E_tt_svd => sk_tt_svd o
  | E_cp_regressor => sk_cp_regressor o
  | E_tucker_regressor => sk_tucker_regressor o
  | E_cp_plsr => sk_cp_plsr o
  | E_estimator e' => Call ARaw (skeleton e' o)
  | E_rng_free => Skip
  | E_power_iteration => sk_power_iteration o
  end.

(* ------------------------------------------------------------------ an executable toy generator *)
(* counter generator: the value drawn is the state, the state advances by one; used only to EXECUTE
   skeletons (source projection for the correspondence, witnesses of the refuted statements) *)
Definition toy_draw (_ : nat) (g : Z) : Z * Z := (g, (g + 1)%Z).
Definition toy_seed (s : Z) : Z := (1000 * s)%Z.
Definition toy_interp : interp Z nat :=
  {| decide := fun _ _ => true; stop := fun _ _ _ => false; request := fun t _ => t; as_seed := fun t h => (Z.of_nat t + 7 * Z.of_nat (length h))%Z |}.
(* the opposite interpretation: the SECOND alternative of every data-dependent branch, every loop left at once *)
Definition toy_interp_alt : interp Z nat :=
  {| decide := fun _ _ => false; stop := fun _ _ _ => true; request := fun t _ => t; as_seed := fun t h => (Z.of_nat t + 7 * Z.of_nat (length h))%Z |}.
Definition toy_env : nat -> Z -> Z := fun _ g => g.

(* source projection of a call: (outcome ok?, global drawn, fresh object drawn, passed instance drawn, global state changed) *)
Definition projection := (bool * bool * bool * bool * bool)%type.
Definition project (a : rsarg Z) (o : outcome Z Z) (g g' : Z) : projection :=
  let base := length (heap0 Z a) in
  (negb (o_failed o),
   existsb (gen_eqb GGlobal) (o_srcs o),
   existsb (fun x => match x with GObj h => Nat.leb base h | GGlobal => false end) (o_srcs o),
   existsb (fun x => match x with GObj h => Nat.ltb h base | GGlobal => false end) (o_srcs o),
   negb (Z.eqb g g')).
(* componentwise: [a] completes whenever [b] does, and draws / moves nothing that [b] does not *)
Definition proj_le (a b : projection) : bool :=
  let '(ok1, g1, f1, p1, s1) := a in let '(ok2, g2, f2, p2, s2) := b in
  implb ok2 ok1 && implb g1 g2 && implb f1 f2 && implb p1 p2 && implb s1 s2.
Definition model_projection_with (I : interp Z nat) (e : ep) (o : opts) (a : rsarg Z) : projection :=
  let g := 77%Z in
  let (out, g') := call Z Z nat toy_draw toy_seed toy_env I (skeleton e o) a g in
  project a out g g'.
Definition model_projection := model_projection_with toy_interp.
Definition model_projection_alt := model_projection_with toy_interp_alt.

(* a configuration used by the non-vacuity examples of Props/C16.v: randomized-SVD init with mask, rank above every mode size *)
Definition ex_opts : opts :=
  {| o_shape := [4; 3; 5]; o_rank := 6; o_init := ISvd; o_svd := SRandomized; o_mask := true; o_nrep := 2; o_iters := 2; o_aux := 3 |}.

(* a fixed grid of option values (every initialisation x SVD method x mask / indices_list flag x rank below / above the mode
   sizes): the hand-written skeleton of an entry point is evaluated on ALL of them, independently of which configurations the
   dynamic correspondence happens to exercise (Corr/C16.v, Props/C16.v) *)
Definition opt_grid : list opts :=
  flat_map (fun ini => flat_map (fun sv => flat_map (fun mk => map (fun rk =>
    {| o_shape := [4; 3; 5]; o_rank := rk; o_init := ini; o_svd := sv; o_mask := mk; o_nrep := 2; o_iters := 2; o_aux := 3 |})
    [2; 6]) [false; true]) [STruncated; SSymeig; SRandomized]) [IRandom; ISvd; IUser].


(* every modelled definition that accepts and uses a random_state *)
Definition seedable_eps : list ep :=
  let base := [E_random_tensor; E_random_cp; E_random_tucker; E_random_tt; E_random_tr; E_random_tt_matrix; E_random_parafac2;
               E_check_random_state; E_range_finder; E_randomized_svd; E_svd_interface;
               E_initialize_cp; E_parafac; E_nn_parafac; E_nn_parafac_hals; E_constrained_parafac; E_initialize_constrained; E_randomised_parafac;
               E_sample_khatri_rao; E_initialize_tucker; E_partial_tucker; E_tucker; E_nn_tucker; E_nn_tucker_hals;
               E_parafac2; E_parafac2_init; E_compute_projections; E_tr_als; E_tr_als_sampled; E_tt_cross; E_cp_regressor; E_tucker_regressor] in
  base ++ map E_estimator base.
