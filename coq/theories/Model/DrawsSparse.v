(* C16 -- model of tensorly/contrib/sparse/backend/numpy_backend.py: NumpySparseBackend.partial_svd (definitions only).

   With n_eigenvecs < min(shape) (or a sparse matrix) the function resolves random_state, draws ARPACK's start vector v0 from the
   resolved generator and calls scipy.sparse.linalg.eigsh(..., v0=v0).  [entropy] = the installed SciPy's eigsh has an `rng`
   argument (SciPy with the C translation of ARPACK): eigsh then creates numpy.random.default_rng(None) -- operating-system
   entropy, a process-wide source the caller cannot seed -- and draws ARPACK's RESTART vectors from it whenever the Lanczos
   process breaks down (data dependent: a rank-deficient matrix with n_eigenvecs above the rank).  partial_svd passes no `rng`.
   As everywhere in this model a process-wide source other than the passed / created generator objects is written [DrawNp].
   With n_eigenvecs >= min(shape) on a dense matrix the LAPACK SVD is returned before random_state is looked at ([full]). *)
From Coq Require Import List Arith ZArith Bool.
From TLV Require Import Model.Draws.
Import ListNotations.

Definition sk_sparse_partial_svd (entropy full : bool) : skel :=
  if full then Skip
  else Seq Check (Seq (Draw 2) (if entropy then Branch 6 (DrawNp 6) Skip else Skip)).
