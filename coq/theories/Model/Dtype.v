(* C18 -- model of dtype propagation.  Definitions only.

   1. NumPy (NEP 50) promotion on {bool,int64,float32,float64,complex64,complex128} + the three weak
      Python scalar kinds.  The 81-entry table below is re-measured from the installed NumPy on every
      run (harness/props/C18.py, cases `CTab`), together with the unary tables `to_float` (true
      division / sqrt / mean) and `real_of` (abs / norm / real part).
   2. A small dtype language: expressions over leaves (input data, caller's mask, allocation without a
      context, Python scalars, constants) and program variables; straight-line initialisation + a loop
      body executed n times + output expressions.
   3. Per entry point a skeleton (a `prog`) transcribing which values flow into which, written next to
      the Python source it abstracts (tensorly/decomposition, solvers, tenalg/proximal, ...). *)
From Coq Require Import List Bool Arith String.
Import ListNotations.
Open Scope string_scope.

Inductive dt := B | I64 | F32 | F64 | C64 | C128 | WI | WF | WC.
Definition all_dt := [B; I64; F32; F64; C64; C128; WI; WF; WC].
Definition dt_eqb (a b : dt) : bool :=
  match a, b with
  | B,B | I64,I64 | F32,F32 | F64,F64 | C64,C64 | C128,C128 | WI,WI | WF,WF | WC,WC => true
  | _,_ => false
  end.

(* strong = arrays / NumPy scalars, W* = Python int / float / complex *)
Definition promote (a b : dt) : dt := match a, b with
  | B, B => B | B, I64 => I64 | B, F32 => F32 | B, F64 => F64 | B, C64 => C64 | B, C128 => C128
  | B, WI => I64 | B, WF => F64 | B, WC => C128
  | I64, B => I64 | I64, I64 => I64 | I64, F32 => F64 | I64, F64 => F64 | I64, C64 => C128 | I64, C128 => C128
  | I64, WI => I64 | I64, WF => F64 | I64, WC => C128
  | F32, B => F32 | F32, I64 => F64 | F32, F32 => F32 | F32, F64 => F64 | F32, C64 => C64 | F32, C128 => C128
  | F32, WI => F32 | F32, WF => F32 | F32, WC => C64
  | F64, B => F64 | F64, I64 => F64 | F64, F32 => F64 | F64, F64 => F64 | F64, C64 => C128 | F64, C128 => C128
  | F64, WI => F64 | F64, WF => F64 | F64, WC => C128
  | C64, B => C64 | C64, I64 => C128 | C64, F32 => C64 | C64, F64 => C128 | C64, C64 => C64 | C64, C128 => C128
  | C64, WI => C64 | C64, WF => C64 | C64, WC => C64
  | C128, _ => C128
  | WI, B => I64 | WI, I64 => I64 | WI, F32 => F32 | WI, F64 => F64 | WI, C64 => C64 | WI, C128 => C128
  | WI, WI => WI | WI, WF => WF | WI, WC => WC
  | WF, B => F64 | WF, I64 => F64 | WF, F32 => F32 | WF, F64 => F64 | WF, C64 => C64 | WF, C128 => C128
  | WF, WI => WF | WF, WF => WF | WF, WC => WC
  | WC, B => C128 | WC, I64 => C128 | WC, F32 => C64 | WC, F64 => C128 | WC, C64 => C64 | WC, C128 => C128
  | WC, WI => WC | WC, WF => WC | WC, WC => WC
  end.

(* result dtype of true division / sqrt / mean: integers and booleans become float64 *)
Definition to_float (d : dt) : dt := match d with B | I64 => F64 | WI => WF | x => x end.
(* result dtype of abs / norm / real part: the real type of the same precision *)
Definition real_of (d : dt) : dt := match d with C64 => F32 | C128 => F64 | WC => WF | x => x end.
Definition is_real (d : dt) : bool := match d with F32 | F64 => true | _ => false end.
Definition is_weak (d : dt) : bool := match d with WI | WF | WC => true | _ => false end.

Definition ctxs := [F32; F64; C64; C128].
(* S_tau: the numeric context tau and the weak scalars that cannot widen it *)
Definition inS (tau x : dt) : bool := dt_eqb x tau || dt_eqb x WI || dt_eqb x WF.
(* P_tau: the precision class of tau (tau, its real type, and the weak scalars that stay inside) *)
Definition inP (tau x : dt) : bool :=
  dt_eqb x tau || dt_eqb x (real_of tau) || dt_eqb x WI || dt_eqb x WF || (negb (is_real tau) && dt_eqb x WC).
Definition strongP (tau x : dt) : bool := dt_eqb x tau || dt_eqb x (real_of tau).

(* ------------------------------------------------------------------ the dtype language *)
Record env := mkenv { tau : dt;      (* dtype of the input data *)
                      mu : dt }.     (* dtype of a caller-supplied mask / auxiliary array *)

Inductive leaf :=
| LIn          (* the input data (and caller-supplied initialisations of the same dtype) *)
| LMask        (* the caller's mask as passed in *)
| LBare        (* tl.zeros / tl.ones / tl.eye / np.ones ... WITHOUT a context: float64 *)
| LPyI | LPyF | LPyC   (* Python int / float / complex literals and variables *)
| LConst (d : dt).     (* arrays of a fixed dtype: index arrays (int64), comparisons (bool), explicit dtype= *)

Definition leaf_dt (en : env) (l : leaf) : dt :=
  match l with LIn => tau en | LMask => mu en | LBare => F64 | LPyI => WI | LPyF => WF | LPyC => WC | LConst d => d end.

Inductive expr :=
| Leaf (l : leaf)
| Var (x : nat)
| Op (a b : expr)            (* binary ufunc, matmul, einsum, solve, lstsq, where, concatenate: NumPy promotion *)
| Div (a b : expr)           (* true division *)
| ToFloat (a : expr)         (* sqrt, mean, ... of a possibly integer value *)
| RealOf (a : expr)          (* abs, norm, real *)
| Alt (a b : expr)           (* one of a, b / a container holding both: the alternatives of an if / try, the elements of a list or tuple, the
                                array arguments handed to a library function.  Dtype-wise the promotion (conservative for the precision class);
                                known to be EXACTLY tau only if BOTH are.  Used by the programs extracted from the source, not by the skeletons *)
| Into (target value : expr). (* target[...] = value / index_update / in-place operators / tl.tensor(value, **tl.context(target))
                                / allocation with **tl.context(target): the dtype of target, whatever value is *)

Definition stmt := (nat * expr)%type.
Record prog := mkprog { p_init : list stmt; p_body : list stmt; p_outs : list (string * expr) }.

Definition state := nat -> dt.
Definition upd (st : state) (x : nat) (d : dt) : state := fun y => if Nat.eqb y x then d else st y.
(* an unassigned variable reads as bool.  Under `eval` that is neutral in a promotion (promote F32 B = F32); the program checks never
   rely on it: ok_expr / ok_expr2 accept a variable only if it has been assigned an in-class value (memb x D / getb D x) *)
Definition st0 : state := fun _ => B.

Fixpoint eval (en : env) (st : state) (e : expr) : dt :=
  match e with
  | Leaf l => leaf_dt en l
  | Var x => st x
  | Op a b | Alt a b => promote (eval en st a) (eval en st b)
  | Div a b => to_float (promote (eval en st a) (eval en st b))
  | ToFloat a => to_float (eval en st a)
  | RealOf a => real_of (eval en st a)
  | Into t _ => eval en st t
  end.

Definition exec (en : env) (st : state) (b : list stmt) : state :=
  fold_left (fun st s => upd st (fst s) (eval en st (snd s))) b st.
Fixpoint iter {A} (n : nat) (f : A -> A) (x : A) : A := match n with 0 => x | S k => iter k f (f x) end.
Definition run (en : env) (p : prog) (n : nat) : state :=
  iter n (fun st => exec en st (p_body p)) (exec en st0 (p_init p)).
Definition out_dtypes (en : env) (p : prog) (n : nat) : list (string * dt) :=
  map (fun o => (fst o, eval en (run en p n) (snd o))) (p_outs p).

(* ---- syntactic checks used by the theorems *)
(* trees: all leaves (variables read through the state) in S_tau *)
Fixpoint leaves_in (en : env) (st : state) (t : dt) (e : expr) : bool :=
  match e with
  | Leaf l => inS t (leaf_dt en l)
  | Var x => inS t (st x)
  | Op a b | Div a b | Alt a b => leaves_in en st t a && leaves_in en st t b
  | ToFloat a => leaves_in en st t a
  | RealOf a => is_real t && leaves_in en st t a
  | Into tg _ => leaves_in en st t tg
  end.
Fixpoint has_strong (en : env) (st : state) (t : dt) (e : expr) : bool :=
  match e with
  | Leaf l => dt_eqb (leaf_dt en l) t
  | Var x => dt_eqb (st x) t
  | Op a b | Div a b | Alt a b => has_strong en st t a || has_strong en st t b
  | ToFloat a | RealOf a => has_strong en st t a
  | Into tg _ => has_strong en st t tg
  end.

(* programs: leaves in P_tau; D = variables known to hold a value of the class, S = variables known to hold a
   strong value (an array / NumPy scalar of dtype tau or its real type) *)
Fixpoint memb (x : nat) (l : list nat) : bool := match l with [] => false | y :: r => Nat.eqb x y || memb x r end.
Definition removeb (x : nat) (l : list nat) : list nat := filter (fun y => negb (Nat.eqb y x)) l.
Definition subsetb (a b : list nat) : bool := forallb (fun x => memb x b) a.
Fixpoint ok_expr (en : env) (D : list nat) (e : expr) : bool :=
  match e with
  | Leaf l => inP (tau en) (leaf_dt en l)
  | Var x => memb x D
  | Op a b | Div a b | Alt a b => ok_expr en D a && ok_expr en D b
  | ToFloat a | RealOf a => ok_expr en D a
  | Into tg _ => ok_expr en D tg
  end.
Fixpoint strong_expr (en : env) (S : list nat) (e : expr) : bool :=
  match e with
  | Leaf l => strongP (tau en) (leaf_dt en l)
  | Var x => memb x S
  | Op a b | Div a b | Alt a b => strong_expr en S a || strong_expr en S b
  | ToFloat a | RealOf a => strong_expr en S a
  | Into tg _ => strong_expr en S tg
  end.
Fixpoint ok_block (en : env) (D S : list nat) (b : list stmt) : option (list nat * list nat) :=
  match b with
  | [] => Some (D, S)
  | (x, e) :: r => if ok_expr en D e
                   then ok_block en (x :: D) (if strong_expr en S e then x :: S else removeb x S) r
                   else None
  end.
Definition prog_ok (en : env) (p : prog) : bool :=
  match ok_block en [] [] (p_init p) with
  | Some (D1, S1) =>
      match ok_block en D1 S1 (p_body p) with
      | Some (D2, S2) => subsetb D1 D2 && subsetb S1 S2 &&
                         forallb (fun o => ok_expr en D1 (snd o) && strong_expr en S1 (snd o)) (p_outs p)
      | None => false
      end
  | None => false
  end.

(* mask leaves occur only on the value side of an `Into` (i.e. the mask is cast before any arithmetic) *)
Fixpoint mask_guarded (e : expr) : bool :=
  match e with
  | Leaf LMask => false
  | Leaf _ | Var _ => true
  | Op a b | Div a b | Alt a b => mask_guarded a && mask_guarded b
  | ToFloat a | RealOf a => mask_guarded a
  | Into tg _ => mask_guarded tg
  end.
Definition block_guarded (b : list stmt) : bool := forallb (fun s => mask_guarded (snd s)) b.
Definition prog_guarded (p : prog) : bool :=
  block_guarded (p_init p) && block_guarded (p_body p) && forallb (fun o => mask_guarded (snd o)) (p_outs p).

(* ------------------------------------------------------------------ skeleton vocabulary *)
Definition In_ := Leaf LIn.
Definition Mask := Leaf LMask.
Definition bare := Leaf LBare.
Definition PyI := Leaf LPyI.
Definition PyF := Leaf LPyF.
Definition ints := Leaf (LConst I64).
Definition bools := Leaf (LConst B).
Definition ctx_of (e : expr) := Into e bare.       (* tl.zeros(shape, **tl.context(e)) and friends *)
Definition ctx := ctx_of In_.
Definition norm (e : expr) := RealOf e.            (* tl.norm = sqrt(sum(abs(.)**2)) *)
Definition Op3 a b c := Op (Op a b) c.

(* configuration of an entry point, as far as it changes the dtype flow *)
Inductive family :=
| FParafac | FNNParafac | FNNParafacHals | FConstrained | FTucker | FPartialTucker | FNNTucker | FNNTuckerHals
| FRobustPca | FProx | FHalsNnls | FFista | FActiveSet | FAdmm | FSvd | FCpNormalize
| FPure | FRandom | FLeverage | FSampleKR | FIndexed | FPermute | FFlipSign
| FRandParafac | FParafac2 | FSvdChain | FTrAls | FTrAlsSampled | FTTCross | FCmtf | FPower | FCpReg | FTuckerReg | FPlsr
| FMoment | FMetric | FCompress
| FMaskMul | FMaskMulCast.
Inductive initk := ISvd | IRandom | IUser.
Inductive proxk := PNone | PNonneg | PL1 | PL2 | PL2sq | PUnimodal | PNormalize | PSimplex | PNormSparse | PSoftSparse
                 | PSmooth | PMonotone | PHardSparse | PSvt | PProcrustes.
Record cfg := mkcfg { c_fam : family; c_init : initk; c_mask : bool; c_errors : bool; c_normalize : bool;
                      c_linesearch : bool; c_sparsity : bool; c_l2reg : bool; c_prox : proxk; c_warm : bool;
                      c_fallback : bool; c_alt : bool }.

(* ---- proximal operators (tensorly/tenalg/proximal.py), as expression transformers *)
Definition simplex_e (t : expr) : expr :=
  (* cumsum_min_param_by_k = (cumsum(sort t) - parameter) / cumsum(tl.ones([row,1], **context(t)));
     difference = tl.zeros(col, **context(t)), filled by index_update;  clip(t - difference, 0) *)
  let c := Div (Op t PyF) (ctx_of t) in
  Op (Op t (Into (ctx_of t) c)) PyI.
Definition monotone_e (t : expr) : expr :=
  (* assisted = -inf * tl.ones([row,row], **context(t)); rows written with cum_sum / tl.tensor(arange+1, **context(t));
     tensor_mon = copy(t), columns written by index_update *)
  let assisted := Op PyF (ctx_of t) in
  Into t (Into assisted (Div t (Into t (Op ints PyI)))).
Definition hard_e (t : expr) : expr := Op t (ctx_of t).  (* where(idx < k, vec, tl.tensor(0, **context(vec))) *)
Definition soft_e (t : expr) (thr : expr) : expr := Op t (Op (Op (RealOf t) thr) PyI). (* sign(t) * clip(abs(t) - thr, 0) *)
Definition prox_e (k : proxk) (t : expr) : expr :=
  match k with
  | PNone => t
  | PNonneg => Op t PyI                                  (* clip(t, a_min=0) *)
  | PL1 => soft_e t PyF
  | PL2 => Op t (Div (Op t PyF) (Op (norm t) PyF))       (* t - t*reg/bigger, bigger = norm(t) or reg *)
  | PL2sq => Div t (Op PyI (Op PyI PyF))                 (* t / (1 + 2*reg) *)
  | PUnimodal => Into t (Op (monotone_e t) (Into t bools)) (* copy(t) updated by index_update with the two monotone fits *)
  | PNormalize => Div t (RealOf t)                       (* t / max(abs(t)) *)
  | PSimplex => simplex_e t
  | PNormSparse => Div (hard_e t) (norm (hard_e t))
  | PSoftSparse => Op (simplex_e (RealOf t)) t           (* simplex_prox(abs(t)) * sign(t) *)
  | PSmooth => Op (Into t (Op (Op (Op PyI PyF) bare) PyI)) t  (* solve(tl.tensor(diag(2*reg*tl.ones(n)+1)+..., **context(t)), t) *)
  | PMonotone => monotone_e t
  | PHardSparse => hard_e t
  | PSvt => Op t (Op (soft_e (RealOf t) PyF) t)          (* U @ (soft(s) * V) *)
  | PProcrustes => Op t t
  end.

(* ---- variables *)
Definition vT := 0.   (* working copy of the data tensor *)
Definition vM := 1.   (* mask *)
Definition vW := 2.   (* weights *)
Definition vF := 3.   (* factors (one variable for all modes) *)
Definition vN := 4.   (* norm of the tensor *)
Definition vE := 5.   (* reported errors *)
Definition vC := 6.   (* core / auxiliary *)
Definition vX := 7.   (* solver iterate *)
Definition vY := 8.   (* solver auxiliary *)
Definition vZ := 9.   (* solver auxiliary *)
Definition vU := 10.
Definition vFl := 11. (* line search: previous factors *)
Definition vWl := 12. (* line search: previous weights *)
Definition vS := 13.  (* sparse component / second auxiliary *)

Definition when {A} (b : bool) (l : list A) : list A := if b then l else [].
(* the caller's mask as the entry points use it.  mc = true: the repaired code, which brings the mask into the data's
   context once (`mask = tl.tensor(mask, **tl.context(tensor))` at the top of parafac / non_negative_parafac /
   partial_tucker / svd_interface, as robust_pca always did); mc = false: the mask is used as passed in. *)
Definition mask_leaf (mc : bool) : expr := if mc then Into In_ Mask else Mask.
Definition T_ := Var vT. Definition M_ := Var vM. Definition W_ := Var vW. Definition F_ := Var vF.
Definition N_ := Var vN. Definition C_ := Var vC. Definition X_ := Var vX. Definition Y_ := Var vY. Definition Z_ := Var vZ.
Definition U_ := Var vU.

(* svd_interface(matrix, mask=...) (tenalg/svd.py): U, S, V = svd(matrix); with a mask, 5 rounds of
   St = tl.eye(..., **context(matrix)) [S written in]; matrix = matrix*mask + (U @ St @ V)*(1 - mask); svd again.
   Result left in vU (U and V; S is its real type). *)
Definition svd_stmts (matrix : expr) (masked : bool) : list stmt :=
  [(vU, matrix)] ++
  when masked [(vU, Op (Op U_ M_) (Op (Op3 U_ (Into (ctx_of U_) (RealOf U_)) U_) (Op PyI M_)))].

(* cp_normalize (cp_tensor.py): weights default tl.ones(rank, **context(factors[0])); scales = norm(factor, axis=0);
   scales_non_zero = where(scales == 0, tl.ones(..., **context(factor)), scales); weights = weights*scales; factor/scales_non_zero *)
Definition cp_normalize_stmts : list stmt :=
  [(vW, Op W_ (norm F_)); (vF, Div F_ (Op (ctx_of F_) (norm F_)))].

(* error_calc (_cp.py) *)
Definition error_calc_stmts (masked sparsity : bool) (mttkrp : expr) : list stmt :=
  let low := Op W_ F_ in
  if masked then
    [(vT, Op (Op T_ M_) (Op low (Op PyI M_))); (vN, norm T_);
     (vE, norm (Op (Op T_ low) (if sparsity then Op (ctx_of T_) (Op T_ low) else PyF)))]
  else if sparsity then [(vE, norm (Op (Op T_ low) (Op (ctx_of T_) (Op T_ low))))]
  else [(vE, ToFloat (RealOf (Op (Op (Op N_ PyI) (Op (norm low) PyI)) (Op PyI (Op (Op mttkrp F_) W_)))))].

Definition cp_init_stmts (mc : bool) (c : cfg) (nonneg : bool) : list stmt :=
  [(vT, In_)] ++ when (c_mask c) [(vM, mask_leaf mc)] ++
  match c_init c with
  | IRandom => [(vF, ctx); (vW, ctx)]                      (* random_cp(..., **tl.context(tensor)) *)
  | ISvd => svd_stmts T_ (c_mask c) ++ [(vF, Into U_ (Op U_ (RealOf U_))); (vW, ctx_of F_)]
  | IUser => [(vF, Op In_ In_); (vW, ctx_of F_)]            (* factors[-1] * reshape(weights); CPTensor((None, factors)) *)
  end ++
  when nonneg [(vF, RealOf F_)] ++
  when (c_normalize c) cp_normalize_stmts ++
  [(vN, norm T_)].

(* parafac (_cp.py) *)
Definition parafac_prog (mc : bool) (c : cfg) : prog :=
  let mttkrp := Op T_ (Op W_ F_) in
  let idreg := if c_l2reg c then Op ctx PyF else PyI in
  let pinv := Op3 W_ (Into (Op ctx (Op F_ F_)) idreg) W_ in
  mkprog
    (cp_init_stmts mc c false ++ [(vE, N_)])
    (when (c_linesearch c) [(vFl, F_); (vWl, W_)] ++
     [(vF, Op pinv mttkrp)] ++
     (if c_errors c then error_calc_stmts (c_mask c) (c_sparsity c) mttkrp
      else when (c_mask c) [(vT, Op (Op T_ M_) (Op3 W_ F_ (Op PyI M_)))]) ++
     when (c_linesearch c)
       [(vW, Op W_ (Op (Var vWl) (Op (Op W_ (Var vWl)) PyF)));      (* accepted jump: weights_last + (weights - weights_last)*jump *)
        (vF, Op F_ (Op (Var vFl) (Op (Op F_ (Var vFl)) PyF)))] ++
     when (c_errors c) [(vE, Div (Var vE) N_)] ++
     when (c_normalize c) cp_normalize_stmts)
    ([("weights", W_); ("factors", F_)] ++ when (c_errors c) [("errors", Var vE)] ++
     when (c_sparsity c) [("sparse", Op (ctx_of T_) (Op T_ (Op W_ F_)))]).

(* non_negative_parafac (_nn_cp.py): multiplicative updates *)
Definition nn_parafac_prog (mc : bool) (c : cfg) : prog :=
  let mttkrp := Op T_ (Op W_ F_) in
  mkprog
    (cp_init_stmts mc c true ++ [(vE, N_)])
    (when (c_mask c) [(vT, Op (Op T_ M_) (Op3 W_ F_ (Op PyI M_)))] ++
     [(vF, Div (Op F_ (Op mttkrp PyF)) (Op (Op F_ (Op3 W_ (Op F_ F_) W_)) PyF))] ++
     when (c_normalize c) cp_normalize_stmts ++
     error_calc_stmts (c_mask c) false mttkrp ++ [(vE, Div (Var vE) N_)])
    ([("weights", W_); ("factors", F_)] ++ when (c_errors c) [("errors", Var vE)]).

(* hals_nnls (solvers/nnls.py) on (UtM, UtU, V): V left in vX *)
Definition hals_nnls_stmts (UtM UtU : expr) : list stmt :=
  let num := Op (Op UtM (Op UtU X_)) (Op UtU X_) in
  [(vX, Into X_ (Op (Div (Into num PyF) (Op UtU PyF)) PyF));     (* index_update(V, [k,:], clip(num/den, a_min=epsilon)) *)
   (vX, Into X_ (Op (Leaf LPyF) (RealOf X_)))].                  (* V[k,:] = tl.eps(V.dtype) * tl.max(V) *)
Definition hals_nnls_cold (UtM UtU : expr) : list stmt :=
  [(vX, Op UtU UtM); (vX, Op X_ PyI); (vX, Op X_ (Div (Op UtM X_) (Op UtU (Op X_ X_))))].

Definition nn_parafac_hals_prog (mc : bool) (c : cfg) : prog :=
  let mttkrp := Op T_ (Op W_ F_) in
  let pinv := Op3 W_ (Op ctx (Op F_ F_)) W_ in
  mkprog
    (cp_init_stmts mc c true ++ [(vE, N_)])
    ([(vX, F_)] ++ hals_nnls_stmts mttkrp pinv ++ [(vF, X_)] ++
     when (c_normalize c) cp_normalize_stmts ++
     [(vE, Div (ToFloat (RealOf (Op (Op (Op N_ PyI) (Op (norm (Op W_ F_)) PyI)) (Op PyI (Op mttkrp F_))))) N_)])
    ([("weights", W_); ("factors", F_)] ++ when (c_errors c) [("errors", Var vE)]).

(* admm (solvers/admm.py) on UtM, UtU, x (vX), dual (vY); x_split in vZ *)
Definition admm_stmts (k : proxk) (UtM UtU : expr) : list stmt :=
  let rho := Div UtU PyI in
  [(vZ, Op (Op UtU (Op rho (ctx_of UtU))) (Op UtM (Op rho (Op X_ Y_))));
   (vX, prox_e k (Op Z_ Y_));
   (vY, Op (Op Y_ X_) Z_)].

(* constrained_parafac (_constrained_cp.py) *)
Definition constrained_prog (c : cfg) : prog :=
  let mttkrp := Op T_ F_ in
  let pinv := Op (Into In_ bare) (Op F_ F_) in   (* tl.tensor(np.ones((rank, rank)), **tl.context(tensor)) *)
  mkprog
    ([(vT, In_)] ++
     match c_init c with
     | IRandom => [(vF, ctx); (vW, ctx)]
     | ISvd => svd_stmts T_ false ++ [(vF, Into U_ (Op U_ (RealOf U_)))]
     | IUser => [(vF, Op In_ In_)]
     end ++
     match c_init c with IUser => [] | _ => [(vF, prox_e (c_prox c) F_)] end ++
     [(vW, ctx_of F_); (vN, norm T_);
      (vY, ctx);                                   (* dual_variables: tl.zeros(shape, **tl.context(tensor)) *)
      (vZ, ctx); (vE, N_)])
    ([(vX, F_)] ++ admm_stmts (c_prox c) mttkrp pinv ++ [(vF, X_)] ++
     [(vE, Div (ToFloat (RealOf (Op (Op (Op N_ PyI) (Op (norm (Op W_ F_)) PyI)) (Op PyI (Op (Op mttkrp F_) W_))))) N_)])
    ([("weights", W_); ("factors", F_)] ++ when (c_errors c) [("errors", Var vE)]).

(* partial_tucker / tucker (_tucker.py) *)
Definition tucker_init_stmts (mc : bool) (c : cfg) (nonneg : bool) : list stmt :=
  [(vT, In_)] ++ when (c_mask c) [(vM, mask_leaf mc)] ++
  match c_init c with
  | ISvd => svd_stmts T_ (c_mask c) ++ [(vF, U_); (vC, Op T_ F_)]
  | IRandom => [(vC, Into In_ (Op bare PyF)); (vF, Into In_ bare)]   (* tl.tensor(rng.random_sample(...) + 0.01, **context) *)
  | IUser => [(vC, In_); (vF, In_)]
  end ++ when nonneg [(vF, RealOf F_); (vC, RealOf C_)] ++ [(vN, norm T_)].
Definition tucker_prog (mc : bool) (c : cfg) (slot_core slot_factors : string) : prog :=
  mkprog
    (tucker_init_stmts mc c false ++ [(vE, N_)])
    (when (c_mask c) [(vT, Op (Op T_ M_) (Op (Op C_ F_) (Op PyI M_)))] ++
     [(vF, Op T_ F_);                              (* left singular vectors of unfold(multi_mode_dot(tensor, factors, skip)) *)
      (vC, Op T_ F_);
      (vE, Div (ToFloat PyF) N_)])                 (* math.sqrt(abs(...)) is a Python float; / norm_tensor *)
    ([(slot_core, C_); (slot_factors, F_)] ++ when (c_errors c) [("errors", Var vE)]).

(* non_negative_tucker (_tucker.py): multiplicative updates with epsilon clipping *)
Definition nn_tucker_prog (mc : bool) (c : cfg) : prog :=
  mkprog
    (tucker_init_stmts mc c true ++ [(vE, N_)])
    ([(vF, Div (Op F_ (Op (Op T_ (Op C_ F_)) PyF)) (Op (Op F_ (Op (Op C_ F_) (Op C_ F_))) PyF));
      (vC, Div (Op C_ (Op (Op T_ F_) PyF)) (Op (Op C_ (Op F_ F_)) PyF));
      (vE, Div (norm (Op T_ (Op C_ F_))) N_)])
    ([("core", C_); ("factors", F_)] ++ when (c_errors c) [("errors", Var vE)]).

(* fista (solvers/nnls.py): x in vX, x_update in vY *)
Definition fista_stmts (UtM UtU : expr) (user_lr : bool) : list stmt :=
  let lr := if user_lr then PyF else Div PyI (Op (RealOf UtU) (Op PyI PyF)) in
  let grad := Op (Op (Op UtM (Op UtU Y_)) PyF) (Op (Op PyI PyF) Y_) in
  [(vZ, Op PyF (Op Y_ (Op lr grad)));              (* x_new = where(x_new < eps, eps, x_update - lr*grad) *)
   (vY, Op Z_ (Op PyF (Op Z_ X_)));
   (vX, Z_)].

(* active_set_nnls (solvers/nnls.py): x_vec in vX, support_vec in vY *)
Definition active_set_stmts_gen (restart : expr) (Utm UtU : expr) (fallback : bool) : list stmt :=
  when fallback [(vX, restart);                    (* except: x_vec = tl.zeros(tl.shape(UtU)[1], ...) *)
                 (vY, ctx_of X_)] ++
  [(vY, Into Y_ (Op UtU Utm));                     (* index_update(support_vec, i, passive_solution[...]) *)
   (vX, Op X_ (Op (Div X_ (Op X_ Y_)) (Op Y_ X_)));(* x_vec + alpha*(support_vec - x_vec) *)
   (vX, Op Y_ PyI)].                               (* clip(support_vec, a_min=0) *)
(* since the repair c906acd the fallback allocates with **tl.context(UtU); before it the allocation was context-less *)
Definition active_set_stmts (Utm UtU : expr) := active_set_stmts_gen (ctx_of UtU) Utm UtU.
Definition active_set_stmts_before_c906acd := active_set_stmts_gen bare.

(* non_negative_tucker_hals: factors by hals_nnls, core by fista or active_set *)
Definition nn_tucker_hals_prog (mc : bool) (c : cfg) : prog :=
  let UtU := Op F_ F_ in
  mkprog
    (tucker_init_stmts mc c true ++ [(vE, N_)])
    ([(vX, F_)] ++ hals_nnls_stmts (Op (Op C_ F_) T_) (Op (Op C_ F_) (Op C_ F_)) ++ [(vF, X_)] ++
     when (c_normalize c) [(vF, Div F_ (Op (ctx_of F_) (norm F_)))] ++
     (if c_alt c   (* algorithm = 'active_set' *)
      then [(vX, ctx_of UtU); (vY, ctx_of X_)] ++ active_set_stmts (Op T_ F_) UtU false ++ [(vC, Into C_ X_)]
      else [(vX, C_); (vY, C_)] ++ fista_stmts (Op T_ F_) UtU false ++ [(vC, X_)]) ++
     [(vE, Div (ToFloat (RealOf (Op (Op N_ PyI) (Op (norm C_) PyI)))) N_)])
    ([("core", C_); ("factors", F_)] ++ when (c_errors c) [("errors", Var vE)]).

(* robust_pca (robust_decomposition.py): mask = T.tensor(mask, **T.context(X)); D, E, L_x, J, L = zeros_like(X, **context(X)) *)
Definition robust_pca_prog (c : cfg) : prog :=
  mkprog
    ([(vT, In_); (vM, if c_mask c then Into In_ Mask else PyI);
      (vX, ctx_of T_); (vY, ctx_of T_); (vZ, ctx_of T_); (vC, ctx_of T_); (vU, ctx_of T_)])
    ([(vC, prox_e PSvt (Op X_ (Div U_ PyF)));                     (* J[i] *)
      (vX, Op (Op (Div Z_ PyF) T_) Y_);                           (* D = L_x/mu + X - E *)
      (vX, Into X_ (Op X_ (Op C_ (Div U_ PyF))));                 (* D += J[i] - L[i]/mu *)
      (vX, Into X_ (Div X_ PyI));                                 (* D /= ndim + 1 *)
      (vY, soft_e (Op (Op T_ X_) (Div Z_ PyF)) (Div (Op M_ PyF) PyF)); (* E = soft_thresholding(X - D + L_x/mu, mask*reg_E/mu) *)
      (vU, Into U_ (Op U_ (Op PyF (Op X_ C_))));                  (* L[i] += mu*(D - J[i]) *)
      (vZ, Into Z_ (Op Z_ (Op PyF (Op (Op T_ X_) Y_))))])         (* L_x += mu*(X - D - E) *)
    [("out0", X_); ("out1", Y_)].

(* tensorly.tenalg.proximal.* called directly *)
Definition prox_prog (c : cfg) : prog := mkprog [(vT, In_)] [] [("out0", prox_e (c_prox c) T_)].

Definition hals_nnls_prog (c : cfg) : prog :=
  mkprog ([(vT, In_)] ++ (if c_warm c then [(vX, In_)] else hals_nnls_cold T_ T_))
         (hals_nnls_stmts T_ T_) [("out0", X_)].
Definition fista_prog (c : cfg) : prog :=
  mkprog ([(vT, In_); (vX, if c_warm c then In_ else ctx_of T_); (vY, X_)])
         (fista_stmts T_ T_ (c_warm c)) [("out0", X_)].
Definition active_set_prog (c : cfg) : prog :=
  mkprog ([(vT, In_); (vX, if c_warm c then In_ else ctx_of T_); (vY, ctx_of X_)])
         (active_set_stmts T_ T_ (c_fallback c)) [("out0", X_)].
Definition active_set_prog_before_c906acd (c : cfg) : prog :=
  mkprog ([(vT, In_); (vX, if c_warm c then In_ else ctx_of T_); (vY, ctx_of X_)])
         (active_set_stmts_before_c906acd T_ T_ (c_fallback c)) [("out0", X_)].
Definition admm_prog (c : cfg) : prog :=
  match c_prox c with
  | PNone => mkprog [(vT, In_); (vX, In_); (vY, In_);   (* n_const=None: returns inside the first sweep *)
                     (vZ, Op (Op T_ (Op (Div T_ PyI) (ctx_of T_))) (Op T_ (Op (Div T_ PyI) (Op X_ Y_)))); (vX, Op T_ T_)]
                    []
                    [("out0", X_); ("out1", Z_); ("out2", Y_)]
  | k => mkprog [(vT, In_); (vX, In_); (vY, In_); (vZ, In_)] (admm_stmts k T_ T_)
                [("out0", X_); ("out1", Z_); ("out2", Y_)]
  end.

(* svd_interface (tenalg/svd.py) incl. svd_flip (signs: tl.tensor(..., **context(U)), tl.ones(n, ctx V)) and
   make_svd_non_negative (eps(dtype), tl.ones(n, ctx W) * avg) *)
Definition svd_prog (mc : bool) (c : cfg) : prog :=
  mkprog ([(vT, In_)] ++ when (c_mask c) [(vM, mask_leaf mc)] ++ svd_stmts T_ (c_mask c) ++
          [(vU, Op U_ (Op (ctx_of U_) (ctx_of U_)))] ++
          when (c_alt c) (* non_negative *) [(vU, Op (RealOf U_) (Op (Op (ctx_of U_) (Div U_ PyI)) PyF))])
         [] [("out0", U_); ("out1", RealOf U_); ("out2", U_)].

Definition cp_normalize_prog (c : cfg) : prog :=
  mkprog [(vF, In_); (vW, In_)] cp_normalize_stmts [("weights", W_); ("factors", F_)].

(* sample_khatri_rao (_cp.py): sampled_kr = tl.ones((n_samples, rank), **tl.context(matrices[0]));
   sampled_kr = sampled_kr * matrix[indices, :] for every matrix; the index outputs are integer arrays *)
Definition sample_kr_e (matrices : expr) : expr := Op (ctx_of matrices) matrices.
Definition sample_kr_prog (c : cfg) : prog :=
  mkprog [(vT, In_)] [] [("out0", sample_kr_e T_); ("out1", ints); ("out2", ints)].

(* randomised_parafac (_cp.py): initialize_cp without mask / normalisation; weights = tl.ones(rank, **tl.context(tensor));
   per mode: kr_prod = sample_khatri_rao(factors); sampled_unfolding = tensor[indices];
   factor = transpose(solve(kr_prod^T kr_prod, kr_prod^T sampled_unfolding)); rec_error = norm(tensor - cp_to_tensor) / norm_tensor *)
Definition plain (c : cfg) : cfg := mkcfg (c_fam c) (c_init c) false (c_errors c) false false false false PNone false false false.
Definition rand_parafac_prog (c : cfg) : prog :=
  mkprog
    (cp_init_stmts true (plain c) false ++ [(vW, ctx_of T_); (vE, N_)])
    [(vX, sample_kr_e F_);
     (vF, Op (Op X_ X_) (Op X_ T_));
     (vE, Div (norm (Op T_ (Op W_ F_))) N_)]
    ([("weights", W_); ("factors", F_)] ++ when (c_errors c) [("errors", Var vE)]).

(* coupled_matrix_tensor_3d_factorization (_cmtf_als.py).  vT = tensor_3d, vY = matrix, vF = the factors of tensor_cp, vX = V.
   tensor_cp = initialize_cp(tensor_3d, rank, init); factors[0] = initialize_cp(concatenate((unfold(tensor_3d, 0), matrix)), rank, init).factors[0];
   sweep: V = transpose(lstsq(factors[0], matrix)); factors[ii] = transpose(lstsq(khatri_rao(factors) [concatenated with V], unfolded
   [concatenated with matrix])); error_new = norm(tensor_3d - cp_to_tensor(tensor_cp))**2 + norm(matrix - cp_to_tensor((None, [factors[0], V])))**2;
   returns tensor_cp, CPTensor((None, [factors[0], V])) (weights: ones in the context of the factors), rec_errors; optional cp_normalize of both *)
Definition cmtf_prog (c : cfg) : prog :=
  mkprog
    ([(vY, In_)] ++ cp_init_stmts true (plain c) false ++
     [(vF, Op F_ (match c_init c with ISvd => Into (Op T_ Y_) (Op (Op T_ Y_) (RealOf (Op T_ Y_))) | _ => ctx_of (Op T_ Y_) end));
      (vX, Op F_ Y_); (vE, Op (norm T_) PyI)])
    ([(vX, Op F_ Y_);
      (vF, Op (Op F_ X_) (Op T_ Y_));
      (vE, Op (Op (norm (Op T_ (Op W_ F_))) PyI) (Op (norm (Op Y_ (Op F_ X_))) PyI))] )
    (if c_normalize c
     then [("weights", Op (Op W_ (ctx_of (Op F_ X_))) (norm (Op F_ X_)));   (* cp_normalize: weights * scales *) ("factors", Div (Op F_ X_) (Op (ctx_of (Op F_ X_)) (norm (Op F_ X_)))); ("out2", Var vE)]
     else [("weights", Op W_ (ctx_of (Op F_ X_))); ("factors", Op F_ X_); ("out2", Var vE)]).

(* tensor_ring_als_sampled (_tr_als.py).  vF = the cores (one variable), vX = samples_cnt, vY = rescaling.
   tr_decomp = random_tr(shape, rank, **context(tensor)); sampling_probs = leverage_score_dist(core) - the DOCUMENTED float64 output - or, with
   uniform_sampling (c_alt), np.ones(shape)/shape, and samp_prob_sqrt_inv = np.prod(np.sqrt([...])), a float64 NumPy scalar;
   sweep, per mode: samples_cnt = tl.tensor(counts, **context(tensor)); rescaling = tl.sqrt(samples_cnt / n_samples[dim]);
     rescaling *= samp_prob_sqrt_inv[dim]   /   rescaling /= tl.sqrt(sampling_probs[n][...])
   - IN PLACE (inplace = true, the code): the float64 operand cannot widen rescaling; written as a rebinding (inplace = false) it would;
     sampled_design_mat = einsum(rescaling, matricize(chain of sampled cores)); sampled_tensor_unf = einsum(rescaling, tensor[samples]);
     sol = lstsq(design, rhs)[0]; tr_decomp[dim] = transpose(reshape(sol)); sampling_probs[dim] = leverage_score_dist(transpose(sol)) *)
Definition tr_als_sampled_prog_gen (inplace : bool) (c : cfg) : prog :=
  let f64 := Leaf (LConst F64) in
  let step (cur v : expr) := if inplace then Into cur v else v in
  mkprog [(vT, In_); (vF, ctx)]
         [(vX, Into T_ ints);
          (vY, ToFloat (Div X_ PyI));
          (vY, if c_alt c then step Y_ (Op Y_ f64) else step Y_ (Div Y_ (ToFloat f64)));
          (vF, Op (Op Y_ (Op F_ F_)) (Op Y_ T_))]
         [("*", F_)].
Definition tr_als_sampled_prog := tr_als_sampled_prog_gen true.

(* tensor_train / tensor_train_matrix / tensor_ring (_tt.py, _tr_svd.py): the SVD chain.  vT = the current unfolding, vU = U and V of its SVD (S is
   their real type), vF = the factors.  unfolding = reshape(input); per mode: U, S, V = svd_interface(unfolding, n_eigenvecs); factors[k] = reshape(U);
   unfolding = reshape(S, (-1, 1)) * V; the last factor is the reshaped remaining unfolding *)
Definition svd_chain_prog (c : cfg) : prog :=
  mkprog ([(vT, In_)] ++ svd_stmts T_ false ++ [(vF, U_); (vT, Op (RealOf U_) U_)])
         (svd_stmts T_ false ++ [(vF, Op F_ U_); (vT, Op (RealOf U_) U_)])
         [("*", F_); ("*", T_)].

(* tensor_ring_als (_tr_als.py): tr_decomp = random_tr(shape, rank, **context(tensor)); per mode: design_mat = reshape(chain of the other cores
   by tensordot); sol = lstsq(design_mat, tensor_unf)[0]  (or solve(design^T design, design^T tensor_unf)); tr_decomp[dim] = transpose(reshape(sol)) *)
Definition tr_als_prog (c : cfg) : prog :=
  mkprog [(vT, In_); (vF, ctx)]
         [(vX, Op F_ F_); (vF, Op F_ (Op (Op X_ X_) (Op X_ T_)))]
         [("*", F_)].

(* parafac_power_iteration / symmetric_parafac_power_iteration (_cp_power.py, _symmetric_cp.py): per component power_iteration:
   factors = tl.tensor(np.random.random_sample(s), **context(tensor)); factor = multi_mode_dot(tensor, factors, skip=mode) / norm(factor);
   eigenval = multi_mode_dot(tensor, factors); deflated = tensor - outer(factors) * eigenval; weights = stack(eigenvals), factors = stack(eigenvecs) *)
Definition power_prog (c : cfg) : prog :=
  mkprog [(vT, In_); (vF, ctx); (vW, Op T_ F_)]
         [(vF, Into In_ bare); (vF, Div (Op T_ F_) (norm (Op T_ F_))); (vW, Op W_ (Op T_ F_)); (vT, Op T_ (Op F_ (Op T_ F_)))]
         [("*", W_); ("*", F_)].

(* svd_compress_tensor_slices (preprocessing.py): a slice that needs no compression is returned as it is; otherwise U, s, Vh = svd_interface(slice);
   score = transpose(s * transpose(Vh)), loading = U *)
Definition compress_prog (c : cfg) : prog :=
  mkprog ([(vT, In_)] ++ svd_stmts T_ false) [] [("*", T_); ("*", Op (RealOf U_) U_); ("*", U_)].

(* higher_order_moment (tenalg/*/moments.py): moment = batched_outer([moment, tensor]) (order - 1 times); mean(moment, axis=0) *)
Definition moment_prog (c : cfg) : prog :=
  mkprog [(vT, In_); (vX, T_)] [(vX, Op X_ T_)] [("*", ToFloat X_)].

(* CPRegressor / TuckerRegressor (regression/cp_regression.py, tucker_regression.py): fit, then predict.  vT = X, vY = y, vF = the factor matrices W,
   vW = weights (CP) / core G (Tucker), vC = weight_tensor_.  W[i] = T.tensor(rng.randn(...), **T.context(X)); weights = T.ones(rank, **T.context(X)) /
   G = T.tensor(rng.randn(ranks ...), **T.context(X)); sweep: phi = X_unfolded . khatri_rao(W) (Tucker: . kron / G);
   inv_term = phi^T phi + reg_W * T.eye(n, **T.context(X)) (Tucker: T.tensor(np.eye(n), **T.context(X))); W[i] = solve(inv_term, phi^T y);
   weight_tensor_ = cp_to_tensor((weights, W)) / tucker_to_tensor((G, W)); vec_W_ = its vectorisation; predict = inner(X, weight_tensor_) / dot(X_vec, vec_W_) *)
Definition regressor_prog (c : cfg) : prog :=
  let phi := Op T_ (Op W_ F_) in
  let upd := Op (Op (Op phi phi) (Op PyF ctx)) (Op phi Y_) in
  mkprog [(vT, In_); (vY, In_); (vF, ctx); (vW, ctx); (vC, Op W_ F_)]
         [(vF, upd); (vW, if c_alt c then upd else W_); (vC, Op W_ F_)]      (* c_alt: the Tucker core is updated as well *)
         [("*", Op T_ C_); ("*", C_); ("*", W_); ("*", F_)].

(* CP_PLSR (regression/cp_plsr.py): fit / predict / transform.  X, Y centred in place by their means; X_factors, Y_factors, coef_, X_r2, Y_r2 =
   T.zeros(..., **T.context(X)) filled by index_update; per component: Z = tensordot(X, Y factor); Z_comp = initialize_cp(Z, 1).factors or Z / norm(Z);
   factors normalised by their norms; coef_ from lstsq(X_factors[0], Y scores); predict = X_projection . coef_ . Y_factors^T + Y_mean_;
   transform: scores = T.zeros(..., **T.context(X)) filled by index_update *)
Definition plsr_prog (c : cfg) : prog :=
  mkprog [(vT, In_); (vY, In_); (vX, ToFloat T_); (vZ, ToFloat Y_); (vT, Into T_ (Op T_ X_)); (vY, Into Y_ (Op Y_ Z_));
          (vF, ctx); (vC, ctx)]
         [(vU, Div (Op T_ Y_) (norm (Op T_ Y_)));
          (vF, Into F_ (Op T_ U_));
          (vC, Into C_ (Op F_ (Op Y_ U_)))]
         [("*", Op (Op (Op (Into ctx (Op T_ F_)) C_) F_) Z_); ("*", Into ctx (Op T_ F_)); ("*", F_); ("*", C_)].

(* parafac2 (_parafac2.py).  vT = the slices, vF = A, B, C (one variable), vC = projections, vS = projected tensor.
   init 'random': random_parafac2(.., **context): projections = qr(tl.tensor(rng, **context)), random_cp(.., **context);
   init 'svd': A = tl.ones(..., **context), B = tl.eye(rank, **context), C = svd_interface(unfolded)[0], weights None
   (validated to ones in the context of the factors), projections = _compute_projections;
   norm_tensor = sqrt(sum(norm(slice)**2)) (Python sum: 0 + ...).
   sweep: factors[1] *= weights; weights = T.ones(shape, **context(slices[0])); projections from the SVD of
   B (A*C)^T X_i^T; projected tensor = P_i^T X_i; factors from one run of parafac (c_alt = false) or
   non_negative_parafac_hals (c_alt = true: nn_modes) on the projected tensor; line search on even iterations > 5
   (extrapolated factors, recomputed projections); optional cp_normalize; reconstruction error / norm_tensor *)
Definition vP := 14.  (* projected tensor *)
Definition parafac2_prog (c : cfg) : prog :=
  let P_ := Var vP in
  let mttkrp := Op P_ (Op W_ F_) in
  let pinv := Op3 W_ (Into (Op (ctx_of P_) (Op F_ F_)) PyI) W_ in
  let proj := Op (Op F_ T_) (Op F_ T_) in
  mkprog
    ([(vT, In_)] ++
     match c_init c with
     | IRandom => [(vC, Op ctx ctx); (vF, ctx); (vW, ctx)]
     | ISvd => svd_stmts T_ false ++ [(vF, Op ctx U_); (vW, ctx_of F_); (vC, proj)]
     | IUser => [(vF, In_); (vW, In_); (vC, Op In_ In_)]
     end ++
     [(vN, ToFloat (Op PyI (norm T_))); (vE, N_)])
    ([(vF, Op F_ W_); (vW, ctx_of T_)] ++
     when (c_linesearch c) [(vFl, F_)] ++
     [(vC, proj); (vP, Op C_ T_)] ++
     (if c_alt c then [(vX, F_)] ++ hals_nnls_stmts mttkrp pinv ++ [(vF, Op X_ (Op pinv mttkrp))]
      else [(vF, Op pinv mttkrp)]) ++
     when (c_linesearch c) [(vF, Op (Var vFl) (Op (Op F_ (Var vFl)) PyF)); (vF, Op F_ PyI); (vC, proj)] ++
     when (c_normalize c) cp_normalize_stmts ++
     [(vE, Div (ToFloat (RealOf (Op (Op (Op N_ PyI) (Op (norm (Op W_ F_)) PyI)) (Op PyI (Op (Op P_ F_) W_))))) N_)])
    ([("weights", W_); ("factors", F_); ("projections", C_)] ++ when (c_errors c) [("errors", Var vE)]).

(* tensorly.random (random/base.py): random_cp / random_tucker / random_tt / random_tr / random_tt_matrix / random_parafac2 /
   random_tensor.  Every array is tl.tensor(rng.random_sample(...), **context) or tl.ones(rank, **context).
   c_alt = orthogonal (factors replaced by the Q of their QR; random_tucker re-wraps Q[:, :r] with a context-less tl.tensor,
   which keeps the dtype of Q), c_normalize = normalise_factors (cp_normalize / parafac2_normalise), c_warm = non_negative
   (random_tucker: abs of core and factors); the full=True result is the reconstruction from these *)
Definition random_prog (c : cfg) : prog :=
  mkprog
    ([(vF, ctx); (vW, ctx); (vC, ctx)] ++
     when (c_alt c) [(vF, Op F_ F_)] ++
     when (c_warm c) [(vF, RealOf F_); (vC, RealOf C_)] ++
     when (c_normalize c) cp_normalize_stmts)
    []
    [("*", W_); ("*", F_); ("*", C_); ("*", Op W_ F_); ("*", Op C_ F_)].

(* cp_to_tensor(cp, mask=) / khatri_rao(matrices, mask=) (alt = false) and cp_lstsq_grad(cp, tensor, mask=) (alt = true):
   the mask is a plain multiplier.
     cp_to_tensor (cp_tensor.py): T.sum(khatri_rao([factors[0]*weights] + factors[1:], mask=mask), axis=1); 1-D: vector * reshape(mask)
     khatri_rao (tenalg/core_tenalg/_khatri_rao.py): res = a*b ...; return res * reshape(mask, (-1, 1))   (einsum variant: the mask is one
       more einsum operand)
     cp_lstsq_grad (cp_tensor.py): diff = tensor - cp_to_tensor(cp); diff = diff*mask; grad = -unfolding_dot_khatri_rao(diff, cp, i);
       loss = 0.5 * T.sum(diff**2); returned as CPTensor((None, grad)), loss
   cast = true: the code since the repair ba7a532 (`mask = T.tensor(mask, **T.context(factors[0]))` before any use); cast = false: the code
   before it (mask used as passed in).  The harness selects the variant from the source of the tree it checks. *)
Definition mask_mul_prog (cast masked alt : bool) : prog :=
  let kr := Op (Op F_ W_) F_ in
  let diff0 := Op In_ kr in
  mkprog ([(vF, In_); (vW, In_)] ++ when masked [(vM, if cast then Into F_ Mask else Mask)])
         []
         (if alt
          then let diff := if masked then Op diff0 M_ else diff0 in
               let grad := Op diff (Op W_ F_) in
               (* CPTensor((None, grad_fac)): the missing weights become T.ones(rank, **T.context(grad_fac[0])) *)
               [("factors", grad); ("weights", ctx_of grad); ("out1", Op PyF (Op diff PyI))]
          else [("out0", if masked then Op kr M_ else kr)]).

(* tensor_train_cross (contrib/decomposition/_tt_cross.py).  vFl = factor_old, vF = factor_new (one variable for all cores), vX = Q_skeleton.
   factor_old = tl.zeros(.., **tl.context(input_tensor)); factor_new = tl.tensor(rng.random_sample(..), **tl.context(input_tensor));
   error = tl.norm(tt_to_tensor(factor_old) - tt_to_tensor(factor_new), 2); sweep: factor_old = factor_new;
   left_right_ttcross_step / right_left_ttcross_step: core = input_tensor[idx] (reshaped, transposed); Q, R = tl.qr(core);
   J, Q_inv = maxvol(Q), where maxvol returns integer row indices (tl.zeros(r, dtype=tl.int64), argmax) and
   inverse = tl.solve(A[row_idx, :], tl.eye(r, **tl.context(A))); Q_inv = tl.tensor(Q_inv); Q_skeleton = tl.dot(Q, Q_inv);
   the left-to-right step keeps only the indices; right-to-left: factor_new[k - 1] = reshape(transpose(Q_skeleton));
   factor_new[0] = core = input_tensor[idx]; error recomputed; returns factor_new *)
Definition tt_cross_prog (c : cfg) : prog :=
  let qskel (core : expr) := Op core (Op core (ctx_of core)) in
  mkprog [(vT, In_); (vFl, ctx); (vF, Into In_ bare); (vE, norm (Op (Var vFl) F_))]
         [(vFl, F_); (vX, qskel T_); (vF, qskel T_); (vF, Op F_ T_); (vE, norm (Op (Var vFl) F_))]
         [("*", F_)].

(* cp_flip_sign (cp_tensor.py).  weights given or T.ones(rank, **T.context(factors[0])); per mode jj != mode:
   column_signs = T.sign(func(factors[jj], axis=0)) with func = T.mean; column_signs = T.where(column_signs == 0, T.ones(.., **T.context(column_signs)),
   column_signs); factors[mode] *= column_signs; factors[jj] *= column_signs; finally weight_signs = T.sign(weights), the same where, factors[mode] *=
   weight_signs; weights = T.abs(weights) *)
Definition flip_sign_prog (c : cfg) : prog :=
  let signs (e : expr) := Op e (ctx_of e) in
  mkprog [(vF, In_); (vW, Op In_ (ctx_of F_))]
         [(vF, Op F_ (signs (ToFloat F_)))]
         [("weights", RealOf W_); ("factors", Op F_ (signs W_))].

(* congruence_coefficient (metrics/factors.py): mat = mat / T.norm(mat, axis=0) for both matrices; T.abs(T.dot(T.transpose(mat1), mat2)) (absolute_value=True),
   to_numpy; all_congruences = 1; all_congruences *= congruence; linear_sum_assignment gives the integer permutation; returns
   all_congruences[row_ind, col_ind].mean(), permutation *)
Definition congruence_e (m1 m2 : expr) : expr :=
  let n1 := Div m1 (norm m1) in let n2 := Div m2 (norm m2) in
  ToFloat (Op PyI (RealOf (Op n1 n2))).
Definition congruence_prog (c : cfg) : prog :=
  mkprog [(vT, In_)] [] [("out0", congruence_e T_ T_); ("out1", ints)].

(* cp_permute_factors (cp_tensor.py): permuted_tensors = copies of the tensors to permute; the reference and the tensors are cp_normalize'd ONLY to compute
   the permutation (congruence_coefficient of the normalised factors -> integer column indices, T.tensor(col, dtype=T.int64)); the copies' factors and
   weights are indexed by it: factors[f][:, col], weights[col] *)
Definition permute_prog (c : cfg) : prog :=
  mkprog ([(vF, In_); (vW, In_); (vX, F_); (vY, W_)] ++ cp_normalize_stmts ++ [(vC, congruence_e F_ F_)]) []
         [("weights", Y_); ("factors", X_); ("out1", ints)].

(* shallow skeletons: the outputs are promotions / real parts of the inputs and of allocations in the input's context;
   the internal flow of these entry points is NOT transcribed (see the manifest) *)
(* the slot name "*" stands for every array of the returned structure *)
Definition shallow (c : cfg) (e : expr) : prog := mkprog [(vT, In_)] [] [("*", e)].
Definition pure_prog (c : cfg) : prog := shallow c (Op T_ (Op T_ ctx)).

Definition skeleton_v (mc : bool) (c : cfg) : prog :=
  match c_fam c with
  | FParafac => parafac_prog mc c
  | FNNParafac => nn_parafac_prog mc c
  | FNNParafacHals => nn_parafac_hals_prog mc c
  | FConstrained => constrained_prog c
  | FTucker => tucker_prog mc c "core" "factors"
  | FPartialTucker => tucker_prog mc c "out0" "out0"
  | FNNTucker => nn_tucker_prog mc c
  | FNNTuckerHals => nn_tucker_hals_prog mc c
  | FRobustPca => robust_pca_prog c
  | FProx => prox_prog c
  | FHalsNnls => hals_nnls_prog c
  | FFista => fista_prog c
  | FActiveSet => active_set_prog c
  | FAdmm => admm_prog c
  | FSvd => svd_prog mc c
  | FCpNormalize => cp_normalize_prog c
  | FRandom => random_prog c
  | FRandParafac => rand_parafac_prog c
  | FParafac2 => parafac2_prog c
  | FLeverage => shallow c (Leaf (LConst F64))      (* documented: tl.tensor(..., dtype=tl.float64) *)
  | FSampleKR => sample_kr_prog c
  | FIndexed => congruence_prog c
  | FPermute => permute_prog c
  | FFlipSign => flip_sign_prog c
  | FTTCross => tt_cross_prog c
  | FCmtf => cmtf_prog c
  | FCpReg | FTuckerReg => regressor_prog c
  | FPlsr => plsr_prog c
  | FSvdChain => svd_chain_prog c
  | FTrAls => tr_als_prog c
  | FPower => power_prog c
  | FCompress => compress_prog c
  | FMoment => moment_prog c
  | FTrAlsSampled => tr_als_sampled_prog c
  | FMaskMul => mask_mul_prog false (c_mask c) (c_alt c)       (* the code before ba7a532 *)
  | FMaskMulCast => mask_mul_prog true (c_mask c) (c_alt c)    (* the code since ba7a532 *)
  | _ => pure_prog c
  end.
(* the variant of the code the correspondence is run against: since the repair 45ef7df the four masked entry points
   cast the mask into the data's context (mc = true); skeleton_v false is the code before that repair *)
Definition mask_cast_now : bool := true.
Definition skeleton (c : cfg) : prog := skeleton_v mask_cast_now c.

(* the precision-relevant outputs of a skeleton: everything except integer index outputs and the documented
   float64 leverage scores *)
Definition float_out (o : string * expr) : bool :=
  match snd o with Leaf (LConst _) => false | _ => true end.

(* ------------------------------------------------------------------ extracted programs
   harness/props/C18.py translates the Python source of every TensorLy function (ast) into a `prog` of this language on every
   run (allocation calls with / without **context become Into / bare leaves, NumPy scalar casts become constants, arithmetic
   becomes promotion, in-place writes become Into, alternatives of an `if` are joined by promotion, the main iteration loop
   becomes p_body, other loops are unrolled twice, calls of other library functions are summarised as the promotion of their
   array arguments).  Such programs contain index / boolean values, so they are checked with a tolerant variant of prog_ok:
   a statement whose expression is not in the precision class only makes its variable unknown.  Variable sets are positional
   bit lists (the programs have hundreds of variables). *)
Fixpoint getb (l : list bool) (x : nat) : bool :=
  match l, x with [], _ => false | b :: _, 0 => b | _ :: r, S k => getb r k end.
Fixpoint setb (l : list bool) (x : nat) (v : bool) : list bool :=
  match x, l with
  | 0, [] => [v] | 0, _ :: r => v :: r
  | S k, [] => false :: setb [] k v | S k, b :: r => b :: setb r k v
  end.
Fixpoint subb (a b : list bool) : bool :=
  match a with [] => true | x :: r => implb x (getb b 0) && subb r (tl b) end.
Fixpoint ok_expr2 (en : env) (D : list bool) (e : expr) : bool :=
  match e with
  | Leaf l => inP (tau en) (leaf_dt en l)
  | Var x => getb D x
  | Op a b | Div a b | Alt a b => ok_expr2 en D a && ok_expr2 en D b
  | ToFloat a | RealOf a => ok_expr2 en D a
  | Into tg _ => ok_expr2 en D tg
  end.
Fixpoint strong_expr2 (en : env) (S : list bool) (e : expr) : bool :=
  match e with
  | Leaf l => strongP (tau en) (leaf_dt en l)
  | Var x => getb S x
  | Op a b | Div a b | Alt a b => strong_expr2 en S a || strong_expr2 en S b
  | ToFloat a | RealOf a => strong_expr2 en S a
  | Into tg _ => strong_expr2 en S tg
  end.
(* a statement whose expression is not in the class only makes its variable unknown; nothing is claimed about it afterwards *)
Fixpoint ok_block2 (en : env) (D S : list bool) (b : list stmt) : list bool * list bool :=
  match b with
  | [] => (D, S)
  | (x, e) :: r => let o := ok_expr2 en D e in
                   ok_block2 en (setb D x o) (setb S x (o && strong_expr2 en S e)) r
  end.
Definition prog_ok2 (en : env) (p : prog) : bool :=
  let '(D1, S1) := ok_block2 en [] [] (p_init p) in
  let '(D2, S2) := ok_block2 en D1 S1 (p_body p) in
  subb D1 D2 && subb S1 S2 && forallb (fun o => ok_expr2 en D1 (snd o) && strong_expr2 en S1 (snd o)) (p_outs p).


(* the two levels at which an extracted function is certified: for every dtype of a caller-supplied mask / for a mask of the
   data's dtype *)
Definition mask_dts := [B; I64; F32; F64; C64; C128].
Definition ext_ok_any (p : prog) : bool := forallb (fun t => forallb (fun m => prog_ok2 (mkenv t m) p) mask_dts) ctxs.
Definition ext_ok_same (p : prog) : bool := forallb (fun t => prog_ok2 (mkenv t t) p) ctxs.

(* "complex stays complex" for extracted programs: the tolerant check with a third bit list X = variables known to hold EXACTLY tau
   (RealOf never yields an exact value; a promotion / division of in-class operands is exact as soon as one operand is).
   `want` = the positions (in p_outs) of the outputs that have to be exact. *)
Fixpoint exact_expr2 (en : env) (X : list bool) (e : expr) : bool :=
  match e with
  | Leaf l => dt_eqb (leaf_dt en l) (tau en)
  | Var x => getb X x
  | Op a b | Div a b => exact_expr2 en X a || exact_expr2 en X b
  | Alt a b => exact_expr2 en X a && exact_expr2 en X b
  | ToFloat a => exact_expr2 en X a
  | RealOf _ => false
  | Into tg _ => exact_expr2 en X tg
  end.
Fixpoint exact_block2 (en : env) (D X : list bool) (b : list stmt) : list bool * list bool :=
  match b with
  | [] => (D, X)
  | (x, e) :: r => let o := ok_expr2 en D e in
                   exact_block2 en (setb D x o) (setb X x (o && exact_expr2 en X e)) r
  end.
(* the loop invariant: the sets found after the initialisation block need not be preserved by the loop body (a value that is exact after the
   peeled first pass may be joined with an inexact one in later passes); they are shrunk - intersected with what one more execution of the body
   gives - until the body preserves them (at most `fuel` times) *)
Fixpoint andl (a b : list bool) : list bool :=
  match a, b with x :: r, y :: s => (x && y) :: andl r s | _, _ => [] end.
Fixpoint refine2 (fuel : nat) (en : env) (body : list stmt) (D X : list bool) : option (list bool * list bool) :=
  let '(D', X') := exact_block2 en D X body in
  if subb D D' && subb X X' then Some (D, X)
  else match fuel with 0 => None | S f => refine2 f en body (andl D D') (andl X X') end.
Definition all_exact2 (en : env) (p : prog) (want : list nat) : bool :=
  let '(D1, X1) := exact_block2 en [] [] (p_init p) in
  match refine2 6 en (p_body p) D1 X1 with
  | Some (Dm, Xm) =>
      forallb (fun k => match nth_error (p_outs p) k with
                        | Some o => ok_expr2 en Dm (snd o) && exact_expr2 en Xm (snd o)
                        | None => false
                        end) want
  | None => false
  end.
Definition ext_exact_any (p : prog) (want : list nat) : bool :=
  forallb (fun t => forallb (fun m => all_exact2 (mkenv t m) p want) mask_dts) ctxs.
Definition ext_exact_same (p : prog) (want : list nat) : bool := forallb (fun t => all_exact2 (mkenv t t) p want) ctxs.

(* ------------------------------------------------------------------ "complex stays complex": outputs that are EXACTLY tau
   prog_ok / strongP allow the real type of the same precision (norms, errors, singular values are real for complex data).  The
   stricter per-output check below tracks the variables known to hold exactly tau: RealOf never yields an exact value, a
   promotion / division is exact as soon as one operand is (the other being in the class). *)

Fixpoint exact_expr (en : env) (X : list nat) (e : expr) : bool :=
  match e with
  | Leaf l => dt_eqb (leaf_dt en l) (tau en)
  | Var x => memb x X
  | Op a b | Div a b => exact_expr en X a || exact_expr en X b
  | Alt a b => exact_expr en X a && exact_expr en X b
  | ToFloat a => exact_expr en X a
  | RealOf _ => false
  | Into tg _ => exact_expr en X tg
  end.
Fixpoint exact_block (en : env) (D X : list nat) (b : list stmt) : option (list nat * list nat) :=
  match b with
  | [] => Some (D, X)
  | (x, e) :: r => if ok_expr en D e
                   then exact_block en (x :: D) (if exact_expr en X e then x :: X else removeb x X) r
                   else None
  end.
Definition out_exact (en : env) (p : prog) (o : string * expr) : bool :=
  match exact_block en [] [] (p_init p) with
  | Some (D1, X1) =>
      match exact_block en D1 X1 (p_body p) with
      | Some (D2, X2) => subsetb D1 D2 && subsetb X1 X2 && ok_expr en D1 (snd o) && exact_expr en X1 (snd o)
      | None => false
      end
  | None => false
  end.


(* which outputs are real-valued BY DESIGN (norms, errors, singular values, absolute values, non-negative families) *)
Definition nonneg_family (f : family) : bool := match f with FNNParafac | FNNParafacHals | FNNTucker | FNNTuckerHals => true | _ => false end.
Definition real_by_design (c : cfg) (s : string) : bool :=
  String.eqb s "errors"
  || (String.eqb s "weights" && (c_normalize c || match c_fam c with FFlipSign | FCpNormalize => true | _ => false end))
  || (match c_fam c with FSvd => String.eqb s "out1" || c_alt c | FCmtf => String.eqb s "out2"
                             | FIndexed => String.eqb s "out0"   (* congruence_coefficient: mean of |mat1^T mat2| *) | _ => false end)
  || nonneg_family (c_fam c)
  || (match c_fam c with FRandom => c_warm c | _ => false end).
