(* C18 -- call sequences ("sessions") over the dtype language of Model/Dtype.v.  Definitions only.

   A process executes a sequence of calls of library functions.  Between two calls the local variables of a function are gone; what
   survives is PERSISTENT state: a module-level dict / list, a function attribute, a functools cache, the cell of a long-lived closure,
   a mutable default argument, a class-level container.  In the dtype language this is a set G of variable numbers whose value (a dtype)
   is carried from the end of one call to the beginning of the next, while every other variable starts as in an isolated call (st0).

   The property "results stay in the numeric context of the input" speaks about each call on its own: the dtype of the n-th call's
   outputs must depend on that call's inputs only.  A cache keyed without the dtype violates this (cached_smooth_prog below: the
   system matrix of smoothness_prox kept in a module-level dict keyed by (backend, rows, regulariser) - the class of a seeded defect);
   a program that never READS a persistent variable before overwriting it cannot (hist_free; Proofs/DtypeHistProofs.v). *)
From Coq Require Import List Bool Arith String.
From TLV Require Import Model.Dtype.
Import ListNotations.
Open Scope string_scope.

(* one call: the dtypes of its data / mask, the program of the entry point, the number of sweeps *)
Record call := mkcall { k_env : env; k_prog : prog; k_n : nat }.

(* a call started in an arbitrary state (run = run_from st0) *)
Definition run_from (en : env) (p : prog) (n : nat) (st : state) : state :=
  iter n (fun st => exec en st (p_body p)) (exec en st (p_init p)).
(* what a finished call leaves behind: the persistent variables keep their value, everything else is as in a fresh call *)
Definition carry (G : list nat) (st : state) : state := fun x => if memb x G then st x else st0 x.
(* the persistent store after a history of calls (oldest first), starting from the store `st` *)
Fixpoint session (G : list nat) (st : state) (h : list call) : state :=
  match h with
  | [] => st
  | c :: r => session G (carry G (run_from (k_env c) (k_prog c) (k_n c) st)) r
  end.
(* the output dtypes of the call c made after the history h in a process that started with an empty store *)
Definition call_state (G : list nat) (h : list call) (c : call) : state :=
  run_from (k_env c) (k_prog c) (k_n c) (session G st0 h).
Definition call_outs (G : list nat) (h : list call) (c : call) : list (string * dt) :=
  map (fun o => (fst o, eval (k_env c) (call_state G h c) (snd o))) (p_outs (k_prog c)).
Definition isolated_outs (c : call) : list (string * dt) := out_dtypes (k_env c) (k_prog c) (k_n c).

(* the variables whose value can influence the dtype of an expression: the value side of a cast into a context (Into) cannot *)
Fixpoint reads (e : expr) : list nat :=
  match e with
  | Leaf _ => []
  | Var x => [x]
  | Op a b | Div a b | Alt a b => reads a ++ reads b
  | ToFloat a | RealOf a => reads a
  | Into tg _ => reads tg
  end.
Definition disjb (a U : list nat) : bool := forallb (fun x => negb (memb x U)) a.
(* U = the persistent variables that still hold a value of an EARLIER call: no statement may read one; an assignment overwrites it *)
Fixpoint free_block (U : list nat) (b : list stmt) : option (list nat) :=
  match b with
  | [] => Some U
  | (x, e) :: r => if disjb (reads e) U then free_block (removeb x U) r else None
  end.
(* the syntactic check: no statement and no output reads a persistent variable before this call has overwritten it.  (The outputs are
   checked against the set after the initialisation block: the loop body may run zero times.) *)
Definition hist_free (G : list nat) (p : prog) : bool :=
  match free_block G (p_init p) with
  | Some U1 => match free_block U1 (p_body p) with
               | Some _ => forallb (fun o => disjb (reads (snd o)) U1) (p_outs p)
               | None => false
               end
  | None => false
  end.

(* ---- the class of the seeded defect, in the language.  smoothness_prox (tenalg/proximal.py) as it is: the tridiagonal system matrix is
   built in the context of the data on every call (prox_e PSmooth) *)
Definition vK := 20.   (* the persistent variable: the module-level dict of cached system matrices *)
Definition smooth_prog : prog :=
  mkprog [(vT, In_); (vC, Into T_ (Op (Op (Op PyI PyF) bare) PyI))] [] [("out0", Op C_ T_)].
(* ... with a module-level cache keyed by (backend, number of rows, regulariser) - NOT by the dtype:
     M = _CACHE.get(key);  if M is None: M = tl.tensor(diag(...), **tl.context(tensor)); _CACHE[key] = M;  return tl.solve(M, tensor)
   path-insensitively (as the source translator joins the alternatives of an `if`): the matrix used is the cached one or the fresh one *)
Definition cached_smooth_prog : prog :=
  mkprog [(vT, In_); (vK, Alt (Var vK) (Into T_ (Op (Op (Op PyI PyF) bare) PyI)))] [] [("out0", Op (Var vK) T_)].
(* ... and with the dtype in the key: whatever entry is found has the dtype of the data of THIS call, i.e. the cached value reaches the
   result only through a cast into the current context *)
Definition keyed_smooth_prog : prog :=
  mkprog [(vT, In_); (vK, Into T_ (Alt (Var vK) (Op (Op (Op PyI PyF) bare) PyI)))] [] [("out0", Op (Var vK) T_)].

(* ---- estimator INSTANCES.  The fitted attributes of ONE estimator object (self.decomposition_, self.errors_, self.coef_ ...) are the persistent
   variables of the session "the same object fitted again and again": what a fit stores is still there when the next fit starts.
   fit_transform as every wrapper class of the library writes it: the result is computed from the data of THIS call, stored, then read back *)
Definition vD := 21.   (* self.decomposition_ *)
Definition vE := 22.   (* self.errors_ *)
Definition fitted : list nat := [vD; vE].
Definition refit_prog : prog :=
  mkprog [(vT, In_); (vC, Op T_ PyF); (vD, C_); (vE, RealOf C_)] [] [("out0", Var vD)].
(* ... with a warm start: `init = self.decomposition_ if hasattr(self, "decomposition_") else "svd"` - the previous fit's result, when there is
   one, is the starting point of this fit (path-insensitively: the old value or a fresh one) *)
Definition warm_refit_prog : prog :=
  mkprog [(vT, In_); (vC, Alt (Var vD) (Op T_ PyF)); (vD, Op C_ T_); (vE, RealOf C_)] [] [("out0", Var vD)].
(* ... the same warm start read through a cast into the context of the current data: harmless *)
Definition cast_warm_refit_prog : prog :=
  mkprog [(vT, In_); (vC, Into T_ (Alt (Var vD) (Op T_ PyF))); (vD, Op C_ T_); (vE, RealOf C_)] [] [("out0", Var vD)].
Definition fit_call (p : prog) (t : dt) : call := mkcall (mkenv t t) p 0.
