(* C15 -- a mini heap with buffer / cell identity and an effect language for aliasing skeletons.

   Concrete side
     heap   = list of objects, identity = position.  OBuf d  : a NumPy data buffer;
              OCell items : a Python list / tuple / wrapper object (mutable cell of references).
     ref    = RNull | RObj o offs : reference to object o; for buffers `offs` is the view (which
              buffer positions the array sees, in order) - transposes, slices and reshapes of the
              same buffer differ only in `offs`.
     cmd    = the effect language; `exec` is its (total, executable) semantics.
   Abstract side
     aref   = ANull | AFresh k (exactly the k-th object allocated by this run) | AU (an object of the
              caller's documented in-place region, or a buffer allocated by this run) | AProt (anything;
              NO write may go through it).
     aexec  = symbolic execution that tracks run-allocated cells exactly and answers None as soon as a
              write goes through an AProt reference (or a reference that is not provably unprotected
              would be stored into the in-place region).
     safe   = aexec succeeds.  It does not look at any heap: it is a static property of the program.
   Definitions only; the frame theorem is in Proofs/EffectsProofs.v. *)
From Coq Require Import List Arith ZArith Bool.
Import ListNotations.

Definition var := nat.

Inductive ref := RNull | RObj (o : nat) (offs : list nat).
Inductive obj := OBuf (d : list Z) | OCell (items : list ref).
Definition heap := list obj.
Definition env := var -> ref.

Definition upd {A} (f : nat -> A) (x : nat) (v : A) : nat -> A := fun y => if Nat.eqb y x then v else f y.

Fixpoint set_nth {A} (i : nat) (v : A) (l : list A) : list A :=
  match l, i with
  | [], _ => []
  | _ :: t, O => v :: t
  | a :: t, S j => a :: set_nth j v t
  end.
Fixpoint modify_nth {A} (i : nat) (f : A -> A) (l : list A) : list A :=
  match l, i with
  | [], _ => []
  | a :: t, O => f a :: t
  | a :: t, S j => a :: modify_nth j f t
  end.
Fixpoint del_nth {A} (i : nat) (l : list A) : list A :=
  match l, i with
  | [], _ => []
  | _ :: t, O => t
  | a :: t, S j => a :: del_nth j t
  end.
(* exactly n items: truncate or pad *)
Fixpoint take_pad {A} (d : A) (n : nat) (l : list A) : list A :=
  match n with
  | O => []
  | S m => match l with [] => d :: take_pad d m [] | a :: t => a :: take_pad d m t end
  end.

(* ------------------------------------------------------------------ commands *)
Inductive cmd :=
| Skip
| Seq (c1 c2 : cmd)
| Repeat (n : nat) (c : cmd)
| Alloc (x : var) (n : nat)                 (* x := a new array (zeros, or the result of arithmetic: NumPy allocates) *)
| Copy (x y : var)                          (* x := T.copy(y) / np.array(y) / y * 1 ... : new buffer with y's visible data *)
| View (x y : var) (sel : list nat)         (* x := y.T / y[a:b] / reshape(y) / transpose(y): SAME buffer, other offsets *)
| WriteInto (x : var) (vals : list Z)       (* x[...] = vals / index_update(x, ..) / np.copyto(x, ..) *)
| InplaceOp (x : var) (k : Z)               (* x *= k, x += k, x /= k ... *)
| ListNew (x : var) (ys : list var)         (* x := [y1, ..., yn] / (y1, ..., yn) / Wrapper(y1, ..., yn) *)
| ListCopy (x y : var) (n : nat)            (* x := list(y) for a y of n entries (shallow) *)
| ListGet (x y : var) (i : nat)             (* x := y[i] / y.attr *)
| ListSet (y : var) (i : nat) (x : var)     (* y[i] = x / y.attr = x *)
| ListRemove (y : var) (i : nat)            (* y.remove(v) / del y[i] / y.pop(i) *)
| ListPop (y : var)                         (* y.pop() *)
| ListAppend (y x : var)                    (* y.append(x) *)
| Rebind (x y : var)                        (* x = y *)
| Call (x : var) (body : cmd) (args : list var) (ret : var).
                                            (* x := f(args): the callee sees the references as its variables 0..n-1 *)

Fixpoint seq (cs : list cmd) : cmd := match cs with [] => Skip | c :: t => Seq c (seq t) end.

(* ------------------------------------------------------------------ concrete semantics *)
Definition buf_read (d : list Z) (offs : list nat) : list Z := map (fun i => nth i d 0%Z) offs.
Fixpoint buf_write (offs : list nat) (vals : list Z) (d : list Z) : list Z :=
  match offs, vals with
  | o :: offs', v :: vals' => buf_write offs' vals' (set_nth o v d)
  | _, _ => d
  end.
Fixpoint buf_scale (offs : list nat) (k : Z) (d : list Z) : list Z :=
  match offs with
  | o :: offs' => buf_scale offs' k (modify_nth o (fun v => (v * k)%Z) d)
  | [] => d
  end.

(* the only two ways an existing object is ever changed *)
Definition on_buf (g : list nat -> list Z -> list Z) (offs : list nat) (ob : obj) : obj :=
  match ob with OBuf d => OBuf (g offs d) | OCell it => OCell it end.
Definition on_cell (g : list ref -> list ref) (ob : obj) : obj :=
  match ob with OBuf d => OBuf d | OCell it => OCell (g it) end.
Definition wr_buf (r : ref) (g : list nat -> list Z -> list Z) (h : heap) : heap :=
  match r with RNull => h | RObj o offs => modify_nth o (on_buf g offs) h end.
Definition wr_cell (r : ref) (g : list ref -> list ref) (h : heap) : heap :=
  match r with RNull => h | RObj o _ => modify_nth o (on_cell g) h end.

Definition read_buf (h : heap) (r : ref) : list Z :=
  match r with
  | RNull => []
  | RObj o offs => match nth_error h o with Some (OBuf d) => buf_read d offs | _ => [] end
  end.
Definition read_cell (h : heap) (r : ref) : list ref :=
  match r with
  | RNull => []
  | RObj o _ => match nth_error h o with Some (OCell it) => it | _ => [] end
  end.
Definition view_ref (r : ref) (sel : list nat) : ref :=
  match r with RNull => RNull | RObj o offs => RObj o (map (fun i => nth i offs 0) sel) end.

Definition state := (env * heap)%type.

Definition call_env {A} (d : A) (e : nat -> A) (args : list var) : nat -> A :=
  fun i => match nth_error args i with Some y => e y | None => d end.

Fixpoint iter {A} (n : nat) (f : A -> A) (a : A) : A := match n with O => a | S m => iter m f (f a) end.

Fixpoint exec (c : cmd) (s : state) : state :=
  let '(e, h) := s in
  match c with
  | Skip => s
  | Seq c1 c2 => exec c2 (exec c1 s)
  | Repeat n c1 => iter n (exec c1) s
  | Alloc x n => (upd e x (RObj (length h) (List.seq 0 n)), h ++ [OBuf (repeat 0%Z n)])
  | Copy x y => let d := read_buf h (e y) in (upd e x (RObj (length h) (List.seq 0 (length d))), h ++ [OBuf d])
  | View x y sel => (upd e x (view_ref (e y) sel), h)
  | WriteInto x vals => (e, wr_buf (e x) (fun offs d => buf_write offs vals d) h)
  | InplaceOp x k => (e, wr_buf (e x) (fun offs d => buf_scale offs k d) h)
  | ListNew x ys => (upd e x (RObj (length h) []), h ++ [OCell (map e ys)])
  | ListCopy x y n => (upd e x (RObj (length h) []), h ++ [OCell (take_pad RNull n (read_cell h (e y)))])
  | ListGet x y i => (upd e x (nth i (read_cell h (e y)) RNull), h)
  | ListSet y i x => (e, wr_cell (e y) (set_nth i (e x)) h)
  | ListRemove y i => (e, wr_cell (e y) (del_nth i) h)
  | ListPop y => (e, wr_cell (e y) (@removelast ref) h)
  | ListAppend y x => (e, wr_cell (e y) (fun it => it ++ [e x]) h)
  | Rebind x y => (upd e x (e y), h)
  | Call x body args ret =>
      let '(e', h') := exec body (call_env RNull e args, h) in (upd e x (e' ret), h')
  end.

(* ------------------------------------------------------------------ abstract semantics *)
Inductive aref := ANull | AFresh (k : nat) | AU | AProt.
Inductive aobj := ABuf | ACell (items : list aref).
Definition aenv := var -> aref.
Definition astate := (aenv * list aobj)%type.

Definition can_write (a : aref) : bool := match a with AProt => false | _ => true end.

(* may the value be stored into a cell of the caller's in-place region? *)
Definition storable (ah : list aobj) (a : aref) : bool :=
  match a with
  | ANull | AU => true
  | AFresh k => match nth_error ah k with Some ABuf => true | _ => false end
  | AProt => false
  end.

Definition on_acell (g : list aref -> list aref) (ob : aobj) : aobj :=
  match ob with ABuf => ABuf | ACell it => ACell (g it) end.

(* a write to the cell designated by a; `stores` = the abstract value put into it, if any *)
Definition awr_cell (a : aref) (stores : option aref) (g : list aref -> list aref) (ah : list aobj) : option (list aobj) :=
  match a with
  | AProt => None
  | ANull => Some ah
  | AU => match stores with
          | None => Some ah
          | Some v => if storable ah v then Some ah else None
          end
  | AFresh k => Some (modify_nth k (on_acell g) ah)
  end.

Definition aread_cell (ah : list aobj) (a : aref) (i : nat) : aref :=
  match a with
  | ANull => ANull
  | AU => AU
  | AProt => AProt
  | AFresh k => match nth_error ah k with Some (ACell it) => nth i it ANull | _ => ANull end
  end.
Definition acopy_cell (ah : list aobj) (a : aref) (n : nat) : list aref :=
  match a with
  | ANull => repeat ANull n
  | AU => repeat AU n
  | AProt => repeat AProt n
  | AFresh k => match nth_error ah k with Some (ACell it) => take_pad ANull n it | _ => repeat ANull n end
  end.

Fixpoint oiter {A} (n : nat) (f : A -> option A) (a : A) : option A :=
  match n with O => Some a | S m => match f a with Some b => oiter m f b | None => None end end.

Fixpoint aexec (c : cmd) (s : astate) : option astate :=
  let '(e, ah) := s in
  match c with
  | Skip => Some s
  | Seq c1 c2 => match aexec c1 s with Some s1 => aexec c2 s1 | None => None end
  | Repeat n c1 => oiter n (aexec c1) s
  | Alloc x _ => Some (upd e x (AFresh (length ah)), ah ++ [ABuf])
  | Copy x _ => Some (upd e x (AFresh (length ah)), ah ++ [ABuf])
  | View x y _ => Some (upd e x (e y), ah)
  | WriteInto x _ => if can_write (e x) then Some s else None
  | InplaceOp x _ => if can_write (e x) then Some s else None
  | ListNew x ys => Some (upd e x (AFresh (length ah)), ah ++ [ACell (map e ys)])
  | ListCopy x y n => Some (upd e x (AFresh (length ah)), ah ++ [ACell (acopy_cell ah (e y) n)])
  | ListGet x y i => Some (upd e x (aread_cell ah (e y) i), ah)
  | ListSet y i x => match awr_cell (e y) (Some (e x)) (set_nth i (e x)) ah with Some ah' => Some (e, ah') | None => None end
  | ListRemove y i => match awr_cell (e y) None (del_nth i) ah with Some ah' => Some (e, ah') | None => None end
  | ListPop y => match awr_cell (e y) None (@removelast aref) ah with Some ah' => Some (e, ah') | None => None end
  | ListAppend y x => match awr_cell (e y) (Some (e x)) (fun it => it ++ [e x]) ah with Some ah' => Some (e, ah') | None => None end
  | Rebind x y => Some (upd e x (e y), ah)
  | Call x body args ret =>
      match aexec body (call_env ANull e args, ah) with
      | Some (e', ah') => Some (upd e x (e' ret), ah')
      | None => None
      end
  end.

(* arguments: reference + "documented as updated in place" flag *)
Definition arg_aref (inplace : bool) : aref := if inplace then AU else AProt.
Definition env0 (args : list ref) : env := fun x => nth x args RNull.
Definition aenv0 (flags : list bool) : aenv := fun x => nth x (map arg_aref flags) ANull.

Definition safe_with (flags : list bool) (c : cmd) : bool :=
  match aexec c (aenv0 flags, []) with Some _ => true | None => false end.
(* all arguments protected *)
Definition safe (nargs : nat) (c : cmd) : bool := safe_with (repeat false nargs) c.

(* ------------------------------------------------------------------ observation helpers (used by examples / Corr) *)
Fixpoint list_eqb {A} (eqb : A -> A -> bool) (a b : list A) : bool :=
  match a, b with
  | [], [] => true
  | x :: a', y :: b' => eqb x y && list_eqb eqb a' b'
  | _, _ => false
  end.
Definition ref_eqb (a b : ref) : bool :=
  match a, b with
  | RNull, RNull => true
  | RObj o1 f1, RObj o2 f2 => Nat.eqb o1 o2 && list_eqb Nat.eqb f1 f2
  | _, _ => false
  end.
Definition obj_eqb (a b : obj) : bool :=
  match a, b with
  | OBuf d1, OBuf d2 => list_eqb Z.eqb d1 d2
  | OCell i1, OCell i2 => list_eqb ref_eqb i1 i2
  | _, _ => false
  end.

(* positions of the initial heap whose object differs after running the program: the model's footprint *)
Definition footprint (c : cmd) (args : list ref) (h : heap) : list nat :=
  let h' := snd (exec c (env0 args, h)) in
  filter (fun o => match nth_error h o, nth_error h' o with
                   | Some a, Some b => negb (obj_eqb a b)
                   | _, _ => true end) (List.seq 0 (length h)).
