(* C15 -- a mini heap with buffer / cell identity and an effect language for aliasing skeletons.

   Concrete side
     heap   = list of objects, identity = position.  OBuf d  : a NumPy data buffer;
              OCell items : a Python list / tuple / wrapper object (mutable cell of references).
     ref    = RNull | RObj o offs : reference to object o; for buffers `offs` is the view (which
              buffer positions the array sees, in order) - transposes, slices and reshapes of the
              same buffer differ only in `offs`.
     cmd    = the effect language; `exec` is its (total, executable) semantics.
   Abstract side
     aref   = ANull | AFresh k (exactly the k-th object allocated by this run) | AU (an object of the
              caller's documented in-place region, or a buffer allocated by this run) | AProt (anything;
              NO write may go through it).
     aexec  = symbolic execution that tracks run-allocated cells exactly and answers None as soon as a
              write goes through an AProt reference (or a reference that is not provably unprotected
              would be stored into the in-place region).
     safe   = aexec succeeds.  It does not look at any heap: it is a static property of the program.
   Definitions only; the frame theorem is in Proofs/EffectsProofs.v. *)
From Coq Require Import List Arith ZArith Bool.
Import ListNotations.

Definition var := nat.

Inductive ref := RNull | RObj (o : nat) (offs : list nat).
Inductive obj := OBuf (d : list Z) | OCell (items : list ref).
Definition heap := list obj.
Definition env := var -> ref.

Definition upd {A} (f : nat -> A) (x : nat) (v : A) : nat -> A := fun y => if Nat.eqb y x then v else f y.

Fixpoint set_nth {A} (i : nat) (v : A) (l : list A) : list A :=
  match l, i with
  | [], _ => []
  | _ :: t, O => v :: t
  | a :: t, S j => a :: set_nth j v t
  end.
Fixpoint modify_nth {A} (i : nat) (f : A -> A) (l : list A) : list A :=
  match l, i with
  | [], _ => []
  | a :: t, O => f a :: t
  | a :: t, S j => a :: modify_nth j f t
  end.
Fixpoint del_nth {A} (i : nat) (l : list A) : list A :=
  match l, i with
  | [], _ => []
  | _ :: t, O => t
  | a :: t, S j => a :: del_nth j t
  end.
(* exactly n items: truncate or pad *)
Fixpoint take_pad {A} (d : A) (n : nat) (l : list A) : list A :=
  match n with
  | O => []
  | S m => match l with [] => d :: take_pad d m [] | a :: t => a :: take_pad d m t end
  end.

(* ------------------------------------------------------------------ commands *)
Inductive cmd :=
| Skip
| Seq (c1 c2 : cmd)
| Repeat (n : nat) (c : cmd)
| Alloc (x : var) (n : nat)                 (* x := a new array (zeros, or the result of arithmetic: NumPy allocates) *)
| Copy (x y : var)                          (* x := T.copy(y) / np.array(y) / y * 1 ... : new buffer with y's visible data *)
| View (x y : var) (sel : list nat)         (* x := y.T / y[a:b] / reshape(y) / transpose(y): SAME buffer, other offsets *)
| WriteInto (x : var) (vals : list Z)       (* x[...] = vals / index_update(x, ..) / np.copyto(x, ..) *)
| InplaceOp (x : var) (k : Z)               (* x *= k, x += k, x /= k ... *)
| ListNew (x : var) (ys : list var)         (* x := [y1, ..., yn] / (y1, ..., yn) / Wrapper(y1, ..., yn) *)
| ListCopy (x y : var) (n : nat)            (* x := list(y) for a y of n entries (shallow) *)
| ListGet (x y : var) (i : nat)             (* x := y[i] / y.attr *)
| ListSet (y : var) (i : nat) (x : var)     (* y[i] = x / y.attr = x *)
| ListRemove (y : var) (i : nat)            (* y.remove(v) / del y[i] / y.pop(i) *)
| ListPop (y : var)                         (* y.pop() *)
| ListAppend (y x : var)                    (* y.append(x) *)
| Rebind (x y : var)                        (* x = y *)
| Call (x : var) (body : cmd) (args : list var) (ret : var).
                                            (* x := f(args): the callee sees the references as its variables 0..n-1 *)

Fixpoint seq (cs : list cmd) : cmd := match cs with [] => Skip | c :: t => Seq c (seq t) end.

(* ------------------------------------------------------------------ concrete semantics *)
Definition buf_read (d : list Z) (offs : list nat) : list Z := map (fun i => nth i d 0%Z) offs.
Fixpoint buf_write (offs : list nat) (vals : list Z) (d : list Z) : list Z :=
  match offs, vals with
  | o :: offs', v :: vals' => buf_write offs' vals' (set_nth o v d)
  | _, _ => d
  end.
Fixpoint buf_scale (offs : list nat) (k : Z) (d : list Z) : list Z :=
  match offs with
  | o :: offs' => buf_scale offs' k (modify_nth o (fun v => (v * k)%Z) d)
  | [] => d
  end.

(* the only two ways an existing object is ever changed *)
Definition on_buf (g : list nat -> list Z -> list Z) (offs : list nat) (ob : obj) : obj :=
  match ob with OBuf d => OBuf (g offs d) | OCell it => OCell it end.
Definition on_cell (g : list ref -> list ref) (ob : obj) : obj :=
  match ob with OBuf d => OBuf d | OCell it => OCell (g it) end.
Definition wr_buf (r : ref) (g : list nat -> list Z -> list Z) (h : heap) : heap :=
  match r with RNull => h | RObj o offs => modify_nth o (on_buf g offs) h end.
Definition wr_cell (r : ref) (g : list ref -> list ref) (h : heap) : heap :=
  match r with RNull => h | RObj o _ => modify_nth o (on_cell g) h end.

Definition read_buf (h : heap) (r : ref) : list Z :=
  match r with
  | RNull => []
  | RObj o offs => match nth_error h o with Some (OBuf d) => buf_read d offs | _ => [] end
  end.
Definition read_cell (h : heap) (r : ref) : list ref :=
  match r with
  | RNull => []
  | RObj o _ => match nth_error h o with Some (OCell it) => it | _ => [] end
  end.
Definition view_ref (r : ref) (sel : list nat) : ref :=
  match r with RNull => RNull | RObj o offs => RObj o (map (fun i => nth i offs 0) sel) end.

Definition state := (env * heap)%type.

Definition call_env {A} (d : A) (e : nat -> A) (args : list var) : nat -> A :=
  fun i => match nth_error args i with Some y => e y | None => d end.

Fixpoint iter {A} (n : nat) (f : A -> A) (a : A) : A := match n with O => a | S m => iter m f (f a) end.

Fixpoint exec (c : cmd) (s : state) : state :=
  let '(e, h) := s in
  match c with
  | Skip => s
  | Seq c1 c2 => exec c2 (exec c1 s)
  | Repeat n c1 => iter n (exec c1) s
  | Alloc x n => (upd e x (RObj (length h) (List.seq 0 n)), h ++ [OBuf (repeat 0%Z n)])
  | Copy x y => let d := read_buf h (e y) in (upd e x (RObj (length h) (List.seq 0 (length d))), h ++ [OBuf d])
  | View x y sel => (upd e x (view_ref (e y) sel), h)
  | WriteInto x vals => (e, wr_buf (e x) (fun offs d => buf_write offs vals d) h)
  | InplaceOp x k => (e, wr_buf (e x) (fun offs d => buf_scale offs k d) h)
  | ListNew x ys => (upd e x (RObj (length h) []), h ++ [OCell (map e ys)])
  | ListCopy x y n => (upd e x (RObj (length h) []), h ++ [OCell (take_pad RNull n (read_cell h (e y)))])
  | ListGet x y i => (upd e x (nth i (read_cell h (e y)) RNull), h)
  | ListSet y i x => (e, wr_cell (e y) (set_nth i (e x)) h)
  | ListRemove y i => (e, wr_cell (e y) (del_nth i) h)
  | ListPop y => (e, wr_cell (e y) (@removelast ref) h)
  | ListAppend y x => (e, wr_cell (e y) (fun it => it ++ [e x]) h)
  | Rebind x y => (upd e x (e y), h)
  | Call x body args ret =>
      let '(e', h') := exec body (call_env RNull e args, h) in (upd e x (e' ret), h')
  end.

(* ------------------------------------------------------------------ abstract semantics *)
Inductive aref := ANull | AFresh (k : nat) | AU | AProt.
Inductive aobj := ABuf | ACell (items : list aref).
Definition aenv := var -> aref.
Definition astate := (aenv * list aobj)%type.

Definition can_write (a : aref) : bool := match a with AProt => false | _ => true end.

(* may the value be stored into a cell of the caller's in-place region? *)
Definition storable (ah : list aobj) (a : aref) : bool :=
  match a with
  | ANull | AU => true
  | AFresh k => match nth_error ah k with Some ABuf => true | _ => false end
  | AProt => false
  end.

Definition on_acell (g : list aref -> list aref) (ob : aobj) : aobj :=
  match ob with ABuf => ABuf | ACell it => ACell (g it) end.

(* a write to the cell designated by a; `stores` = the abstract value put into it, if any *)
Definition awr_cell (a : aref) (stores : option aref) (g : list aref -> list aref) (ah : list aobj) : option (list aobj) :=
  match a with
  | AProt => None
  | ANull => Some ah
  | AU => match stores with
          | None => Some ah
          | Some v => if storable ah v then Some ah else None
          end
  | AFresh k => Some (modify_nth k (on_acell g) ah)
  end.

Definition aread_cell (ah : list aobj) (a : aref) (i : nat) : aref :=
  match a with
  | ANull => ANull
  | AU => AU
  | AProt => AProt
  | AFresh k => match nth_error ah k with Some (ACell it) => nth i it ANull | _ => ANull end
  end.
Definition acopy_cell (ah : list aobj) (a : aref) (n : nat) : list aref :=
  match a with
  | ANull => repeat ANull n
  | AU => repeat AU n
  | AProt => repeat AProt n
  | AFresh k => match nth_error ah k with Some (ACell it) => take_pad ANull n it | _ => repeat ANull n end
  end.

Fixpoint oiter {A} (n : nat) (f : A -> option A) (a : A) : option A :=
  match n with O => Some a | S m => match f a with Some b => oiter m f b | None => None end end.

Fixpoint aexec (c : cmd) (s : astate) : option astate :=
  let '(e, ah) := s in
  match c with
  | Skip => Some s
  | Seq c1 c2 => match aexec c1 s with Some s1 => aexec c2 s1 | None => None end
  | Repeat n c1 => oiter n (aexec c1) s
  | Alloc x _ => Some (upd e x (AFresh (length ah)), ah ++ [ABuf])
  | Copy x _ => Some (upd e x (AFresh (length ah)), ah ++ [ABuf])
  | View x y _ => Some (upd e x (e y), ah)
  | WriteInto x _ => if can_write (e x) then Some s else None
  | InplaceOp x _ => if can_write (e x) then Some s else None
  | ListNew x ys => Some (upd e x (AFresh (length ah)), ah ++ [ACell (map e ys)])
  | ListCopy x y n => Some (upd e x (AFresh (length ah)), ah ++ [ACell (acopy_cell ah (e y) n)])
  | ListGet x y i => Some (upd e x (aread_cell ah (e y) i), ah)
  | ListSet y i x => match awr_cell (e y) (Some (e x)) (set_nth i (e x)) ah with Some ah' => Some (e, ah') | None => None end
  | ListRemove y i => match awr_cell (e y) None (del_nth i) ah with Some ah' => Some (e, ah') | None => None end
  | ListPop y => match awr_cell (e y) None (@removelast aref) ah with Some ah' => Some (e, ah') | None => None end
  | ListAppend y x => match awr_cell (e y) (Some (e x)) (fun it => it ++ [e x]) ah with Some ah' => Some (e, ah') | None => None end
  | Rebind x y => Some (upd e x (e y), ah)
  | Call x body args ret =>
      match aexec body (call_env ANull e args, ah) with
      | Some (e', ah') => Some (upd e x (e' ret), ah')
      | None => None
      end
  end.

(* arguments: reference + "documented as updated in place" flag *)
Definition arg_aref (inplace : bool) : aref := if inplace then AU else AProt.
Definition env0 (args : list ref) : env := fun x => nth x args RNull.
Definition aenv0 (flags : list bool) : aenv := fun x => nth x (map arg_aref flags) ANull.

Definition safe_with (flags : list bool) (c : cmd) : bool :=
  match aexec c (aenv0 flags, []) with Some _ => true | None => false end.
(* all arguments protected *)
Definition safe (nargs : nat) (c : cmd) : bool := safe_with (repeat false nargs) c.

(* ------------------------------------------------------------------ observation helpers (used by examples / Corr) *)
Fixpoint list_eqb {A} (eqb : A -> A -> bool) (a b : list A) : bool :=
  match a, b with
  | [], [] => true
  | x :: a', y :: b' => eqb x y && list_eqb eqb a' b'
  | _, _ => false
  end.
Definition ref_eqb (a b : ref) : bool :=
  match a, b with
  | RNull, RNull => true
  | RObj o1 f1, RObj o2 f2 => Nat.eqb o1 o2 && list_eqb Nat.eqb f1 f2
  | _, _ => false
  end.
Definition obj_eqb (a b : obj) : bool :=
  match a, b with
  | OBuf d1, OBuf d2 => list_eqb Z.eqb d1 d2
  | OCell i1, OCell i2 => list_eqb ref_eqb i1 i2
  | _, _ => false
  end.

(* positions of the initial heap whose object differs after running the program: the model's footprint *)
Definition footprint (c : cmd) (args : list ref) (h : heap) : list nat :=
  let h' := snd (exec c (env0 args, h)) in
  filter (fun o => match nth_error h o, nth_error h' o with
                   | Some a, Some b => negb (obj_eqb a b)
                   | _, _ => true end) (List.seq 0 (length h)).

(* ================================================================== aliasing skeletons
   Hand-written abstractions of what the anchored entry points do to their arguments and to the aliases of
   their arguments (third-order tensors, one option set each).  Arguments are the variables 0..n-1, locals
   start at 10.  "Alloc" stands for every NumPy expression that returns a new array.  Each `sk_*` mirrors the
   CURRENT code of /repo; each `old_*` mirrors the code before the corresponding `fix:` commit (kept as
   sensitivity witnesses: `safe` rejects every one of them). *)

Definition CPTENSOR (x w fs : var) : cmd := ListNew x [w; fs].      (* CPTensor((w, fs)): stores the SAME list *)

(* --- initialize_cp(tensor=0, init=1) with a user initialisation (weights, factors), weights not all one *)
Definition sk_initialize_cp_user : cmd := seq [
  ListGet 10 1 0; ListGet 11 1 1;            (* kt = CPTensor(init); weights, factors = kt *)
  ListCopy 12 11 3;                          (* factors = list(factors) *)
  ListGet 13 12 2; View 14 10 [0; 1];        (* factors[-1], reshape(weights, (1, -1)) *)
  Alloc 15 2; ListSet 12 2 15;               (* factors[-1] = factors[-1] * ... *)
  Rebind 16 16;                              (* weights = None *)
  ListNew 17 [16; 12] ].                     (* kt = CPTensor((None, factors))  -> variable 17 *)
Definition old_initialize_cp_user : cmd := seq [
  ListGet 10 1 0; ListGet 11 1 1;
  ListGet 13 11 0; Alloc 15 2; ListSet 11 0 15;   (* factors[i] = factors[i] * weights_avg  on the caller's list *)
  ListGet 13 11 1; Alloc 15 2; ListSet 11 1 15;
  ListGet 13 11 2; Alloc 15 2; ListSet 11 2 15;
  ListNew 17 [16; 11] ].

(* --- fixed_modes handling (parafac / non_negative_parafac and friends): the last mode cannot be fixed *)
Definition sk_fixed_modes (fm : var) : cmd := seq [ ListCopy 20 fm 2; ListRemove 20 1 ].
Definition old_fixed_modes (fm : var) : cmd := seq [ Rebind 20 fm; ListRemove 20 1 ].

(* --- the masked update  tensor = tensor * mask + reconstruction * (1 - mask) *)
Definition sk_masked_update (tensor mask : var) : cmd := seq [ Alloc 21 4; Rebind tensor 21 ].
Definition mut_masked_update (tensor mask : var) : cmd := seq [ InplaceOp tensor 2; Alloc 21 4; InplaceOp tensor 3 ].

(* one ALS sweep of parafac over the modes 0,1,2: factors[mode] = transpose(solve(...)) *)
Definition als_mode (factors : var) (mode : nat) : cmd := seq [
  ListGet 30 factors 0; ListGet 31 factors 1; ListGet 32 factors 2;   (* read all factors *)
  Alloc 33 4; InplaceOp 33 2;                (* pseudo_inverse (fresh), pseudo_inverse += Id *)
  Alloc 34 2;                                (* mttkrp *)
  Alloc 35 2; View 36 35 [1; 0];             (* transpose(solve(..)) : a view of a fresh array *)
  ListSet factors mode 36 ].

(* --- parafac(tensor=0, init=1, fixed_modes=2, mask=3), two sweeps, tol > 0 *)
Definition sk_parafac : cmd := seq [
  Call 22 sk_initialize_cp_user [0; 1] 17;
  ListGet 23 22 0; ListGet 24 22 1;          (* weights, factors = initialize_cp(...) *)
  sk_fixed_modes 2;
  Repeat 2 (seq [ als_mode 24 0; als_mode 24 1; als_mode 24 2; sk_masked_update 0 3 ]);
  CPTENSOR 25 23 24 ].
Definition old_parafac : cmd := seq [
  Call 22 old_initialize_cp_user [0; 1] 17;
  ListGet 23 22 0; ListGet 24 22 1;
  old_fixed_modes 2;
  Repeat 2 (seq [ als_mode 24 0; als_mode 24 1; als_mode 24 2; sk_masked_update 0 3 ]);
  CPTENSOR 25 23 24 ].
Definition mut_parafac_inplace_mask : cmd := seq [
  Call 22 sk_initialize_cp_user [0; 1] 17;
  ListGet 23 22 0; ListGet 24 22 1;
  sk_fixed_modes 2;
  Repeat 2 (seq [ als_mode 24 0; als_mode 24 1; als_mode 24 2; mut_masked_update 0 3 ]);
  CPTENSOR 25 23 24 ].

(* --- hals_nnls(UtM=0, UtU=1, V=2): V is documented as the start matrix and is updated in place
       (index_update on the NumPy backend assigns into its first argument and returns it) *)
Definition sk_hals_nnls : cmd := seq [
  Repeat 2 (seq [ Alloc 10 2; WriteInto 2 [1%Z; 2%Z]; Rebind 2 2 ]);   (* V = index_update(V, [k, :], newV) *)
  Rebind 11 2 ].                              (* return V -> variable 11 *)

(* --- non_negative_parafac_hals(tensor=0, init=1, sparsity_coefficients=2, fixed_modes=3) *)
Definition hals_mode (factors : var) (mode : nat) : cmd := seq [
  ListGet 30 factors 0; ListGet 31 factors 1; ListGet 32 factors 2;
  Alloc 33 4; Alloc 34 2; View 37 34 [1; 0];              (* pseudo_inverse, mttkrp, transpose(mttkrp) *)
  ListGet 38 factors mode; View 39 38 [1; 0]; Copy 40 39; (* tl.copy(tl.transpose(factors[mode])) *)
  Call 41 sk_hals_nnls [37; 33; 40] 11;
  View 42 41 [1; 0]; ListSet factors mode 42 ].
Definition old_hals_mode (factors : var) (mode : nat) : cmd := seq [
  ListGet 30 factors 0; ListGet 31 factors 1; ListGet 32 factors 2;
  Alloc 33 4; Alloc 34 2; View 37 34 [1; 0];
  ListGet 38 factors mode; View 39 38 [1; 0];             (* tl.transpose(factors[mode]) : a VIEW of the caller's array *)
  Call 41 sk_hals_nnls [37; 33; 39] 11;
  View 42 41 [1; 0]; ListSet factors mode 42 ].
Definition sk_sparsity (sc fm : var) : cmd := seq [
  ListCopy 26 sc 3; ListCopy 20 fm 1; ListSet 26 0 27 ].  (* sparsity_coefficients[fixed] = None on the COPY *)
Definition old_sparsity (sc fm : var) : cmd := seq [
  Rebind 26 sc; Rebind 20 fm; ListSet 26 0 27 ].
Definition sk_nn_parafac_hals : cmd := seq [
  Call 22 sk_initialize_cp_user [0; 1] 17;
  ListGet 23 22 0; ListGet 24 22 1;
  sk_sparsity 2 3;
  Repeat 2 (seq [ hals_mode 24 1; hals_mode 24 2 ]);
  CPTENSOR 25 23 24 ].
Definition old_nn_parafac_hals : cmd := seq [
  Call 22 sk_initialize_cp_user [0; 1] 17;
  ListGet 23 22 0; ListGet 24 22 1;
  sk_sparsity 2 3;
  Repeat 2 (seq [ old_hals_mode 24 1; old_hals_mode 24 2 ]);
  CPTENSOR 25 23 24 ].
Definition old_nn_parafac_hals_sparsity : cmd := seq [
  Call 22 sk_initialize_cp_user [0; 1] 17;
  ListGet 23 22 0; ListGet 24 22 1;
  old_sparsity 2 3;
  Repeat 2 (seq [ hals_mode 24 1; hals_mode 24 2 ]);
  CPTENSOR 25 23 24 ].

(* --- initialize_tucker(tensor=0, init=1) with init = (core, factors); tucker(tensor=0, init=1, mask=2) *)
Definition sk_initialize_tucker : cmd := seq [
  ListGet 10 1 0; ListGet 11 1 1; ListCopy 12 11 3; ListNew 13 [10; 12] ].
Definition old_initialize_tucker : cmd := seq [
  ListGet 10 1 0; ListGet 11 1 1; Rebind 12 11; ListNew 13 [10; 12] ].
Definition tucker_body (init_skel : cmd) : cmd := seq [
  Call 22 init_skel [0; 1] 13;
  ListGet 23 22 0; ListGet 24 22 1;
  Repeat 2 (seq [
    sk_masked_update 0 2;
    Alloc 30 4; Alloc 31 2; ListSet 24 0 31;
    Alloc 30 4; Alloc 31 2; ListSet 24 1 31;
    Alloc 30 4; Alloc 31 2; ListSet 24 2 31;
    Alloc 23 4 ]);
  ListNew 25 [23; 24] ].
Definition sk_tucker : cmd := tucker_body sk_initialize_tucker.
Definition old_tucker : cmd := tucker_body old_initialize_tucker.

(* --- cp_flip_sign(cp_tensor=0), mode = 0 *)
Definition flip_body (factors : var) : cmd := seq [
  ListGet 12 factors 1; Alloc 13 2; ListGet 14 factors 0; Alloc 15 2; ListSet factors 0 15; Alloc 16 2; ListSet factors 1 16;
  ListGet 12 factors 2; Alloc 13 2; ListGet 14 factors 0; Alloc 15 2; ListSet factors 0 15; Alloc 16 2; ListSet factors 2 16;
  Alloc 17 2; ListGet 14 factors 0; Alloc 15 2; ListSet factors 0 15; Alloc 18 2;
  CPTENSOR 19 18 factors ].
Definition sk_cp_flip_sign : cmd := seq [ ListGet 10 0 0; ListGet 11 0 1; ListCopy 20 11 3; flip_body 20 ].
Definition old_cp_flip_sign : cmd := seq [ ListGet 10 0 0; ListGet 11 0 1; Rebind 20 11; flip_body 20 ].

(* --- cp_permute_factors(ref=0, tensors_to_permute=1) with a list of one CP tensor *)
Definition sk_cp_copy : cmd := seq [      (* self = 0 *)
  ListGet 10 0 0; Copy 11 10; ListGet 12 0 1;
  ListGet 13 12 0; Copy 14 13; ListGet 13 12 1; Copy 15 13; ListGet 13 12 2; Copy 16 13;
  ListNew 17 [14; 15; 16]; CPTENSOR 18 11 17 ].
Definition sk_cp_normalize : cmd := seq [ (* cp_tensor = 0 *)
  ListGet 10 0 0; ListGet 11 0 1; ListNew 12 [];
  ListGet 13 11 0; Alloc 14 2; Alloc 10 2; Alloc 15 2; ListAppend 12 15;
  ListGet 13 11 1; Alloc 10 2; Alloc 15 2; ListAppend 12 15;
  ListGet 13 11 2; Alloc 10 2; Alloc 15 2; ListAppend 12 15;
  CPTENSOR 18 10 12 ].
Definition permute_body (ttp : var) : cmd := seq [
  ListNew 21 [];
  ListGet 22 ttp 0; Call 23 sk_cp_copy [22] 18; ListAppend 21 23;
  Call 24 sk_cp_normalize [22] 18; ListSet ttp 0 24;
  Call 25 sk_cp_normalize [0] 18; Rebind 0 25;
  Alloc 26 2;                                                    (* col *)
  ListGet 27 21 0; ListGet 28 27 1;
  ListGet 29 28 0; Alloc 30 2; ListSet 28 0 30;                  (* permuted.factors[f] = permuted.factors[f][:, col] *)
  ListGet 29 28 1; Alloc 30 2; ListSet 28 1 30;
  ListGet 29 28 2; Alloc 30 2; ListSet 28 2 30;
  ListGet 31 27 0; Alloc 32 2; ListSet 27 0 32 ].                (* permuted.weights = ... *)
Definition sk_cp_permute_factors : cmd := seq [ ListCopy 20 1 1; permute_body 20 ].
Definition old_cp_permute_factors : cmd := seq [ Rebind 20 1; permute_body 20 ].

(* --- einsum khatri_rao(matrices=0, mask=1) *)
Definition sk_khatri_rao_mask : cmd := seq [ ListCopy 10 0 3; ListAppend 10 1; Alloc 11 4; View 12 11 [0; 1; 2; 3] ].
Definition old_khatri_rao_mask : cmd := seq [ ListAppend 0 1; Alloc 11 4; View 12 11 [0; 1; 2; 3] ].

(* --- active_set_nnls(Utm=0, UtU=1, x=2) with a warm start *)
Definition active_set_body (update : cmd) : cmd := seq [
  View 10 2 [0; 1];                           (* x_vec = tensor_to_vec(x): reshape = a VIEW of x when x is contiguous *)
  Alloc 11 2; Alloc 12 2; Alloc 13 2; Alloc 14 2;   (* gradient, passive_set, active_set, support_vec *)
  Repeat 2 (seq [
    WriteInto 12 [1%Z]; WriteInto 13 [0%Z];   (* index_update on the (fresh) boolean masks *)
    Alloc 15 2; WriteInto 14 [1%Z; 1%Z];      (* passive solution -> support_vec *)
    Alloc 16 2; update;                       (* update = alpha * (support_vec - x_vec); x_vec = x_vec + update *)
    Alloc 12 2; Alloc 13 2;
    Alloc 17 2; Rebind 10 17; Alloc 11 2 ]) ]. (* x_vec = clip(support_vec) *)
Definition sk_active_set_nnls : cmd := active_set_body (seq [ Alloc 17 2; Rebind 10 17 ]).
Definition mut_active_set_nnls : cmd := active_set_body (InplaceOp 10 2).   (* x_vec += update *)

(* --- cp_mode_dot(cp_tensor=0, matrix_or_vector=1, mode=1) with a vector (contraction) *)
Definition mode_dot_vec_body (w fs : var) : cmd := seq [
  ListGet 20 fs 1; ListRemove fs 1;           (* factor = factors.pop(mode) *)
  Alloc 21 2;                                 (* factor = dot(vector, factor) *)
  ListGet 22 fs 0; Alloc 24 2; ListSet fs 0 24 ].   (* factors[mode - 1] = factors[mode - 1] * factor  (fix 93a737c: no longer in place) *)
(* before fix 93a737c: factors[mode - 1] *= factor wrote into the neighbouring factor ARRAY *)
Definition old_mode_dot_vec_body (w fs : var) : cmd := seq [
  ListGet 20 fs 1; ListRemove fs 1; Alloc 21 2; ListGet 22 fs 0; InplaceOp 22 2 ].
Definition old_cp_mode_dot_nocopy : cmd := seq [
  ListGet 10 0 0; ListGet 11 0 1; old_mode_dot_vec_body 10 11; Alloc 23 2; ListSet 0 2 23 ].
Definition sk_cp_mode_dot_copy : cmd := seq [
  ListGet 10 0 0; ListGet 11 0 1;
  ListGet 12 11 0; Copy 13 12; ListGet 12 11 1; Copy 14 12; ListGet 12 11 2; Copy 15 12;
  ListNew 16 [13; 14; 15]; Copy 17 10;
  mode_dot_vec_body 17 16; CPTENSOR 18 17 16 ].
Definition sk_cp_mode_dot_nocopy : cmd := seq [
  ListGet 10 0 0; ListGet 11 0 1;
  mode_dot_vec_body 10 11;
  Alloc 23 2; ListSet 0 2 23 ].               (* cp_tensor.shape = tuple(...) *)
(* matrix operand: factors[mode] = reshape(dot(matrix, factors[mode]), ..) *)
Definition sk_cp_mode_dot_matrix_nocopy : cmd := seq [
  ListGet 10 0 0; ListGet 11 0 1; ListGet 12 11 1; Alloc 13 2; View 14 13 [0; 1]; ListSet 11 1 14;
  Alloc 23 2; ListSet 0 2 23 ].

(* --- parafac2_to_slices(parafac2_tensor=0) with non-unit weights *)
Definition p2_slices_body (scale : cmd) : cmd := seq [
  ListGet 10 0 0; ListGet 11 0 1; ListGet 12 0 2;
  ListGet 13 11 0; ListGet 14 11 1; ListGet 15 11 2;
  scale;                                      (* A = A * weights *)
  ListNew 17 [13; 14; 15]; ListNew 18 [19; 17; 12];
  View 20 13 [0]; View 21 15 [1; 0]; ListGet 22 12 0; Alloc 23 2; Alloc 24 2; Alloc 25 4;
  View 20 13 [1]; ListGet 22 12 1; Alloc 23 2; Alloc 24 2; Alloc 26 4;
  ListNew 27 [25; 26] ].
Definition sk_parafac2_to_slices : cmd := p2_slices_body (seq [ Alloc 16 2; Rebind 13 16 ]).
Definition mut_parafac2_to_slices : cmd := p2_slices_body (InplaceOp 13 2).  (* A *= weights *)

(* --- CP_PLSR.fit(X=0, Y=1): explicit copies, then in-place centring and deflation of the copies *)
Definition sk_cp_plsr_fit : cmd := seq [ Copy 10 0; Copy 11 1; InplaceOp 10 2; InplaceOp 11 2; Alloc 12 2; InplaceOp 10 3 ].
Definition mut_cp_plsr_fit : cmd := seq [ Rebind 10 0; Copy 11 1; InplaceOp 10 2; InplaceOp 11 2; Alloc 12 2; InplaceOp 10 3 ].

(* --- CPTensor.normalize() / TuckerTensor.normalize(): mutator methods, self = 0 is documented as modified
       ("the tensor modifies itself"):  self.weights, self.factors = cp_normalize(self) *)
Definition sk_cp_normalize_method : cmd := seq [
  Call 20 sk_cp_normalize [0] 18; ListGet 21 20 0; ListGet 22 20 1; ListSet 0 0 21; ListSet 0 1 22 ].
(* CPTensor.normalize(inplace=False) after fix 9ada0b3: weights, factors = cp_normalize(self); return CPTensor((weights, factors)).
   (inplace=True is sk_cp_normalize_method followed by `return self`.) *)
Definition sk_cp_normalize_method_copy : cmd := seq [
  Call 20 sk_cp_normalize [0] 18; ListGet 21 20 0; ListGet 22 20 1; CPTENSOR 23 21 22 ].
Definition sk_tucker_normalize : cmd := seq [   (* tucker_tensor = 0 *)
  ListGet 10 0 0; ListGet 11 0 1; ListNew 12 [];
  ListGet 13 11 0; Alloc 14 2; Alloc 10 4; Alloc 15 2; ListAppend 12 15;
  ListGet 13 11 1; Alloc 14 2; Alloc 10 4; Alloc 15 2; ListAppend 12 15;
  ListGet 13 11 2; Alloc 14 2; Alloc 10 4; Alloc 15 2; ListAppend 12 15;
  ListNew 18 [10; 12] ].
Definition sk_tucker_normalize_method : cmd := seq [
  Call 20 sk_tucker_normalize [0] 18; ListGet 21 20 0; ListGet 22 20 1; ListSet 0 0 21; ListSet 0 1 22 ].

(* --- process_regularization_weights(ridge_coefficients=0, sparsity_coefficients=1, n_modes): list arguments are copied
       (`list(...)`, fix 58815dd), then `ridge_coefficients[i] = 0` / `sparsity_coefficients[i] = 0` (None entries) and
       `ridge_coefficients[i] = max(sparsity_coefficients)` (unregularised modes) assign into the COPIES.
       nr / ns = positions of None entries of the two lists, dg = unregularised positions, mx = position of the maximum,
       n = length of the lists.  `old_prw` mirrors the code before the fix (assignments into the caller's lists). *)
Definition prw_writes (r s : var) (nr ns dg : list nat) (mx : nat) : cmd := seq (
  map (fun i => Seq (Alloc 10 1) (ListSet r i 10)) nr ++
  map (fun i => Seq (Alloc 10 1) (ListSet s i 10)) ns ++
  map (fun i => Seq (ListGet 11 s mx) (ListSet r i 11)) dg).
Definition sk_prw (n : nat) (nr ns dg : list nat) (mx : nat) : cmd :=
  seq [ ListCopy 20 0 n; ListCopy 21 1 n; prw_writes 20 21 nr ns dg mx; ListNew 12 [20; 21] ].
Definition old_prw (nr ns dg : list nat) (mx : nat) : cmd := Seq (prw_writes 0 1 nr ns dg mx) (ListNew 12 [0; 1]).

(* --- tucker_mode_dot(tucker_tensor=0, matrix_or_vector=1, mode=1): copy=True works on copies; copy=False (the default)
       pops from / assigns into the caller's factor list (vector: factors.pop(mode), a new core; matrix: factors[mode] = ...) *)
Definition sk_tucker_mode_dot_copy : cmd := seq [
  ListGet 10 0 0; ListGet 11 0 1;
  ListGet 12 11 0; Copy 13 12; ListGet 12 11 1; Copy 14 12; ListGet 12 11 2; Copy 15 12;
  ListNew 16 [13; 14; 15]; Copy 17 10;
  ListGet 20 16 1; ListRemove 16 1; Alloc 21 2; Alloc 22 4;      (* f = factors.pop(mode); core = mode_dot(core, dot(v, f)) *)
  ListNew 23 [22; 16] ].
Definition sk_tucker_mode_dot_vec_nocopy : cmd := seq [
  ListGet 10 0 0; ListGet 11 0 1;
  ListGet 20 11 1; ListRemove 11 1; Alloc 21 2; Alloc 22 4;
  ListNew 23 [22; 11] ].
Definition sk_tucker_mode_dot_matrix_nocopy : cmd := seq [
  ListGet 10 0 0; ListGet 11 0 1; ListGet 12 11 1; Alloc 13 2; View 14 13 [0; 1]; ListSet 11 1 14;
  ListNew 23 [10; 11] ].

(* --- index_update(tensor=0, indices, values=1) on the NumPy backend: assigns into its first argument and returns it *)
Definition sk_index_update : cmd := seq [ WriteInto 0 [1%Z; 2%Z]; Rebind 10 0 ].

(* --- estimator classes (CP, CP_NN_HALS, Tucker ...): `est.fit_transform(tensor)` with self = 0, tensor = 1.  The receiver
       holds the user's options (init, fixed_modes, mask / sparsity_coefficients ...) as its first `nattr` attributes; they are
       handed to the decomposition function `body`, whose result is stored as self.decomposition_ (attribute `nattr`). *)
Definition estimator_fit_pre (nattr : nat) (body : cmd) (ret : var) : list cmd :=
  map (fun i => ListGet (10 + i) 0 i) (List.seq 0 nattr) ++ [ Call 20 body (1 :: map (fun i => 10 + i) (List.seq 0 nattr)) ret ].
Definition sk_estimator_fit (nattr : nat) (body : cmd) (ret : var) : cmd :=
  seq (estimator_fit_pre nattr body ret ++ [ ListSet 0 nattr 20 ]).

(* ================================================================== early exits
   `run c n s` executes at most n primitive commands of c and then stops (an exception raised between two effects
   propagates to the caller: nothing else of the program runs).  Some m = completed with m steps to spare,
   None = interrupted. *)
Definition is_prim (c : cmd) : bool :=
  match c with Seq _ _ | Repeat _ _ | Call _ _ _ _ => false | _ => true end.
Fixpoint run_iter (k : nat) (f : nat -> state -> state * option nat) (n : nat) (s : state) : state * option nat :=
  match k with
  | O => (s, Some n)
  | S k' => match f n s with
            | (s1, Some m) => run_iter k' f m s1
            | (s1, None) => (s1, None)
            end
  end.
Fixpoint run (c : cmd) (n : nat) (s : state) : state * option nat :=
  match c with
  | Seq c1 c2 => match run c1 n s with
                 | (s1, Some m) => run c2 m s1
                 | (s1, None) => (s1, None)
                 end
  | Repeat k c1 => run_iter k (run c1) n s
  | Call x body args ret =>
      let '(e, h) := s in
      match run body n (call_env RNull e args, h) with
      | ((e', h'), Some m) => ((upd e x (e' ret), h'), Some m)
      | ((e', h'), None) => ((e, h'), None)
      end
  | _ => match n with O => (s, None) | S m => (exec c s, Some m) end
  end.

(* ================================================================== caught exceptions: try / except
   aprefixes c s = the abstract states at all interruption points of c; safe_try = body accepted and handler accepted from
   every one of them (Proofs/EffectsProofsTry.v).  A program with ONE try statement: pre; try: c except: hd; rest.
   exec_try ... n = the body raises after n primitive effects (n >= its size: no exception, the handler is skipped). *)
Fixpoint rep_prefixes (k : nat) (pre : astate -> list astate) (step : astate -> option astate) (s : astate) : list astate :=
  match k with
  | O => []
  | S k' => pre s ++ match step s with Some s1 => rep_prefixes k' pre step s1 | None => [] end
  end.

Fixpoint aprefixes (c : cmd) (s : astate) : list astate :=
  match c with
  | Seq c1 c2 => aprefixes c1 s ++ match aexec c1 s with Some s1 => aprefixes c2 s1 | None => [] end
  | Repeat k c1 => rep_prefixes k (aprefixes c1) (aexec c1) s
  | Call x body args ret => map (fun s' => (fst s, snd s')) (aprefixes body (call_env ANull (fst s) args, snd s))
  | _ => [s]
  end.

Definition is_some {A} (o : option A) : bool := match o with Some _ => true | None => false end.

Definition safe_try_with (flags : list bool) (c hd : cmd) : bool :=
  is_some (aexec c (aenv0 flags, [])) && forallb (fun s => is_some (aexec hd s)) (aprefixes c (aenv0 flags, [])).
Definition safe_try (nargs : nat) (c hd : cmd) : bool := safe_try_with (repeat false nargs) c hd.

Definition exec_try (pre c hd rest : cmd) (n : nat) (s : state) : state :=
  match run c n (exec pre s) with
  | (s1, Some _) => exec rest s1
  | (s1, None) => exec rest (exec hd s1)
  end.
Definition safe_tryprog_with (flags : list bool) (pre c hd rest : cmd) : bool :=
  match aexec pre (aenv0 flags, []) with
  | None => false
  | Some s1 =>
      match aexec c s1 with
      | None => false
      | Some s2 =>
          is_some (aexec rest s2) &&
          forallb (fun sp => match aexec hd sp with Some s3 => is_some (aexec rest s3) | None => false end) (aprefixes c s1)
      end
  end.
Definition safe_tryprog (nargs : nat) (pre c hd rest : cmd) : bool := safe_tryprog_with (repeat false nargs) pre c hd rest.
Definition footprint_try (pre c hd rest : cmd) (n : nat) (args : list ref) (h : heap) : list nat :=
  let h' := snd (exec_try pre c hd rest n (env0 args, h)) in
  filter (fun o => match nth_error h o, nth_error h' o with
                   | Some a, Some b => negb (obj_eqb a b)
                   | _, _ => true end) (List.seq 0 (length h)).

(* Programs with SEVERAL try statements (try / except / finally = TSeq (TTry c hd) (TPlain final); a try inside a loop =
   trepeat).  The oracle `ns` gives, for each try statement in execution order, the position at which its body raises
   (past the end of the body: no exception); an exhausted oracle means no more exceptions.
   tstates = the abstract states possible after the program (None = rejected). *)
Inductive tcmd := TPlain (c : cmd) | TTry (c hd : cmd) | TSeq (a b : tcmd).
Fixpoint trepeat (k : nat) (b : tcmd) : tcmd := match k with O => TPlain Skip | S k' => TSeq b (trepeat k' b) end.
Fixpoint texec (t : tcmd) (ns : list nat) (s : state) : state * list nat :=
  match t with
  | TPlain c => (exec c s, ns)
  | TTry c hd =>
      match ns with
      | [] => (exec c s, [])
      | n :: ns' => match run c n s with (s1, Some _) => (s1, ns') | (s1, None) => (exec hd s1, ns') end
      end
  | TSeq a b => let '(s1, ns1) := texec a ns s in texec b ns1 s1
  end.
Fixpoint tbind {A B} (l : list A) (f : A -> option (list B)) : option (list B) :=
  match l with
  | [] => Some []
  | a :: t => match f a, tbind t f with Some x, Some y => Some (x ++ y) | _, _ => None end
  end.
Definition one_state (o : option astate) : option (list astate) := match o with Some s => Some [s] | None => None end.
Fixpoint tstates (t : tcmd) (l : list astate) : option (list astate) :=
  match t with
  | TPlain c => tbind l (fun s => one_state (aexec c s))
  | TTry c hd =>
      tbind l (fun s => match aexec c s with
                        | None => None
                        | Some s2 => match tbind (aprefixes c s) (fun sp => one_state (aexec hd sp)) with
                                     | Some hs => Some (s2 :: hs)
                                     | None => None
                                     end
                        end)
  | TSeq a b => match tstates a l with Some l1 => tstates b l1 | None => None end
  end.
Definition tsafe_with (flags : list bool) (t : tcmd) : bool := is_some (tstates t [(aenv0 flags, [])]).
Definition tsafe (nargs : nat) (t : tcmd) : bool := tsafe_with (repeat false nargs) t.

(* --- the entry points of the anchored packages that CATCH exceptions and go on (the other handlers re-raise: that is `run`).
   tryprog = (pre, body, handler, rest) *)
Definition tryprog := (cmd * cmd * cmd * cmd)%type.
(* active_set_nnls(Utm=0, UtU=1, x=2): `try: passive_solution = solve(..); support_vec = index_update(support_vec, ..) ...
   except: x_vec = zeros(..); support_vec = zeros(..); passive_set = ..; active_set = ..` inside the sweep *)
Definition tp_active_set_nnls : tryprog :=
  ( seq [ View 10 2 [0; 1]; Alloc 11 2; Alloc 12 2; Alloc 13 2; Alloc 14 2; WriteInto 12 [1%Z]; WriteInto 13 [0%Z] ],
    seq [ Alloc 15 2; WriteInto 14 [1%Z; 1%Z]; WriteInto 14 [0%Z; 0%Z] ],
    seq [ Alloc 10 2; Alloc 14 2; Alloc 12 2; Alloc 13 2 ],
    seq [ Alloc 16 2; Alloc 17 2; Rebind 10 17; Alloc 12 2; Alloc 13 2; Alloc 17 2; Rebind 10 17; Alloc 11 2 ] ).
(* seeded mutant: the handler resets the warm start in place (x_vec[...] = 0) - x_vec is still a view of the caller's x *)
Definition tp_active_set_nnls_mut : tryprog :=
  let '(pre, c, hd, rest) := tp_active_set_nnls in (pre, c, Seq (WriteInto 10 [0%Z; 0%Z]) hd, rest).
(* vonneumann_entropy(tensor=0): `try: eig_vals = eigh(tensor) except: tensor = (tensor + transpose(tensor)) / 2; eig_vals = eigh(tensor)` *)
Definition tp_vonneumann_entropy : tryprog :=
  ( seq [ View 10 0 [0; 1; 2; 3]; Rebind 0 10 ], seq [ Alloc 11 2 ], seq [ View 12 0 [0; 2; 1; 3]; Alloc 13 4; Rebind 0 13; Alloc 11 2 ], seq [ Alloc 14 1 ] ).
(* matricize(tensor=0, row_modes=1, column_modes=2) / the mode normalisation of tensordot: `try: idx = list(modes) except TypeError: idx = [modes]` *)
Definition tp_modes_to_list : tryprog :=
  ( Skip, seq [ ListCopy 10 1 2 ], seq [ ListNew 10 [1] ], seq [ ListCopy 11 2 1; ListNew 12 [10; 11]; Alloc 13 4; View 14 0 [0; 1] ] ).
(* tensor_train_cross(input_tensor=0, rank=1): `try: factor_new[k-1] = transpose(Q); factor_new[k-1] = reshape(..) except: raise ValueError`
   (factor_new is a list allocated by the run; the handler re-raises: nothing runs after it) *)
Definition tp_tt_cross : tryprog :=
  ( seq [ ListCopy 10 1 4; Alloc 11 2; Alloc 12 2; ListNew 13 [11; 12] ], seq [ Alloc 14 2; View 15 14 [1; 0]; ListSet 13 0 15; View 16 15 [0; 1]; ListSet 13 0 16 ], Skip, Skip ).
Definition tc_active_set (hd : cmd) : tcmd :=
  let '(pre, c, _, rest) := tp_active_set_nnls in
  TSeq (TPlain (seq [ View 10 2 [0; 1]; Alloc 11 2; Alloc 12 2; Alloc 13 2; Alloc 14 2 ]))
       (TSeq (trepeat 2 (TSeq (TPlain (seq [ WriteInto 12 [1%Z]; WriteInto 13 [0%Z] ])) (TSeq (TTry c hd) (TPlain rest))))
             (TPlain (Alloc 18 2))).
Definition tc_active_set_nnls : tcmd := tc_active_set (seq [ Alloc 10 2; Alloc 14 2; Alloc 12 2; Alloc 13 2 ]).
Definition try_skeletons : list (nat * tryprog) :=
  [ (3, tp_active_set_nnls); (1, tp_vonneumann_entropy); (3, tp_modes_to_list); (2, tp_tt_cross) ].

(* TTTensor(factors, inplace=..) / TTMatrix(factors, inplace=..) / TRTensor(factors): the constructor validates and stores the SAME list,
   whatever the (undocumented, unused) flag says: nothing is written; factors = 0 *)
Definition sk_wrapper_ctor : cmd := seq [ ListGet 10 0 0; ListGet 11 0 1; Alloc 12 1; Alloc 13 1; ListNew 14 [0; 12; 13] ].

(* ================================================================== order-generic skeleton families
   The same skeletons for an arbitrary number of modes N, an arbitrary number of sweeps and arbitrary list
   lengths; `safe` is proved for ALL parameter values by induction (Proofs/EffectsProofsGen.v). *)
Definition read_all (factors : var) (N : nat) : cmd := seq (map (fun i => ListGet 30 factors i) (List.seq 0 N)).
(* initialize_cp with a user init of N factors, weights absorbed into the last one *)
Definition sk_initialize_cp_gen (N : nat) : cmd := seq [
  ListGet 10 1 0; ListGet 11 1 1; ListCopy 12 11 N;
  ListGet 13 12 (pred N); View 14 10 [0; 1]; Alloc 15 2; ListSet 12 (pred N) 15;
  ListNew 17 [16; 12] ].
Definition sk_fixed_modes_gen (fm len : nat) (rm : option nat) : cmd :=
  Seq (ListCopy 20 fm len) (match rm with Some i => ListRemove 20 i | None => Skip end).
Definition als_mode_gen (factors : var) (N mode : nat) : cmd := seq [
  read_all factors N; Alloc 33 4; InplaceOp 33 2; Alloc 34 2; Alloc 35 2; View 36 35 [1; 0]; ListSet factors mode 36 ].
(* parafac(tensor=0, init=1, fixed_modes=2, mask=3): N modes, `modes` = the updated modes in order *)
Definition sk_parafac_gen (N sweeps fmlen : nat) (rm : option nat) (modes : list nat) : cmd := seq [
  Call 22 (sk_initialize_cp_gen N) [0; 1] 17;
  ListGet 23 22 0; ListGet 24 22 1;
  sk_fixed_modes_gen 2 fmlen rm;
  Repeat sweeps (Seq (seq (map (als_mode_gen 24 N) modes)) (sk_masked_update 0 3));
  CPTENSOR 25 23 24 ].
Definition hals_mode_gen (factors : var) (N mode : nat) : cmd := seq [
  read_all factors N; Alloc 33 4; Alloc 34 2; View 37 34 [1; 0];
  ListGet 38 factors mode; View 39 38 [1; 0]; Copy 40 39;
  Call 41 sk_hals_nnls [37; 33; 40] 11;
  View 42 41 [1; 0]; ListSet factors mode 42 ].
(* non_negative_parafac_hals(tensor=0, init=1, sparsity_coefficients=2, fixed_modes=3) *)
Definition sk_nn_parafac_hals_gen (N sweeps sclen fmlen : nat) (fixed modes : list nat) : cmd := seq [
  Call 22 (sk_initialize_cp_gen N) [0; 1] 17;
  ListGet 23 22 0; ListGet 24 22 1;
  ListCopy 26 2 sclen; ListCopy 20 3 fmlen; seq (map (fun i => ListSet 26 i 27) fixed);
  Repeat sweeps (seq (map (hals_mode_gen 24 N) modes));
  CPTENSOR 25 23 24 ].
(* tucker(tensor=0, init=1, mask=2) *)
Definition sk_initialize_tucker_gen (N : nat) : cmd := seq [
  ListGet 10 1 0; ListGet 11 1 1; ListCopy 12 11 N; ListNew 13 [10; 12] ].
Definition sk_tucker_gen (N sweeps : nat) (modes : list nat) : cmd := seq [
  Call 22 (sk_initialize_tucker_gen N) [0; 1] 13;
  ListGet 23 22 0; ListGet 24 22 1;
  Repeat sweeps (seq [
    sk_masked_update 0 2;
    seq (map (fun m => seq [ Alloc 30 4; Alloc 31 2; ListSet 24 m 31 ]) modes);
    Alloc 23 4 ]);
  ListNew 25 [23; 24] ].

(* ================================================================== the region reachable from the documented in-place arguments
   (computed by the correspondence on the transmitted heap; Proofs/EffectsProofsReach.v: with the closure certificate
   `region_closed` it is exactly the set `reach` of the in-place frame theorem) *)
Definition children (h : heap) (o : nat) : list nat :=
  match nth_error h o with
  | Some (OCell it) => flat_map (fun r => match r with RNull => [] | RObj o' _ => [o'] end) it
  | _ => []
  end.
Definition memb (x : nat) (l : list nat) : bool := existsb (Nat.eqb x) l.
Fixpoint reach_set (fuel : nat) (h : heap) (cur : list nat) : list nat :=
  match fuel with
  | O => cur
  | S f => reach_set f h (cur ++ filter (fun o => negb (memb o cur)) (flat_map (children h) cur))
  end.
Definition region_roots (args : list ref) (flags : list bool) : list nat :=
  flat_map (fun p => match p with (RObj o _, true) => [o] | _ => [] end) (combine args flags).
Definition inplace_region (h : heap) (args : list ref) (flags : list bool) : list nat :=
  reach_set (length h) h (region_roots args flags).
(* certificate: the computed set is closed under `children` (then it contains everything reachable) *)
Definition region_closed (h : heap) (cur : list nat) : bool :=
  forallb (fun o => forallb (fun c => memb c cur) (children h o)) cur.


(* ================================================================== programs with choices (extracted skeletons)
   pcmd = cmd + nondeterministic choice (an `if` whose test is data dependent), bounded loops and calls whose bodies
   contain choices.  A pcmd DENOTES the list of its paths (every resolution of every choice, independently per loop
   iteration); `paexec` runs the abstract interpreter on all paths at once, sharing common prefixes;
   `psafe_with` = all paths accepted (sound w.r.t. `paths`: Proofs/EffectsProofsPaths.v). *)
Inductive pcmd :=
| PPrim (c : cmd)
| PSeq (a b : pcmd)
| PChoice (a b : pcmd)
| PRepeat (n : nat) (b : pcmd)
| PCall (x : var) (body : pcmd) (args : list var) (ret : var).

Fixpoint pseq (ps : list pcmd) : pcmd := match ps with [] => PPrim Skip | p :: t => PSeq p (pseq t) end.

Definition seq_paths (la lb : list cmd) : list cmd := flat_map (fun a => map (fun b => Seq a b) lb) la.
Fixpoint rep_paths (n : nat) (lb : list cmd) : list cmd :=
  match n with O => [Skip] | S m => seq_paths lb (rep_paths m lb) end.
Fixpoint paths (p : pcmd) : list cmd :=
  match p with
  | PPrim c => [c]
  | PSeq a b => seq_paths (paths a) (paths b)
  | PChoice a b => paths a ++ paths b
  | PRepeat n b => rep_paths n (paths b)
  | PCall x body args ret => map (fun c => Call x c args ret) (paths body)
  end.

(* shared-prefix abstract execution of all paths *)
Fixpoint obind {A B} (l : list A) (f : A -> option (list B)) : option (list B) :=
  match l with
  | [] => Some []
  | a :: t => match f a, obind t f with Some x, Some y => Some (x ++ y) | _, _ => None end
  end.
Fixpoint prep {A} (n : nat) (f : A -> option (list A)) (a : A) : option (list A) :=
  match n with O => Some [a] | S m => match f a with Some l => obind l (prep m f) | None => None end end.
Fixpoint paexec (p : pcmd) (s : astate) : option (list astate) :=
  match p with
  | PPrim c => match aexec c s with Some s' => Some [s'] | None => None end
  | PSeq a b => match paexec a s with Some l => obind l (paexec b) | None => None end
  | PChoice a b => match paexec a s, paexec b s with Some x, Some y => Some (x ++ y) | _, _ => None end
  | PRepeat n b => prep n (paexec b) s
  | PCall x body args ret =>
      let '(e, ah) := s in
      match paexec body (call_env ANull e args, ah) with
      | Some l => Some (map (fun s' => (upd e x (fst s' ret), snd s')) l)
      | None => None
      end
  end.
Definition psafe_with (flags : list bool) (p : pcmd) : bool :=
  match paexec p (aenv0 flags, []) with Some _ => true | None => false end.


(* a concrete caller heap used by the examples: a tensor, a CP initialisation (weights, [A, B, C]) whose
   B is a transposed view, a fixed_modes list and a mask *)
Definition demo_heap : heap := [
  OBuf [1; 2; 3; 4]%Z;                                          (* 0 tensor *)
  OBuf [2; 3]%Z; OBuf [1; 2]%Z; OBuf [3; 4]%Z; OBuf [5; 6]%Z;   (* 1 weights, 2 A, 3 B, 4 C *)
  OCell [RObj 2 [0; 1]; RObj 3 [1; 0]; RObj 4 [0; 1]];          (* 5 the factor list *)
  OCell [RObj 1 [0; 1]; RObj 5 []];                             (* 6 init = (weights, factors) *)
  OCell [RObj 7 []; RObj 7 []];                                 (* 7 fixed_modes (entries: immaterial) *)
  OBuf [1; 0; 1; 1]%Z ].                                        (* 8 mask *)
Definition demo_args : list ref := [RObj 0 [0; 1; 2; 3]; RObj 6 []; RObj 7 []; RObj 8 [0; 1; 2; 3]].
