(* C15, round 7 -- skeleton families for two more pieces of code whose safety rests on ONE copy each, generic in every size:
     non_negative_tucker (in-place multiplicative updates `nn_factors[mode] *= ..`, `nn_core *= ..` on what
       initialize_tucker(non_negative=True) returns: tl.abs must allocate, also for arrays without a negative entry), and
     monotonicity_prox / unimodality_prox (index_update writes into tensor_mon / tensor_unimodal: tl.copy must come BEFORE
       tl.flip - np.flip is a view - and before the reshape of a 1-D input, which is a view as well),
   together with the seeded-defect FAMILIES (`mut_*`: which arrays are passed by reference / which branch skips the copy) whose
   visibility conditions are theorems of Proofs/EffectsProofsR7.v.  Definitions only. *)
From Coq Require Import List Arith ZArith Bool.
From TLV Require Import Model.Effects.
Import ListNotations.

(* ------------------------------------------------------------------ initialize_tucker(tensor=0, init=1, non_negative=True) *)
(* dst.append(tl.abs(src[i])) for i < N  (also: the new factor list of tucker_normalize) *)
Definition abs_all (src dst : var) (N : nat) : cmd :=
  seq (map (fun i => seq [ListGet 13 src i; Alloc 15 2; ListAppend dst 15]) (List.seq 0 N)).
Definition sk_initialize_tucker_nn_gen (N : nat) : cmd := seq [
  ListGet 10 1 0; ListGet 11 1 1; ListCopy 12 11 N;      (* core, factors = init; factors = list(factors) *)
  ListNew 14 []; abs_all 12 14 N;                        (* factors = [tl.abs(f) for f in factors] *)
  Alloc 16 4;                                            (* core = tl.abs(core) *)
  ListNew 17 [16; 14] ].
(* seeded-defect family E: tl.abs only of the arrays that contain a negative entry; `byref` = the factors WITHOUT a negative
   entry (passed through by reference), coreref = the core has none *)
Definition abs_some (src dst : var) (N : nat) (byref : list nat) : cmd :=
  seq (map (fun i => seq [ListGet 13 src i; (if memb i byref then Rebind 15 13 else Alloc 15 2); ListAppend dst 15]) (List.seq 0 N)).
Definition mut_initialize_tucker_nn (N : nat) (byref : list nat) (coreref : bool) : cmd := seq [
  ListGet 10 1 0; ListGet 11 1 1; ListCopy 12 11 N;
  ListNew 14 []; abs_some 12 14 N byref;
  (if coreref then Rebind 16 10 else Alloc 16 4);
  ListNew 17 [16; 14] ].

(* ------------------------------------------------------------------ non_negative_tucker(tensor=0, init=1) *)
Definition nn_tucker_mode (core factors : var) (N mode : nat) : cmd := seq [
  read_all factors N; Alloc 31 4; View 32 31 [1; 0];     (* B = transpose(unfold(tucker_to_tensor((core, factors), skip_factor=mode), mode)) *)
  Alloc 33 2; Alloc 34 2;                                (* numerator, denominator (dot, clip) *)
  ListGet 35 factors mode; InplaceOp 35 2; ListSet factors mode 35 ].      (* nn_factors[mode] *= numerator / denominator *)
Definition nn_tucker_core (core factors : var) (N : nat) : cmd := seq [
  read_all factors N; Alloc 33 4; Alloc 34 4; InplaceOp core 2 ].          (* nn_core *= numerator / denominator *)
(* nn_core, nn_factors = tucker_normalize((nn_core, nn_factors)): new arrays in a new list *)
Definition tucker_renorm (core factors : var) (N : nat) : cmd := seq [
  ListNew 28 []; abs_all factors 28 N; Alloc 29 4; Rebind core 29; Rebind factors 28 ].
Definition nn_tucker_body (init_skel : cmd) (N sweeps : nat) (normalize : bool) (modes : list nat) : cmd := seq [
  init_skel; Rebind 23 16; Rebind 24 14;                 (* nn_core, nn_factors = initialize_tucker(..., non_negative=True), inlined:
                                                            the callee leaves the core in 16 and the factor list in 14 *)
  (if normalize then tucker_renorm 23 24 N else Skip);
  Repeat sweeps (seq [ seq (map (nn_tucker_mode 23 24 N) modes); nn_tucker_core 23 24 N;
                       (if normalize then tucker_renorm 23 24 N else Skip) ]);
  ListNew 25 [23; 24] ].
Definition sk_nn_tucker_gen (N sweeps : nat) (normalize : bool) (modes : list nat) : cmd :=
  nn_tucker_body (sk_initialize_tucker_nn_gen N) N sweeps normalize modes.
Definition mut_nn_tucker (N sweeps : nat) (normalize : bool) (modes byref : list nat) (coreref : bool) : cmd :=
  nn_tucker_body (mut_initialize_tucker_nn N byref coreref) N sweeps normalize modes.

(* ------------------------------------------------------------------ monotonicity_prox(tensor=0, decreasing) *)
(* 1-D input: tensor = tl.reshape(tensor, [n, 1]) - a VIEW of the caller's vector *)
Definition to_column (vec : bool) : cmd := if vec then View 0 0 [0; 1] else Skip.
(* one column j: assisted_tensor filled row by row, tensor_mon[:, j] = max(..), then the backward pass *)
Definition mono_column (rows : nat) : cmd := seq [
  Alloc 12 4;
  Repeat rows (seq [View 13 11 [0]; Alloc 14 1; WriteInto 12 [1%Z]; Rebind 12 12]);    (* assisted = index_update(assisted, [i, i:], ..) *)
  Alloc 15 1; WriteInto 10 [1%Z]; Rebind 10 10;                                       (* tensor_mon = index_update(tensor_mon, [:, j], ..) *)
  Repeat (pred rows) (Seq (WriteInto 10 [1%Z]) (Rebind 10 10)) ].                      (* tensor_mon = index_update(tensor_mon, [i, j], ..) *)
Definition mono_body (first : cmd) (dec vec : bool) (rows cols : nat) : cmd := seq [
  to_column vec; first;                                  (* tensor_mon = tl.copy(tensor) *)
  (if dec then View 10 10 [1; 0] else Skip);             (* tensor_mon = tl.flip(tensor_mon, axis=0): a view of the COPY *)
  Alloc 11 2;                                            (* cum_sum *)
  Repeat cols (mono_column rows);
  (if dec then View 10 10 [1; 0] else Skip) ].           (* result: variable 10 *)
Definition sk_monotonicity_prox (dec vec : bool) (rows cols : nat) : cmd := mono_body (Copy 10 0) dec vec rows cols.
(* seeded-defect family F: (1) decreasing=True works on tl.flip(tensor), a view of the input; (2) 1-D inputs skip the copy *)
Definition mut_monotonicity_prox_flip (dec vec : bool) (rows cols : nat) : cmd :=
  mono_body (if dec then Rebind 10 0 else Copy 10 0) dec vec rows cols.
Definition mut_monotonicity_prox_vec (dec vec : bool) (rows cols : nat) : cmd :=
  mono_body (if vec then Rebind 10 0 else Copy 10 0) dec vec rows cols.

(* ------------------------------------------------------------------ unimodality_prox(tensor=0) *)
Definition unimodal_body (first : cmd) (vec : bool) (rows cols : nat) : cmd := seq [
  to_column vec;                                         (* tl.vec_to_tensor(tensor, [n, 1]) *)
  first;                                                 (* tensor_unimodal = tl.copy(tensor) *)
  Call 21 (sk_monotonicity_prox false false rows cols) [0] 10; Copy 21 21;      (* monotone_increasing = tl.tensor(monotonicity_prox(tensor)) *)
  Call 22 (sk_monotonicity_prox true false rows cols) [0] 10; Copy 22 22;       (* monotone_decreasing *)
  Alloc 23 2; Alloc 24 2; View 25 0 [1; 0]; View 26 22 [1; 0]; Alloc 27 2; Alloc 28 2; Alloc 29 1;
                                                         (* values, sum_inc, flip(tensor), flip(monotone_decreasing), sum_dec, difference, min_indice *)
  Repeat cols (seq [ View 30 21 [0]; WriteInto 20 [1%Z]; Rebind 20 20;         (* tensor_unimodal = index_update(.., [:k, i], inc[:k, i]) *)
                     View 31 22 [0]; WriteInto 20 [1%Z]; Rebind 20 20 ]) ].    (* result: variable 20 *)
Definition sk_unimodality_prox (vec : bool) (rows cols : nat) : cmd := unimodal_body (Copy 20 0) vec rows cols.
(* seeded: the result buffer is (a view of) the caller's array - for every input, or only for single-column inputs *)
Definition mut_unimodality_prox (vec : bool) (rows cols : nat) : cmd := unimodal_body (Rebind 20 0) vec rows cols.
Definition mut_unimodality_prox_single_column (vec : bool) (rows cols : nat) : cmd :=
  unimodal_body (if Nat.eqb cols 1 then Rebind 20 0 else Copy 20 0) vec rows cols.

(* a caller heap for the examples: a tensor, a Tucker init (core, [A, B, C]) without negative entries, a data matrix, a vector *)
Definition r7_heap : heap := [
  OBuf [1; 2; 3; 4]%Z;                                          (* 0 tensor *)
  OBuf [2; 3; 1; 1]%Z; OBuf [1; 2]%Z; OBuf [3; 4]%Z; OBuf [5; 6]%Z;   (* 1 core, 2 A, 3 B, 4 C *)
  OCell [RObj 2 [0; 1]; RObj 3 [1; 0]; RObj 4 [0; 1]];          (* 5 the factor list *)
  OCell [RObj 1 [0; 1; 2; 3]; RObj 5 []];                       (* 6 init = (core, factors) *)
  OBuf [5; 6; 4; 2]%Z;                                          (* 7 a 2 x 2 matrix *)
  OBuf [7; 3; 9]%Z ].                                           (* 8 a vector *)
Definition r7_tucker_args : list ref := [RObj 0 [0; 1; 2; 3]; RObj 6 []].

(* ================================================================== try statements inside CALLEES and loops (xcmd)
   Model.Effects.tcmd has try statements in sequence only; `Call` takes a plain cmd body, so a callee that catches exceptions
   (active_set_nnls called from non_negative_tucker_hals(algorithm="active_set")) could not be expressed.  xcmd adds calls
   whose BODY is an xcmd and native bounded loops.  The oracle `ns` gives, for every try statement in EXECUTION order
   (across calls and loop iterations), the position at which its body raises; xstates propagates the set of abstract
   states.  (Try bodies and handlers are still plain commands: no try nested inside a try body.) *)
Inductive xcmd :=
| XPlain (c : cmd)
| XTry (c hd : cmd)
| XSeq (a b : xcmd)
| XRepeat (k : nat) (b : xcmd)
| XCall (x : var) (body : xcmd) (args : list var) (ret : var).

Fixpoint xiter {A} (k : nat) (f : list nat -> A -> A * list nat) (ns : list nat) (a : A) : A * list nat :=
  match k with O => (a, ns) | S k' => let '(a1, ns1) := f ns a in xiter k' f ns1 a1 end.

Fixpoint xexec (t : xcmd) (ns : list nat) (s : state) : state * list nat :=
  match t with
  | XPlain c => (exec c s, ns)
  | XTry c hd =>
      match ns with
      | [] => (exec c s, [])
      | n :: ns' => match run c n s with (s1, Some _) => (s1, ns') | (s1, None) => (exec hd s1, ns') end
      end
  | XSeq a b => let '(s1, ns1) := xexec a ns s in xexec b ns1 s1
  | XRepeat k b => xiter k (xexec b) ns s
  | XCall x body args ret =>
      let '(e, h) := s in
      let '((e', h'), ns') := xexec body ns (call_env RNull e args, h) in ((upd e x (e' ret), h'), ns')
  end.

Fixpoint xstates (t : xcmd) (l : list astate) : option (list astate) :=
  match t with
  | XPlain c => tbind l (fun s => one_state (aexec c s))
  | XTry c hd =>
      tbind l (fun s => match aexec c s with
                        | None => None
                        | Some s2 => match tbind (aprefixes c s) (fun sp => one_state (aexec hd sp)) with
                                     | Some hs => Some (s2 :: hs)
                                     | None => None
                                     end
                        end)
  | XSeq a b => match xstates a l with Some l1 => xstates b l1 | None => None end
  | XRepeat k b => oiter k (xstates b) l
  | XCall x body args ret =>
      tbind l (fun s => match xstates body [(call_env ANull (fst s) args, snd s)] with
                        | Some l1 => Some (map (fun s' => (upd (fst s) x (fst s' ret), snd s')) l1)
                        | None => None
                        end)
  end.
Definition xsafe_with (flags : list bool) (t : xcmd) : bool := is_some (xstates t [(aenv0 flags, [])]).
Definition xsafe (nargs : nat) (t : xcmd) : bool := xsafe_with (repeat false nargs) t.

Fixpoint xc_of_tcmd (t : tcmd) : xcmd :=
  match t with TPlain c => XPlain c | TTry c hd => XTry c hd | TSeq a b => XSeq (xc_of_tcmd a) (xc_of_tcmd b) end.
Fixpoint xseq (l : list xcmd) : xcmd := match l with [] => XPlain Skip | t :: r => XSeq t (xseq r) end.

(* non_negative_tucker_hals(tensor=0, init=1, sparsity_coefficients=2, fixed_modes=3, algorithm="active_set"), order 3, two sweeps:
   HALS factor updates as in hals_mode (a COPY of the transposed factor is handed to hals_nnls), then the core through
   active_set_nnls(core_estimation_vec, kron, x=nn_core) - the callee with one try statement per sweep of its own -,
   then nn_core = reshape(vectorcore).  `asn` = the callee (result in variable 18), `init_skel` as in nn_tucker_body. *)
Definition nn_tucker_hals_factor (mode : nat) : cmd := seq [
  ListCopy 27 24 3; read_all 24 3; Alloc 33 4; Alloc 34 2; View 37 34 [1; 0];       (* pseudo_inverse = nn_factors.copy(); UtU; UtM *)
  ListGet 38 24 mode; View 39 38 [1; 0]; Copy 40 39;                                (* tl.copy(tl.transpose(nn_factors[mode])) *)
  Call 41 sk_hals_nnls [37; 33; 40] 11; View 42 41 [1; 0]; ListSet 24 mode 42 ].
Definition xc_nn_tucker_hals_as (init_skel : cmd) (asn : xcmd) : xcmd := xseq [
  XPlain (seq [init_skel; Rebind 23 16; Rebind 24 14; ListCopy 26 2 3; ListCopy 20 3 1]);
  XRepeat 2 (xseq [
    XPlain (seq [nn_tucker_hals_factor 1; nn_tucker_hals_factor 2]);
    XPlain (seq [ListSet 27 2 33; Alloc 43 2; Alloc 44 4]);                         (* pseudo_inverse[-1] = ..; core_estimation_vec; kronecker(..) *)
    XCall 45 asn [43; 44; 23] 18;                                                   (* vectorcore = active_set_nnls(.., x=nn_core) *)
    XPlain (View 23 45 [0; 1; 2; 3]) ]);                                            (* nn_core = reshape(vectorcore, shape(nn_core)) *)
  XPlain (ListNew 25 [23; 24]) ].
Definition xc_active_set_nnls : xcmd := xc_of_tcmd tc_active_set_nnls.
(* the seeded handler of Model.Effects (it resets the warm start IN PLACE) *)
Definition xc_active_set_nnls_mut : xcmd := xc_of_tcmd (tc_active_set (seq [ WriteInto 10 [0%Z; 0%Z]; Alloc 14 2 ])).
Definition xc_nn_tucker_hals_active_set : xcmd := xc_nn_tucker_hals_as (sk_initialize_tucker_nn_gen 3) xc_active_set_nnls.
