(* C15, round 8 -- STRUCTURED exceptions, any nesting (ycmd).
   Model.Effects.tcmd / Model.EffectsR7.xcmd have try statements whose body and handler are PLAIN commands and whose handler
   always completes.  ycmd closes both restrictions: the body and the handler of a try statement are ycmd themselves (a try
   inside a try body, inside a handler, inside a callee called from a try body, inside a loop inside a handler ...), a handler
   may itself raise (`except: raise ValueError(..)`, or a second failing LAPACK call), and an exception that no handler
   catches propagates through loops, callers and the top level: the outcome of a program is (state, raised?).
   Every executed plain command consumes one oracle entry n = the number of primitive effects after which it raises
   (`run c n`; n >= its size: it completes).  `ystates` propagates two sets of abstract states: the normal exits and the
   states in which an exception is in flight.  Definitions only. *)
From Coq Require Import List Arith ZArith Bool.
From TLV Require Import Model.Effects Model.EffectsR7.
Import ListNotations.

Inductive ycmd :=
| YPlain (c : cmd)
| YRaise                                        (* raise ...: unconditional *)
| YSeq (a b : ycmd)
| YTry (b hd : ycmd)                            (* try: b  except: hd   (hd may raise, b and hd may contain try statements) *)
| YRepeat (k : nat) (b : ycmd)
| YCall (x : var) (body : ycmd) (args : list var) (ret : var).

Definition youtcome := (state * list nat * bool)%type.     (* final state, rest of the oracle, an exception is in flight *)

Fixpoint yiter (k : nat) (f : list nat -> state -> youtcome) (ns : list nat) (s : state) : youtcome :=
  match k with
  | O => (s, ns, false)
  | S k' => let '(s1, ns1, r) := f ns s in if r then (s1, ns1, true) else yiter k' f ns1 s1
  end.

Fixpoint yexec (t : ycmd) (ns : list nat) (s : state) : youtcome :=
  match t with
  | YPlain c =>
      match ns with
      | [] => (exec c s, [], false)
      | n :: ns' => match run c n s with (s1, Some _) => (s1, ns', false) | (s1, None) => (s1, ns', true) end
      end
  | YRaise => (s, ns, true)
  | YSeq a b => let '(s1, ns1, r) := yexec a ns s in if r then (s1, ns1, true) else yexec b ns1 s1
  | YTry b hd => let '(s1, ns1, r) := yexec b ns s in if r then yexec hd ns1 s1 else (s1, ns1, false)
  | YRepeat k b => yiter k (yexec b) ns s
  | YCall x body args ret =>
      let '(e, h) := s in
      let '((e', h'), ns', r) := yexec body ns (call_env RNull e args, h) in
      if r then ((e, h'), ns', true) else ((upd e x (e' ret), h'), ns', false)
  end.

(* abstract: (normal exits, exits with an exception in flight) *)
Definition ypair := (list astate * list astate)%type.
Fixpoint ybind (l : list astate) (f : astate -> option ypair) : option ypair :=
  match l with
  | [] => Some ([], [])
  | a :: t => match f a, ybind t f with
              | Some (n1, r1), Some (n2, r2) => Some (n1 ++ n2, r1 ++ r2)
              | _, _ => None
              end
  end.
Fixpoint yoiter (k : nat) (f : list astate -> option ypair) (l : list astate) : option ypair :=
  match k with
  | O => Some (l, [])
  | S k' => match f l with
            | Some (n1, r1) => match yoiter k' f n1 with Some (n2, r2) => Some (n2, r1 ++ r2) | None => None end
            | None => None
            end
  end.

Fixpoint ystates (t : ycmd) (l : list astate) : option ypair :=
  match t with
  | YPlain c => ybind l (fun s => match aexec c s with Some s2 => Some ([s2], aprefixes c s) | None => None end)
  | YRaise => Some ([], l)
  | YSeq a b =>
      match ystates a l with
      | Some (n1, r1) => match ystates b n1 with Some (n2, r2) => Some (n2, r1 ++ r2) | None => None end
      | None => None
      end
  | YTry b hd =>
      match ystates b l with
      | Some (n1, r1) => match ystates hd r1 with Some (n2, r2) => Some (n1 ++ n2, r2) | None => None end
      | None => None
      end
  | YRepeat k b => yoiter k (ystates b) l
  | YCall x body args ret =>
      ybind l (fun s => match ystates body [(call_env ANull (fst s) args, snd s)] with
                        | Some (n1, r1) => Some (map (fun s' => (upd (fst s) x (fst s' ret), snd s')) n1,
                                                 map (fun s' => (fst s, snd s')) r1)
                        | None => None
                        end)
  end.
Definition ysafe_with (flags : list bool) (t : ycmd) : bool := is_some (ystates t [(aenv0 flags, [])]).
Definition ysafe (nargs : nat) (t : ycmd) : bool := ysafe_with (repeat false nargs) t.

Fixpoint yseq (l : list ycmd) : ycmd := match l with [] => YPlain Skip | t :: r => YSeq t (yseq r) end.

(* derived forms *)
Definition ytry_reraise (b : ycmd) : ycmd := YTry b YRaise.                           (* try: b  except: raise Other(..) *)
Definition ytry_finally (b f : ycmd) : ycmd := YSeq (YTry b (YSeq f YRaise)) f.       (* try: b  finally: f *)
Definition ytry_except_finally (b hd f : ycmd) : ycmd := ytry_finally (YTry b hd) f.  (* try: b  except: hd  finally: f *)

(* the fragment of round 7 (plain bodies and handlers, handlers complete) *)
Fixpoint yc_of_xcmd (t : xcmd) : ycmd :=
  match t with
  | XPlain c => YPlain c
  | XTry c hd => YTry (YPlain c) (YPlain hd)
  | XSeq a b => YSeq (yc_of_xcmd a) (yc_of_xcmd b)
  | XRepeat k b => YRepeat k (yc_of_xcmd b)
  | XCall x body args ret => YCall x (yc_of_xcmd body) args ret
  end.

(* ------------------------------------------------------------------ instances *)
(* initialize_cp(tensor=0, init=1) with a user init, EVERY order: the whole branch is the body of a try statement whose
   handler re-raises (ValueError -> ValueError with another message) *)
Definition yc_initialize_cp_gen (N : nat) : ycmd := ytry_reraise (YPlain (sk_initialize_cp_gen N)).
(* parafac(tensor=0, init=1, fixed_modes=2, mask=3) / non_negative_parafac_hals(tensor=0, init=1, sparsity_coefficients=2,
   fixed_modes=3) as callers of initialize_cp: Model.Effects.sk_parafac_gen / sk_nn_parafac_hals_gen with the try statement
   in the CALLEE; an exception raised inside the callee's try body is caught there, re-raised, and crosses the caller *)
Definition yc_parafac_gen (N sweeps fmlen : nat) (rm : option nat) (modes : list nat) : ycmd := yseq [
  YCall 22 (yc_initialize_cp_gen N) [0; 1] 17;
  YPlain (seq [ ListGet 23 22 0; ListGet 24 22 1;
                sk_fixed_modes_gen 2 fmlen rm;
                Repeat sweeps (Seq (seq (map (als_mode_gen 24 N) modes)) (sk_masked_update 0 3));
                CPTENSOR 25 23 24 ]) ].
Definition yc_nn_parafac_hals_gen (N sweeps sclen fmlen : nat) (fixed modes : list nat) : ycmd := yseq [
  YCall 22 (yc_initialize_cp_gen N) [0; 1] 17;
  YPlain (seq [ ListGet 23 22 0; ListGet 24 22 1;
                ListCopy 26 2 sclen; ListCopy 20 3 fmlen; seq (map (fun i => ListSet 26 i 27) fixed);
                Repeat sweeps (seq (map (hals_mode_gen 24 N) modes));
                CPTENSOR 25 23 24 ]) ].
(* vonneumann_entropy(tensor=0): eigh in the body; the handler symmetrises into a NEW array and calls eigh again, which may
   raise again (non-finite input): that exception reaches the caller *)
Definition yc_vonneumann_entropy : ycmd :=
  let '(pre, c, hd, rest) := tp_vonneumann_entropy in yseq [ YPlain pre; YTry (YPlain c) (YPlain hd); YPlain rest ].
(* tensor_train_cross: the try statement sits inside the right-to-left loop inside the iteration loop; handler re-raises *)
Definition yc_tt_cross (iters order : nat) : ycmd :=
  let '(pre, c, hd, rest) := tp_tt_cross in
  yseq [ YPlain pre; YRepeat iters (YRepeat order (YSeq (ytry_reraise (YPlain c)) (YPlain (Alloc 30 2)))); YPlain rest ].
(* active_set_nnls as the callee of non_negative_tucker_hals (round 7), now with handlers that may raise themselves *)
Definition yc_nn_tucker_hals_active_set : ycmd := yc_of_xcmd xc_nn_tucker_hals_active_set.

(* nesting demo: a work variable that designates the caller's array until the INNER handler (or the statement after the
   inner try) replaces it by a copy; the OUTER handler writes through it *)
Definition yc_nested_bad : ycmd :=
  YTry (yseq [ YPlain (Rebind 10 0);
               YTry (YPlain (Alloc 11 2)) (YPlain (Copy 10 0));      (* inner try: the handler takes the copy *)
               YPlain (Alloc 12 2) ])
       (YPlain (InplaceOp 10 3)).                                     (* outer handler: restore / clean-up in place *)
Definition yc_nested_good : ycmd :=
  YTry (yseq [ YPlain (Copy 10 0);
               YTry (YPlain (Alloc 11 2)) (YPlain (Copy 10 0));
               YPlain (Alloc 12 2) ])
       (YPlain (InplaceOp 10 3)).
(* a try inside a HANDLER: the clean-up code of the outer handler is itself protected; its own handler writes *)
Definition yc_handler_try (first : cmd) : ycmd :=
  YTry (YPlain (seq [ first; Alloc 11 2 ]))
       (YTry (YPlain (Alloc 13 2)) (YPlain (InplaceOp 10 3))).

(* ================================================================== non_negative_tucker_hals, EVERY order (algorithm="fista")
   non_negative_tucker_hals(tensor=0, init=1, sparsity_coefficients=2, fixed_modes=3): option lists copied before
   `fixed_modes.remove(..)` / `sparsity_coefficients[fixed] = None`; initialize_tucker(non_negative=True) (tl.abs allocates);
   per updated mode: pseudo_inverse = nn_factors.copy() with the cross products assigned into the COPY, hals_nnls on
   tl.copy(tl.transpose(nn_factors[mode])) (Model.Effects.hals_mode_gen), nn_factors[mode] = transpose(result);
   core: pseudo_inverse[-1] = .., nn_core = fista(core_estimation, pseudo_inverse, x=nn_core) - fista works on tl.copy(x) and
   returns x itself when no iteration runs; optional tucker_normalize (new arrays in a new list). *)
(* fista(UtM=0, UtU=1, x=2): result in variable 2 *)
Definition sk_fista (iters : nat) : cmd := seq [
  Copy 10 2;                                                         (* x_update = tl.copy(x) *)
  Repeat iters (seq [ Alloc 11 4; Alloc 12 4; Alloc 13 4; Rebind 10 13;      (* gradient, x_new, x_update = .. *)
                      Copy 14 12; Rebind 2 14 ]) ].                  (* x = tl.copy(x_new) *)
Definition others (N mode : nat) : list nat := filter (fun i => negb (Nat.eqb i mode)) (List.seq 0 N).
Definition pinv_fill (N mode : nat) : cmd :=
  seq (map (fun i => seq [ListGet 30 24 i; Alloc 31 2; ListSet 47 i 31]) (others N mode)).
Definition nn_tucker_hals_factor_with (hm : nat -> nat -> cmd) (N mode : nat) : cmd := seq [
  ListCopy 47 24 N; pinv_fill N mode; hm N mode ].
Definition nn_tucker_hals_core_fista (N fiters : nat) : cmd := seq [
  ListGet 30 24 (pred N); Alloc 31 2; ListSet 47 (pred N) 31; Alloc 43 4;
  Call 45 (sk_fista fiters) [43; 47; 23] 2; Rebind 23 45 ].
Definition nn_tucker_hals_body (init_skel : cmd) (hm : nat -> nat -> cmd)
    (N sweeps fiters sclen fmlen : nat) (rm : option nat) (fixed modes : list nat) (normalize : bool) : cmd := seq [
  ListCopy 26 2 sclen; sk_fixed_modes_gen 3 fmlen rm; seq (map (fun i => ListSet 26 i 27) fixed);
  init_skel; Rebind 23 16; Rebind 24 14;
  (if normalize then tucker_renorm 23 24 N else Skip);
  Repeat sweeps (seq [ seq (map (nn_tucker_hals_factor_with hm N) modes); nn_tucker_hals_core_fista N fiters;
                       (if normalize then tucker_renorm 23 24 N else Skip) ]);
  ListNew 25 [23; 24] ].
Definition sk_nn_tucker_hals_gen (N sweeps fiters sclen fmlen : nat) (rm : option nat) (fixed modes : list nat) (normalize : bool) : cmd :=
  nn_tucker_hals_body (sk_initialize_tucker_nn_gen N) (hals_mode_gen 24) N sweeps fiters sclen fmlen rm fixed modes normalize.
(* seeded, two cooperating sites: hals_nnls receives the transposed VIEW of the factor (no tl.copy) and the factor is the
   caller's array (tl.abs skipped for arrays without a negative entry, Model.EffectsR7.mut_initialize_tucker_nn) *)
Definition hals_mode_nocopy (N mode : nat) : cmd := seq [
  read_all 24 N; Alloc 33 4; Alloc 34 2; View 37 34 [1; 0];
  ListGet 38 24 mode; View 39 38 [1; 0]; Rebind 40 39;
  Call 41 sk_hals_nnls [37; 33; 40] 11;
  View 42 41 [1; 0]; ListSet 24 mode 42 ].
