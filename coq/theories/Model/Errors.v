(* C06 -- model of the reconstruction-error computations of the iterative decompositions
   (tensorly/decomposition/_cp.py:error_calc, the inline variants of _nn_cp.py and
   _constrained_cp.py, HOOI's norm shortcut of _tucker.py, the explicit residuals of the
   non-negative Tucker / randomised CP / CMTF loops) and of the loop skeleton that decides
   WHICH iterate a reported value belongs to.  Definitions only.

   Everything numeric is written once against the operation record of Base/Ops.v:
   instantiated at Z / R in the theorems (any commutative ring), executed at Q (Qred after
   every operation) by the correspondence check. *)
From Coq Require Import List Arith Bool.
From TLV Require Import Base.Shape Base.PyList Base.Tensor Base.BigSum Base.Ops.
Import ListNotations.

Section M.
Context {F : Type} (Op : fops F).
Local Notation "a +f b" := (fadd Op a b) (at level 50, left associativity).
Local Notation "a -f b" := (fsub Op a b) (at level 50, left associativity).
Local Notation "a *f b" := (fmul Op a b) (at level 40, left associativity).

Definition Fsum : nat -> (nat -> F) -> F := bigsum F (f0 Op) (fadd Op).
Definition Fsum_idx : list nat -> (list nat -> F) -> F := sum_idx F (f0 Op) (fadd Op).
Definition sq (x : F) : F := x *f x.
Definition two : F := f1 Op +f f1 Op.

(* ---------------------------------------------------------------- index-level quantities *)
(* a tensor is seen as a function of the multi-index; s is its shape *)
Definition normsq (s : list nat) (X : list nat -> F) : F := Fsum_idx s (fun idx => sq (X idx)).
Definition inner (s : list nat) (X Y : list nat -> F) : F := Fsum_idx s (fun idx => X idx *f Y idx).
Definition dist2 (s : list nat) (X Y : list nat -> F) : F := Fsum_idx s (fun idx => sq (X idx -f Y idx)).

(* product over the modes of one entry per mode: gs = [column r of A_0; column r of A_1; ...] *)
Fixpoint prodl (gs : list (nat -> F)) (idx : list nat) : F :=
  match gs, idx with
  | g :: gs', i :: idx' => g i *f prodl gs' idx'
  | _, _ => f1 Op
  end.

(* cp_to_tensor:  [[w; A_0..A_{N-1}]](idx) = sum_r w_r prod_k A_k[idx_k, r];  cols r = the r-th columns *)
Definition cp_entry (R : nat) (w : nat -> F) (cols : nat -> list (nat -> F)) (idx : list nat) : F :=
  Fsum R (fun r => w r *f prodl (cols r) idx).

(* cp_norm ** 2 : sum over (r,t) of  prod_k (A_k^T A_k)[r,t] * (w_r w_t) *)
Definition gram (d : nat) (g h : nat -> F) : F := Fsum d (fun i => g i *f h i).
Fixpoint prodgram (s : list nat) (gs hs : list (nat -> F)) : F :=
  match s, gs, hs with
  | d :: s', g :: gs', h :: hs' => gram d g h *f prodgram s' gs' hs'
  | _, _, _ => f1 Op
  end.
Definition cp_normsq (s : list nat) (R : nat) (w : nat -> F) (cols : nat -> list (nat -> F)) : F :=
  Fsum R (fun r => Fsum R (fun t => prodgram s (cols r) (cols t) *f (w r *f w t))).

(* unfolding_dot_khatri_rao(X, (u, factors), n)[i, r]
     = sum over the other modes of X[.. i ..] * (prod_{k<>n} A_k[idx_k, r] * u_r)           *)
Definition mttkrp (s : list nat) (X : list nat -> F) (u : nat -> F) (cols : nat -> list (nat -> F))
           (n i r : nat) : F :=
  Fsum_idx (remove_nth n s) (fun idx' => X (insert_at n i idx') *f (prodl (remove_nth n (cols r)) idx' *f u r)).

(* iprod = sum(sum(mttkrp * factors[n], axis=0) * v)   (v = 1 in error_calc / HALS, v = weights in constrained CP) *)
Definition iprod (s : list nat) (R : nat) (M : nat -> nat -> F) (v : nat -> F) (cols : nat -> list (nat -> F)) (n : nat) : F :=
  Fsum R (fun r => Fsum (nth n s 0) (fun i => M i r *f nth n (cols r) (fun _ => f0 Op) i) *f v r).

(* the quantity under sqrt(abs(.)) in error_calc:  norm_tensor**2 + factors_norm**2 - 2*iprod *)
Definition err2_fast_with (s : list nat) (X : list nat -> F) (R : nat) (w v : nat -> F)
           (cols : nat -> list (nat -> F)) (M : nat -> nat -> F) (n : nat) : F :=
  (normsq s X +f cp_normsq s R w cols) -f two *f iprod s R M v cols n.
Definition err2_fast (s : list nat) (X : list nat -> F) (R : nat) (w u v : nat -> F)
           (cols : nat -> list (nat -> F)) (n : nat) : F :=
  err2_fast_with s X R w v cols (mttkrp s X u cols n) n.
(* the quantity it is supposed to equal: || X - cp_to_tensor ||^2 computed from scratch *)
Definition err2_true (s : list nat) (X : list nat -> F) (R : nat) (w : nat -> F) (cols : nat -> list (nat -> F)) : F :=
  dist2 s X (cp_entry R w cols).

(* ---------------------------------------------------------------- Tucker / HOOI *)
(* us = one matrix per mode as a function (row, column) *)
Fixpoint prodl2 (us : list (nat -> nat -> F)) (idx j : list nat) : F :=
  match us, idx, j with
  | u :: us', i :: idx', a :: j' => u i a *f prodl2 us' idx' j'
  | _, _, _ => f1 Op
  end.
(* tucker_to_tensor((G, U))(idx) = sum_j G[j] prod_k U_k[idx_k, j_k] *)
Definition tucker_entry (rs : list nat) (G : list nat -> F) (us : list (nat -> nat -> F)) (idx : list nat) : F :=
  Fsum_idx rs (fun j => G j *f prodl2 us idx j).
(* multi_mode_dot(X, U, transpose=True)[j] = sum_idx X[idx] prod_k U_k[idx_k, j_k] *)
Definition project (s : list nat) (X : list nat -> F) (us : list (nat -> nat -> F)) (j : list nat) : F :=
  Fsum_idx s (fun idx => X idx *f prodl2 us idx j).
(* HOOI's shortcut  norm_tensor**2 - norm(core)**2  *)
Definition hooi_err2 (s rs : list nat) (X G : list nat -> F) : F := normsq s X -f normsq rs G.
Fixpoint deltal (j j' : list nat) : F :=
  match j, j' with
  | a :: j0, b :: j0' => (if Nat.eqb a b then f1 Op else f0 Op) *f deltal j0 j0'
  | _, _ => f1 Op
  end.
(* column-orthonormality of every factor, stated entry-wise *)
Fixpoint orthonormal (s rs : list nat) (us : list (nat -> nat -> F)) : Prop :=
  match s, rs, us with
  | d :: s', r :: rs', u :: us' =>
      (forall a b, a < r -> b < r -> gram d (fun i => u i a) (fun i => u i b) = if Nat.eqb a b then f1 Op else f0 Op)
      /\ orthonormal s' rs' us'
  | [], [], [] => True
  | _, _, _ => False
  end.

(* ---------------------------------------------------------------- tensors as data (executed side) *)
Definition tfun (t : tensor F) : list nat -> F := get (f0 Op) t.
Definition colsT (fs : list (tensor F)) (r : nat) : list (nat -> F) := map (fun A i => get (f0 Op) A [i; r]) fs.
Definition matsT (fs : list (tensor F)) : list (nat -> nat -> F) := map (fun A i a => get (f0 Op) A [i; a]) fs.
Definition wfun (w : option (list F)) (r : nat) : F := match w with None => f1 Op | Some l => nth r l (f0 Op) end.
Definition ones (_ : nat) : F := f1 Op.

Definition cp_tensor_entry (R : nat) (w : option (list F)) (fs : list (tensor F)) : list nat -> F :=
  cp_entry R (wfun w) (colsT fs).
Definition tucker_tensor_entry (G : tensor F) (fs : list (tensor F)) : list nat -> F :=
  tucker_entry (shape G) (tfun G) (matsT fs).

(* error_calc, branch by branch; every function returns the pair (squared unnormalised error, squared norm
   of the tensor the error is relative to) so that no square root is needed on the model side.
   mask = None | Some 0/1-tensor ; S = the sparse component (None = 0.0). *)
Definition imputed (X : list nat -> F) (mask : option (tensor F)) (L : list nat -> F) (idx : list nat) : F :=
  match mask with
  | None => X idx
  | Some m => (X idx *f tfun m idx) +f (L idx *f (f1 Op -f tfun m idx))
  end.
Definition sparse_fun (S : option (tensor F)) (idx : list nat) : F :=
  match S with None => f0 Op | Some t => tfun t idx end.
(* branches 1-3: explicit residual  || tensor' - L - S ||^2  and  || tensor' ||^2 *)
Definition err_explicit (X : tensor F) (L : list nat -> F) (S mask : option (tensor F)) : F * F :=
  let s := shape X in
  let X' := imputed (tfun X) mask L in
  (Fsum_idx s (fun idx => sq ((X' idx -f L idx) -f sparse_fun S idx)), normsq s X').
(* branch 4: the MTTKRP shortcut with the MTTKRP of mode n *)
Definition err_shortcut (X : tensor F) (R : nat) (w : option (list F)) (fs : list (tensor F)) (n : nat) : F * F :=
  let s := shape X in
  (err2_fast s (tfun X) R (wfun w) (wfun w) ones (colsT fs) n, normsq s (tfun X)).
(* the same with the implementation's MTTKRP handed over as data *)
Definition err_shortcut_with (X : tensor F) (R : nat) (w : option (list F)) (fs : list (tensor F)) (M : tensor F) (n : nat) : F * F :=
  let s := shape X in
  (err2_fast_with s (tfun X) R (wfun w) ones (colsT fs) (fun i r => get (f0 Op) M [i; r]) n, normsq s (tfun X)).
Definition err_cp_true (X : tensor F) (R : nat) (w : option (list F)) (fs : list (tensor F)) (S mask : option (tensor F)) : F * F :=
  err_explicit X (cp_tensor_entry R w fs) S mask.
Definition err_tucker_true (X G : tensor F) (fs : list (tensor F)) : F * F :=
  err_explicit X (tucker_tensor_entry G fs) None None.
Definition err_hooi (X G : tensor F) : F * F :=
  (hooi_err2 (shape X) (shape G) (tfun X) (tfun G), normsq (shape X) (tfun X)).
Definition err_dense (X L : tensor F) : F * F := err_explicit X (tfun L) None None.
End M.

(* ---------------------------------------------------------------- loop skeleton *)
(* The iterate is a family of blocks (block k = factor k, block N = the weights); B is abstract.
   An MTTKRP is remembered as (mode it was computed for, the blocks it was computed from).
   `fast cur (k, snap) p` = the value error_calc's shortcut produces from the CURRENT blocks `cur`,
   an MTTKRP computed for mode k from the blocks `snap`, paired with factor p.
   The algebra (Proofs/ErrorsProofs.v) shows   fast cur (k, snap) k = err cur   as soon as snap and cur
   agree on every block other than k.  The skeleton decides which snapshot is used when. *)
Section Skeleton.
Variables (B E : Type).
Definition blocks := nat -> B.
Definition setb (st : blocks) (k : nat) (b : B) : blocks := fun j => if Nat.eqb j k then b else st j.

Inductive event :=
| EUpdate (mode : nat)                 (* factors[mode] = ... *)
| ENormalize                           (* cp_normalize: every block changes, the represented tensor does not *)
| ELineSearch (accepted : bool)
| EReport (st : blocks) (e : E)        (* rec_errors.append(e) while the iterate is st *)
| ECallback (st : blocks) (e : E)      (* callback(cp_tensor, e) *)
| EBreak
| EReturn (st : blocks).

(* data-dependent decisions, all supplied from outside (for ALL of them the theorems hold) *)
Record oracle := mkOracle {
  new_block : nat -> nat -> blocks -> B;       (* iteration, mode, current blocks -> solved block *)
  normalized : blocks -> blocks;               (* cp_normalize *)
  jumped : nat -> blocks -> blocks -> blocks;  (* iteration, blocks two sweeps ago, current -> extrapolation *)
  accept : nat -> bool;                        (* line search accepted? *)
  stop : nat -> bool;                          (* the convergence test fired (final normalisation, then break) *)
  cb_stop : nat -> bool;                       (* the callback returned True (final normalisation, then break) *)
}.

Record config := mkConfig {
  modes : list nat;             (* modes_list: the updated modes in order *)
  pair_with : nat;              (* which factor the remembered MTTKRP is multiplied with *)
  normalize_factors : bool;
  norm_in_sweep : bool;         (* nn variants: normalise after every mode except the last updated one *)
  norm_before_error : bool;     (* False in the code; True = the mutation "normalisation moved before the error" *)
  linesearch : bool;
  report_linesearch : bool;     (* True in the code since fix 4551953; False = the pinned behaviour *)
  use_callback : bool;
}.

Variable fast : blocks -> nat * blocks -> nat -> E.    (* shortcut value, see above *)
Variable explicit : blocks -> E.                        (* error_calc without mttkrp: builds the full tensor *)
Variable Orc : oracle.
Variable C : config.

Record lstate := mkL { cur : blocks; cache : nat * blocks; last2 : blocks; errs : list E; trace : list event }.

Definition emit (l : lstate) (ev : event) : lstate := mkL (cur l) (cache l) (last2 l) (errs l) (trace l ++ [ev]).

(* one pass over modes_list; `lastm` = modes_list[-1] *)
Fixpoint sweep (it : nat) (lastm : nat) (ms : list nat) (l : lstate) : lstate :=
  match ms with
  | [] => l
  | m :: ms' =>
      let snap := cur l in                                       (* mttkrp = unfolding_dot_khatri_rao(tensor, (weights, factors), mode) *)
      let cur1 := setb snap m (new_block Orc it m snap) in       (* factors[mode] = solve(...) *)
      let l1 := emit (mkL cur1 (m, snap) (last2 l) (errs l) (trace l)) (EUpdate m) in
      let l2 := if norm_in_sweep C && normalize_factors C && negb (Nat.eqb m lastm)
                then emit (mkL (normalized Orc (cur l1)) (cache l1) (last2 l1) (errs l1) (trace l1)) ENormalize
                else l1 in
      sweep it lastm ms' l2
  end.

Definition line_iter (it : nat) : bool := linesearch C && Nat.even it && (5 <? it).

Definition report (l : lstate) (e : E) : lstate :=
  let l1 := mkL (cur l) (cache l) (last2 l) (errs l ++ [e]) (trace l ++ [EReport (cur l) e]) in
  if use_callback C then emit l1 (ECallback (cur l1) e) else l1.

Definition iteration (it : nat) (l : lstate) : lstate :=
  let l0 := if linesearch C && Nat.even it then mkL (cur l) (cache l) (cur l) (errs l) (trace l) else l in
  let l1 := sweep it (last (modes C) 0) (modes C) l0 in
  let l1 := if norm_before_error C && normalize_factors C
            then emit (mkL (normalized Orc (cur l1)) (cache l1) (last2 l1) (errs l1) (trace l1)) ENormalize else l1 in
  if line_iter it then
    let cand := jumped Orc it (last2 l1) (cur l1) in
    if accept Orc it then
      let l2 := emit (mkL cand (cache l1) (last2 l1) (errs l1) (trace l1)) (ELineSearch true) in
      if report_linesearch C then report l2 (explicit cand) else l2
    else
      let l2 := emit l1 (ELineSearch false) in
      if report_linesearch C then report l2 (fast (cur l2) (cache l2) (pair_with C)) else l2
  else report l1 (fast (cur l1) (cache l1) (pair_with C)).

Definition finish_iteration (l : lstate) : lstate :=
  if normalize_factors C && negb (norm_before_error C)
  then emit (mkL (normalized Orc (cur l)) (cache l) (last2 l) (errs l) (trace l)) ENormalize else l.

(* for iteration in range(n): ... ; stop decisions break after the (possibly final) normalisation *)
Fixpoint loop (n it : nat) (l : lstate) : lstate :=
  match n with
  | O => l
  | S n' =>
      let l1 := iteration it l in
      if use_callback C && cb_stop Orc it then emit (finish_iteration l1) EBreak   (* since 3de556b the callback exit normalises too *)
      else if stop Orc it then emit (finish_iteration l1) EBreak
      else loop n' (S it) (finish_iteration l1)
  end.

Definition run (n_iter_max : nat) (init : blocks) : lstate :=
  let l0 := mkL init (0, init) init [] [] in
  let l0 := if use_callback C then emit l0 (ECallback init (explicit init)) else l0 in
  let l := loop n_iter_max 0 l0 in
  emit l (EReturn (cur l)).
End Skeleton.

Arguments EUpdate {B E}. Arguments ENormalize {B E}. Arguments ELineSearch {B E}. Arguments EReport {B E}.
Arguments ECallback {B E}. Arguments EBreak {B E}. Arguments EReturn {B E}.
Arguments mkOracle {B}. Arguments new_block {B}. Arguments normalized {B}. Arguments jumped {B}.
Arguments accept {B}. Arguments stop {B}. Arguments cb_stop {B}.
Arguments mkL {B E}. Arguments cur {B E}. Arguments cache {B E}. Arguments last2 {B E}. Arguments errs {B E}. Arguments trace {B E}.
Arguments setb {B}. Arguments emit {B E}. Arguments sweep {B E}. Arguments report {B E}. Arguments iteration {B E}.
Arguments finish_iteration {B E}. Arguments loop {B E}. Arguments run {B E}. Arguments line_iter C it : rename.

(* ================================================================ additions of round 2 ================= *)

(* ---------------------------------------------------------------- CP blocks for the loop skeleton *)
(* cp_normalize as a relation: the columns are rescaled, the weights absorb the scales *)
Section CPBlocks.
Context {F : Type} (Op : fops F).
Local Notation "a *f b" := (fmul Op a b) (at level 40, left associativity).
Fixpoint prodF (ds : list F) : F := match ds with [] => f1 Op | d :: ds' => d *f prodF ds' end.
(* gs = ds (.) gs'  column by column, on the rows that exist (dims = number of rows of each factor) *)
Fixpoint scaled (dims : list nat) (gs gs' : list (nat -> F)) (ds : list F) : Prop :=
  match dims, gs, gs', ds with
  | n :: dims0, g :: gs0, g' :: gs0', d :: ds0 => (forall i, i < n -> g i = d *f g' i) /\ scaled dims0 gs0 gs0' ds0
  | [], [], [], [] => True
  | _, _, _, _ => False
  end.

Variables (s : list nat) (X : list nat -> F) (R : nat).
(* block k < length s : factor k as (row, column) -> entry;  block (length s) : the weights, read at row 0 *)
Definition blk := nat -> nat -> F.
Definition cols_of (st : blocks blk) (r : nat) : list (nat -> F) := map (fun k i => st k i r) (seq 0 (length s)).
Definition w_of (st : blocks blk) (r : nat) : F := st (length s) 0 r.
(* the squared residual, from scratch, of the iterate st *)
Definition cp_err2 (st : blocks blk) : F := err2_true Op s X R (w_of st) (cols_of st).
(* error_calc's shortcut along the loop: current weights / factors, an MTTKRP computed for mode (fst c) from the
   blocks (snd c), paired with factor p.  weighted_mttkrp = true: the MTTKRP carries the weights (parafac, MU, HALS);
   false: it does not and the weights multiply the column sums (constrained_parafac) *)
Definition cp_fast (weighted_mttkrp : bool) (cur : blocks blk) (c : nat * blocks blk) (p : nat) : F :=
  let u := if weighted_mttkrp then w_of (snd c) else ones Op in
  let v := if weighted_mttkrp then ones Op else w_of cur in
  err2_fast_with Op s X R (w_of cur) v (cols_of cur) (mttkrp Op s X u (cols_of (snd c)) (fst c)) p.
(* a normalisation step = any rescaling of the columns absorbed by the weights *)
Definition rescaling (st st' : blocks blk) : Prop :=
  exists ds : nat -> list F,
    (forall r, r < R -> scaled s (cols_of st r) (cols_of st' r) (ds r)) /\
    (forall r, r < R -> w_of st' r = w_of st r *f prodF (ds r)).
End CPBlocks.

(* ---------------------------------------------------------------- PARAFAC2: _parafac2_reconstruction_error *)
Section MP2.
Context {F : Type} (Op : fops F).
Local Notation "a +f b" := (fadd Op a b) (at level 50, left associativity).
Local Notation "a -f b" := (fsub Op a b) (at level 50, left associativity).
Local Notation "a *f b" := (fmul Op a b) (at level 40, left associativity).
Local Notation S_ := (Fsum Op).
(* I slices; slice i is (J i) x K; rank Rk.  X i j k;  projections P i j q  ((J i) x Rk);  A i r (ALREADY multiplied by
   the weights: A = A * weights);  Bm q r (Rk x Rk);  C k r (K x Rk) *)
Variables (I K Rk : nat) (J : nat -> nat) (X P : nat -> nat -> nat -> F) (A Bm C : nat -> nat -> F).
(* B_i = (projections[i] @ B) * A[i] *)
Definition p2_Bi (i j r : nat) : F := S_ Rk (fun q => P i j q *f Bm q r) *f A i r.
(* slice i of parafac2_to_tensor:  B_i C^T *)
Definition p2_slice (i j k : nat) : F := S_ Rk (fun r => p2_Bi i j r *f C k r).
Definition p2_err2_true : F := S_ I (fun i => S_ (J i) (fun j => S_ K (fun k => sq Op (X i j k -f p2_slice i j k)))).
Definition p2_normX : F := S_ I (fun i => S_ (J i) (fun j => S_ K (fun k => sq Op (X i j k)))).
(* tmp = B_i^T X_i *)
Definition p2_tmp (i r k : nat) : F := S_ (J i) (fun j => p2_Bi i j r *f X i j k).
(* tmp = (reshape(A[i], (-1,1)) * B^T) @ projected_tensor[i],   projected_tensor[i] = P_i^T X_i *)
Definition p2_projected (i q k : nat) : F := S_ (J i) (fun j => P i j q *f X i j k).
Definition p2_tmp_proj (i r k : nat) : F := S_ Rk (fun q => (A i r *f Bm q r) *f p2_projected i q k).
(* inner_product += trace(tmp @ C) ;  norm_cmf_sq += sum((B_i^T B_i) * (C^T C)) *)
Definition p2_inner (tmp : nat -> nat -> nat -> F) : F := S_ I (fun i => S_ Rk (fun r => S_ K (fun k => tmp i r k *f C k r))).
Definition p2_ncmf : F :=
  S_ I (fun i => S_ Rk (fun r => S_ Rk (fun t => S_ (J i) (fun j => p2_Bi i j r *f p2_Bi i j t) *f S_ K (fun k => C k r *f C k t)))).
(* the quantity under sqrt(abs(.)):  norm_X_sq - 2 * inner_product + norm_cmf_sq *)
Definition p2_err2_fast (tmp : nat -> nat -> nat -> F) : F := (p2_normX -f two Op *f p2_inner tmp) +f p2_ncmf.
End MP2.

(* executed side: the decomposition as data *)
Section MP2data.
Context {F : Type} (Op : fops F).
Definition mat2 (t : tensor F) (i j : nat) : F := get (f0 Op) t [i; j].
Definition slices_fun (l : list (tensor F)) (i j k : nat) : F := mat2 (nth i l (mk [] [])) j k.
Definition slices_rows (l : list (tensor F)) (i : nat) : nat := nth 0 (shape (nth i l (mk [] []))) 0.
(* (squared error by the shortcut with B_i^T X_i, the same with the projected slices, squared error from scratch, ||X||^2) *)
Definition p2_all (slices : list (tensor F)) (w : option (list F)) (A B C : tensor F) (Ps : list (tensor F)) : F * F * F * F :=
  let I := length slices in let K := nth 0 (shape C) 0 in let Rk := nth 1 (shape C) 0 in
  let J := slices_rows slices in let X := slices_fun slices in let P := slices_fun Ps in
  let Aw := fun i r => fmul Op (mat2 A i r) (wfun Op w r) in
  let Bm := mat2 B in let Cm := mat2 C in
  (p2_err2_fast Op I K Rk J X P Aw Bm Cm (p2_tmp Op Rk J X P Aw Bm),
   p2_err2_fast Op I K Rk J X P Aw Bm Cm (p2_tmp_proj Op Rk J X P Aw Bm),
   p2_err2_true Op I K Rk J X P Aw Bm Cm,
   p2_normX Op I K J X).
End MP2data.

(* ---------------------------------------------------------------- PARAFAC2 loop skeleton (line search a la Bro) *)
(* One outer iteration = projections + a few inner ALS sweeps (update).  On a line-search iteration (since fix 0080ddd) the
   error of the updated iterate is computed and handed to line_step, which answers the iterate it keeps (extrapolated or
   updated) TOGETHER with that iterate's error; the value is appended.  legacy = true is the behaviour before the fix:
   line_step received rec_errors[-1] (the error of the PREVIOUS iterate), an accepted jump overwrote rec_errors[-1], a
   rejected jump left it untouched and no error was computed for the updated iterate. *)
Section P2Skeleton.
Variables (St E : Type).
Record p2oracle := mkP2 {
  p2_update : nat -> St -> St;
  p2_jump : nat -> St -> St -> St;     (* iteration, iterate at the start of the iteration, updated iterate -> extrapolation *)
  p2_accept : nat -> bool;
  p2_norm : St -> St;
  p2_stop : nat -> bool }.
Variables (err : St -> E) (Or : p2oracle) (ls normalize legacy : bool).
Definition set_last (l : list E) (e : E) : list E := removelast l ++ [e].
Fixpoint p2_loop (n it : nat) (cur : St) (errs : list E) : St * list E :=
  match n with
  | 0 => (cur, errs)
  | S n' =>
      let line := ls && Nat.even it && (5 <? it) in
      let upd := p2_update Or it cur in
      let st := if line && p2_accept Or it then p2_jump Or it cur upd else upd in
      let errs1 := if line then
                     if legacy then (if p2_accept Or it then set_last errs (err st) else errs)
                     else errs ++ [err st]
                   else errs in
      let st' := if normalize then p2_norm Or st else st in
      let errs2 := if line then errs1 else errs1 ++ [err st'] in
      if p2_stop Or it then (st', errs2) else p2_loop n' (S it) st' errs2
  end.
Definition p2_last_ok (r : St * list E) : Prop := exists es, snd r = es ++ [err (fst r)].
End P2Skeleton.
Arguments mkP2 {St}. Arguments p2_update {St}. Arguments p2_jump {St}. Arguments p2_accept {St}.
Arguments p2_norm {St}. Arguments p2_stop {St}. Arguments p2_loop {St E}. Arguments p2_last_ok {St E}.

(* ---------------------------------------------------------------- tensor ring: tr_to_tensor and the ALS sub-problem of mode d *)
Section MTR.
Context {F : Type} (Op : fops F).
Local Notation "a *f b" := (fmul Op a b) (at level 40, left associativity).
Local Notation "a -f b" := (fsub Op a b) (at level 50, left associativity).
Definition delta (a b : nat) : F := if Nat.eqb a b then f1 Op else f0 Op.
Definition matF := nat -> nat -> F.
(* a chain of matrices, each given with its number of columns (= the bond dimension to its right) *)
Fixpoint chain (ms : list (nat * matF)) (a b : nat) : F :=
  match ms with
  | [] => delta a b
  | (r, M) :: ms' => Fsum Op r (fun c => M a c *f chain ms' c b)
  end.
Fixpoint endbond (r0 : nat) (ms : list (nat * matF)) : nat :=
  match ms with [] => r0 | (r, _) :: ms' => endbond r ms' end.
Definition mtrace (r0 : nat) (P : matF) : F := Fsum Op r0 (fun x => P x x).
(* cores: (r_{k+1}, G_k) with G_k a i b, a < r_k, i < n_k, b < r_{k+1};  r_0 given separately, r_N = r_0 *)
Definition core := (nat * (nat -> nat -> nat -> F))%type.
Definition slices_at (cores : list core) (idx : list nat) : list (nat * matF) :=
  map (fun ci => (fst (fst ci), fun a b => snd (fst ci) a (snd ci) b)) (combine cores idx).
(* tr_to_tensor *)
Definition tr_entry (r0 : nat) (cores : list core) (idx : list nat) : F := mtrace r0 (chain (slices_at cores idx)).
(* (design_mat . sol)[idx', i] for mode d:  sum_{a,b} subchain[b, idx', a] * core_d[a, i, b],
   subchain = cores d+1 .. N-1, 0 .. d-1 contracted in that (cyclic) order *)
Definition ls_prediction (r0 : nat) (cores : list core) (d : nat) (idx' : list nat) (i : nat) : F :=
  let pre := firstn d cores in let post := skipn (S d) cores in
  let cd := nth d cores (0, fun _ _ _ => f0 Op) in
  let sub := chain (slices_at post (skipn d idx') ++ slices_at pre (firstn d idx')) in
  Fsum Op (endbond r0 (slices_at pre (firstn d idx'))) (fun a => Fsum Op (fst cd) (fun b => snd cd a i b *f sub b a)).
(* || design_mat . sol - tensor_unf ||^2 *)
Definition ls_residual2 (s : list nat) (X : list nat -> F) (r0 : nat) (cores : list core) (d : nat) : F :=
  Fsum Op (nth d s 0) (fun i => Fsum_idx Op (remove_nth d s) (fun idx' => sq Op (ls_prediction r0 cores d idx' i -f X (insert_at d i idx')))).
End MTR.

Section MTRdata.
Context {F : Type} (Op : fops F).
(* a core as data: tensor of shape [r_k; n_k; r_{k+1}] *)
Definition core_of (t : tensor F) : @core F := (nth 2 (shape t) 0, fun a i b => get (f0 Op) t [a; i; b]).
(* (squared residual of the last least-squares sub-problem (mode N-1), squared residual of the ring from scratch, ||X||^2) *)
Definition tr_all (X : tensor F) (cores : list (tensor F)) : F * F * F :=
  let s := shape X in let r0 := nth 0 (shape (hd (mk [] []) cores)) 0 in
  let cs := map core_of cores in
  (ls_residual2 Op s (tfun Op X) r0 cs (length s - 1),
   dist2 Op s (tr_entry Op r0 cs) (tfun Op X),
   normsq Op s (tfun Op X)).
End MTRdata.

(* ---------------------------------------------------------------- sparsify_tensor and the callback issued BEFORE the loop *)
Section MSparse.
Context {F : Type} (Op : fops F).
(* sparsify_tensor(t, card): keep the entries whose magnitude reaches the card-th largest magnitude (ties kept), zero the others;
   |x| >= bound  <->  fewer than card entries are strictly larger in magnitude *)
Definition sparsify (card : nat) (t : tensor F) : tensor F :=
  if prod (shape t) <=? card then t
  else mk (shape t) (map (fun x => if length (filter (fun y => negb (fleb Op (fabs Op y) (fabs Op x))) (data t)) <? card
                                   then x else f0 Op) (data t)).
Fixpoint zip3 (f : F -> F -> F -> F) (a b c : list F) : list F :=
  match a, b, c with x :: a', y :: b', z :: c' => f x y z :: zip3 f a' b' c' | _, _, _ => [] end.
(* residual of the un-imputed tensor  X - L  and of the imputed one  (X*m + L*(1-m)) - L *)
Definition resid_raw (X L : tensor F) : tensor F := mk (shape X) (zip3 (fun x l _ => fsub Op x l) (data X) (data L) (data X)).
Definition resid_imputed (X L m : tensor F) : tensor F :=
  mk (shape X) (zip3 (fun x l mk_ => fsub Op (fadd Op (fmul Op x mk_) (fmul Op l (fsub Op (f1 Op) mk_))) l) (data X) (data L) (data m)).
(* the pre-loop callback of parafac under mask + sparsity: the error is computed by error_calc (sparse component of the IMPUTED
   residual); since fix 835cf01 the sparse component handed to the callback is computed from the same imputed tensor
   (legacy = true: from the UN-imputed tensor, the behaviour before the fix) *)
Definition cb0_reported (X L m : tensor F) (card : nat) : F * F :=
  err_explicit Op X (tfun Op L) (Some (sparsify card (resid_imputed X L m))) (Some m).
Definition cb0_error_of_handed (legacy : bool) (X L m : tensor F) (card : nat) : F * F :=
  err_explicit Op X (tfun Op L) (Some (sparsify card (if legacy then resid_raw X L else resid_imputed X L m))) (Some m).
End MSparse.

(* ---------------------------------------------------------------- loops that compute one explicit residual per iteration *)
(* CMTF (squared form), randomised CP, the non-negative Tucker variants, HOOI: update, compute the error of the new iterate,
   [hand it to the callback, which may stop the run], record it, test for convergence.
   record_before_callback = true is the code (randomised_parafac since fix 28121fa; parafac and tensor_ring_als always);
   false = randomised_parafac before that fix: a callback returning True broke BEFORE the value was appended. *)
Section SimpleLoop.
Variables (St E : Type).
Record soracle := mkS { s_update : nat -> St -> St; s_stop : nat -> bool; s_cb_stop : nat -> bool;
                        s_norm : St -> St (* tucker_normalize / cp_normalize of the iterate, applied AFTER its error was recorded *) }.
Variables (err : St -> E) (Or : soracle) (record_before_callback normalize : bool).
Fixpoint s_loop (n it : nat) (cur : St) (errs : list E) : St * list E :=
  match n with
  | 0 => (cur, errs)
  | S n' =>
      let st := s_update Or it cur in
      let stN := if normalize then s_norm Or st else st in      (* on every exit and at the end of the iteration *)
      if s_cb_stop Or it then (stN, if record_before_callback then errs ++ [err st] else errs)
      else let errs' := errs ++ [err st] in
           if s_stop Or it then (stN, errs') else s_loop n' (S it) stN errs'
  end.
End SimpleLoop.
Arguments mkS {St}. Arguments s_update {St}. Arguments s_stop {St}. Arguments s_cb_stop {St}. Arguments s_norm {St}. Arguments s_loop {St E}.

(* ---------------------------------------------------------------- observable projection of a skeleton trace *)
(* what an outside observer of parafac / non_negative_parafac / non_negative_parafac_hals sees when the MTTKRP, cp_normalize, the
   error computation and the callback are logged:  10+m = MTTKRP of mode m (block update);  1 = cp_normalize;  2 = error by the
   shortcut;  3 = explicit error;  4 = callback.   A line-search iteration computes the explicit error of the candidate and, when
   it rejects it, the shortcut error of the current iterate; its Report computes nothing more. *)
Fixpoint obs_of_trace {B E} (after_ls : bool) (tr : list (event B E)) : list nat :=
  match tr with
  | [] => []
  | EUpdate m :: tr' => (10 + m) :: obs_of_trace false tr'
  | ENormalize :: tr' => 1 :: obs_of_trace after_ls tr'
  | ELineSearch true :: tr' => 3 :: obs_of_trace true tr'
  | ELineSearch false :: tr' => 3 :: 2 :: obs_of_trace true tr'
  | EReport _ _ :: tr' => if after_ls then obs_of_trace false tr' else 2 :: obs_of_trace false tr'
  | ECallback _ _ :: tr' => 4 :: obs_of_trace after_ls tr'
  | EBreak :: tr' => obs_of_trace after_ls tr'
  | EReturn _ :: tr' => obs_of_trace after_ls tr'
  end.

(* ================================================================ additions of round 5 ================= *)
(* ---------------------------------------------------------------- cp_normalize, executable *)
(* tensorly/cp_tensor.py:cp_normalize step by step, over any operation record:
     if weights is None: weights = ones(rank)
     for i, factor in enumerate(factors):
         if i == 0: factor = factor * weights; weights = ones(rank)                         <- absorb_weights_F
         scales = norm(factor, axis=0); scales_non_zero = where(scales == 0, 1, scales)
         weights = weights * scales; normalized_factors.append(factor / scales_non_zero)   <- normalize_columns_F
   The square root inside `norm` is not an operation of the record: the column norms `sc k r` are handed in.  Over the reals they
   are sqrt(colsq) (Model/ErrorsR.v: cp_normalize_R is this function with sc = colnorm, Proofs/ErrorsNormalizeR.v); on the executed
   side they are an answer tape that the correspondence validates by squaring (0 <= sc and sc^2 = colsq up to rounding). *)
Section CPNormalize.
Context {F : Type} (Op : fops F).
Variable s : list nat.
Definition absorb_weights_F (st : blocks (@blk F)) : blocks (@blk F) :=
  fun k i r =>
    if k =? 0 then fmul Op (st 0 i r) (st (length s) 0 r)
    else if k =? length s then f1 Op
    else st k i r.
(* sum(factor ** 2, axis=0) *)
Definition colsq (st : blocks (@blk F)) (k r : nat) : F := Fsum Op (nth k s 0) (fun i => fmul Op (st k i r) (st k i r)).
Definition nonzero_scale_F (d : F) : F := if feqb Op d (f0 Op) then f1 Op else d.
Definition normalize_columns_F (sc : nat -> nat -> F) (st : blocks (@blk F)) : blocks (@blk F) :=
  fun k i r =>
    if k <? length s then fdiv Op (st k i r) (nonzero_scale_F (sc k r))
    else if k =? length s then fmul Op (st k i r) (prodF Op (map (fun k' => sc k' r) (seq 0 (length s))))
    else st k i r.
Definition cp_normalize_F (sc : nat -> nat -> F) (st : blocks (@blk F)) : blocks (@blk F) :=
  normalize_columns_F sc (absorb_weights_F st).
End CPNormalize.

(* (weights, factors) as data -> blocks *)
Definition blocks_of {F} (Op : fops F) (w : option (list F)) (fs : list (tensor F)) : blocks (@blk F) :=
  fun k i r => if k <? length fs then get (f0 Op) (nth k fs (mk [] [])) [i; r] else wfun Op w r.
Definition rows_of {F} (fs : list (tensor F)) : list nat := map (fun t => nth 0 (shape t) 0) fs.

(* ---------------------------------------------------------------- tucker_normalize *)
(* as a relation (ring regime): the columns of every factor are rescaled (U_k[i, a] = d_k(a) * U'_k[i, a]) and the core absorbs the
   scales (G'[j] = G[j] * prod_k d_k(j_k)) *)
Section TuckerNormalize.
Context {F : Type} (Op : fops F).
Fixpoint tscaled (s rs : list nat) (us us' : list (nat -> nat -> F)) (ds : list (nat -> F)) : Prop :=
  match s, rs, us, us', ds with
  | n :: s0, r :: rs0, u :: us0, u' :: us0', d :: ds0 =>
      (forall i a, i < n -> a < r -> u i a = fmul Op (d a) (u' i a)) /\ tscaled s0 rs0 us0 us0' ds0
  | [], [], [], [], [] => True
  | _, _, _, _, _ => False
  end.
Fixpoint proddl (ds : list (nat -> F)) (j : list nat) : F :=
  match ds, j with d :: ds', a :: j' => fmul Op (d a) (proddl ds' j') | _, _ => f1 Op end.
(* tensorly/tucker_tensor.py:tucker_normalize step by step, the column norms sc k a = norm(factors[k][:, a]) handed in (see cp_normalize_F):
     for i, factor in enumerate(factors):
         scales = norm(factor, axis=0); scales_non_zero = where(scales == 0, 1, scales)
         core = core * reshape(scales, (1,)*i + (-1,) + (1,)*(ndim - i - 1))
         normalized_factors.append(factor / scales_non_zero)
   the factors are block k < N of `st` (row, column) *)
Definition tucker_us (N : nat) (st : blocks (@blk F)) : list (nat -> nat -> F) := map (fun k i a => st k i a) (seq 0 N).
Definition tucker_normalize_core (N : nat) (sc : nat -> nat -> F) (G : list nat -> F) : list nat -> F :=
  fun j => fmul Op (G j) (proddl (map (fun k a => sc k a) (seq 0 N)) j).
Definition tucker_normalize_factors (sc : nat -> nat -> F) (st : blocks (@blk F)) : blocks (@blk F) :=
  fun k i a => fdiv Op (st k i a) (nonzero_scale_F Op (sc k a)).
End TuckerNormalize.

(* ---------------------------------------------------------------- error_calc with its own branch selection *)
(* tensorly/decomposition/_cp.py:error_calc(tensor, norm_tensor, weights, factors, sparsity, mask, mttkrp):
     if mask is not None or mttkrp is None:   full tensor; imputation under the mask; sparse component of the (imputed) residual if sparsity
     elif sparsity:                            full tensor; sparse component of the residual
     else:                                     the MTTKRP shortcut, the MTTKRP paired with factors[-1]
   card = None stands for a falsy `sparsity`.  Returns (squared unnormalised error, squared norm of the tensor it is relative to). *)
Section ErrorCalc.
Context {F : Type} (Op : fops F).
Definition sparse_of (X : tensor F) (L : list nat -> F) (card : option nat) (mask : option (tensor F)) : option (tensor F) :=
  match card with
  | None => None
  | Some c => Some (sparsify Op c (tabulate (shape X) (fun idx => fsub Op (imputed Op (tfun Op X) mask L idx) (L idx))))
  end.
Definition error_calc_model (X : tensor F) (R : nat) (w : option (list F)) (fs : list (tensor F)) (card : option nat)
           (mask M : option (tensor F)) : F * F :=
  let L := cp_tensor_entry Op R w fs in
  match mask, M, card with
  | None, Some Mt, None => err_shortcut_with Op X R w fs Mt (length (shape X) - 1)
  | _, _, _ => err_explicit Op X L (sparse_of X L card mask) mask
  end.
End ErrorCalc.

(* ---------------------------------------------------------------- number of values a one-value-per-iteration loop records *)
Definition s_loop_count (n : nat) (cb_stop_at : option nat) : nat :=
  let orc := @mkS unit (fun _ st => st) (fun _ => false) (fun it => match cb_stop_at with Some j => Nat.eqb it j | None => false end) (fun st => st) in
  length (snd (@s_loop unit unit (fun _ => tt) orc true true n 0 tt nil)).

(* ---------------------------------------------------------------- PARAFAC2 loop with its observable events *)
(* p2_loop (legacy = false) instrumented: 5 = _compute_projections (for the update; inside line_step for the candidate), 10 = the inner
   ALS update, 2 = _parafac2_reconstruction_error (of the updated iterate; inside line_step of the candidate; of the normalised iterate on
   ordinary iterations), 1 = cp_normalize.  Erasing the events gives p2_loop back (Proofs/ErrorsP2.v:p2_loop_tr_erase). *)
Section P2Trace.
Variables (St E : Type) (err : St -> E) (Or : p2oracle St) (ls normalize : bool).
Fixpoint p2_loop_tr (n it : nat) (cur : St) (errs : list E) (tr : list nat) : St * list E * list nat :=
  match n with
  | 0 => (cur, errs, tr)
  | S n' =>
      let line := ls && Nat.even it && (5 <? it) in
      let upd := p2_update Or it cur in
      let tr1 := tr ++ [5; 10] in
      let st := if line && p2_accept Or it then p2_jump Or it cur upd else upd in
      let errs1 := if line then errs ++ [err st] else errs in
      let tr2 := if line then tr1 ++ [2; 5; 2] else tr1 in
      let st' := if normalize then p2_norm Or st else st in
      let tr3 := if normalize then tr2 ++ [1] else tr2 in
      let errs2 := if line then errs1 else errs1 ++ [err st'] in
      let tr4 := if line then tr3 else tr3 ++ [2] in
      if p2_stop Or it then (st', errs2, tr4) else p2_loop_tr n' (S it) st' errs2 tr4
  end.
End P2Trace.
Arguments p2_loop_tr {St E}.
Definition p2_events (ls normalize : bool) (n : nat) : list nat :=
  let orc := @mkP2 unit (fun _ st => st) (fun _ _ st => st) (fun _ => true) (fun st => st) (fun _ => false) in
  snd (@p2_loop_tr unit unit (fun _ => tt) orc ls normalize n 0 tt nil nil).

(* ================================================================ additions of round 6 ================= *)
(* ---------------------------------------------------------------- one parafac sweep on DATA and the error_calc call that follows it *)
Section DataSweep.
Context {F : Type} (Op : fops F).
(* unfolding_dot_khatri_rao(tensor, (weights, factors), n) as data, shape [d_n; R] *)
Definition mttkrp_data (X : tensor F) (R : nat) (w : option (list F)) (fs : list (tensor F)) (n : nat) : tensor F :=
  tabulate [nth n (shape X) 0; R]
           (fun ir => mttkrp Op (shape X) (tfun Op X) (wfun Op w) (colsT Op fs) n (nth 0 ir 0) (nth 1 ir 0)).
(* for mode in modes_list:  mttkrp = unfolding_dot_khatri_rao(tensor, (weights, factors), mode);  factors[mode] = solve(mttkrp, ...)
   `solve` (the linear solve with the Gram matrices) is an oracle: any function of the mode, the MTTKRP and the current factors.
   The last MTTKRP computed is remembered (None before the first update). *)
Fixpoint data_sweep (solve : nat -> tensor F -> list (tensor F) -> tensor F) (X : tensor F) (R : nat) (w : option (list F))
         (ms : list nat) (fs : list (tensor F)) (M : option (tensor F)) : list (tensor F) * option (tensor F) :=
  match ms with
  | [] => (fs, M)
  | m :: ms' => let Mt := mttkrp_data X R w fs m in data_sweep solve X R w ms' (set_nth m (solve m Mt fs) fs) (Some Mt)
  end.
(* one iteration of parafac without mask / line search: the sweep, then error_calc(tensor, norm, weights, factors, sparsity, None, mttkrp);
   card = None for a falsy sparsity (MTTKRP shortcut), Some c: explicit residual minus the c-sparse component *)
Definition parafac_iteration_error (solve : nat -> tensor F -> list (tensor F) -> tensor F) (X : tensor F) (R : nat) (w : option (list F))
           (card : option nat) (ms : list nat) (fs : list (tensor F)) : F * F :=
  let r := data_sweep solve X R w ms fs None in error_calc_model Op X R w (fst r) card None (snd r).
End DataSweep.
(* n_iter_max iterations of that loop on data (no normalisation / mask / line search): the factors and the list of values *)
Section DataLoop.
Context {F : Type} (Op : fops F).
Variables (solve : nat -> nat -> tensor F -> list (tensor F) -> tensor F) (X : tensor F) (R : nat) (w : option (list F)) (card : option nat) (ms : list nat).
Fixpoint parafac_data_loop (n it : nat) (fs : list (tensor F)) (errs : list (F * F)) : list (tensor F) * list (F * F) :=
  match n with
  | 0 => (fs, errs)
  | S n' => let r := data_sweep Op (solve it) X R w ms fs None in
            parafac_data_loop n' (S it) (fst r) (errs ++ [error_calc_model Op X R w (fst r) card None (snd r)])
  end.
(* the factors at the end of each iteration *)
Fixpoint parafac_data_states (n it : nat) (fs : list (tensor F)) : list (list (tensor F)) :=
  match n with
  | 0 => []
  | S n' => let fs' := fst (data_sweep Op (solve it) X R w ms fs None) in fs' :: parafac_data_states n' (S it) fs'
  end.
End DataLoop.

(* ---------------------------------------------------------------- the CP loop under a mask (and sparsity) *)
(* parafac with mask (optionally sparsity), as far as the reported values are concerned: each iteration updates the factors from the CARRIED
   tensor (the data imputed with the previous reconstruction), then error_calc imputes the carried tensor with the new reconstruction,
   computes the explicit residual (minus the sparse component) relative to the imputed tensor, and hands the imputed tensor on.
   upd = the whole sweep (any function of the iteration, the factors and the carried tensor). *)
Section MaskedLoop.
Context {F : Type} (Op : fops F).
Variables (upd : nat -> list (tensor F) -> tensor F -> list (tensor F)) (m : tensor F) (R : nat) (w : option (list F)) (card : option nat).
Definition impute_with (Xc : tensor F) (fs : list (tensor F)) : tensor F :=
  tabulate (shape Xc) (imputed Op (tfun Op Xc) (Some m) (cp_tensor_entry Op R w fs)).
Fixpoint masked_loop (n it : nat) (fs : list (tensor F)) (Xc : tensor F) (errs : list (F * F)) : list (tensor F) * list (F * F) :=
  match n with
  | 0 => (fs, errs)
  | S n' => let fs' := upd it fs Xc in
            masked_loop n' (S it) fs' (impute_with Xc fs') (errs ++ [error_calc_model Op Xc R w fs' card (Some m) None])
  end.
Fixpoint masked_states (n it : nat) (fs : list (tensor F)) (Xc : tensor F) : list (list (tensor F)) :=
  match n with
  | 0 => []
  | S n' => let fs' := upd it fs Xc in fs' :: masked_states n' (S it) fs' (impute_with Xc fs')
  end.
End MaskedLoop.

(* ---------------------------------------------------------------- CMTF: the documented squared, unnormalised value *)
(* state = (factors of the tensor's CP, V);  norm(X - [[A,B,C]])**2 + norm(Y - A V^T)**2 *)
Definition cmtf_err2 {F} (Op : fops F) (X Y : tensor F) (R : nat) (st : list (tensor F) * tensor F) : F :=
  fadd Op (fst (err_cp_true Op X R None (fst st) None None))
          (fst (err_cp_true Op Y R None [nth 0 (fst st) (mk [] []); snd st] None None)).

(* ---------------------------------------------------------------- tensor_ring_als: the axis bookkeeping of the design matrix *)
(* tensorly/decomposition/_tr_als.py, sub-problem of mode `dim` of an order-N ring:
     subchain_tensor = tr_decomp[(dim+1) % N];  for j in range(2, N): subchain_tensor = tensordot(subchain_tensor, tr_decomp[(dim+j) % N], axes=1)
   so the axes of subchain_tensor are: 0 = the left bond of core dim+1 (r_{dim+1}); j = 1..N-1: the mode (dim+j) % N; N = the right bond of core
   dim-1 (r_dim).
     tr_idx = [i + N - dim for i in range(dim)] + [i + 1 for i in range(N - dim - 1)] + [N, 0]
     subchain_tensor = transpose(subchain_tensor, tr_idx);  design_mat = reshape(subchain_tensor, (-1, rank[dim] * rank[dim+1]))
   transpose(t, perm): axis k of the result is axis perm[k] of t. *)
Inductive tr_axis := AMode (k : nat) | ABond (k : nat).
Definition subchain_axes (N dim : nat) : list tr_axis :=
  ABond (dim + 1) :: map (fun j => AMode ((dim + j) mod N)) (seq 1 (N - 1)) ++ [ABond dim].
Definition tr_idx (N dim : nat) : list nat :=
  map (fun i => i + N - dim) (seq 0 dim) ++ map (fun i => i + 1) (seq 0 (N - dim - 1)) ++ [N; 0].
Definition permute_axes (axes : list tr_axis) (perm : list nat) : list tr_axis := map (fun p => nth p axes (ABond 0)) perm.

(* ================================================================ additions of round 7 ================= *)
(* ---------------------------------------------------------------- the parafac loop on DATA with weights, normalisation and line search *)
(* tensorly/decomposition/_cp.py:parafac without mask, iteration `it` on the state (weights, factors):
     if linesearch and it % 2 == 0: factors_last, weights_last = copies of the current state                 <- snap
     for mode in modes_list: mttkrp = unfolding_dot_khatri_rao(tensor, (weights, factors), mode); factors[mode] = solve(...)   <- data_sweep
     line_iter = linesearch and it % 2 == 0 and it > 5
     if not line_iter: unnorml_rec_error = error_calc(tensor, norm, weights, factors, sparsity, None, mttkrp)
     else: (new_weights, new_factors) = extrapolation from (weights_last, factors_last) through (weights, factors)           <- fl_jump
           new_rec_error = error_calc(tensor, norm, new_weights, new_factors, sparsity, None)          (no MTTKRP: explicit residual)
           if new_rec_error / norm < rec_errors[-1]: state, error = candidate, new_rec_error                                   <- fl_accept
           else: error = error_calc(tensor, norm, weights, factors, sparsity, None, mttkrp)
     rec_errors.append(error / norm)
     callback stop / convergence stop: normalise if asked, break                                                             <- fl_stop
     if normalize_factors: weights, factors = cp_normalize((weights, factors))                                               <- fl_norm
   The sweep never changes the weights: they move only through the normalisation and an accepted jump.  Oracles (arbitrary functions):
   the linear solves, the extrapolation, the acceptance test (it sees the candidate's value and the history), the normalisation and
   the stop decision (it sees the history including the new value). *)
Section FullLoop.
Context {F : Type} (Op : fops F).
Definition cpstate : Type := (option (list F) * list (tensor F))%type.
Record floracle := mkFL {
  fl_solve : nat -> nat -> tensor F -> list (tensor F) -> tensor F;
  fl_jump : nat -> cpstate -> cpstate -> cpstate;
  fl_accept : nat -> F * F -> list (F * F) -> bool;
  fl_norm : cpstate -> cpstate;
  fl_stop : nat -> list (F * F) -> bool }.
Variables (Or : floracle) (X : tensor F) (R : nat) (card : option nat) (ms : list nat) (linesearch normalize : bool).
(* one iteration up to and including the error computation: (state the value belongs to, snapshot, value) *)
Definition fl_iteration (it : nat) (st snap : cpstate) (errs : list (F * F)) : cpstate * cpstate * (F * F) :=
  let snap' := if linesearch && Nat.even it then st else snap in
  let r := data_sweep Op (fl_solve Or it) X R (fst st) ms (snd st) None in
  let st1 : cpstate := (fst st, fst r) in
  let e_own := error_calc_model Op X R (fst st1) (snd st1) card None (snd r) in
  if linesearch && Nat.even it && (5 <? it) then
    let cand := fl_jump Or it snap' st1 in
    let e_cand := error_calc_model Op X R (fst cand) (snd cand) card None None in
    if fl_accept Or it e_cand errs then (cand, snap', e_cand) else (st1, snap', e_own)
  else (st1, snap', e_own).
Definition fl_after (st2 : cpstate) : cpstate := if normalize then fl_norm Or st2 else st2.
Fixpoint fl_loop (n it : nat) (st snap : cpstate) (errs : list (F * F)) : cpstate * list (F * F) :=
  match n with
  | 0 => (st, errs)
  | S n' => let r := fl_iteration it st snap errs in
            let errs' := errs ++ [snd r] in
            let st3 := fl_after (fst (fst r)) in
            if fl_stop Or it errs' then (st3, errs') else fl_loop n' (S it) st3 (snd (fst r)) errs'
  end.
(* the states the recorded values belong to (before the end-of-iteration normalisation) and the states at the end of the iterations *)
Fixpoint fl_states (after : bool) (n it : nat) (st snap : cpstate) (errs : list (F * F)) : list cpstate :=
  match n with
  | 0 => []
  | S n' => let r := fl_iteration it st snap errs in
            let errs' := errs ++ [snd r] in
            let st3 := fl_after (fst (fst r)) in
            (if after then st3 else fst (fst r)) :: (if fl_stop Or it errs' then [] else fl_states after n' (S it) st3 (snd (fst r)) errs')
  end.
(* the explicit squared residual (minus the sparse component the model computes itself) and squared norm for a state *)
Definition fl_true_err (st : cpstate) : F * F :=
  let L := cp_tensor_entry Op R (fst st) (snd st) in err_explicit Op X L (sparse_of Op X L card None) None.
End FullLoop.
Arguments fl_solve {F}. Arguments fl_jump {F}. Arguments fl_accept {F}. Arguments fl_norm {F}. Arguments fl_stop {F}.
(* the extrapolation of the line search, transcribed:  new_weights = weights_last + (weights - weights_last) * jump;
   new_factors[ii] = factors_last[ii] + (factors[ii] - factors_last[ii]) * jump   (jump = iteration ** (1 / acc_pow): handed in) *)
Fixpoint zipw {A} (f : A -> A -> A) (a b : list A) : list A :=
  match a, b with x :: a', y :: b' => f x y :: zipw f a' b' | _, _ => [] end.
Definition ls_extrapolate {F} (Op : fops F) (jump : F) (snap st : @cpstate F) : @cpstate F :=
  let ex := fun a b => fadd Op a (fmul Op (fsub Op b a) jump) in
  (match fst snap, fst st with Some a, Some b => Some (zipw ex a b) | _, _ => fst st end,
   zipw (fun A B => mk (shape B) (zipw ex (data A) (data B))) (snd snap) (snd st)).
(* blocks -> (weights, factors) as data: the inverse of blocks_of on the rows / columns that exist *)
Definition data_of_blocks {F} (s : list nat) (R : nat) (b : blocks (@blk F)) : @cpstate F :=
  (Some (map (fun r => b (length s) 0 r) (seq 0 R)),
   map (fun k => tabulate [nth k s 0; R] (fun ir => b k (nth 0 ir 0) (nth 1 ir 0))) (seq 0 (length s))).

(* ---------------------------------------------------------------- constrained_parafac: one iteration on DATA *)
(* tensorly/decomposition/_constrained_cp.py, iteration:
     for mode in modes_list: mttkrp = unfolding_dot_khatri_rao(tensor, (None, factors), mode); factors[mode], ... = admm(mttkrp, ...)
     factors_norm = cp_norm((weights, factors)); iprod = sum(sum(mttkrp * factors[-1], axis=0) * weights)
     rec_error = sqrt(abs(norm_tensor**2 + factors_norm**2 - 2*iprod)) / norm_tensor
   The MTTKRP carries NO weights; the weights multiply the column sums instead.  admm is an oracle (any function of the mode, the
   MTTKRP and the current factors).  The last mode is never fixed, so the modes list is not empty in the code; the model answers the
   explicit residual for an empty list. *)
Section ConstrainedIteration.
Context {F : Type} (Op : fops F).
Definition err_shortcut_cw_with (X : tensor F) (R : nat) (w : option (list F)) (fs : list (tensor F)) (M : tensor F) (n : nat) : F * F :=
  let s := shape X in
  (err2_fast_with Op s (tfun Op X) R (wfun Op w) (wfun Op w) (colsT Op fs) (fun i r => get (f0 Op) M [i; r]) n, normsq Op s (tfun Op X)).
Definition constrained_iteration_error (solve : nat -> tensor F -> list (tensor F) -> tensor F) (X : tensor F) (R : nat) (w : option (list F))
           (ms : list nat) (fs : list (tensor F)) : F * F :=
  let r := data_sweep Op solve X R None ms fs None in
  match snd r with
  | Some Mt => err_shortcut_cw_with X R w (fst r) Mt (length (shape X) - 1)
  | None => err_cp_true Op X R w (fst r) None None
  end.
(* non_negative_parafac_hals without normalisation inside the sweep (tensorly/decomposition/_nn_cp.py): the MTTKRP carries the weights and is
   paired with factors[modes[-1]] - the last UPDATED mode, which need not be the last mode of the tensor (fixed_modes may contain it);
   with every mode fixed the code returns before the loop (the model answers the explicit residual) *)
Definition hals_iteration_error (solve : nat -> tensor F -> list (tensor F) -> tensor F) (X : tensor F) (R : nat) (w : option (list F))
           (ms : list nat) (fs : list (tensor F)) : F * F :=
  let r := data_sweep Op solve X R w ms fs None in
  match snd r with
  | Some Mt => err_shortcut_with Op X R w (fst r) Mt (last ms 0)
  | None => err_cp_true Op X R w (fst r) None None
  end.
Variables (solve : nat -> nat -> tensor F -> list (tensor F) -> tensor F) (stop : nat -> list (F * F) -> bool)
          (X : tensor F) (R : nat) (w : option (list F)) (ms : list nat).
(* the loop: one value per iteration, recorded before the convergence tests may stop the run *)
Fixpoint constrained_data_loop (n it : nat) (fs : list (tensor F)) (errs : list (F * F)) : list (tensor F) * list (F * F) :=
  match n with
  | 0 => (fs, errs)
  | S n' => let fs' := fst (data_sweep Op (solve it) X R None ms fs None) in
            let errs' := errs ++ [constrained_iteration_error (solve it) X R w ms fs] in
            if stop it errs' then (fs', errs') else constrained_data_loop n' (S it) fs' errs'
  end.
Fixpoint constrained_data_states (n it : nat) (fs : list (tensor F)) (errs : list (F * F)) : list (list (tensor F)) :=
  match n with
  | 0 => []
  | S n' => let fs' := fst (data_sweep Op (solve it) X R None ms fs None) in
            let errs' := errs ++ [constrained_iteration_error (solve it) X R w ms fs] in
            fs' :: (if stop it errs' then [] else constrained_data_states n' (S it) fs' errs')
  end.
End ConstrainedIteration.

(* ---------------------------------------------------------------- tensor_ring_als: the axis bookkeeping, semantically (round 7) *)
(* A checker over the PIECES of the bookkeeping (whatever their syntactic form in the source): the cores tensordot-ed into the sub-chain
   (`chain`, left to right, axes=1: the right bond of one core is contracted with the left bond of the next, so consecutive cores must be
   neighbours on the ring), the permutation handed to transpose, the row modes of matricize(tensor, row_modes, [dim]), the two rank
   indices of reshape(subchain, (-1, rank[a] * rank[b])), the rank indices of reshape(sol, (rank[a'], rank[b'], shape[dim])) and the
   permutation that turns the reshaped solution into core `dim`.  Bonds are labelled modulo N (rank[N] is rank[0] on a ring); core c has
   the axes [bond c; mode c; bond c+1].  The bookkeeping is right when the transposed sub-chain has the axes [modes in the row order of
   the unfolded tensor] ++ [the two bonds in the order the solution is reshaped with] and the reshaped, transposed solution has the axes
   of core dim. *)
Definition bond (N k : nat) : tr_axis := ABond (k mod N).
Definition chain_axes (N : nat) (chain : list nat) : list tr_axis :=
  match chain with [] => [] | c0 :: _ => bond N c0 :: map AMode chain ++ [bond N (last chain 0 + 1)] end.
Fixpoint adjacent (N : nat) (chain : list nat) : bool :=
  match chain with
  | c :: tl => match tl with c' :: _ => Nat.eqb c' ((c + 1) mod N) && adjacent N tl | [] => true end
  | [] => true
  end.
Definition tr_axis_eqb (a b : tr_axis) : bool :=
  match a, b with AMode x, AMode y => Nat.eqb x y | ABond x, ABond y => Nat.eqb x y | _, _ => false end.
Fixpoint axes_eqb (a b : list tr_axis) : bool :=
  match a, b with [], [] => true | x :: a', y :: b' => tr_axis_eqb x y && axes_eqb a' b' | _, _ => false end.
Definition tr_bookkeeping_ok (N dim : nat) (chain row_modes tr_perm cols sol_rows sol_perm : list nat) : bool :=
  adjacent N chain && forallb (fun c => c <? N) chain && forallb (fun p => p <? length chain + 2) tr_perm && forallb (fun p => p <? 3) sol_perm &&
  axes_eqb (permute_axes (chain_axes N chain) tr_perm) (map AMode row_modes ++ map (bond N) cols) &&
  axes_eqb (permute_axes (map (bond N) sol_rows ++ [AMode dim]) sol_perm) [bond N dim; AMode dim; bond N (dim + 1)] &&
  axes_eqb (map (bond N) cols) (map (bond N) sol_rows).
(* the pieces as the model has them (tensorly/decomposition/_tr_als.py at the time of writing) *)
Definition tr_chain (N dim : nat) : list nat := map (fun j => (dim + j) mod N) (seq 1 (N - 1)).
Definition tr_bookkeeping_model_ok (N dim : nat) : bool :=
  tr_bookkeeping_ok N dim (tr_chain N dim) (remove_nth dim (seq 0 N)) (tr_idx N dim) [dim; dim + 1] [dim; dim + 1] [0; 2; 1].

(* ---------------------------------------------------------------- randomised_parafac: which iterations compute / record / hand over an error *)
(* tensorly/decomposition/_cp.py:randomised_parafac, per iteration (after the updates of all modes):
     if max_stagnation or tol or (callback is not None): rec_error = norm(tensor - cp_to_tensor(...)) / norm_tensor      <- compute
     if max_stagnation or tol: rec_errors.append(rec_error)                                                              <- record
     if callback is not None: if callback(cp_tensor, rec_error) is True: break                                           <- cb
     if max_stagnation or tol: stagnation / convergence tests -> break
   (before the loop, with a callback, rec_error is computed for the initial iterate: `e0`).  The three gates are parameters of the model;
   the update, the callback's answer and the convergence test (it sees the recorded history) are oracles. *)
Section RandLoop.
Variables (St E : Type) (err : St -> E).
Record roracle := mkR { r_update : nat -> St -> St; r_cb_stop : nat -> bool; r_conv_stop : nat -> list E -> bool }.
Variables (Or : roracle) (compute record cb : bool).
Fixpoint r_loop (n it : nat) (cur : St) (e0 : E) (errs : list E) (cbs : list (St * E)) : St * list E * list (St * E) :=
  match n with
  | 0 => (cur, errs, cbs)
  | S n' => let st := r_update Or it cur in
            let e := if compute then err st else e0 in
            let errs' := if record then errs ++ [e] else errs in
            let cbs' := if cb then cbs ++ [(st, e)] else cbs in
            if cb && r_cb_stop Or it then (st, errs', cbs')
            else if record && r_conv_stop Or it errs' then (st, errs', cbs')
            else r_loop n' (S it) st e errs' cbs'
  end.
(* the iterates of the executed iterations *)
Fixpoint r_states (n it : nat) (cur : St) (e0 : E) (errs : list E) : list St :=
  match n with
  | 0 => []
  | S n' => let st := r_update Or it cur in
            let e := if compute then err st else e0 in
            let errs' := if record then errs ++ [e] else errs in
            st :: (if cb && r_cb_stop Or it then [] else if record && r_conv_stop Or it errs' then [] else r_states n' (S it) st e errs')
  end.
End RandLoop.
Arguments r_update {St E}. Arguments r_cb_stop {St E}. Arguments r_conv_stop {St E}.
(* counts observable from outside: recorded values and in-loop callback invocations (callback stop at iteration stop_at) *)
Definition r_loop_counts (n : nat) (stop_at : option nat) (compute record cb : bool) : nat * nat :=
  let orc := @mkR unit unit (fun _ st => st) (fun it => match stop_at with Some j => Nat.eqb it j | None => false end) (fun _ _ => false) in
  let r := @r_loop unit unit (fun _ => tt) orc compute record cb n 0 tt tt nil nil in
  (length (snd (fst r)), length (snd r)).

(* ---------------------------------------------------------------- the sweep with cp_normalize INSIDE it (non_negative_parafac, non_negative_parafac_hals) *)
(* for mode in modes: mttkrp = unfolding_dot_khatri_rao(tensor, (weights, factors), mode); factors[mode] = update(...)
                       if normalize_factors and mode != modes[-1]: weights, factors = cp_normalize((weights, factors))
   then the shortcut with the remembered MTTKRP, paired with factors[modes[-1]].  `norm` is an oracle on the mode just updated and (weights, factors): after the
   LAST updated mode nothing is normalised, which is what keeps the remembered MTTKRP valid. *)
Section NormSweep.
Context {F : Type} (Op : fops F).
Variables (solve : nat -> tensor F -> list (tensor F) -> tensor F) (norm : nat -> @cpstate F -> @cpstate F) (normalize : bool) (X : tensor F) (R : nat).
Definition ns_step (m : nat) (st : @cpstate F) : @cpstate F * tensor F :=
  let Mt := mttkrp_data Op X R (fst st) (snd st) m in ((fst st, set_nth m (solve m Mt (snd st)) (snd st)), Mt).
Fixpoint norm_sweep (ms : list nat) (st : @cpstate F) (M : option (tensor F)) : @cpstate F * option (tensor F) :=
  match ms with
  | [] => (st, M)
  | m :: ms' => let r := ns_step m st in
                let st2 := match ms' with [] => fst r | _ :: _ => if normalize then norm m (fst r) else fst r end in
                norm_sweep ms' st2 (Some (snd r))
  end.
Definition norm_sweep_error (ms : list nat) (st : @cpstate F) : F * F :=
  let r := norm_sweep ms st None in
  match snd r with
  | Some Mt => err_shortcut_with Op X R (fst (fst r)) (snd (fst r)) Mt (last ms 0)
  | None => err_cp_true Op X R (fst (fst r)) (snd (fst r)) None None
  end.
End NormSweep.

(* ---------------------------------------------------------------- tensor_ring_als: the sub-problem of mode dim ON DATA, step by step *)
(* the tensordot / transpose / reshape pipeline of tensorly/decomposition/_tr_als.py executed on tensors as data:
     tensor_unf = matricize(tensor, [n != dim], [dim])             = reshape(transpose(tensor, rows ++ [dim]), (prod rows, shape[dim]))
     subchain = tr_decomp[(dim+1) % N]; for j in 2..N-1: subchain = tensordot(subchain, tr_decomp[(dim+j) % N], axes=1)
     design_mat = reshape(transpose(subchain, tr_idx), (-1, rank[dim] * rank[dim+1]))
     tr_decomp[dim] = transpose(reshape(sol, (rank[dim], rank[dim+1], shape[dim])), [0, 2, 1])   <=>   sol = reshape(transpose(core, [0, 2, 1]), (rank[dim]*rank[dim+1], shape[dim]))
     error = norm(matmul(design_mat, sol) - tensor_unf)
   The correspondence evaluates this on the cores of real runs and requires EXACT equality with the index-level ls_residual2 (the quantity the
   trace-cyclicity theorems are about) for every mode: the index-level restatement and the data-level pipeline agree on every instance. *)
Section TRData.
Context {F : Type} (Op : fops F).
Definition tensordot1 (a b : tensor F) : tensor F :=
  let sa := removelast (shape a) in let sb := tl (shape b) in let k := last (shape a) 0 in
  tabulate (sa ++ sb) (fun idx => Fsum Op k (fun c => fmul Op (get (f0 Op) a (firstn (length sa) idx ++ [c])) (get (f0 Op) b (c :: skipn (length sa) idx)))).
Definition matricize_data (X : tensor F) (rows : list nat) (col : nat) : tensor F :=
  let t := transpose (f0 Op) (rows ++ [col]) X in reshape [prod (removelast (shape t)); last (shape t) 0] t.
Definition matmul_data (a b : tensor F) : tensor F :=
  let m := nth 0 (shape a) 0 in let k := nth 1 (shape a) 0 in let n := nth 1 (shape b) 0 in
  tabulate [m; n] (fun pi => Fsum Op k (fun q => fmul Op (get (f0 Op) a [nth 0 pi 0; q]) (get (f0 Op) b [q; nth 1 pi 0]))).
Definition tr_design_data (cores : list (tensor F)) (dim : nat) : tensor F :=
  let N := length cores in
  let core := fun k => nth k cores (mk [] []) in
  let sub := fold_left (fun acc j => tensordot1 acc (core ((dim + j) mod N))) (seq 2 (N - 2)) (core ((dim + 1) mod N)) in
  let subT := transpose (f0 Op) (tr_idx N dim) sub in
  let cols := nth 0 (shape (core dim)) 0 * nth 2 (shape (core dim)) 0 in
  reshape [prod (shape subT) / cols; cols] subT.
Definition tr_sol_data (cores : list (tensor F)) (dim : nat) : tensor F :=
  let c := nth dim cores (mk [] []) in
  let t := transpose (f0 Op) [0; 2; 1] c in
  reshape [nth 0 (shape c) 0 * nth 2 (shape c) 0; nth 1 (shape c) 0] t.
Definition tr_residual2_data (X : tensor F) (cores : list (tensor F)) (dim : nat) : F :=
  let N := length cores in
  let unf := matricize_data X (remove_nth dim (seq 0 N)) dim in
  let pred := matmul_data (tr_design_data cores dim) (tr_sol_data cores dim) in
  Fsum_idx Op (shape unf) (fun pi => sq Op (fsub Op (get (f0 Op) pred pi) (get (f0 Op) unf pi))).
End TRData.
