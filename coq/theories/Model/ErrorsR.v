(* C06 -- definitions that only make sense over the reals: cp_normalize transcribed (column norms, zero norms replaced by 1,
   weights multiplied by the norms).  Definitions only. *)
From Coq Require Import List Arith Bool Reals.
From TLV Require Import Base.BigSum Base.Ops Model.Errors.
Import ListNotations.
Local Open Scope R_scope.

(* scales = norm(factor, axis=0) *)
Definition colnorm (s : list nat) (st : blocks (@blk R)) (k r : nat) : R :=
  sqrt (Fsum Rops (nth k s 0%nat) (fun i => st k i r * st k i r)).
(* scales_non_zero = where(scales == 0, 1, scales) *)
Definition nonzero_scale (d : R) : R := if Req_EM_T d 0 then 1 else d.
(* cp_normalize((weights, factors)): weights = weights * scales (factor after factor), factor / scales_non_zero *)
Definition cp_normalize_R (s : list nat) (st : blocks (@blk R)) : blocks (@blk R) :=
  fun k i r =>
    if k <? length s then st k i r / nonzero_scale (colnorm s st k r)
    else if k =? length s then st k i r * prodF Rops (map (fun k' => colnorm s st k' r) (seq 0 (length s)))
    else st k i r.
