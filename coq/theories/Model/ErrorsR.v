(* C06 -- definitions that only make sense over the reals: cp_normalize transcribed (column norms, zero norms replaced by 1,
   weights multiplied by the norms).  Definitions only. *)
From Coq Require Import List Arith Bool Reals.
From TLV Require Import Base.BigSum Base.Ops Model.Errors.
Import ListNotations.
Local Open Scope R_scope.

(* scales = norm(factor, axis=0) *)
Definition colnorm (s : list nat) (st : blocks (@blk R)) (k r : nat) : R :=
  sqrt (Fsum Rops (nth k s 0%nat) (fun i => st k i r * st k i r)).
(* scales_non_zero = where(scales == 0, 1, scales) *)
Definition nonzero_scale (d : R) : R := if Req_EM_T d 0 then 1 else d.
(* cp_normalize((weights, factors)), step by step as in tensorly/cp_tensor.py:
     for i, factor in enumerate(factors):
         if i == 0: factor = factor * weights; weights = ones(rank)          <- absorb_weights
         scales = norm(factor, axis=0); scales_non_zero = where(scales == 0, 1, scales)
         weights = weights * scales; normalized_factors.append(factor / scales_non_zero)   <- normalize_columns *)
Definition absorb_weights (s : list nat) (st : blocks (@blk R)) : blocks (@blk R) :=
  fun k i r =>
    if k =? 0 then st 0%nat i r * st (length s) 0%nat r          (* factor 0 times the incoming weights *)
    else if k =? length s then 1                                 (* weights = ones *)
    else st k i r.
Definition normalize_columns (s : list nat) (st : blocks (@blk R)) : blocks (@blk R) :=
  fun k i r =>
    if k <? length s then st k i r / nonzero_scale (colnorm s st k r)
    else if k =? length s then st k i r * prodF Rops (map (fun k' => colnorm s st k' r) (seq 0 (length s)))
    else st k i r.
Definition cp_normalize_R (s : list nat) (st : blocks (@blk R)) : blocks (@blk R) := normalize_columns s (absorb_weights s st).
(* cp_normalize on (weights, factors) given as data, over the reals: the transcription above between blocks_of and data_of_blocks
   (the fl_norm of Model/Errors.v:fl_loop for parafac(normalize_factors=True)) *)
Definition cp_normalize_data_R (s : list nat) (Rk : nat) (st : @cpstate R) : @cpstate R :=
  data_of_blocks s Rk (cp_normalize_R s (blocks_of Rops (fst st) (snd st))).
