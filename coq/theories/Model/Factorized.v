(* Model of the factorised-tensor modules of TensorLy (C03):
     tensorly/cp_tensor.py        _validate_cp_tensor, cp_to_tensor (order-1 route [masked], mode-0 route, masked route),
                                  cp_to_unfolded, cp_to_vec, cp_norm (squared: Gram-Hadamard)
     tensorly/tucker_tensor.py    _validate_tucker_tensor, tucker_to_tensor/_unfolded/_vec (skip_factor, transpose_factors)
     tensorly/tt_tensor.py        _validate_tt_tensor, tt_to_tensor/_unfolded/_vec
     tensorly/tr_tensor.py        _validate_tr_tensor, tr_to_tensor/_unfolded/_vec
     tensorly/tt_matrix.py        _validate_tt_matrix, tt_matrix_to_tensor (tenalg/core_tenalg/_tt_matrix.py and tenalg/einsum_tenalg/_tt_matrix.py), _to_matrix, ...
     tensorly/parafac2_tensor.py  _validate_parafac2_tensor, parafac2_to_slice(s), parafac2_to_tensor/_unfolded/_vec
   Every function has the composition structure of the source (reshape with -1, dot, moveaxis, fold, the
   iterative Khatri-Rao product, zero tensor + slice updates); the small matrix helpers (mdot, mT, kr2, ...)
   are local to this file.  Written once over a record of operations `fops F`; executed at Zops (exact on
   integer-valued factors), proved for every carrier whose operations form a commutative ring.
   Definitions only. *)
From Coq Require Import List Arith ZArith Lia Bool.
From TLV Require Import Base.Shape Base.PyList Base.Tensor Base.BigSum Base.Ops Model.Base Model.BaseExt.
Import ListNotations.

Section M.
Context {F : Type} (Op : fops F).
Local Notation zero := (f0 Op).
Local Notation one := (f1 Op).
Local Notation "a *f b" := (fmul Op a b) (at level 40, left associativity).

Definition fsumn (n : nat) (f : nat -> F) : F := bigsum F (f0 Op) (fadd Op) n f.
Definition nrows (A : tensor F) : nat := nth 0 (shape A) 0.
Definition ncols (A : tensor F) : nat := nth 1 (shape A) 0.
Definition ix (k : nat) (idx : list nat) : nat := nth k idx 0.
Definition get2 (A : tensor F) (i j : nat) : F := get zero A [i; j].
Definition get1 (v : tensor F) (i : nat) : F := get zero v [i].

(* ------------------------------------------------------------------ small matrix helpers *)
(* T.dot on two 2-D arrays *)
Definition mdot (A B : tensor F) : res (tensor F) :=
  if (ndim A =? 2) && (ndim B =? 2) && (ncols A =? nrows B) then
    Ok (tabulate [nrows A; ncols B]
          (fun idx => fsumn (ncols A) (fun k => get2 A (ix 0 idx) k *f get2 B k (ix 1 idx))))
  else Err.
(* T.transpose of a 2-D array *)
Definition mT (A : tensor F) : tensor F :=
  tabulate [ncols A; nrows A] (fun idx => get2 A (ix 1 idx) (ix 0 idx)).
(* A * w  for a 2-D array A (n, r) and a 1-D array w (r,): broadcast along the rows *)
Definition scale_cols (A w : tensor F) : tensor F :=
  tabulate [nrows A; ncols A] (fun idx => get2 A (ix 0 idx) (ix 1 idx) *f get1 w (ix 1 idx)).
Definition opt_scale (w : option (tensor F)) (A : tensor F) : tensor F :=
  match w with None => A | Some wt => scale_cols A wt end.
(* T.sum(M, axis=1) of a 2-D array *)
Definition sum_axis1 (M : tensor F) : tensor F :=
  tabulate [nrows M] (fun idx => fsumn (ncols M) (fun r => get2 M (ix 0 idx) r)).
(* one step of the Khatri-Rao loop: reshape(res,(s1,1,s2)) * reshape(e,(1,s3,s4)) -> reshape(-1, n_columns) *)
Definition kr2 (A B : tensor F) : tensor F :=
  tabulate [nrows A * nrows B; ncols A]
    (fun idx => get2 A (ix 0 idx / nrows B) (ix 1 idx) *f get2 B (ix 0 idx mod nrows B) (ix 1 idx)).
(* khatri_rao(matrices): a single matrix is returned as it is; otherwise the left-to-right loop *)
Definition khatri_rao (ms : list (tensor F)) : res (tensor F) :=
  match ms with [] => Err | m :: rest => Ok (fold_left kr2 rest m) end.
(* res * reshape(mask, (-1, 1)) *)
Definition apply_mask (K mask : tensor F) : res (tensor F) :=
  if length (data mask) =? nrows K then
    Ok (tabulate [nrows K; ncols K] (fun idx => get2 K (ix 0 idx) (ix 1 idx) *f nth (ix 0 idx) (data mask) zero))
  else Err.

(* vector * reshape(mask, (-1,)) for a 1-D vector *)
Definition mask_vec (v mask : tensor F) : res (tensor F) :=
  if length (data mask) =? nrows v then
    Ok (tabulate [nrows v] (fun idx => get1 v (ix 0 idx) *f nth (ix 0 idx) (data mask) zero))
  else Err.

(* ------------------------------------------------------------------ CP *)
Definition cp_rank_of (f : tensor F) : res nat :=
  match shape f with [_; r] => Ok r | [_] => Ok 1 | _ => Err end.
Definition cp_factor_dims (f : tensor F) : res (nat * nat) :=
  match shape f with [n; r] => Ok (n, r) | [n] => Ok (n, 1) | _ => Err end.
Fixpoint cp_shapes (rank : nat) (fs : list (tensor F)) : res (list nat) :=
  match fs with
  | [] => Ok []
  | f :: r => rbind (cp_factor_dims f) (fun nc =>
                if snd nc =? rank then rbind (cp_shapes rank r) (fun s => Ok (fst nc :: s)) else Err)
  end.
Definition weights_ok (w : option (tensor F)) (rank : nat) : bool :=
  match w with None => true | Some wt => match shape wt with [n] => n =? rank | _ => false end end.
(* _validate_cp_tensor((weights, factors)) -> (shape, rank) *)
Definition validate_cp (w : option (tensor F)) (fs : list (tensor F)) : res (list nat * nat) :=
  match fs with
  | [] => Err
  | f0 :: _ => rbind (cp_rank_of f0) (fun rank => rbind (cp_shapes rank fs) (fun shp =>
                 if weights_ok w rank then Ok (shp, rank) else Err))
  end.

(* The reconstruction functions take the (shape, rank) pair returned by _validate_cp_tensor as a parameter `v`: for a
   (weights, factors) tuple it is recomputed from the factors, for a CPTensor object it is the pair cached at construction
   (see the object model at the end of this file).
   1-D factors (accepted by the validator for rank 1) are viewed as single columns right after validation
   (_as_matrices: T.reshape(f, (-1, 1)) if T.ndim(f) == 1 -- repaired in /repo by 148e558). *)
Definition all_2d (fs : list (tensor F)) : bool := forallb (fun f => ndim f =? 2) fs.
Definition as_col (f : tensor F) : tensor F := if ndim f =? 1 then reshape [nrows f; 1] f else f.
Definition as_matrices (fs : list (tensor F)) : list (tensor F) := map as_col fs.

(* cp_to_tensor(cp_tensor, mask) *)
Definition cp_to_tensor_from (v : res (list nat * nat)) (w : option (tensor F)) (fs : list (tensor F)) (mask : option (tensor F))
  : res (tensor F) :=
  rbind v (fun sr =>
    let shp := fst sr in
    let fs := as_matrices fs in
    if negb (all_2d fs) then Err else
    match fs with
    | [] => Err
    | fa :: rest =>
      let f0w := opt_scale w fa in
      if length shp =? 1 then                          (* "just a vector": sum(weights * factors[0], axis=1) [* reshape(mask, (-1,))] *)
        match mask with None => Ok (sum_axis1 f0w) | Some m => mask_vec (sum_axis1 f0w) m end
      else match mask with
           | None => rbind (khatri_rao (remove_nth 0 fs)) (fun K =>
                     rbind (mdot f0w (mT K)) (fun U => fold zero U 0 shp))
           | Some m => rbind (khatri_rao (f0w :: rest)) (fun K =>
                       rbind (apply_mask K m) (fun KM => fold zero (sum_axis1 KM) 0 shp))
           end
    end).
Definition cp_to_tensor (w : option (tensor F)) (fs : list (tensor F)) (mask : option (tensor F)) : res (tensor F) :=
  cp_to_tensor_from (validate_cp w fs) w fs mask.

(* cp_to_unfolded(cp_tensor, mode): an order-1 CP tensor is returned as a single column (mode 0 only) *)
Definition cp_to_unfolded_from (v : res (list nat * nat)) (w : option (tensor F)) (fs : list (tensor F)) (mode : nat) : res (tensor F) :=
  rbind v (fun sr =>
    if length (fst sr) =? 1 then
      (if mode =? 0 then rbind (cp_to_tensor_from v w fs None) (fun t => reshape_spec [None; Some 1] t) else Err)
    else let fs := as_matrices fs in
    if negb (all_2d fs) then Err
    else if mode <? length fs then
      rbind (khatri_rao (remove_nth mode fs)) (fun K =>
        mdot (opt_scale w (nth mode fs (mk [] []))) (mT K))
    else Err).
Definition cp_to_unfolded (w : option (tensor F)) (fs : list (tensor F)) (mode : nat) : res (tensor F) :=
  cp_to_unfolded_from (validate_cp w fs) w fs mode.

(* cp_to_unfolded(cp_tensor, mode) with a NEGATIVE mode = -k (repo b8d05d5): an order-1 tensor accepts -1; otherwise the mode must lie
   in [-order, order) -- order = length of the validator's shape -- and is normalised (mode % order) before factors[mode] and
   khatri_rao(skip_matrix=mode) *)
Definition cp_to_unfolded_from_neg (v : res (list nat * nat)) (w : option (tensor F)) (fs : list (tensor F)) (k : nat) : res (tensor F) :=
  rbind v (fun sr =>
    if length (fst sr) =? 1 then
      (if k =? 1 then rbind (cp_to_tensor_from v w fs None) (fun t => reshape_spec [None; Some 1] t) else Err)
    else if (1 <=? k) && (k <=? length (fst sr)) then cp_to_unfolded_from v w fs (length (fst sr) - k)
    else Err).
Definition cp_to_unfolded_neg (w : option (tensor F)) (fs : list (tensor F)) (k : nat) : res (tensor F) :=
  cp_to_unfolded_from_neg (validate_cp w fs) w fs k.

Definition cp_to_vec_from v (w : option (tensor F)) (fs : list (tensor F)) : res (tensor F) :=
  rbind (cp_to_tensor_from v w fs None) tensor_to_vec.
Definition cp_to_vec (w : option (tensor F)) (fs : list (tensor F)) : res (tensor F) := cp_to_vec_from (validate_cp w fs) w fs.

(* cp_norm ** 2: sum over (r, s) of  prod_k (A_k^T A_k)[r, s] * w_r * w_s  (factors viewed as matrices first) *)
Definition gram (f : tensor F) (r s : nat) : F := fsumn (nrows f) (fun i => get2 f i r *f get2 f i s).
Definition wv (w : option (tensor F)) (r : nat) : F := match w with None => one | Some wt => get1 wt r end.
Definition cp_normsq_from (v : res (list nat * nat)) (w : option (tensor F)) (fs : list (tensor F)) : res F :=
  rbind v (fun _ =>
    let fs := as_matrices fs in
    if negb (ndim (hd (mk [] []) fs) =? 2) then Err else
    let R := ncols (hd (mk [] []) fs) in
    Ok (fsumn R (fun r => fsumn R (fun s =>
          fold_left (fun acc f => acc *f gram f r s) fs one *f (wv w r *f wv w s))))).
Definition cp_normsq (w : option (tensor F)) (fs : list (tensor F)) : res F := cp_normsq_from (validate_cp w fs) w fs.

(* ------------------------------------------------------------------ Tucker *)
Fixpoint tucker_dims (k : nat) (cs : list nat) (fs : list (tensor F)) : res (list nat * list nat) :=
  match fs with
  | [] => Ok ([], [])
  | f :: r => match shape f with
              | [n; c] => if c =? nth k cs 0
                          then rbind (tucker_dims (S k) cs r) (fun sr => Ok (n :: fst sr, c :: snd sr)) else Err
              | _ => Err
              end
  end.
(* _validate_tucker_tensor((core, factors)) -> (shape, rank) *)
Definition validate_tucker (core : tensor F) (fs : list (tensor F)) : res (list nat * list nat) :=
  if length fs <? 2 then Err
  else if negb (length fs =? ndim core) then Err
  else tucker_dims 0 (shape core) fs.

(* core backend mode_dot with a matrix: fold(dot(M, unfold(T, mode)), mode, new_shape) *)
Definition mode_dot (T M : tensor F) (mode : nat) : res (tensor F) :=
  if (ndim M =? 2) && (mode <? ndim T) && (ncols M =? nth mode (shape T) 0) then
    rbind (unfold zero T mode) (fun U => rbind (mdot M U) (fun P =>
      fold zero P mode (set_nth mode (nrows M) (shape T))))
  else Err.
(* multi_mode_dot(core, factors, skip=skip, transpose=tr) with modes = range(len(factors)) *)
Fixpoint multi_mode_dot_from (k : nat) (T : tensor F) (Ms : list (tensor F)) (skip : option nat) (tr : bool)
  : res (tensor F) :=
  match Ms with
  | [] => Ok T
  | M :: rest =>
    if match skip with Some s => s =? k | None => false end then multi_mode_dot_from (S k) T rest skip tr
    else if negb (ndim M =? 2) then Err
    else rbind (mode_dot T (if tr then mT M else M) k) (fun T' => multi_mode_dot_from (S k) T' rest skip tr)
  end.
Definition tucker_to_tensor (core : tensor F) (fs : list (tensor F)) (skip : option nat) (tr : bool) :=
  multi_mode_dot_from 0 core fs skip tr.
(* tucker_to_tensor((core, factors), modes=ms): factor j is multiplied along mode ms[j] (matrix operands; zip truncates to the shorter
   list; both backends: the core backend sorts by mode and applies mode_dot one after the other, the einsum backend contracts all at
   once -- for pairwise distinct modes every product sees the core's own size along its mode, so one fold describes both) *)
Fixpoint multi_mode_dot_modes (T : tensor F) (Ms : list (tensor F)) (ms : list nat) : res (tensor F) :=
  match Ms, ms with
  | M :: Ms', m :: ms' => if negb (ndim M =? 2) then Err else rbind (mode_dot T M m) (fun T' => multi_mode_dot_modes T' Ms' ms')
  | _, _ => Ok T
  end.
Definition tucker_to_tensor_modes (core : tensor F) (fs : list (tensor F)) (ms : list nat) := multi_mode_dot_modes core fs ms.
Definition tucker_to_unfolded core fs (mode : nat) skip tr :=
  rbind (tucker_to_tensor core fs skip tr) (fun t => unfold zero t mode).
Definition tucker_to_vec core fs skip tr := rbind (tucker_to_tensor core fs skip tr) tensor_to_vec.

(* ------------------------------------------------------------------ tensor train / tensor ring *)
Definition shape3 (f : tensor F) : res (nat * nat * nat) :=
  match shape f with [a; b; c] => Ok (a, b, c) | _ => Err end.
Fixpoint all_shape3 (cores : list (tensor F)) : res (list (nat * nat * nat)) :=
  match cores with
  | [] => Ok []
  | f :: r => rbind (shape3 f) (fun x => rbind (all_shape3 r) (fun l => Ok (x :: l)))
  end.
Definition d3a (x : nat * nat * nat) := fst (fst x).
Definition d3b (x : nat * nat * nat) := snd (fst x).
Definition d3c (x : nat * nat * nat) := snd x.

(* rank / shape bookkeeping of _validate_tt_tensor: consecutive ranks match, boundary ranks are 1 *)
Fixpoint chain_ok (prev : nat) (ds : list (nat * nat * nat)) : bool :=
  match ds with [] => true | x :: r => (d3a x =? prev) && chain_ok (d3c x) r end.
Definition validate_tt (cores : list (tensor F)) : res (list nat * list nat) :=
  match cores with
  | [] => Err
  | _ => rbind (all_shape3 cores) (fun ds =>
           if chain_ok 1 ds && (d3c (last ds (0, 0, 0)) =? 1)
           then Ok (map d3b ds, map d3a ds ++ [d3c (last ds (0, 0, 0))]) else Err)
  end.
(* _validate_tr_tensor: at least two cores, consecutive ranks match cyclically (factors[index-1] with index 0) *)
Definition validate_tr (cores : list (tensor F)) : res (list nat * list nat) :=
  if length cores <? 2 then Err
  else rbind (all_shape3 cores) (fun ds =>
         let rl := d3c (last ds (0, 0, 0)) in
         if chain_ok rl ds then Ok (map d3b ds, map d3a ds ++ [rl]) else Err).

(* one pass of the loop body shared by tt_to_tensor and tr_to_tensor *)
Definition tt_step (full factor : tensor F) : res (tensor F) :=
  rbind (shape3 factor) (fun x =>
  rbind (reshape_spec [Some (d3a x); None] factor) (fun fm =>
  rbind (mdot full fm) (fun P => reshape_spec [None; Some (d3c x)] P))).
Fixpoint tt_loop (full : tensor F) (rest : list (tensor F)) : res (tensor F) :=
  match rest with [] => Ok full | f :: r => rbind (tt_step full f) (fun full' => tt_loop full' r) end.

(* the reshape / dot chain of tt_to_tensor (all of tt_to_tensor before repo 8b25fc6) *)
Definition tt_to_tensor_raw (cores : list (tensor F)) : res (tensor F) :=
  match cores with
  | [] => Err
  | fa :: rest =>
    rbind (all_shape3 cores) (fun ds =>
    let full_shape := map d3b ds in
    rbind (reshape_spec [Some (hd 0 full_shape); None] fa) (fun full =>
    rbind (tt_loop full rest) (fun full' => reshape_spec (map Some full_shape) full')))
  end.
(* tt_to_tensor(factors): _validate_tt_tensor(factors) first (repo 8b25fc6), then the chain.  v is the validator's answer: recomputed
   from a list of cores, the cached (shape, rank) for a TTTensor object *)
Definition tt_to_tensor_from (v : res (list nat * list nat)) (cores : list (tensor F)) : res (tensor F) :=
  rbind v (fun _ => tt_to_tensor_raw cores).
Definition tt_to_tensor (cores : list (tensor F)) : res (tensor F) := tt_to_tensor_from (validate_tt cores) cores.
Definition tt_to_unfolded_from v cores (mode : nat) := rbind (tt_to_tensor_from v cores) (fun t => unfold zero t mode).
Definition tt_to_vec_from v cores := rbind (tt_to_tensor_from v cores) tensor_to_vec.
Definition tt_to_unfolded cores (mode : nat) := rbind (tt_to_tensor cores) (fun t => unfold zero t mode).
Definition tt_to_vec cores := rbind (tt_to_tensor cores) tensor_to_vec.

(* the reshape / moveaxis / dot closure of tr_to_tensor (all of tr_to_tensor before repo 8b25fc6) *)
Definition tr_to_tensor_raw (cores : list (tensor F)) : res (tensor F) :=
  match cores with
  | [] => Err
  | fa :: rest =>
    let fl := last rest fa in
    let middle := removelast rest in
    rbind (all_shape3 cores) (fun ds =>
    let full_shape := map d3b ds in
    rbind (shape3 fa) (fun xa => rbind (shape3 fl) (fun xl =>
    rbind (reshape_spec [None; Some (d3c xa)] fa) (fun full =>
    rbind (tt_loop full middle) (fun full1 =>
    rbind (reshape_spec [Some (d3c xl); None; Some (d3a xl)] full1) (fun full3 =>
    rbind (reshape_spec [None; Some (d3a xl * d3c xl)] (moveaxis zero full3 0 2)) (fun fullm =>
    rbind (reshape_spec [None; Some (last full_shape 0)] (moveaxis zero fl 2 1)) (fun facm =>
    rbind (mdot fullm facm) (fun P => reshape_spec (map Some full_shape) P)))))))))
  end.
(* tr_to_tensor(factors): _validate_tr_tensor(factors) first (repo 8b25fc6; that validator has no wrapper shortcut: a TRTensor is
   re-validated from its stored cores) *)
Definition tr_to_tensor (cores : list (tensor F)) : res (tensor F) := rbind (validate_tr cores) (fun _ => tr_to_tensor_raw cores).
Definition tr_to_unfolded cores (mode : nat) := rbind (tr_to_tensor cores) (fun t => unfold zero t mode).
Definition tr_to_vec cores := rbind (tr_to_tensor cores) tensor_to_vec.

(* ------------------------------------------------------------------ TT-matrix *)
Definition shape4 (f : tensor F) : res (nat * nat * nat * nat) :=
  match shape f with [a; b; c; e] => Ok (a, b, c, e) | _ => Err end.
Fixpoint all_shape4 (cores : list (tensor F)) : res (list (nat * nat * nat * nat)) :=
  match cores with
  | [] => Ok []
  | f :: r => rbind (shape4 f) (fun x => rbind (all_shape4 r) (fun l => Ok (x :: l)))
  end.
Definition d4a (x : nat * nat * nat * nat) := fst (fst (fst x)).
Definition d4b (x : nat * nat * nat * nat) := snd (fst (fst x)).
Definition d4c (x : nat * nat * nat * nat) := snd (fst x).
Definition d4e (x : nat * nat * nat * nat) := snd x.
Fixpoint chain_ok4 (prev : nat) (ds : list (nat * nat * nat * nat)) : bool :=
  match ds with [] => true | x :: r => (d4a x =? prev) && chain_ok4 (d4e x) r end.
(* _validate_tt_matrix -> (left_shape + right_shape, rank) *)
Definition validate_ttm (cores : list (tensor F)) : res (list nat * list nat) :=
  match cores with
  | [] => Err
  | _ => rbind (all_shape4 cores) (fun ds =>
           if chain_ok4 1 ds && (d4e (last ds (0, 0, 0, 0)) =? 1)
           then Ok (map d4b ds ++ map d4c ds, map d4a ds ++ [d4e (last ds (0, 0, 0, 0))]) else Err)
  end.
(* tensordot(A, B, ([-1], [0])) *)
Definition tdot (A B : tensor F) : res (tensor F) :=
  match shape B with
  | [] => Err
  | c :: sb =>
    if (1 <=? ndim A) && (last (shape A) 0 =? c) then
      let sa := removelast (shape A) in
      Ok (tabulate (sa ++ sb) (fun idx =>
            fsumn c (fun k => get zero A (firstn (length sa) idx ++ [k]) *f get zero B (k :: skipn (length sa) idx))))
    else Err
  end.
(* core backend tt_matrix_to_tensor: chain of tensordots, reshape to the interleaved shape, transpose *)
Definition ttm_to_tensor (cores : list (tensor F)) : res (tensor F) :=
  match cores with
  | [] => Err
  | fa :: rest =>
    rbind (all_shape4 cores) (fun ds =>
    let full_shape := flat_map (fun x => [d4b x; d4c x]) ds in
    let n := length cores in
    let order := map (fun k => 2 * k) (seq 0 n) ++ map (fun k => 2 * k + 1) (seq 0 n) in
    rbind (fold_left (fun acc f => rbind acc (fun a => tdot a f)) rest (Ok fa)) (fun r =>
    rbind (reshape_spec (map Some full_shape) r) (fun r' => Ok (transpose zero order r'))))
  end.
Definition ttm_to_matrix (cores : list (tensor F)) : res (tensor F) :=
  rbind (all_shape4 cores) (fun ds =>
  rbind (ttm_to_tensor cores) (fun t => reshape_spec [Some (prod (map d4b ds)); None] t)).
Definition ttm_to_unfolded cores (mode : nat) := rbind (ttm_to_tensor cores) (fun t => unfold zero t mode).
Definition ttm_to_vec cores := rbind (ttm_to_tensor cores) tensor_to_vec.

(* einsum tenalg backend: tl.einsum("<r0 i0 o0 r1>,<r1 i1 o1 r2>,...-><i0 o0 i1 o1 ...>", *cores), then the same transposition.
   np.einsum semantics: a label must have one size across the operands, size-1 occurrences being broadcast; the labels that do
   not occur in the output (all rank labels, including the two boundary ones) are summed *)
Definition bidx (d k : nat) : nat := if d =? 1 then 0 else k.
Fixpoint ein_ok (ds : list (nat * nat * nat * nat)) : bool :=
  match ds with
  | x :: ((y :: _) as r) => ((d4e x =? d4a y) || (d4e x =? 1) || (d4a y =? 1)) && ein_ok r
  | _ => true
  end.
Definition label_size (x : nat * nat * nat * nat) (r : list (nat * nat * nat * nat)) : nat :=
  match r with y :: _ => Nat.max (d4e x) (d4a y) | [] => d4e x end.
Fixpoint ein_chain (cs : list (tensor F)) (ds : list (nat * nat * nat * nat)) (ios : list nat) (a : nat) : F :=
  match cs, ds, ios with
  | G :: cs', x :: ds', i :: o :: ios' =>
      fsumn (label_size x ds') (fun c => get zero G [bidx (d4a x) a; i; o; bidx (d4e x) c] *f ein_chain cs' ds' ios' c)
  | _, _, _ => one
  end.
Definition ttm_to_tensor_einsum_raw (cores : list (tensor F)) : res (tensor F) :=
  match cores with
  | [] => Err
  | _ =>
    rbind (all_shape4 cores) (fun ds =>
    if ein_ok ds then
      let full_shape := flat_map (fun x => [d4b x; d4c x]) ds in
      let n := length cores in
      let order := map (fun k => 2 * k) (seq 0 n) ++ map (fun k => 2 * k + 1) (seq 0 n) in
      let r0 := d4a (hd (0, 0, 0, 0) ds) in
      Ok (transpose zero order (tabulate full_shape (fun idx => fsumn r0 (fun a => ein_chain cores ds idx a))))
    else Err)
  end.
(* since repo 8b25fc6 the einsum route first checks: every core 4-D, left rank of core 0 is 1, consecutive ranks equal, last rank 1
   -- the conditions of _validate_tt_matrix, on the stored cores -- so the broadcasting / summed-boundary cases of the raw einsum are
   no longer reachable *)
Definition ttm_to_tensor_einsum (cores : list (tensor F)) : res (tensor F) :=
  rbind (validate_ttm cores) (fun _ => ttm_to_tensor_einsum_raw cores).
Definition ttm_to_matrix_einsum (cores : list (tensor F)) : res (tensor F) :=
  rbind (all_shape4 cores) (fun ds =>
  rbind (ttm_to_tensor_einsum cores) (fun t => reshape_spec [Some (prod (map d4b ds)); None] t)).
Definition ttm_to_unfolded_einsum cores (mode : nat) := rbind (ttm_to_tensor_einsum cores) (fun t => unfold zero t mode).
Definition ttm_to_vec_einsum cores := rbind (ttm_to_tensor_einsum cores) tensor_to_vec.

(* ------------------------------------------------------------------ einsum tenalg backend: CP and Tucker *)
(* Under tenalg.set_backend("einsum") cp_tensor.py / tucker_tensor.py run the same code with the einsum khatri_rao and the einsum
   multi_mode_dot.  Both are ONE np.einsum call; they are modelled by their sum-of-products semantics (as for the TT-matrix).
   Malformed operands: the model answers Err unless all shapes agree exactly (np.einsum would broadcast size-1 dimensions);
   that corner is not compared (the rejection half is compared on the validators and the core routes). *)
Fixpoint kr_entry (ms : list (tensor F)) (js : list nat) (r : nat) : F :=
  match ms, js with
  | m :: ms', j :: js' => get2 m j r *f kr_entry ms' js' r
  | _, _ => one
  end.
(* einsum khatri_rao(matrices, mask=mask): a single matrix is returned as it is (times the mask column); otherwise
   einsum("ba,ca,..[,bc..]->bc..a") reshaped to (-1, n_columns) *)
Definition kr_einsum (ms : list (tensor F)) (mask : option (tensor F)) : res (tensor F) :=
  match ms with
  | [] => Err
  | [m] => match mask with None => Ok m | Some mv => apply_mask m mv end
  | m :: _ =>
    let R := ncols m in
    if forallb (fun x => (ndim x =? 2) && (ncols x =? R)) ms then
      let ns := map nrows ms in
      match mask with
      | None => Ok (tabulate [prod ns; R] (fun idx => kr_entry ms (unravel ns (ix 0 idx)) (ix 1 idx)))
      | Some mv =>
        if length (data mv) =? prod ns then
          Ok (tabulate [prod ns; R] (fun idx => kr_entry ms (unravel ns (ix 0 idx)) (ix 1 idx) *f nth (ix 0 idx) (data mv) zero))
        else Err
      end
    else Err
  end.
Definition cp_to_tensor_from_einsum (v : res (list nat * nat)) (w : option (tensor F)) (fs : list (tensor F)) (mask : option (tensor F))
  : res (tensor F) :=
  rbind v (fun sr =>
    let shp := fst sr in
    let fs := as_matrices fs in
    if negb (all_2d fs) then Err else
    match fs with
    | [] => Err
    | fa :: rest =>
      let f0w := opt_scale w fa in
      if length shp =? 1 then
        match mask with None => Ok (sum_axis1 f0w) | Some m => mask_vec (sum_axis1 f0w) m end
      else match mask with
           | None => rbind (kr_einsum (remove_nth 0 fs) None) (fun K =>
                     rbind (mdot f0w (mT K)) (fun U => fold zero U 0 shp))
           | Some m => rbind (kr_einsum (f0w :: rest) (Some m)) (fun KM => fold zero (sum_axis1 KM) 0 shp)
           end
    end).
Definition cp_to_unfolded_from_einsum (v : res (list nat * nat)) (w : option (tensor F)) (fs : list (tensor F)) (mode : nat) : res (tensor F) :=
  rbind v (fun sr =>
    if length (fst sr) =? 1 then
      (if mode =? 0 then rbind (cp_to_tensor_from_einsum v w fs None) (fun t => reshape_spec [None; Some 1] t) else Err)
    else let fs := as_matrices fs in
    if negb (all_2d fs) then Err
    else if mode <? length fs then
      rbind (kr_einsum (remove_nth mode fs) None) (fun K =>
        mdot (opt_scale w (nth mode fs (mk [] []))) (mT K))
    else Err).
Definition cp_to_unfolded_from_neg_einsum (v : res (list nat * nat)) (w : option (tensor F)) (fs : list (tensor F)) (k : nat) : res (tensor F) :=
  rbind v (fun sr =>
    if length (fst sr) =? 1 then
      (if k =? 1 then rbind (cp_to_tensor_from_einsum v w fs None) (fun t => reshape_spec [None; Some 1] t) else Err)
    else if (1 <=? k) && (k <=? length (fst sr)) then cp_to_unfolded_from_einsum v w fs (length (fst sr) - k)
    else Err).
Definition cp_to_vec_from_einsum v (w : option (tensor F)) (fs : list (tensor F)) : res (tensor F) :=
  rbind (cp_to_tensor_from_einsum v w fs None) tensor_to_vec.

(* einsum multi_mode_dot(core, factors, skip, transpose) with matrix operands: one einsum contracting every non-skipped mode *)
Fixpoint ein_tk_prod (k : nat) (skip : option nat) (Ms : list (tensor F)) (is js : list nat) : F :=
  match Ms, is, js with
  | M :: Ms', i :: is', j :: js' =>
      (if match skip with Some s => s =? k | None => false end then (if i =? j then one else zero) else get2 M i j)
      *f ein_tk_prod (S k) skip Ms' is' js'
  | _, _, _ => one
  end.
Fixpoint ein_tk_dims (k : nat) (skip : option nat) (cs : list nat) (Ms : list (tensor F)) : res (list nat) :=
  match Ms, cs with
  | [], [] => Ok []
  | M :: Ms', c :: cs' =>
      if match skip with Some s => s =? k | None => false end then rbind (ein_tk_dims (S k) skip cs' Ms') (fun ns => Ok (c :: ns))
      else if (ndim M =? 2) && (ncols M =? c) then rbind (ein_tk_dims (S k) skip cs' Ms') (fun ns => Ok (nrows M :: ns)) else Err
  | _, _ => Err
  end.
Definition tucker_to_tensor_einsum (core : tensor F) (fs : list (tensor F)) (skip : option nat) (tr : bool) : res (tensor F) :=
  let fs' := if tr then map mT fs else fs in
  if tr && negb (forallb (fun M => ndim M =? 2) fs) then Err else
  rbind (ein_tk_dims 0 skip (shape core) fs') (fun ns =>
    Ok (tabulate ns (fun idx =>
          sum_idx F zero (fadd Op) (shape core) (fun js => get zero core js *f ein_tk_prod 0 skip fs' idx js)))).
Definition tucker_to_unfolded_einsum core fs (mode : nat) skip tr :=
  rbind (tucker_to_tensor_einsum core fs skip tr) (fun t => unfold zero t mode).
Definition tucker_to_vec_einsum core fs skip tr := rbind (tucker_to_tensor_einsum core fs skip tr) tensor_to_vec.

(* The einsum multi_mode_dot on ANY 2-D operands: since repo 8b25fc6 the contracted dimension of every operand must equal the size
   of its core mode (before, np.einsum broadcast size-1 dimensions); core modes beyond the last factor are
   kept; a factor that is not skipped, beyond the last core mode is an IndexError.  `ein_tk_dims_b` returns (result shape, label sizes);
   on operands whose shapes agree exactly this is the model above (Proofs18: tucker_einsum_b_extends). *)
Definition ein_skipped (skip : option nat) (k : nat) : bool := match skip with Some s => s =? k | None => false end.
Definition ein_delta (i j : nat) : F := if i =? j then one else zero.
Fixpoint bidxs (cs js : list nat) : list nat :=
  match cs, js with c :: cs', j :: js' => bidx c j :: bidxs cs' js' | _, _ => [] end.
Fixpoint ein_tk_dims_b (k : nat) (skip : option nat) (cs : list nat) (Ms : list (tensor F)) : res (list nat * list nat) :=
  match Ms, cs with
  | [], _ => Ok (cs, cs)
  | M :: Ms', [] => if ein_skipped skip k then ein_tk_dims_b (S k) skip [] Ms' else Err
  | M :: Ms', c :: cs' =>
      if ein_skipped skip k then rbind (ein_tk_dims_b (S k) skip cs' Ms') (fun nl => Ok (c :: fst nl, c :: snd nl))
      else if (ndim M =? 2) && (ncols M =? c)
           then rbind (ein_tk_dims_b (S k) skip cs' Ms') (fun nl => Ok (nrows M :: fst nl, c :: snd nl))
           else Err
  end.
Fixpoint ein_tk_prod_b (k : nat) (skip : option nat) (Ms : list (tensor F)) (is js : list nat) : F :=
  match is, js with
  | i :: is', j :: js' =>
      (match Ms with
       | M :: _ => if ein_skipped skip k then ein_delta i j else get2 M i (bidx (ncols M) j)
       | [] => ein_delta i j
       end) *f ein_tk_prod_b (S k) skip (tl Ms) is' js'
  | _, _ => one
  end.
Definition tucker_to_tensor_einsum_b (core : tensor F) (fs : list (tensor F)) (skip : option nat) (tr : bool) : res (tensor F) :=
  let fs' := if tr then map mT fs else fs in
  if tr && negb (forallb (fun M => ndim M =? 2) fs) then Err else
  rbind (ein_tk_dims_b 0 skip (shape core) fs') (fun nl =>
    Ok (tabulate (fst nl) (fun idx =>
          sum_idx F zero (fadd Op) (snd nl)
            (fun js => get zero core (bidxs (shape core) js) *f ein_tk_prod_b 0 skip fs' idx js)))).
Definition tucker_to_unfolded_einsum_b core fs (mode : nat) skip tr :=
  rbind (tucker_to_tensor_einsum_b core fs skip tr) (fun t => unfold zero t mode).
Definition tucker_to_vec_einsum_b core fs skip tr := rbind (tucker_to_tensor_einsum_b core fs skip tr) tensor_to_vec.

(* ------------------------------------------------------------------ PARAFAC2 *)
(* P^T P == I, decided exactly (on integer-valued projections |P^T P - I| > 1e-5 iff P^T P <> I) *)
Definition orthonormalb (P : tensor F) (rank : nat) : bool :=
  forallb (fun r => forallb (fun s =>
     feqb Op (fsumn (nrows P) (fun i => get2 P i r *f get2 P i s)) (if r =? s then one else zero))
     (seq 0 rank)) (seq 0 rank).
Fixpoint p2_proj_shapes (rank K : nat) (ps : list (tensor F)) : res (list (list nat)) :=
  match ps with
  | [] => Ok []
  | P :: r => match shape P with
              | [j; c] => if (c =? rank) && orthonormalb P rank
                          then rbind (p2_proj_shapes rank K r) (fun l => Ok ([j; K] :: l)) else Err
              | _ => Err
              end
  end.
Definition cols_are (rank : nat) (f : tensor F) : bool :=
  match shape f with [_; c] => c =? rank | _ => false end.
Definition p2_weights_ok (w : option (tensor F)) (rank : nat) : bool :=
  match w with None => true | Some wt => match shape wt with n :: _ => n =? rank | [] => false end end.
(* _validate_parafac2_tensor((weights, factors, projections)) -> (tuple of slice shapes, rank) *)
Definition validate_parafac2 (w : option (tensor F)) (fs ps : list (tensor F)) : res (list (list nat) * nat) :=
  match fs with
  | [A; B; C] =>
    match shape A with
    | nI :: rank :: _ =>
      if negb (length ps =? nI) then Err
      else match shape C with
           | K :: _ =>
             rbind (p2_proj_shapes rank K ps) (fun shp =>
               if cols_are rank B && cols_are rank C && p2_weights_ok w rank then Ok (shp, rank) else Err)
           | [] => Err
           end
    | _ => Err
    end
  | _ => Err
  end.
Definition row_of (A : tensor F) (i : nat) : tensor F := tabulate [ncols A] (fun idx => get2 A i (ix 0 idx)).
Definition mul_vec (a w : tensor F) : tensor F := tabulate (shape a) (fun idx => get1 a (ix 0 idx) *f get1 w (ix 0 idx)).
(* parafac2_to_slice(..., slice_idx, validate=False): dot(dot(P_i, B) * a, C^T) *)
Definition p2_slice_raw (w : option (tensor F)) (A B C : tensor F) (ps : list (tensor F)) (i : nat) : res (tensor F) :=
  if (i <? nrows A) && (i <? length ps) then
    let a := row_of A i in
    let a' := match w with None => a | Some wt => mul_vec a wt end in
    rbind (mdot (nth i ps (mk [] [])) B) (fun Bi => mdot (scale_cols Bi a') (mT C))
  else Err.
Definition parafac2_to_slice_from (v : res (list (list nat) * nat)) w (fs ps : list (tensor F)) (i : nat) : res (tensor F) :=
  rbind v (fun _ =>
    match fs with [A; B; C] => p2_slice_raw w A B C ps i | _ => Err end).
Definition parafac2_to_slice w (fs ps : list (tensor F)) (i : nat) : res (tensor F) :=
  parafac2_to_slice_from (validate_parafac2 w fs ps) w fs ps i.
Fixpoint collect {X} (l : list (res X)) : res (list X) :=
  match l with [] => Ok [] | x :: r => rbind x (fun a => rbind (collect r) (fun t => Ok (a :: t))) end.
(* parafac2_to_slices: the weights are absorbed into A first, then every slice is generated without weights *)
Definition parafac2_to_slices_from (v : res (list (list nat) * nat)) w (fs ps : list (tensor F)) : res (list (tensor F)) :=
  rbind v (fun _ =>
    match fs with
    | [A; B; C] => let A' := opt_scale w A in
                   collect (map (fun i => p2_slice_raw None A' B C ps i) (seq 0 (nrows A)))
    | _ => Err
    end).
Definition parafac2_to_slices w (fs ps : list (tensor F)) : res (list (tensor F)) :=
  parafac2_to_slices_from (validate_parafac2 w fs ps) w fs ps.
(* tensor = zeros((I, max J_i, K)); for i: tensor[i, :J_i] = slice_i *)
Definition slice_update (T : tensor F) (i len : nat) (Sl : tensor F) : tensor F :=
  tabulate (shape T) (fun idx => if (ix 0 idx =? i) && (ix 1 idx <? len) then get2 Sl (ix 1 idx) (ix 2 idx) else get zero T idx).
Fixpoint pad_slices (T : tensor F) (i : nat) (slices : list (tensor F)) (lens : list nat) : tensor F :=
  match slices, lens with
  | Sl :: sr, l :: lr => pad_slices (slice_update T i l Sl) (S i) sr lr
  | _, _ => T
  end.
Definition parafac2_to_tensor_from v w (fs ps : list (tensor F)) : res (tensor F) :=
  rbind (parafac2_to_slices_from v w fs ps) (fun slices =>
    match fs with
    | [A; B; C] =>
      let lens := map nrows ps in
      let zeros := tabulate [nrows A; fold_right Nat.max 0 lens; nrows C] (fun _ => zero) in
      Ok (pad_slices zeros 0 slices lens)
    | _ => Err
    end).
Definition parafac2_to_tensor w (fs ps : list (tensor F)) : res (tensor F) :=
  parafac2_to_tensor_from (validate_parafac2 w fs ps) w fs ps.
Definition parafac2_to_unfolded w fs ps (mode : nat) := rbind (parafac2_to_tensor w fs ps) (fun t => unfold zero t mode).
Definition parafac2_to_vec w fs ps := rbind (parafac2_to_tensor w fs ps) tensor_to_vec.

(* ------------------------------------------------------------------ negative unfolding modes *)
(* to_unfolded(mode = -k) of Tucker / TT / TR / TT-matrix / PARAFAC2 tensors: tl.unfold(<dense reconstruction>, -k), i.e. C01's unfold_z
   (np.moveaxis / shape[mode] with Python's negative indexing; outside [-order, order) an error) *)
Definition unfolded_neg (r : res (tensor F)) (k : nat) : res (tensor F) := rbind r (fun t => unfold_z zero t (- Z.of_nat k)%Z).

(* ------------------------------------------------------------------ wrapper objects *)
(* CPTensor / TuckerTensor / TTTensor / TRTensor / TTMatrix / Parafac2Tensor: the constructor validates once and CACHES
   (shape, rank); _validate_*(obj) returns the cache; unpacking / iterating the object yields the stored contents;
   __setitem__ replaces stored contents and does not touch the cache. *)
Definition ones_vec (n : nat) : tensor F := tabulate [n] (fun _ => one).

Record cp_obj := mk_cpo { cpo_shape : list nat; cpo_rank : nat; cpo_weights : option (tensor F); cpo_factors : list (tensor F) }.
(* CPTensor((weights, factors)): weights=None is replaced by ones(rank) *)
Definition cp_new (w : option (tensor F)) (fs : list (tensor F)) : res cp_obj :=
  rbind (validate_cp w fs) (fun sr =>
    Ok (mk_cpo (fst sr) (snd sr) (Some (match w with None => ones_vec (snd sr) | Some x => x end)) fs)).
(* obj[0] = weights ; obj[1] = factors *)
Definition cp_set_weights (o : cp_obj) (w : option (tensor F)) := mk_cpo (cpo_shape o) (cpo_rank o) w (cpo_factors o).
Definition cp_set_factors (o : cp_obj) (fs : list (tensor F)) := mk_cpo (cpo_shape o) (cpo_rank o) (cpo_weights o) fs.
Definition cpo_validate (o : cp_obj) : res (list nat * nat) := Ok (cpo_shape o, cpo_rank o).
Definition cpo_to_tensor (o : cp_obj) mask := cp_to_tensor_from (cpo_validate o) (cpo_weights o) (cpo_factors o) mask.
Definition cpo_to_unfolded (o : cp_obj) mode := cp_to_unfolded_from (cpo_validate o) (cpo_weights o) (cpo_factors o) mode.
Definition cpo_to_vec (o : cp_obj) := cp_to_vec_from (cpo_validate o) (cpo_weights o) (cpo_factors o).
Definition cpo_normsq (o : cp_obj) := cp_normsq_from (cpo_validate o) (cpo_weights o) (cpo_factors o).

(* TuckerTensor: obj[0] = core, obj[1] = factors; the reconstruction functions unpack the object and never look at the cache *)
Record tk_obj := mk_tko { tko_shape : list nat; tko_rank : list nat; tko_core : tensor F; tko_factors : list (tensor F) }.
Definition tucker_new (core : tensor F) (fs : list (tensor F)) : res tk_obj :=
  rbind (validate_tucker core fs) (fun sr => Ok (mk_tko (fst sr) (snd sr) core fs)).
Definition tk_set_core (o : tk_obj) c := mk_tko (tko_shape o) (tko_rank o) c (tko_factors o).
Definition tk_set_factors (o : tk_obj) fs := mk_tko (tko_shape o) (tko_rank o) (tko_core o) fs.
Definition tko_to_tensor (o : tk_obj) skip tr := tucker_to_tensor (tko_core o) (tko_factors o) skip tr.

(* TTTensor / TRTensor / TTMatrix: a list of cores; obj[k] = core replaces one core in the stored list *)
Record ch_obj := mk_cho { cho_shape : list nat; cho_rank : list nat; cho_cores : list (tensor F) }.
Definition ch_new (validate : list (tensor F) -> res (list nat * list nat)) (cs : list (tensor F)) : res ch_obj :=
  rbind (validate cs) (fun sr => Ok (mk_cho (fst sr) (snd sr) cs)).
Definition ch_set (o : ch_obj) (k : nat) (c : tensor F) : res ch_obj :=
  if k <? length (cho_cores o) then Ok (mk_cho (cho_shape o) (cho_rank o) (set_nth k c (cho_cores o))) else Err.

(* Parafac2Tensor: weights=None replaced by ones(rank); no __setitem__ *)
Record p2_obj := mk_p2o { p2o_shape : list (list nat); p2o_rank : nat; p2o_weights : option (tensor F);
                          p2o_factors : list (tensor F); p2o_projections : list (tensor F) }.
Definition p2_new (w : option (tensor F)) (fs ps : list (tensor F)) : res p2_obj :=
  rbind (validate_parafac2 w fs ps) (fun sr =>
    Ok (mk_p2o (fst sr) (snd sr) (Some (match w with None => ones_vec (snd sr) | Some x => x end)) fs ps)).
Definition p2o_validate (o : p2_obj) : res (list (list nat) * nat) := Ok (p2o_shape o, p2o_rank o).
Definition p2o_to_slice (o : p2_obj) i := parafac2_to_slice_from (p2o_validate o) (p2o_weights o) (p2o_factors o) (p2o_projections o) i.
Definition p2o_to_slices (o : p2_obj) := parafac2_to_slices_from (p2o_validate o) (p2o_weights o) (p2o_factors o) (p2o_projections o).
Definition p2o_to_tensor (o : p2_obj) := parafac2_to_tensor_from (p2o_validate o) (p2o_weights o) (p2o_factors o) (p2o_projections o).

End M.
