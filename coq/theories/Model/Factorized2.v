(* Model of the factorised-tensor modules of TensorLy (C03), part 2 (round 7) -- additions that do not touch Model/Factorized.v:
     (a) tucker_to_tensor((core, factors), modes=ms) with ARBITRARY modes (repeated modes included): multi_mode_dot sorts the
         (factor, mode) pairs by mode with Python's stable sort and multiplies one after the other (core backend: successive mode_dot;
         einsum backend since /repo a6246d0: one einsum whose labels chain the same successive products, every contracted dimension
         checked against the CURRENT size of its mode);
     (b) the 0-order inputs: a Python number instead of a factor set (cp_tensor.py: `isinstance(cp_tensor, (float, int))`,
         `if not shape: return cp_tensor`; tt_tensor.py: tt_to_tensor returns the number, _validate_tt_tensor takes len() first);
     (c) the carrier of Model/Tenalg.v's generic np.einsum semantics built from a record of field operations, and the label lists of the
         einsum-backend tt_matrix_to_tensor as Tenalg-style equations;
     (d) cp_norm on carriers with a conjugation (complex factors / weights): norm = ones; for f: norm = norm * dot(transpose(f), conj(f));
         if weights is not None: norm = norm * (reshape(weights, (-1, 1)) * reshape(conj(weights), (1, -1))) (flag conj_weights = true: the code
         since /repo 20cafdc; false: the code before, which did not conjugate the weights); executed at the Gaussian integers GIops.
   Definitions only. *)
From Coq Require Import List Arith ZArith Lia Bool.
From TLV Require Import Base.Shape Base.PyList Base.Tensor Base.BigSum Base.Ops Model.Base Model.BaseExt Model.Factorized Model.FactorizedSrc.
From TLV Require Model.Tenalg.
Import ListNotations.

Section M2.
Context {F : Type} (Op : fops F).

(* ------------------------------------------------------------------ (a) sorted(zip(factors, modes, range(n)), key = mode) *)
(* Python's sort is stable: among equal modes the list order is kept.  fold_right inserts the EARLIER pair in front of every pair
   whose mode is not smaller. *)
Fixpoint insert_mode (p : tensor F * nat) (l : list (tensor F * nat)) : list (tensor F * nat) :=
  match l with
  | [] => [p]
  | q :: r => if snd p <=? snd q then p :: q :: r else q :: insert_mode p r
  end.
Definition sort_modes (l : list (tensor F * nat)) : list (tensor F * nat) := fold_right insert_mode [] l.
Definition tucker_to_tensor_modes_sorted (core : tensor F) (fs : list (tensor F)) (ms : list nat) : res (tensor F) :=
  let ps := sort_modes (combine fs ms) in
  multi_mode_dot_modes Op core (map fst ps) (map snd ps).

(* the running shape: what the pairs must fit, one after the other *)
Fixpoint modes_fit (shp : list nat) (ps : list (tensor F * nat)) : Prop :=
  match ps with
  | [] => True
  | (M, m) :: r => ndim M = 2 /\ m < length shp /\ ncols M = nth m shp 0 /\ modes_fit (set_nth m (nrows M) shp) r
  end.
Fixpoint modes_shape (shp : list nat) (ps : list (tensor F * nat)) : list nat :=
  match ps with
  | [] => shp
  | (M, m) :: r => modes_shape (set_nth m (nrows M) shp) r
  end.

(* ------------------------------------------------------------------ (b) 0-order inputs *)
Definition scalar (x : F) : tensor F := mk [] [x].
Inductive cp_in := CpNum (x : F) | CpTup (w : option (tensor F)) (fs : list (tensor F)).
(* _validate_cp_tensor: a number gives (0, 0) -- a falsy shape, modelled by the empty shape *)
Definition validate_cp_in (c : cp_in) : res (list nat * nat) :=
  match c with CpNum _ => Ok ([], 0) | CpTup w fs => validate_cp w fs end.
(* cp_to_tensor: `if not shape: return cp_tensor` (the mask is not looked at) *)
Definition cp_to_tensor_in (c : cp_in) (mask : option (tensor F)) : res (tensor F) :=
  rbind (validate_cp_in c) (fun sr =>
    match fst sr with
    | [] => match c with CpNum x => Ok (scalar x) | CpTup _ _ => Err end      (* (no tuple has an empty validated shape: Proofs23) *)
    | _ => match c with CpNum _ => Err | CpTup w fs => cp_to_tensor_from Op (Ok sr) w fs mask end
    end).
(* cp_to_vec = tensor_to_vec(cp_to_tensor(.)): np.reshape(number, (-1,)) is a one-entry vector *)
Definition cp_to_vec_in (c : cp_in) : res (tensor F) := rbind (cp_to_tensor_in c None) tensor_to_vec.
(* cp_to_unfolded / cp_norm unpack `weights, factors = cp_tensor` right after the validation: a TypeError for a number *)
Definition cp_to_unfolded_in (c : cp_in) (mode : nat) : res (tensor F) :=
  match c with CpNum _ => Err | CpTup w fs => cp_to_unfolded Op w fs mode end.
Definition cp_normsq_in (c : cp_in) : res F :=
  match c with CpNum _ => Err | CpTup w fs => cp_normsq Op w fs end.

Inductive tt_in := TtNum (x : F) | TtCores (cs : list (tensor F)).
(* _validate_tt_tensor takes len(tt_tensor) before its isinstance tests: a number raises (its 0-order branch is dead code) *)
Definition validate_tt_in (c : tt_in) : res (list nat * list nat) :=
  match c with TtNum _ => Err | TtCores cs => validate_tt cs end.
Definition tt_to_tensor_in (c : tt_in) : res (tensor F) :=
  match c with TtNum x => Ok (scalar x) | TtCores cs => tt_to_tensor Op cs end.
Definition tt_to_vec_in (c : tt_in) : res (tensor F) := rbind (tt_to_tensor_in c) tensor_to_vec.
Definition tt_to_unfolded_in (c : tt_in) (mode : nat) : res (tensor F) := rbind (tt_to_tensor_in c) (fun t => unfold (f0 Op) t mode).

(* ------------------------------------------------------------------ (c) np.einsum (Model/Tenalg.v) over a record of field operations *)
Definition rops_of : Tenalg.rops F := Tenalg.mkR (f0 Op) (f1 Op) (fadd Op) (fmul Op) (fsub Op) (fopp Op) (fun x => x).
(* the einsum-backend tt_matrix_to_tensor on N cores: np.einsum(ttm_equation N) then np.transpose(ttm_transposition N) *)
Definition ttm_einsum_generic (cores : list (tensor F)) : tensor F :=
  let N := length cores in
  transpose (f0 Op) (ttm_transposition N) (Tenalg.einsum rops_of (fst (ttm_equation N)) (snd (ttm_equation N)) cores).
End M2.

(* ------------------------------------------------------------------ (d) cp_norm with conjugation *)
Section Conj.
Context {F : Type} (Op : fops F) (cj : F -> F).
(* dot(transpose(f), conj(f))[r, s] *)
Definition gram_c (f : tensor F) (r s : nat) : F := fsumn Op (nrows f) (fun i => fmul Op (get2 Op f i r) (cj (get2 Op f i s))).
Definition cp_normsq_conj_from (conj_weights : bool) (v : res (list nat * nat)) (w : option (tensor F)) (fs : list (tensor F)) : res F :=
  rbind v (fun _ =>
    let fs := as_matrices fs in
    if negb (ndim (hd (mk [] []) fs) =? 2) then Err else
    let R := ncols (hd (mk [] []) fs) in
    Ok (fsumn Op R (fun r => fsumn Op R (fun s =>
          fmul Op (fold_left (fun acc f => fmul Op acc (gram_c f r s)) fs (f1 Op))
                  (fmul Op (wv Op w r) (if conj_weights then cj (wv Op w s) else wv Op w s)))))).
Definition cp_normsq_conj (conj_weights : bool) (w : option (tensor F)) (fs : list (tensor F)) : res F :=
  cp_normsq_conj_from conj_weights (validate_cp w fs) w fs.
End Conj.

(* the Gaussian integers a + b i as a record of operations (division is not used by the reconstruction functions) *)
Definition GIops : fops Tenalg.GI :=
  mkF (Tenalg.r0 Tenalg.GR) (Tenalg.r1 Tenalg.GR) (Tenalg.radd Tenalg.GR) (Tenalg.rsub Tenalg.GR) (Tenalg.rmul Tenalg.GR)
      (fun a _ => a) (Tenalg.ropp Tenalg.GR) (fun a b => Z.eqb (fst a) (fst b) && Z.eqb (snd a) (snd b)).   (* the "order" test decides equality *)
Definition gconj : Tenalg.GI -> Tenalg.GI := Tenalg.rconj Tenalg.GR.
(* tucker_to_tensor(..., transpose_factors=True) on a carrier with a conjugation: multi_mode_dot multiplies by conj(transpose(M)) under both
   backends ("for complex tensors, the conjugate transpose is used") *)
Definition tconj {F : Type} (cj : F -> F) (t : tensor F) : tensor F := mk (shape t) (map cj (data t)).
Definition tucker_to_tensor_conj {F : Type} (Op : fops F) (cj : F -> F) (core : tensor F) (fs : list (tensor F)) (skip : option nat) (tr : bool) :=
  tucker_to_tensor Op core (if tr then map (tconj cj) fs else fs) skip tr.

(* ------------------------------------------------------------------ (e) _validate_parafac2_tensor with the HERMITIAN orthonormality test *)
(* the code tests dot(transpose(P), P) = I (Model/Factorized.orthonormalb): on complex projections that is not "orthonormal columns".
   validate_parafac2_h tests P^H P = I = dot(conj(transpose(P)), P): the candidate repair build/fix_candidates/C03_parafac2_complex_projections *)
Section P2H.
Context {F : Type} (Op : fops F) (cj : F -> F).
Definition orthonormalb_h (P : tensor F) (rank : nat) : bool :=
  forallb (fun r => forallb (fun s =>
     feqb Op (fsumn Op (nrows P) (fun i => fmul Op (cj (get2 Op P i r)) (get2 Op P i s))) (if r =? s then f1 Op else f0 Op))
     (seq 0 rank)) (seq 0 rank).
Fixpoint p2_proj_shapes_h (rank K : nat) (ps : list (tensor F)) : res (list (list nat)) :=
  match ps with
  | [] => Ok []
  | P :: r => match shape P with
              | [j; c] => if (c =? rank) && orthonormalb_h P rank
                          then rbind (p2_proj_shapes_h rank K r) (fun l => Ok ([j; K] :: l)) else Err
              | _ => Err
              end
  end.
Definition validate_parafac2_h (w : option (tensor F)) (fs ps : list (tensor F)) : res (list (list nat) * nat) :=
  match fs with
  | [A; B; C] =>
    match shape A with
    | nI :: rank :: _ =>
      if negb (length ps =? nI) then Err
      else match shape C with
           | K :: _ =>
             rbind (p2_proj_shapes_h rank K ps) (fun shp =>
               if cols_are rank B && cols_are rank C && p2_weights_ok w rank then Ok (shp, rank) else Err)
           | [] => Err
           end
    | _ => Err
    end
  | _ => Err
  end.
End P2H.
