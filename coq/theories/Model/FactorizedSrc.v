(* C03 source tie, model side.  A small language for the three "chain" validators of TensorLy (_validate_tt_tensor, _validate_tr_tensor,
   _validate_tt_matrix) as they are WRITTEN: an optional pre-check on the number of cores, then one loop over the cores whose body
   unpacks tl.shape(factor) into `arity` variables, raises on an ordered list of conditions and appends some of the unpacked variables
   to the output lists; after the loop the last core's `last_col` variable is appended to the rank list.
   The harness regenerates such a program from the CURRENT Python source (ast) on every run and Coq checks that it IS the reference
   program below, about which Proofs/FactorizedProofs22.v proves: its interpretation on the shapes of the cores equals the model's
   validator, for every list of cores.
   Also: the einsum equation of the einsum-backend tt_matrix_to_tensor (label lists) in canonical form.  Definitions only. *)
From Coq Require Import List Arith Bool.
From TLV Require Import Base.Tensor.
Import ListNotations.

Inductive vexp :=
| VCur (k : nat)        (* the k-th variable of the tuple unpacking of tl.shape(factor) *)
| VPrevAt (k : nat)     (* tl.shape(factors[index - 1])[k]   (index 0: Python wraps to the last core) *)
| VPrevLast             (* tl.shape(factors[index - 1])[-1] *)
| VNdim                 (* tl.ndim(factor) *)
| VIndex                (* index *)
| VNFm1                 (* n_factors - 1 *)
| VNum (n : nat).
Inductive vcond :=
| CNe (a b : vexp) | CEq (a b : vexp) | CAnd (c d : vcond) | CNot (c : vcond)
| CTruthy (a : vexp).   (* `index and ...` *)

Record chainprog := mk_chainprog {
  cp_min : nat;                 (* raise if n_factors < cp_min (0: no pre-check) *)
  cp_arity : nat;               (* number of variables of the unpacking (a core of another ndim makes it raise) *)
  cp_checks : list vcond;       (* `if <cond>: raise`, in source order *)
  cp_shape_cols : list nat;     (* returned shape = concatenation, over these variables, of the list of their values along the cores *)
  cp_rank_col : nat;            (* variable appended to the rank list in the loop *)
  cp_last_col : nat }.          (* variable of the LAST core appended to the rank list after the loop *)

Section I.
Variable P : chainprog.
Definition ev (n i : nat) (prev cur : list nat) (e : vexp) : nat :=
  match e with
  | VCur k => nth k cur 0 | VPrevAt k => nth k prev 0 | VPrevLast => last prev 0 | VNdim => length cur
  | VIndex => i | VNFm1 => n - 1 | VNum m => m
  end.
Fixpoint evc (n i : nat) (prev cur : list nat) (c : vcond) : bool :=
  match c with
  | CNe a b => negb (ev n i prev cur a =? ev n i prev cur b)
  | CEq a b => ev n i prev cur a =? ev n i prev cur b
  | CAnd c d => evc n i prev cur c && evc n i prev cur d
  | CNot c => negb (evc n i prev cur c)
  | CTruthy a => negb (ev n i prev cur a =? 0)
  end.
(* the loop: prev = shape of the previous core (initially the LAST one: factors[-1]) *)
Fixpoint chain_loop (n i : nat) (prev : list nat) (l : list (list nat)) : bool :=
  match l with
  | [] => true
  | cur :: r => (length cur =? cp_arity P) && negb (existsb (evc n i prev cur) (cp_checks P)) && chain_loop n (S i) cur r
  end.
(* an empty list of cores always raises: the pre-check, or the variable appended after the loop is unbound *)
Definition run_chain (shapes : list (list nat)) : res (list nat * list nat) :=
  if length shapes <? cp_min P then Err else
  match shapes with
  | [] => Err
  | _ => if chain_loop (length shapes) 0 (last shapes []) shapes
         then Ok (flat_map (fun col => map (fun s => nth col s 0) shapes) (cp_shape_cols P),
                  map (fun s => nth (cp_rank_col P) s 0) shapes ++ [nth (cp_last_col P) (last shapes []) 0])
         else Err
  end.
End I.

(* the reference programs: the three validators as written in /repo (checked against the source on every run) *)
Definition tt_prog : chainprog := mk_chainprog 0 3
  [CNot (CEq VNdim (VNum 3));
   CAnd (CTruthy VIndex) (CNe (VPrevAt 2) (VCur 0));
   CAnd (CEq VIndex (VNum 0)) (CNe (VCur 0) (VNum 1));
   CAnd (CEq VIndex VNFm1) (CNe (VCur 2) (VNum 1))]
  [1] 0 2.
Definition tr_prog : chainprog := mk_chainprog 2 3
  [CNot (CEq VNdim (VNum 3));
   CNe (VPrevAt 2) (VCur 0)]
  [1] 0 2.
Definition ttm_prog : chainprog := mk_chainprog 1 4
  [CNot (CEq VNdim (VNum 4));
   CAnd (CTruthy VIndex) (CNe VPrevLast (VCur 0));
   CAnd (CEq VIndex (VNum 0)) (CNe (VCur 0) (VNum 1));
   CAnd (CEq VIndex VNFm1) (CNe (VCur 3) (VNum 1))]
  [1; 2] 0 3.

(* ---------- _validate_tucker_tensor: two pre-checks on len(factors), then one loop over the factors ---------- *)
(* in the loop body tl.shape(core)[i] is written VCoreAtIndex: the interpreter hands the loop body prev = [size of the core along mode i] *)
Definition VCoreAtIndex : vexp := VPrevAt 0.
Record tkprog := mk_tkprog {
  tk_min : nat;              (* raise if len(factors) < tk_min *)
  tk_same_len : bool;        (* raise if len(factors) != tl.ndim(core) *)
  tk_arity : nat;            (* arity of the unpacking of tl.shape(factor) *)
  tk_checks : list vcond;    (* `if <cond>: raise` in source order *)
  tk_shape_col : nat; tk_rank_col : nat }.   (* unpacked variables appended to shape / rank *)
Fixpoint tk_loop (P : tkprog) (core : list nat) (i : nat) (l : list (list nat)) : bool :=
  match l with
  | [] => true
  | cur :: r => (length cur =? tk_arity P) && negb (existsb (evc 0 i [nth i core 0] cur) (tk_checks P)) && tk_loop P core (S i) r
  end.
Definition run_tk (P : tkprog) (core : list nat) (shapes : list (list nat)) : res (list nat * list nat) :=
  if length shapes <? tk_min P then Err
  else if tk_same_len P && negb (length shapes =? length core) then Err
  else if tk_loop P core 0 shapes
       then Ok (map (fun s => nth (tk_shape_col P) s 0) shapes, map (fun s => nth (tk_rank_col P) s 0) shapes)
       else Err.
Definition tucker_prog : tkprog := mk_tkprog 2 true 2 [CNe VCoreAtIndex (VCur 1)] 0 1.

(* ---------- _validate_cp_tensor((weights, factors)) ---------- *)
(* rank from factors[0] (ndim ra_ndim: its ra_col-th size; ndim rb_ndim: the constant rb_val; otherwise raise), then one loop over the
   factors: s = T.shape(factor); s itself if len(s) == pad_len, else s followed by pad_val; unpacked into cp_arity variables; checks (the rank is
   written VRankVar: the interpreter hands the loop body prev = [rank]); one variable appended to the shape; finally the weights, if
   given, must have shape exactly (rank,) *)
Definition VRankVar : vexp := VPrevAt 0.
Record cpprog := mk_cpprog {
  ra_ndim : nat; ra_col : nat; rb_ndim : nat; rb_val : nat;
  pad_len : nat; pad_val : nat; cpp_arity : nat; cpp_checks : list vcond; cpp_shape_col : nat;
  cpp_weights_exact : bool }.     (* `weights is not None and T.shape(weights) != (rank,)` raises *)
Definition cp_vars (P : cpprog) (s : list nat) : list nat := if length s =? pad_len P then s else s ++ [pad_val P].
Fixpoint cp_loop (P : cpprog) (rank i : nat) (l : list (list nat)) : bool :=
  match l with
  | [] => true
  | s :: r => (length (cp_vars P s) =? cpp_arity P) && negb (existsb (evc 0 i [rank] (cp_vars P s)) (cpp_checks P)) && cp_loop P rank (S i) r
  end.
Definition run_cp (P : cpprog) (w : option (list nat)) (shapes : list (list nat)) : res (list nat * nat) :=
  match shapes with
  | [] => Err                                                 (* factors[0]: IndexError *)
  | s0 :: _ =>
    let rank := if length s0 =? ra_ndim P then Some (nth (ra_col P) s0 0) else if length s0 =? rb_ndim P then Some (rb_val P) else None in
    match rank with
    | None => Err
    | Some rk =>
      if cp_loop P rk 0 shapes
      then if cpp_weights_exact P && match w with None => false | Some ws => negb (match ws with [n] => n =? rk | _ => false end) end
           then Err else Ok (map (fun s => nth (cpp_shape_col P) (cp_vars P s) 0) shapes, rk)
      else Err
    end
  end.
Definition cp_prog : cpprog := mk_cpprog 2 1 1 1 2 1 2 [CNe VRankVar (VCur 1)] 0 true.

(* ---------- _validate_parafac2_tensor((weights, factors, projections)) ---------- *)
(* len(factors) must be p2_nf; the number of projections must be factors[0].shape[0]; rank = T.shape(factors[0])[1]; a loop over the
   projections (unpacking, checks with the rank written VRankVar, the orthonormality test -- an ORACLE orth rank i here: it looks at
   entries --, append of (variable, f.shape[0] for f in factors[p2_tail_from:])); a loop over factors[p2_fac_from:] (unpacking, checks);
   the weights, if given, need T.shape(weights)[0] == rank *)
Record p2prog := mk_p2prog {
  p2_nf : nat; p2_arity : nat; p2_proj_checks : list vcond; p2_orth : bool; p2_shape_col : nat; p2_tail_from : nat;
  p2_fac_from : nat; p2_fac_arity : nat; p2_fac_checks : list vcond; p2_weights_first : bool }.
Fixpoint heads (l : list (list nat)) : option (list nat) :=
  match l with [] => Some [] | [] :: _ => None | (x :: _) :: r => option_map (cons x) (heads r) end.
Fixpoint p2_loop (P : p2prog) (rank : nat) (orth : nat -> bool) (tail : list nat) (i : nat) (l : list (list nat)) : res (list (list nat)) :=
  match l with
  | [] => Ok []
  | cur :: r =>
    if (length cur =? p2_arity P) && negb (existsb (evc 0 i [rank] cur) (p2_proj_checks P)) && (negb (p2_orth P) || orth i)
    then rbind (p2_loop P rank orth tail (S i) r) (fun t => Ok ((nth (p2_shape_col P) cur 0 :: tail) :: t)) else Err
  end.
Definition run_p2 (P : p2prog) (w : option (list nat)) (fshapes pshapes : list (list nat)) (orth : nat -> nat -> bool)
  : res (list (list nat) * nat) :=
  if negb (length fshapes =? p2_nf P) then Err else
  match nth 0 fshapes [] with
  | nI :: rank :: _ =>
    if negb (length pshapes =? nI) then Err else
    match heads (skipn (p2_tail_from P) fshapes) with
    | None => Err
    | Some tail =>
      rbind (p2_loop P rank (orth rank) tail 0 pshapes) (fun shp =>
        if forallb (fun s => (length s =? p2_fac_arity P) && negb (existsb (evc 0 0 [rank] s) (p2_fac_checks P))) (skipn (p2_fac_from P) fshapes)
           && (negb (p2_weights_first P) || match w with None => true | Some (n :: _) => n =? rank | Some [] => false end)
        then Ok (shp, rank) else Err)
    end
  | _ => Err
  end.
Definition p2_prog : p2prog := mk_p2prog 3 2 [CNe VRankVar (VCur 1)] true 0 2 1 2 [CNe VRankVar (VCur 1)] true.

(* ---------- the einsum equation of the einsum-backend tt_matrix_to_tensor ---------- *)
(* labels as numbers; canonical renaming = order of first occurrence (operands left to right, then the output) *)
Fixpoint index_in (x : nat) (l : list nat) : option nat :=
  match l with [] => None | y :: r => if x =? y then Some 0 else option_map S (index_in x r) end.
Fixpoint canon_go (seen : list nat) (l : list nat) : list nat * list nat :=   (* (renamed l, seen') ; seen in order of first occurrence *)
  match l with
  | [] => ([], seen)
  | x :: r => match index_in x seen with
              | Some k => let '(r', s') := canon_go seen r in (k :: r', s')
              | None => let '(r', s') := canon_go (seen ++ [x]) r in (length seen :: r', s')
              end
  end.
Fixpoint canon_ops (seen : list nat) (ops : list (list nat)) : list (list nat) * list nat :=
  match ops with
  | [] => ([], seen)
  | o :: r => let '(o', s') := canon_go seen o in let '(r', s'') := canon_ops s' r in (o' :: r', s'')
  end.
Definition canon_eq (ops : list (list nat)) (out : list nat) : list (list nat) * list nat :=
  let '(ops', s) := canon_ops [] ops in (ops', fst (canon_go s out)).
(* the equation ein_chain (Model/Factorized.v) implements for N cores: core k carries (r_k, i_k, o_k, r_k+1), the output is
   i_0 o_0 i_1 o_1 ...; then np.transpose with all even positions first *)
Definition ttm_equation (N : nat) : list (list nat) * list nat :=
  (map (fun k => [3 * k; 3 * k + 1; 3 * k + 2; 3 * (k + 1)]) (seq 0 N), flat_map (fun k => [3 * k + 1; 3 * k + 2]) (seq 0 N)).
Definition ttm_transposition (N : nat) : list nat := map (fun k => 2 * k) (seq 0 N) ++ map (fun k => 2 * k + 1) (seq 0 N).
Definition nat_lists_eqb (a b : list (list nat)) : bool :=
  (length a =? length b) && forallb (fun p => (length (fst p) =? length (snd p)) && forallb (fun q => fst q =? snd q) (combine (fst p) (snd p))) (combine a b).
Definition ttm_equation_ok (N : nat) (ops : list (list nat)) (out order : list nat) : bool :=
  let '(o1, u1) := canon_eq ops out in
  let '(o2, u2) := canon_eq (fst (ttm_equation N)) (snd (ttm_equation N)) in
  nat_lists_eqb (u1 :: o1) (u2 :: o2) && nat_lists_eqb [order] [ttm_transposition N].
