(* C03 source tie, part 2 (round 7): a SEMANTIC comparison of validator programs (Model/FactorizedSrc.v).
   A program regenerated from the current Python source need not be the reference program letter for letter:
   (1) chainprog_sim / tkprog_sim / cpprog_sim / p2prog_sim: same scalar fields and the same SET of raising conditions up to
       re-ordering of the `if ...: raise` statements, the operand order of == / != / and, `not a == b` for `a != b`, double negation,
       and a truthiness test `x` for `x != 0` -- Proofs/FactorizedProofs24.v proves that similar programs have the same interpretation
       on EVERY input, so the link theorem transfers;
   (2) otherwise chain_box_eqb / tk_box_eqb: both interpretations computed on a finite box of shape lists (bounded evidence, not a
       theorem; reported as such by the harness).
   Definitions only. *)
From Coq Require Import List Arith Bool.
From TLV Require Import Base.Tensor Model.FactorizedSrc.
Import ListNotations.

Definition vexp_eqb (a b : vexp) : bool :=
  match a, b with
  | VCur k, VCur k' => k =? k' | VPrevAt k, VPrevAt k' => k =? k' | VPrevLast, VPrevLast => true | VNdim, VNdim => true
  | VIndex, VIndex => true | VNFm1, VNFm1 => true | VNum n, VNum m => n =? m
  | _, _ => false
  end.
(* negation normal form for the comparisons; `x` as a condition is `x != 0` *)
Fixpoint vcond_norm (c : vcond) : vcond :=
  match c with
  | CNot c' => match vcond_norm c' with CEq a b => CNe a b | CNe a b => CEq a b | CNot c'' => c'' | x => CNot x end
  | CAnd c d => CAnd (vcond_norm c) (vcond_norm d)
  | CTruthy a => CNe a (VNum 0)
  | x => x
  end.
Fixpoint vcond_sim (c d : vcond) : bool :=
  match c, d with
  | CNe a b, CNe a' b' => (vexp_eqb a a' && vexp_eqb b b') || (vexp_eqb a b' && vexp_eqb b a')
  | CEq a b, CEq a' b' => (vexp_eqb a a' && vexp_eqb b b') || (vexp_eqb a b' && vexp_eqb b a')
  | CAnd c1 c2, CAnd d1 d2 => (vcond_sim c1 d1 && vcond_sim c2 d2) || (vcond_sim c1 d2 && vcond_sim c2 d1)
  | CNot c', CNot d' => vcond_sim c' d'
  | CTruthy a, CTruthy b => vexp_eqb a b
  | _, _ => false
  end.
Definition cond_sim (c d : vcond) : bool := vcond_sim (vcond_norm c) (vcond_norm d).
(* the two lists raise under the same circumstances: each condition has a similar one in the other list *)
Definition checks_sim (l1 l2 : list vcond) : bool :=
  forallb (fun c => existsb (cond_sim c) l2) l1 && forallb (fun d => existsb (fun c => cond_sim c d) l1) l2.
Fixpoint nats_eqb (a b : list nat) : bool :=
  match a, b with [], [] => true | x :: a', y :: b' => (x =? y) && nats_eqb a' b' | _, _ => false end.

Definition chainprog_sim (P Q : chainprog) : bool :=
  (cp_min P =? cp_min Q) && (cp_arity P =? cp_arity Q) && checks_sim (cp_checks P) (cp_checks Q) &&
  nats_eqb (cp_shape_cols P) (cp_shape_cols Q) && (cp_rank_col P =? cp_rank_col Q) && (cp_last_col P =? cp_last_col Q).
Definition tkprog_sim (P Q : tkprog) : bool :=
  (tk_min P =? tk_min Q) && Bool.eqb (tk_same_len P) (tk_same_len Q) && (tk_arity P =? tk_arity Q) && checks_sim (tk_checks P) (tk_checks Q) &&
  (tk_shape_col P =? tk_shape_col Q) && (tk_rank_col P =? tk_rank_col Q).
Definition cpprog_sim (P Q : cpprog) : bool :=
  (ra_ndim P =? ra_ndim Q) && (ra_col P =? ra_col Q) && (rb_ndim P =? rb_ndim Q) && (rb_val P =? rb_val Q) && (pad_len P =? pad_len Q) &&
  (pad_val P =? pad_val Q) && (cpp_arity P =? cpp_arity Q) && checks_sim (cpp_checks P) (cpp_checks Q) && (cpp_shape_col P =? cpp_shape_col Q) &&
  Bool.eqb (cpp_weights_exact P) (cpp_weights_exact Q).
Definition p2prog_sim (P Q : p2prog) : bool :=
  (p2_nf P =? p2_nf Q) && (p2_arity P =? p2_arity Q) && checks_sim (p2_proj_checks P) (p2_proj_checks Q) && Bool.eqb (p2_orth P) (p2_orth Q) &&
  (p2_shape_col P =? p2_shape_col Q) && (p2_tail_from P =? p2_tail_from Q) && (p2_fac_from P =? p2_fac_from Q) && (p2_fac_arity P =? p2_fac_arity Q) &&
  checks_sim (p2_fac_checks P) (p2_fac_checks Q) && Bool.eqb (p2_weights_first P) (p2_weights_first Q).

(* ---------- finite boxes ---------- *)
Fixpoint lists_over {A} (alpha : list A) (n : nat) : list (list A) :=
  match n with 0 => [[]] | S n' => flat_map (fun x => map (cons x) (lists_over alpha n')) alpha end.
Definition lists_upto {A} (alpha : list A) (n : nat) : list (list A) := flat_map (lists_over alpha) (seq 0 (S n)).
Definition sr_eqb (a b : res (list nat * list nat)) : bool :=
  match a, b with
  | Ok (s, r), Ok (s', r') => nats_eqb s s' && nats_eqb r r'
  | Err, Err => true
  | _, _ => false
  end.
(* lists of up to 3 cores whose shapes have arity-1 .. arity+1 sizes in {1,2}; up to 2 cores with sizes in {1,2,3}; exactly 4 cores of
   the right arity with sizes in {1,2} *)
Definition chain_box (arity : nat) : list (list (list nat)) :=
  lists_upto (flat_map (lists_over [1; 2]) [arity - 1; arity; S arity]) 3 ++
  lists_upto (flat_map (lists_over [1; 2; 3]) [arity - 1; arity; S arity]) 2 ++
  lists_over (lists_over [1; 2] arity) 4.
Definition chain_box_eqb (P Q : chainprog) : bool :=
  forallb (fun shapes => sr_eqb (run_chain P shapes) (run_chain Q shapes)) (chain_box (cp_arity Q)).
(* Tucker: cores of order 0..3 and up to 3 factors with 1..3 sizes each, all sizes in {1,2}; cores of order 0..2 and up to 2 matrix
   factors with sizes in {1,2,3} *)
Definition tk_box : list (list nat * list (list nat)) :=
  flat_map (fun core => map (pair core) (lists_upto (flat_map (lists_over [1; 2]) [1; 2; 3]) 3)) (lists_upto [1; 2] 3) ++
  flat_map (fun core => map (pair core) (lists_upto (lists_over [1; 2; 3] 2) 2)) (lists_upto [1; 2; 3] 2).
Definition tk_box_eqb (P Q : tkprog) : bool :=
  forallb (fun cf => sr_eqb (run_tk P (fst cf) (snd cf)) (run_tk Q (fst cf) (snd cf))) tk_box.
