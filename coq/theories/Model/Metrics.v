(* Model of tensorly/metrics (factors.py, similarity.py, regression.py, leverage_scores.py) and of
   cp_tensor.cp_permute_factors -- definitions only.  Polymorphic in the carrier (fops F): executed at Qops,
   proved at Rops.  Matrices are lists of rows (a C-contiguous 2-D ndarray); every access goes through
   mget (default 0) and every constructed matrix through mtab, so no well-formedness side conditions arise.

   sqrt is never executed: column norms (tl.norm(M, axis=0)) enter the model as DATA (an answer tape) whose
   contract  n > 0 /\ n^2 = sum of squares  is a hypothesis of the theorems and is checked on every run
   (norms_okb, toleranced).  scipy.optimize.linear_sum_assignment is an oracle `assign` (contract: a
   maximum-weight perfect matching); its answer is checked against the executable brute force best_perm. *)
From Coq Require Import List Arith Bool ZArith.
From TLV Require Import Base.Shape Base.PyList Base.Tensor Base.Ops.
Import ListNotations.

(* ---------- all permutations of 0..n-1 (the brute-force search space) ---------- *)
Fixpoint insert_all {A} (x : A) (l : list A) : list (list A) :=
  match l with
  | [] => [[x]]
  | y :: r => (x :: y :: r) :: map (cons y) (insert_all x r)
  end.
Fixpoint perms {A} (l : list A) : list (list A) :=
  match l with [] => [[]] | x :: r => flat_map (insert_all x) (perms r) end.
Definition all_perms (n : nat) : list (list nat) := perms (seq 0 n).
Definition is_perm (n : nat) (p : list nat) : Prop := length p = n /\ NoDup p /\ forall k, In k p -> k < n.

Inductive cmethod := Stacked | MaxScore | MinScore | AvgScore.

Section M.
Context {F : Type} (Op : fops F).
Local Notation zero := (f0 Op).
Local Notation one := (f1 Op).
Local Notation add := (fadd Op).
Local Notation sub := (fsub Op).
Local Notation mul := (fmul Op).
Local Notation div := (fdiv Op).
Local Notation leb := (fleb Op).

Definition mat := list (list F).
Definition mget (M : mat) (i j : nat) : F := nth j (nth i M []) zero.
Definition nrows (M : mat) : nat := length M.
Definition ncols (M : mat) : nat := match M with [] => 0 | r :: _ => length r end.
Definition mtab (n m : nat) (f : nat -> nat -> F) : mat := map (fun i => map (f i) (seq 0 m)) (seq 0 n).
Definition sumn (n : nat) (f : nat -> F) : F := fsum Op (map f (seq 0 n)).
Definition maxn (n : nat) (f : nat -> F) : F := fold_left (fmax Op) (map f (seq 0 n)) (f 0).
Definition minn (n : nat) (f : nat -> F) : F := fold_left (fmin Op) (map f (seq 0 n)) (f 0).
Definition fsq (x : F) : F := mul x x.
Definition col_sq (M : mat) (j : nat) : F := sumn (nrows M) (fun i => fsq (mget M i j)).
Definition rectb (M : mat) : bool := negb (Nat.eqb (nrows M) 0) && forallb (fun r => Nat.eqb (length r) (ncols M)) M.

(* contract of the norm tape, toleranced (rtol = 0 : exact) *)
Definition norms_okb (rtol : F) (M : mat) (ns : list F) : bool :=
  Nat.eqb (length ns) (ncols M) &&
  forallb (fun j => let n := nth j ns zero in let s := col_sq M j in
                    fltb Op zero n && leb (fabs Op (sub (fsq n) s)) (mul rtol s)) (seq 0 (ncols M)).
Definition has_zero_col (M : mat) : bool := existsb (fun j => feqb Op (col_sq M j) zero) (seq 0 (ncols M)).

(* mat / T.norm(mat, axis=0)  (broadcast over rows) *)
Definition normalise (M : mat) (ns : list F) : mat :=
  mtab (nrows M) (ncols M) (fun i j => div (mget M i j) (nth j ns zero)).
(* T.dot(T.transpose(A), B) *)
Definition dotT (A B : mat) : mat :=
  mtab (ncols A) (ncols B) (fun i j => sumn (nrows A) (fun k => mul (mget A k i) (mget B k j))).
Definition mabs (M : mat) : mat := mtab (nrows M) (ncols M) (fun i j => fabs Op (mget M i j)).
Definition hadamard (r : nat) (A B : mat) : mat := mtab r r (fun i j => mul (mget A i j) (mget B i j)).
Definition ones (r : nat) : mat := mtab r r (fun _ _ => one).

(* ---------- metrics/factors.py : congruence_coefficient ---------- *)
Record cmode := mkMode { mA : mat; mB : mat; nA : list F; nB : list F }.
Fixpoint zip_modes (As Bs : list mat) (nas nbs : list (list F)) : list cmode :=
  match As, Bs, nas, nbs with
  | A :: As', B :: Bs', na :: nas', nb :: nbs' => mkMode A B na nb :: zip_modes As' Bs' nas' nbs'
  | _, _, _, _ => []
  end.
Definition cong_one (absv : bool) (m : cmode) : mat :=
  let c := dotT (normalise (mA m) (nA m)) (normalise (mB m) (nB m)) in if absv then mabs c else c.
(* all_congruences = 1; for c in list: all_congruences *= c *)
Definition cong_all (absv : bool) (r : nat) (ms : list cmode) : mat :=
  fold_left (fun acc m => hadamard r acc (cong_one absv m)) ms (ones r).
(* all_congruences[row_ind, col_ind].mean()  with permutation[i] = column matched to row i *)
Definition score (r : nat) (C : mat) (p : list nat) : F :=
  div (sumn r (fun i => mget C i (nth i p 0))) (nat2F Op r).
Definition argmax {X : Type} (sc : X -> F) (l : list X) (d : X) : X :=
  fst (fold_left (fun (b : X * F) x => let sx := sc x in if leb sx (snd b) then b else (x, sx)) l (d, sc d)).
(* brute force over all r! matchings *)
Definition best_perm (r : nat) (C : mat) : list nat := argmax (score r C) (all_perms r) (seq 0 r).

(* validation + the matrix handed to linear_sum_assignment (and the common rank) *)
Definition cong_matrix (absv : bool) (As Bs : list mat) (nas nbs : list (list F)) : res (nat * mat) :=
  if negb (Nat.eqb (length As) (length Bs)) then Err else
  match As with
  | [] => Err
  | A0 :: _ =>
    let r := ncols A0 in
    if negb (forallb (fun M => Nat.eqb (ncols M) r) (As ++ Bs)) then Err else
    if negb (forallb (fun ab => Nat.eqb (nrows (fst ab)) (nrows (snd ab))) (combine As Bs)) then Err else
    if existsb has_zero_col (As ++ Bs) then Err else
    Ok (r, cong_all absv r (zip_modes As Bs nas nbs))
  end.
Definition congruence (absv : bool) (As Bs : list mat) (nas nbs : list (list F)) (assign : mat -> list nat)
  : res (F * list nat) :=
  match cong_matrix absv As Bs nas nbs with
  | Err => Err
  | Ok (r, C) => let p := assign C in Ok (score r C p, p)
  end.

(* ---------- cp_tensor.py : cp_permute_factors (one tensor to permute) ---------- *)
Definition permute_cols (p : list nat) (M : mat) : mat := map (fun row => map (fun k => nth k row zero) p) M.
Definition cp_permute (p : list nat) (w : list F) (fs : list mat) : list F * list mat :=
  (map (fun k => nth k w zero) p, map (permute_cols p) fs).
(* the congruence is taken between the (normalised, hence rescaled) factor lists; rescaling is a no-op for it *)
Definition cp_permute_factors (ref fs : list mat) (w : list F) (nas nbs : list (list F)) (assign : mat -> list nat)
  : res (list F * list mat * list nat) :=
  match congruence true ref fs nas nbs assign with
  | Ok (_, p) => Ok (cp_permute p w fs, p)
  | Err => Err
  end.

(* tensors_to_permute given as a list: every tensor is matched against the reference on its own; an exception
   for one of them aborts the whole call.  An entry = (weights, factors, norm tape of the factors). *)
Fixpoint cp_permute_factors_list (ref : list mat) (nas : list (list F)) (ts : list (list F * list mat * list (list F)))
  (assign : mat -> list nat) : res (list (list F * list mat * list nat)) :=
  match ts with
  | [] => Ok []
  | (w, fs, nbs) :: rest =>
    match cp_permute_factors ref fs w nas nbs assign, cp_permute_factors_list ref nas rest assign with
    | Ok x, Ok xs => Ok (x :: xs)
    | _, _ => Err
    end
  end.

(* ---------- metrics/similarity.py : correlation_index ---------- *)
Definition corr_index_one (tol : F) (X1 X2 : mat) (n1 n2 : list F) : F :=
  let c := mabs (dotT (normalise X1 n1) (normalise X2 n2)) in
  let r1 := nrows c in let r2 := ncols c in
  let s1 := sumn r1 (fun i => fabs Op (sub (maxn r2 (fun j => mget c i j)) one)) in   (* tl.max(c, 1) *)
  let s2 := sumn r2 (fun j => fabs Op (sub (maxn r1 (fun i => mget c i j)) one)) in   (* tl.max(c, 0) *)
  let s := mul (div one (nat2F Op (r2 + r1))) (add s1 s2) in
  if fltb Op s tol then zero else s.
Definition same_shape (A B : mat) : bool := Nat.eqb (nrows A) (nrows B) && Nat.eqb (ncols A) (ncols B).
Definition one_rank (fs : list mat) : bool :=
  match fs with [] => false | A :: r => forallb (fun M => Nat.eqb (ncols M) (ncols A)) r end.
Definition list_max (l : list F) : F := match l with [] => zero | x :: r => fold_left (fmax Op) r x end.
Definition list_min (l : list F) : F := match l with [] => zero | x :: r => fold_left (fmin Op) r x end.
Definition list_mean (l : list F) : F := div (fsum Op l) (nat2F Op (length l)).
(* norms: for Stacked one norm vector per side (of the stacked matrix), else one per mode *)
Definition correlation_index (meth : option cmethod) (tol : F) (f1s f2s : list mat) (n1s n2s : list (list F)) : res F :=
  if negb (one_rank f1s && one_rank f2s) then Err else
  match meth with
  | None => Err
  | Some me =>
    let X1 := match me with Stacked => [concat f1s] | _ => f1s end in
    let X2 := match me with Stacked => [concat f2s] | _ => f2s end in
    if negb (forallb (fun ab => same_shape (fst ab) (snd ab)) (combine X1 X2)) then Err else
    if existsb has_zero_col X1 || existsb has_zero_col X2 then Err else
    let idxs := map (fun m => corr_index_one tol (mA m) (mB m) (nA m) (nB m)) (zip_modes X1 X2 n1s n2s) in
    match me with
    | Stacked => Ok (hd zero idxs)
    | MaxScore => Ok (list_max idxs)
    | MinScore => Ok (list_min idxs)
    | AvgScore => Ok (list_mean idxs)
    end
  end.

(* ---------- metrics/leverage_scores.py ---------- *)
(* U, S: the thin SVD answer tape; eps = machine epsilon of the dtype; nr x nc = matrix.shape *)
Definition num_rank (sv : list F) (nr nc : nat) (eps : F) : nat :=
  let cutoff := mul (mul (list_max sv) (nat2F Op (Nat.max nr nc))) eps in
  fold_left (fun acc k => if fltb Op cutoff (nth k sv zero) then S k else acc) (seq 0 (length sv)) 0.
Definition leverage_k (U : mat) (nr k : nat) : list F :=
  map (fun i => div (sumn k (fun j => fsq (mget U i j))) (nat2F Op k)) (seq 0 nr).
Definition leverage_score_dist (U : mat) (sv : list F) (nr nc : nat) (eps : F) : res (list F) :=
  let k := num_rank sv nr nc eps in
  if Nat.eqb k 0 then Err else Ok (leverage_k U nr k).

(* lower-precision input: the scores are cast to float64 and renormalised (lev_score_dist /= tl.sum(lev_score_dist)) *)
Definition leverage_score_dist_any (renorm : bool) (U : mat) (sv : list F) (nr nc : nat) (eps : F) : res (list F) :=
  match leverage_score_dist U sv nr nc eps with
  | Ok l => Ok (if renorm then (let t := fsum Op l in map (fun x => div x t) l) else l)
  | Err => Err
  end.

(* NumPy's normalize_axis_index: an axis argument is an integer in [-ndim, ndim); negative values count from the end *)
Definition norm_axis (z : Z) (nd : nat) : res nat :=
  if (0 <=? z)%Z && (z <? Z.of_nat nd)%Z then Ok (Z.to_nat z)
  else if (- Z.of_nat nd <=? z)%Z && (z <? 0)%Z then Ok (Z.to_nat (z + Z.of_nat nd))
  else Err.
Definition norm_axis_opt (ax : option Z) (nd : nat) : res (option nat) :=
  match ax with
  | None => Ok None
  | Some z => match norm_axis z nd with Ok a => Ok (Some a) | Err => Err end
  end.

(* ---------- metrics/regression.py (tensors of Base/Tensor.v, optional axis) ---------- *)
Definition tget (t : tensor F) (idx : list nat) : F := get zero t idx.
Definition tzip (f : F -> F -> F) (a b : tensor F) : tensor F :=
  tabulate (shape a) (fun idx => f (tget a idx) (tget b idx)).
Definition tmap (f : F -> F) (a : tensor F) : tensor F := mk (shape a) (map f (data a)).
Definition tsum (ax : option nat) (t : tensor F) : tensor F :=
  match ax with
  | None => mk [] [fsum Op (data t)]
  | Some a => tabulate (remove_nth a (shape t))
                       (fun idx => sumn (nth a (shape t) 0) (fun k => tget t (insert_at a k idx)))
  end.
Definition red_len (ax : option nat) (t : tensor F) : nat :=
  match ax with None => prod (shape t) | Some a => nth a (shape t) 0 end.
Definition tmean (ax : option nat) (t : tensor F) : tensor F :=
  let n := nat2F Op (red_len ax t) in tmap (fun x => div x n) (tsum ax t).
(* y - reshape(mean, keepdims) : broadcasting a reduced tensor back along the reduced axis *)
Definition tcenter (ax : option nat) (t : tensor F) : tensor F :=
  let m := tmean ax t in
  tabulate (shape t) (fun idx => sub (tget t idx) (tget m (match ax with None => [] | Some a => remove_nth a idx end))).
Definition axis_ok (ax : option nat) (t : tensor F) : bool :=
  match ax with None => true | Some a => a <? ndim t end.
Definition shapes_eqb (a b : tensor F) : bool :=
  Nat.eqb (length (shape a)) (length (shape b)) && forallb (fun ab => Nat.eqb (fst ab) (snd ab)) (combine (shape a) (shape b)).

Definition MSE (ax : option nat) (yt yp : tensor F) : tensor F := tmean ax (tmap fsq (tzip sub yt yp)).
Definition covariance (ax : option nat) (yt yp : tensor F) : tensor F :=
  tmean ax (tzip mul (tcenter ax yt) (tcenter ax yp)).
Definition variance (ax : option nat) (y : tensor F) : tensor F := covariance ax y y.
(* R2 = 1 - ||Xp - Xo||^2 / ||Xo||^2 *)
Definition R2_score (xo xp : tensor F) : F :=
  sub one (div (fsum Op (map fsq (data (tzip sub xp xo)))) (fsum Op (map fsq (data xo)))).
(* reflective correlation coefficient: numerator and the product under the square root *)
Definition refl_parts (ax : option nat) (yt yp : tensor F) : tensor F * tensor F :=
  (tsum ax (tzip mul yt yp), tzip mul (tsum ax (tmap fsq yt)) (tsum ax (tmap fsq yp))).
(* correlation = cov / sqrt (var * var) : numerator and the product under the square root *)
Definition corr_parts (ax : option nat) (yt yp : tensor F) : tensor F * tensor F :=
  (covariance ax yt yp, tzip mul (variance ax yt) (variance ax yp)).
(* ---------- sqrt-based metrics.  sq = the square root: Rdefinitions.sqrt in the theorems (Rops); in the executed instance
   (Qops) an approximation good to 2^-100 (Corr/C20.v: qsqrt).  numpy's sqrt itself is never re-implemented bit for bit: the
   comparison with the implementation is toleranced ---------- *)
Definition RMSE (sq : F -> F) (ax : option nat) (yt yp : tensor F) : tensor F := tmap sq (MSE ax yt yp).
Definition standard_deviation (sq : F -> F) (ax : option nat) (y : tensor F) : tensor F := tmap sq (variance ax y).
(* num / sqrt(den), entry by entry *)
Definition ratio_parts (sq : F -> F) (parts : tensor F * tensor F) : tensor F := tzip div (fst parts) (tmap sq (snd parts)).
Definition correlation (sq : F -> F) (ax : option nat) (yt yp : tensor F) : tensor F := ratio_parts sq (corr_parts ax yt yp).
Definition reflective_correlation (sq : F -> F) (ax : option nat) (yt yp : tensor F) : tensor F := ratio_parts sq (refl_parts ax yt yp).
(* shape of a reduction over ax *)
Definition rshape (ax : option nat) (s : list nat) : list nat := match ax with None => [] | Some a => remove_nth a s end.

(* ---------- a certificate for the optimality of a matching (linear-programming duality) ----------
   vs: column potentials (any numbers: DATA supplied by the harness).  Row potentials are then chosen as
   u_i = max_j (C_ij - v_j), so that C_ij <= u_i + v_j holds by construction, and  sum u + sum v  bounds the total weight of
   EVERY perfect matching.  dual_gap = that bound minus the weight of the matching p: it is 0 exactly when p is optimal and
   vs is an optimal dual solution. *)
Definition dual_u (r : nat) (C : mat) (vs : list F) (i : nat) : F := maxn r (fun j => sub (mget C i j) (nth j vs zero)).
Definition dual_bound (r : nat) (C : mat) (vs : list F) : F := add (sumn r (dual_u r C vs)) (sumn r (fun j => nth j vs zero)).
Definition match_weight (r : nat) (C : mat) (p : list nat) : F := sumn r (fun i => mget C i (nth i p 0)).
Definition dual_gap (r : nat) (C : mat) (vs : list F) (p : list nat) : F := sub (dual_bound r C vs) (match_weight r C p).

(* the per-pair correlation index before the threshold `if score < tol: score = 0` *)
Definition corr_index_raw (X1 X2 : mat) (n1 n2 : list F) : F :=
  let c := mabs (dotT (normalise X1 n1) (normalise X2 n2)) in
  let r1 := nrows c in let r2 := ncols c in
  let s1 := sumn r1 (fun i => fabs Op (sub (maxn r2 (fun j => mget c i j)) one)) in
  let s2 := sumn r2 (fun j => fabs Op (sub (maxn r1 (fun i => mget c i j)) one)) in
  mul (div one (nat2F Op (r2 + r1))) (add s1 s2).
(* ---------- axis given as a TUPLE of integers (accepted by T.mean / T.sum, hence by MSE, RMSE and the reflective
   correlation; covariance / variance / standard_deviation / correlation index a Python list with it and raise) ---------- *)
Fixpoint insert_desc (a : nat) (l : list nat) : list nat :=
  match l with [] => [a] | b :: r => if b <=? a then a :: l else b :: insert_desc a r end.
Definition sort_desc (l : list nat) : list nat := fold_right insert_desc [] l.
Fixpoint nodupb (l : list nat) : bool := match l with [] => true | a :: r => negb (existsb (Nat.eqb a) r) && nodupb r end.
(* every entry normalised NumPy-style; out of range or repeated (after normalisation) axes are rejected *)
Fixpoint norm_axes_list (zs : list Z) (nd : nat) : res (list nat) :=
  match zs with
  | [] => Ok []
  | z :: r => match norm_axis z nd, norm_axes_list r nd with Ok a, Ok l => Ok (a :: l) | _, _ => Err end
  end.
Definition norm_axes (zs : list Z) (nd : nat) : res (list nat) :=
  match norm_axes_list zs nd with Ok l => if nodupb l then Ok l else Err | Err => Err end.
(* the reduction runs one axis at a time from the highest axis down (so the lower axis numbers stay valid) *)
Definition tsum_axes (axs : list nat) (t : tensor F) : tensor F := fold_left (fun acc a => tsum (Some a) acc) (sort_desc axs) t.
Definition red_len_axes (axs : list nat) (t : tensor F) : nat :=
  match axs with [] => 1 | a :: r => fold_left (fun acc b => acc * nth b (shape t) 0) r (nth a (shape t) 0) end.
Definition tmean_axes (axs : list nat) (t : tensor F) : tensor F :=
  let n := nat2F Op (red_len_axes axs t) in tmap (fun x => div x n) (tsum_axes axs t).
Definition MSE_axes (axs : list nat) (yt yp : tensor F) : tensor F := tmean_axes axs (tmap fsq (tzip sub yt yp)).
Definition RMSE_axes (sq : F -> F) (axs : list nat) (yt yp : tensor F) : tensor F := tmap sq (MSE_axes axs yt yp).
Definition refl_parts_axes (axs : list nat) (yt yp : tensor F) : tensor F * tensor F :=
  (tsum_axes axs (tzip mul yt yp), tzip mul (tsum_axes axs (tmap fsq yt)) (tsum_axes axs (tmap fsq yp))).
Definition reflective_correlation_axes (sq : F -> F) (axs : list nat) (yt yp : tensor F) : tensor F :=
  ratio_parts sq (refl_parts_axes axs yt yp).
End M.

Arguments mat F : clear implicits. Arguments cmode F : clear implicits.
Arguments mkMode {F}. Arguments mA {F}. Arguments mB {F}. Arguments nA {F}. Arguments nB {F}.
