(* Model of the `axis` argument of tensorly/metrics/regression.py in ALL its forms -- definitions only.
   axis=None | an integer (negative values count from the end) | a tuple of integers.  T.mean / T.sum accept a tuple, so MSE, RMSE
   and the reflective correlation do; covariance (hence variance, standard_deviation, correlation) executes
   `shape = list(T.shape(y)); shape[axis] = 1`, which raises TypeError for every tuple.  R2_score has no axis parameter. *)
From Coq Require Import List Arith Bool ZArith.
From TLV Require Import Base.Shape Base.PyList Base.Tensor Base.Ops Model.Metrics.
Import ListNotations.

Inductive axis_arg := AxNone | AxInt (z : Z) | AxTuple (zs : list Z).
Inductive axes := RedAll | RedOne (a : nat) | RedMany (l : list nat).
Inductive metric := MMSE | MRMSE | MR2 | MCov | MVar | MCorr | MRefl | MStd.   (* numbering = REG in harness/props/C20.py *)

Definition metric_of (which : nat) : metric :=
  match which with 0 => MMSE | 1 => MRMSE | 2 => MR2 | 3 => MCov | 4 => MVar | 5 => MCorr | 6 => MRefl | _ => MStd end.
Definition takes_tuple (m : metric) : bool := match m with MMSE | MRMSE | MRefl => true | _ => false end.

(* which reduction a request stands for, or rejection *)
Definition resolve_axis (m : metric) (a : axis_arg) (nd : nat) : res axes :=
  match a with
  | AxNone => Ok RedAll
  | AxInt z => match norm_axis z nd with Ok k => Ok (RedOne k) | Err => Err end
  | AxTuple zs => if takes_tuple m then match norm_axes zs nd with Ok l => Ok (RedMany l) | Err => Err end else Err
  end.

Section V.
Context {F : Type} (Op : fops F) (sq : F -> F).

Definition eval_opt (m : metric) (ax : option nat) (yt yp : tensor F) : tensor F :=
  match m with
  | MMSE => MSE Op ax yt yp
  | MRMSE => RMSE Op sq ax yt yp
  | MR2 => mk [] [R2_score Op yt yp]
  | MCov => covariance Op ax yt yp
  | MVar => variance Op ax yt
  | MCorr => correlation Op sq ax yt yp
  | MRefl => reflective_correlation Op sq ax yt yp
  | MStd => standard_deviation Op sq ax yt
  end.
Definition eval_many (m : metric) (l : list nat) (yt yp : tensor F) : tensor F :=
  match m with
  | MMSE => MSE_axes Op l yt yp
  | MRMSE => RMSE_axes Op sq l yt yp
  | _ => reflective_correlation_axes Op sq l yt yp
  end.
(* the metric `m` called with the axis argument `a` as passed *)
Definition metric_value (m : metric) (a : axis_arg) (yt yp : tensor F) : res (tensor F) :=
  match resolve_axis m a (ndim yt) with
  | Err => Err
  | Ok RedAll => Ok (eval_opt m None yt yp)
  | Ok (RedOne k) => Ok (eval_opt m (Some k) yt yp)
  | Ok (RedMany l) => Ok (eval_many m l yt yp)
  end.
End V.
