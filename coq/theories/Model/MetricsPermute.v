(* Model of tensorly/cp_tensor.py:cp_permute_factors INCLUDING its cp_copy / cp_normalize glue -- definitions only.
     if not isinstance(tensors_to_permute, list):  permuted = [t.cp_copy()];  tensors_to_permute = [t]           (NOT normalised)
     else:  for every t:  permuted.append(t.cp_copy());  tensors_to_permute[i] = cp_normalize(t)                 (normalised)
     ref = cp_normalize(ref)
     for every t:  _, col = congruence_coefficient(ref.factors, tensors_to_permute[i].factors);  the COPY is permuted by col
   cp_normalize is C04's model (Model/Transforms.v, imported read-only): the weights are absorbed into factor 0, every factor
   is divided by its column norms (a zero norm is replaced by 1), so a ZERO WEIGHT turns into a zero column of the compared
   factor 0, which congruence_coefficient rejects.  Two answer tapes per tensor: pnorm = the column norms taken by cp_normalize
   (of factor 0 * weights and of the other factors), pcong = the column norms congruence_coefficient takes of the factors it
   is handed (about 1 for normalised ones). *)
From Coq Require Import List Arith Bool.
From TLV Require Import Base.Shape Base.PyList Base.Tensor Base.Ops Model.Metrics Model.MetricsSrc.
From TLV Require Model.Transforms.
Import ListNotations.

Section P.
Context {F : Type} (Op : fops F).

Record ptensor := mkPT { pw : list F; pfs : list (mat F); pnorm : list (list F); pcong : list (list F) }.

(* the factors handed to congruence_coefficient *)
Definition compared (nrm : bool) (t : ptensor) : list (mat F) :=
  if nrm then snd (Transforms.cp_normalize Op (pnorm t) (pw t) (pfs t)) else pfs t.

(* one tensor: the permutation comes from the compared factors, the COPY of the original tensor is permuted *)
Definition cpf_one (ref : ptensor) (nrm : bool) (t : ptensor) (assign : mat F -> list nat)
  : res (list F * list (mat F) * list nat) :=
  match congruence Op true (compared true ref) (compared nrm t) (pcong ref) (pcong t) assign with
  | Ok (_, p) => Ok (cp_permute Op p (pw t) (pfs t), p)
  | Err => Err
  end.

Fixpoint cpf_list (ref : ptensor) (nrm : bool) (ts : list ptensor) (assign : mat F -> list nat)
  : res (list (list F * list (mat F) * list nat)) :=
  match ts with
  | [] => Ok []
  | t :: rest =>
    match cpf_one ref nrm t assign, cpf_list ref nrm rest assign with
    | Ok x, Ok xs => Ok (x :: xs)
    | _, _ => Err
    end
  end.

Inductive parg := PSingle (t : ptensor) | PList (ts : list ptensor).

Definition cp_permute_factors_full (ref : ptensor) (arg : parg) (assign : mat F -> list nat)
  : res (list (list F * list (mat F) * list nat)) :=
  match arg with
  | PSingle t => cpf_list ref false [t] assign
  | PList ts => cpf_list ref true ts assign
  end.

(* ---------- the same, driven by the decision record extracted from the CURRENT source (Model/MetricsSrc.v: cpp_src): which
   cp_normalize calls are present, whether the factors / the weights of the copy are permuted ---------- *)
Definition cpf_one_src (s : cpp_src) (ref : ptensor) (nrm : bool) (t : ptensor) (assign : mat F -> list nat)
  : res (list F * list (mat F) * list nat) :=
  match congruence Op true (compared (pp_norm_ref s) ref) (compared nrm t) (pcong ref) (pcong t) assign with
  | Ok (_, p) => Ok ((if pp_weights s then map (fun k => nth k (pw t) (f0 Op)) p else pw t,
                      if pp_factors s then map (permute_cols Op p) (pfs t) else pfs t), p)
  | Err => Err
  end.
Fixpoint cpf_list_src (s : cpp_src) (ref : ptensor) (nrm : bool) (ts : list ptensor) (assign : mat F -> list nat)
  : res (list (list F * list (mat F) * list nat)) :=
  match ts with
  | [] => Ok []
  | t :: rest =>
    match cpf_one_src s ref nrm t assign, cpf_list_src s ref nrm rest assign with
    | Ok x, Ok xs => Ok (x :: xs)
    | _, _ => Err
    end
  end.
Definition cp_permute_factors_full_src (s : cpp_src) (ref : ptensor) (arg : parg) (assign : mat F -> list nat)
  : res (list (list F * list (mat F) * list nat)) :=
  match arg with
  | PSingle t => cpf_list_src s ref false [t] assign
  | PList ts => cpf_list_src s ref (pp_norm_list s) ts assign
  end.
End P.

Arguments ptensor F : clear implicits. Arguments parg F : clear implicits.
Arguments mkPT {F}. Arguments pw {F}. Arguments pfs {F}. Arguments pnorm {F}. Arguments pcong {F}.
Arguments PSingle {F}. Arguments PList {F}.
